(* C04 — Accept.parse_offer is EXACT: it accepts precisely the texts of the regenerated
   media_type_compiled_re (= RFC 7231 media-type, parameters not named q) whose type and subtype are
   not "*", and returns the lower-cased type/subtype, the lower-cased parameter names and the unquoted
   parameter values, in order.  Rendered syntax (rparam, param_ok, qbody, ...), the inversion of the
   grammar and the language equality come from C03; the quoting algebra from C19. *)
From Coq Require Import ZArith NArith List Bool Arith Lia ZifyBool ZifyN.
Require Import Webob.Lib.Val Webob.Lib.PyStr Webob.Lib.Rx Webob.Gen.C03_regexes Webob.Spec.C03_abnf
               Webob.Model.C03_scan Webob.Proofs.C03_lang Webob.Proofs.C03_scan Webob.Proofs.C03_accept_scan
               Webob.Proofs.C03_complete Webob.Proofs.C03_accept_complete Webob.Proofs.C19_quote.
Require Import Webob.Lib.C04_Sort Webob.Model.C04_negotiation Webob.Proofs.C04_accept.
Import ListNotations.

Module M := Webob.Model.C04_negotiation.
Module S3 := Webob.Model.C03_scan.

(* ------------------------------------------------------------------ the two sets of character classes agree *)
Lemma tchar_eq c : S3.is_tchar c = M.is_tchar c.
Proof. unfold S3.is_tchar, M.is_tchar. cbn [in_ranges]. lia. Qed.
Lemma ows_eq c : S3.is_ows c = M.is_ows c.
Proof. unfold S3.is_ows, M.is_ows. lia. Qed.
Lemma qdtext_eq c : S3.is_qdtext c = M.is_qdtext c.
Proof. unfold S3.is_qdtext, M.is_qdtext. cbn [in_ranges]. lia. Qed.
Lemma qpchar_eq c : S3.is_qpair_char c = M.is_qpchar c.
Proof. unfold S3.is_qpair_char, M.is_qpchar. cbn [in_ranges]. lia. Qed.
Lemma qname_eq n : not_q n -> M.is_q_name n = false.
Proof.
  destruct n as [|c [|d n]]; cbn; auto. unfold is_qQ. intros H. lia.
Qed.
Lemma qname_eq' n : M.is_q_name n = false -> not_q n.
Proof.
  destruct n as [|c [|d n]]; cbn; auto. unfold is_qQ. intros H. lia.
Qed.

(* ------------------------------------------------------------------ span *)
Lemma mspan_app p a rest :
  Forall (fun c => p c = true) a -> (match rest with [] => True | c :: _ => p c = false end) ->
  M.span p (a ++ rest) = (a, rest).
Proof.
  intros Ha Hr. induction Ha as [|c a Hc Ha IH]; cbn [app M.span].
  - destruct rest as [|c r]; [reflexivity|]. cbn [M.span]. now rewrite Hr.
  - rewrite Hc, IH. reflexivity.
Qed.

Lemma mspan_split p s :
  s = fst (M.span p s) ++ snd (M.span p s) /\ Forall (fun c => p c = true) (fst (M.span p s)) /\
  match snd (M.span p s) with [] => True | c :: _ => p c = false end.
Proof.
  induction s as [|c s IH]; cbn [M.span]; [repeat split; constructor|].
  destruct (p c) eqn:E; cbn [fst snd].
  - destruct IH as (H1 & H2 & H3). repeat split; [cbn; now rewrite <- H1|constructor; assumption|exact H3].
  - repeat split; [constructor|exact E].
Qed.

(* ------------------------------------------------------------------ quoted-string bodies *)
Lemma qdtext_not_special c : M.is_qdtext c = true -> (c =? 34)%N = false /\ (c =? 92)%N = false.
Proof. unfold M.is_qdtext. lia. Qed.

Lemma qs_body_app b : qbody b -> forall rest,
  exists body, b = body ++ [34%N] /\ M.qs_body (b ++ rest) = Some (body, rest).
Proof.
  induction 1 as [|c b Hc Hb IH|c b Hc Hb IH]; intros rest.
  - exists []. split; reflexivity.
  - destruct (IH rest) as (body & -> & E). exists (92%N :: c :: body). split; [reflexivity|].
    cbn [app M.qs_body]. change ((92 =? 34)%N) with false. change ((92 =? 92)%N) with true. cbv iota.
    rewrite <- qpchar_eq, Hc. cbn [app] in E. rewrite E. reflexivity.
  - destruct (IH rest) as (body & -> & E). exists (c :: body). split; [reflexivity|].
    rewrite qdtext_eq in Hc. destruct (qdtext_not_special c Hc) as [H34 H92].
    cbn [app M.qs_body]. rewrite H34, H92, Hc. cbn [app] in E. rewrite E. reflexivity.
Qed.

Lemma qs_body_out : forall n s body rest, (length s <= n)%nat -> M.qs_body s = Some (body, rest) ->
  s = body ++ 34%N :: rest /\ qbody (body ++ [34%N]).
Proof.
  induction n as [|n IH]; intros s body rest Hn H.
  - destruct s; [discriminate|cbn in Hn; lia].
  - destruct s as [|c s]; [discriminate|]. cbn [M.qs_body] in H.
    destruct (c =? 34)%N eqn:E34.
    + injection H as <- <-. apply N.eqb_eq in E34. subst. split; [reflexivity|apply qb_end].
    + destruct (c =? 92)%N eqn:E92.
      * apply N.eqb_eq in E92. subst c. destruct s as [|d s]; [discriminate|].
        destruct (M.is_qpchar d) eqn:Ed; [|discriminate].
        destruct (M.qs_body s) as [[a b]|] eqn:Eb; [|discriminate]. injection H as <- <-.
        apply IH in Eb as [-> Hq]; [|cbn [length] in Hn; lia].
        split; [reflexivity|]. cbn [app]. apply qb_pair; [now rewrite qpchar_eq|exact Hq].
      * destruct (M.is_qdtext c) eqn:Ec; [|discriminate].
        destruct (M.qs_body s) as [[a b]|] eqn:Eb; [|discriminate]. injection H as <- <-.
        apply IH in Eb as [-> Hq]; [|cbn [length] in Hn; lia].
        split; [reflexivity|]. cbn [app]. apply qb_text; [now rewrite qdtext_eq|exact Hq].
Qed.

(* ------------------------------------------------------------------ unquoting: the two transcriptions agree *)
Lemma drop_bs_eq s : M.drop_lone_bs s = drop_single_bs s.
Proof.
  induction s as [|c s IH]; [reflexivity|]. cbn [M.drop_lone_bs]. rewrite IH.
  destruct (N.eq_dec c 92) as [->|Hc].
  - change ((92 =? 92)%N) with true. cbn [andb].
    destruct s as [|d s]; [reflexivity|].
    destruct (N.eq_dec d 92) as [->|Hd].
    + change ((92 =? 92)%N) with true. cbn [negb]. now rewrite D_bs_bs.
    + replace ((d =? 92)%N) with false by (symmetry; now apply N.eqb_neq). cbn [negb].
      now rewrite D_bs_other.
  - replace ((c =? 92)%N) with false by (symmetry; now apply N.eqb_neq). cbn [andb].
    now rewrite D_other.
Qed.

Lemma replace_bs_eq : forall n s, (length s <= n)%nat -> M.replace_bsbs s = collapse_bs s.
Proof.
  induction n as [|n IH]; intros s Hn.
  - destruct s; [reflexivity|cbn in Hn; lia].
  - destruct s as [|c s]; [reflexivity|]. cbn [M.replace_bsbs].
    destruct s as [|d s].
    + destruct (N.eq_dec c 92) as [->|Hc]; [now rewrite C_bs_nil|now rewrite C_other].
    + destruct (N.eq_dec c 92) as [->|Hc].
      * change ((92 =? 92)%N) with true. cbn [andb].
        destruct (N.eq_dec d 92) as [->|Hd].
        -- change ((92 =? 92)%N) with true. rewrite C_bs_bs. f_equal. apply IH. cbn [length] in Hn. lia.
        -- replace ((d =? 92)%N) with false by (symmetry; now apply N.eqb_neq).
           rewrite C_bs_other by exact Hd. f_equal. apply IH. cbn [length] in *. lia.
      * replace ((c =? 92)%N) with false by (symmetry; now apply N.eqb_neq). cbn [andb].
        rewrite C_other by exact Hc. f_equal. apply IH. cbn [length] in *. lia.
Qed.

Lemma process_eq v : M.process_quoted_string_token v = process_quoted v.
Proof.
  unfold M.process_quoted_string_token, process_quoted, strip_ends.
  rewrite drop_bs_eq. apply (replace_bs_eq (length (drop_single_bs (removelast (tl v))))). lia.
Qed.

Lemma head34 (l : str) : match l with 34%N :: _ => true | _ => false end = starts_with M.dq l.
Proof.
  destruct l as [|y l]; [reflexivity|]. unfold M.dq. cbn [starts_with].
  destruct (N.eq_dec y 34) as [->|Hy]; [reflexivity|].
  replace ((34 =? y)%N) with false by (symmetry; apply N.eqb_neq; congruence).
  destruct y as [|p]; [reflexivity|]. do 6 (destruct p as [p|p|]; try reflexivity). contradiction.
Qed.

Lemma is_quoted_eq v : is_quoted v = starts_with M.dq v && ends_with M.dq v.
Proof.
  unfold ends_with. change (rev M.dq) with M.dq. rewrite <- !head34. unfold is_quoted.
  destruct v as [|c v]; [reflexivity|].
  destruct (N.eq_dec c 34) as [->|Hc]; [destruct (rev (34%N :: v)) as [|y l]; [reflexivity|]; now destruct (match y with 34%N => true | _ => false end)|].
  destruct c as [|p]; [reflexivity|]. do 6 (destruct p as [p|p|]; try reflexivity).
Qed.

(* _parse_media_type_params' unquoting step is C03's unquote_value *)
Theorem unquote_param_eq nv : M.unquote_param nv = (fst nv, unquote_value (snd nv)).
Proof.
  unfold M.unquote_param, unquote_value. rewrite is_quoted_eq.
  destruct (starts_with M.dq (snd nv) && ends_with M.dq (snd nv)); [now rewrite process_eq|now destruct nv].
Qed.

(* ------------------------------------------------------------------ parameters: rendered text -> scanner *)
Definition raw_of (ps : list rparam) : M.params := map (fun p => (p_name p, p_val p)) ps.

Lemma all_ows_m o : all_ows o -> Forall (fun c => M.is_ows c = true) o.
Proof. intros H. eapply Forall_impl; [|exact H]. intros c Hc. now rewrite <- ows_eq. Qed.
Lemma token_m t : token_ok t -> t <> [] /\ Forall (fun c => M.is_tchar c = true) t.
Proof. intros [Hn H]. split; [exact Hn|]. eapply Forall_impl; [|exact H]. intros c Hc. now rewrite <- tchar_eq. Qed.

Definition nontok_head (s : str) : Prop := match s with [] => True | c :: _ => M.is_tchar c = false end.

Lemma params_text_head ps : Forall param_ok ps -> nontok_head (params_text ps).
Proof.
  intros H. destruct ps as [|p ps]; [exact I|]. inversion H as [|? ? (H1 & _) _]; subst.
  unfold params_text. cbn [flat_map]. unfold render_param.
  destruct (p_ows1 p) as [|c o]; cbn; [reflexivity|].
  inversion H1 as [|? ? Hc _]; subst. rewrite ows_eq in Hc. unfold M.is_ows in Hc. unfold M.is_tchar. lia.
Qed.

Lemma params_loop_rendered : forall ps fuel, Forall param_ok ps -> (length ps < fuel)%nat ->
  M.params_loop fuel (params_text ps) = Some (raw_of ps).
Proof.
  induction ps as [|p ps IH]; intros fuel Hps Hf.
  - destruct fuel; reflexivity.
  - destruct fuel as [|fuel]; [lia|].
    inversion Hps as [|? ? (H1 & H2 & Hn & Hq & Hv) Hps']; subst.
    pose proof (params_text_head ps Hps') as Hhead.
    apply all_ows_m in H1, H2. destruct (token_m _ Hn) as [Hnn Hnt].
    unfold params_text. cbn [flat_map]. fold (params_text ps). unfold render_param.
    rewrite <- !app_assoc. cbn [app]. rewrite <- !app_assoc. cbn [app].
    set (T := p_name p ++ 61%N :: p_val p ++ params_text ps).
    assert (Hne : exists c s, p_ows1 p ++ 59%N :: p_ows2 p ++ T = c :: s)
      by (destruct (p_ows1 p); cbn; eauto).
    destruct Hne as (c0 & s0 & Es). rewrite Es. cbn [M.params_loop]. rewrite <- Es. clear Es c0 s0.
    rewrite (mspan_app M.is_ows (p_ows1 p) (59%N :: p_ows2 p ++ T) H1) by reflexivity. cbn [snd].
    change ((59 =? 59)%N) with true. cbv iota.
    assert (HT : match T with [] => True | c :: _ => M.is_ows c = false end).
    { unfold T. destruct (p_name p) as [|c n]; [contradiction|]. inversion Hnt; subst. cbn.
      match goal with H : M.is_tchar c = true |- _ => revert H end. unfold M.is_tchar, M.is_ows. lia. }
    rewrite (mspan_app M.is_ows (p_ows2 p) T H2 HT). cbn [snd]. unfold T.
    rewrite (mspan_app M.is_tchar (p_name p) (61%N :: p_val p ++ params_text ps) Hnt) by reflexivity.
    cbn [fst snd]. destruct (p_name p) as [|c n] eqn:En; [contradiction|].
    change ((61 =? 61)%N) with true. cbn [negb orb].
    pose proof Hq as Hq'. rewrite ?En in Hq'. rewrite (qname_eq _ Hq').
    destruct Hv as [Hvt|(b & Ev & Hb)].
    + destruct (token_m _ Hvt) as [Hvn Hvf]. destruct (p_val p) as [|d v] eqn:Evv; [contradiction|].
      assert (Hd : (d =? 34)%N = false).
      { inversion Hvf; subst. match goal with H : M.is_tchar d = true |- _ => revert H end. unfold M.is_tchar. lia. }
      cbn [app]. rewrite Hd. change (d :: v ++ params_text ps) with ((d :: v) ++ params_text ps).
      rewrite (mspan_app M.is_tchar (d :: v) (params_text ps) Hvf Hhead). cbn [fst snd].
      rewrite IH by (try assumption; cbn [length] in Hf; lia). unfold raw_of. cbn [map]. rewrite ?En, ?Evv. reflexivity.
    + rewrite Ev. cbn [app]. change ((34 =? 34)%N) with true. cbv iota.
      destruct (qs_body_app b Hb (params_text ps)) as (body & Eb & Eq). rewrite Eq.
      rewrite IH by (try assumption; cbn [length] in Hf; lia). unfold raw_of. cbn [map]. rewrite ?En, ?Ev, ?Eb. reflexivity.
Qed.

(* ------------------------------------------------------------------ parameters: scanner -> rendered text *)
Lemma forall_tchar_back t : t <> [] -> Forall (fun c => M.is_tchar c = true) t -> token_ok t.
Proof. intros Hn H. split; [exact Hn|]. eapply Forall_impl; [|exact H]. intros c Hc. now rewrite tchar_eq. Qed.
Lemma forall_ows_back o : Forall (fun c => M.is_ows c = true) o -> all_ows o.
Proof. intros H. eapply Forall_impl; [|exact H]. intros c Hc. now rewrite ows_eq. Qed.

Lemma params_loop_out : forall fuel s raw, M.params_loop fuel s = Some raw ->
  exists ps, Forall param_ok ps /\ s = params_text ps /\ raw = raw_of ps.
Proof.
  induction fuel as [|fuel IH]; intros s raw H.
  - destruct s; [|discriminate]. injection H as <-. exists []. repeat split. constructor.
  - destruct s as [|c0 s0]; [cbn in H; injection H as <-; exists []; repeat split; constructor|].
    cbn [M.params_loop] in H. set (s := c0 :: s0) in *. clearbody s. clear c0 s0.
    destruct (mspan_split M.is_ows s) as (S1 & O1 & _).
    destruct (snd (M.span M.is_ows s)) as [|c s2] eqn:E1; [discriminate|].
    destruct (c =? 59)%N eqn:Ec; [|discriminate]. apply N.eqb_eq in Ec. subst c.
    destruct (mspan_split M.is_ows s2) as (S2 & O2 & _).
    set (s3 := snd (M.span M.is_ows s2)) in *.
    destruct (mspan_split M.is_tchar s3) as (S3' & T3 & _).
    destruct (fst (M.span M.is_tchar s3)) as [|n0 name'] eqn:En; [discriminate|].
    destruct (snd (M.span M.is_tchar s3)) as [|e s5] eqn:E5; [discriminate|].
    destruct (e =? 61)%N eqn:Ee; cbn [negb orb] in H; [|discriminate]. apply N.eqb_eq in Ee. subst e.
    destruct (M.is_q_name (n0 :: name')) eqn:Eq; [discriminate|].
    destruct s5 as [|d s6]; [discriminate|].
    destruct (d =? 34)%N eqn:Ed.
    + apply N.eqb_eq in Ed. subst d.
      destruct (M.qs_body s6) as [[body s7]|] eqn:Eb; [|discriminate].
      destruct (M.params_loop fuel s7) as [ps'|] eqn:Ep; [|discriminate]. injection H as <-.
      apply IH in Ep as (ps & Hps & -> & ->).
      apply (qs_body_out (length s6)) in Eb as [-> Hq]; [|lia].
      exists (mkP (fst (M.span M.is_ows s)) (fst (M.span M.is_ows s2)) (n0 :: name') (34%N :: body ++ [34%N]) :: ps).
      split; [constructor; [|exact Hps]|split].
      * repeat split; cbn [p_ows1 p_ows2 p_name p_val];
          [now apply forall_ows_back|now apply forall_ows_back|discriminate| |now apply qname_eq'|].
        -- eapply Forall_impl; [|exact T3]. intros c Hc. now rewrite tchar_eq.
        -- right. exists (body ++ [34%N]). split; [reflexivity|exact Hq].
      * unfold params_text. cbn [flat_map]. unfold render_param. cbn [p_ows1 p_ows2 p_name p_val].
        rewrite S1 at 1. rewrite S2 at 1. fold s3. rewrite S3' at 1.
        repeat (first [rewrite <- app_assoc | progress cbn [app]]). reflexivity.
      * reflexivity.
    + destruct (mspan_split M.is_tchar (d :: s6)) as (S6 & T6 & _).
      destruct (fst (M.span M.is_tchar (d :: s6))) as [|v0 v'] eqn:Ev; [discriminate|].
      destruct (M.params_loop fuel (snd (M.span M.is_tchar (d :: s6)))) as [ps'|] eqn:Ep; [|discriminate].
      injection H as <-. apply IH in Ep as (ps & Hps & Erest & ->).
      exists (mkP (fst (M.span M.is_ows s)) (fst (M.span M.is_ows s2)) (n0 :: name') (v0 :: v') :: ps).
      split; [constructor; [|exact Hps]|split].
      * repeat split; cbn [p_ows1 p_ows2 p_name p_val];
          [now apply forall_ows_back|now apply forall_ows_back|discriminate| |now apply qname_eq'|].
        -- eapply Forall_impl; [|exact T3]. intros c Hc. now rewrite tchar_eq.
        -- left. apply forall_tchar_back; [discriminate|exact T6].
      * unfold params_text. cbn [flat_map]. fold (params_text ps). rewrite <- Erest.
        unfold render_param. cbn [p_ows1 p_ows2 p_name p_val].
        rewrite S1 at 1. rewrite S2 at 1. fold s3. rewrite S3' at 1. rewrite S6 at 1.
        repeat (first [rewrite <- app_assoc | progress cbn [app]]). reflexivity.
      * reflexivity.
Qed.

(* ------------------------------------------------------------------ whole offers *)
Definition offer_text (ty sub : str) (ps : list rparam) : str := ty ++ 47%N :: sub ++ params_text ps.
Definition offer_norm (ty sub : str) (ps : list rparam) : M.poffer :=
  (lower ty, lower sub, map (fun p => (lower (p_name p), unquote_value (p_val p))) ps).
Definition offer_ok (ty sub : str) (ps : list rparam) : Prop :=
  token_ok ty /\ token_ok sub /\ Forall param_ok ps.

Lemma params_text_len ps : Forall param_ok ps -> (length ps <= length (params_text ps))%nat.
Proof. apply params_text_length. Qed.

Lemma parse_offer_rendered ty sub ps : offer_ok ty sub ps ->
  M.parse_offer_str (offer_text ty sub ps) =
  if str_eqb ty M.star || str_eqb sub M.star then None else Some (offer_norm ty sub ps).
Proof.
  intros (Hty & Hsub & Hps). destruct (token_m _ Hty) as [Hn1 Ht1]. destruct (token_m _ Hsub) as [Hn2 Ht2].
  unfold M.parse_offer_str, offer_text.
  rewrite (mspan_app M.is_tchar ty (47%N :: sub ++ params_text ps) Ht1) by reflexivity. cbn [fst snd].
  destruct ty as [|a ty]; [contradiction|]. change ((47 =? 47)%N) with true. cbv iota.
  rewrite (mspan_app M.is_tchar sub (params_text ps) Ht2 (params_text_head ps Hps)). cbn [fst snd].
  destruct sub as [|b sub]; [contradiction|].
  rewrite params_loop_rendered; [|exact Hps|pose proof (params_text_len ps Hps); lia].
  destruct (str_eqb (a :: ty) M.star || str_eqb (b :: sub) M.star); [reflexivity|].
  unfold offer_norm, M.lower_names, raw_of. rewrite !map_map. do 2 f_equal.
  apply map_ext. intros p. rewrite unquote_param_eq. reflexivity.
Qed.

Lemma parse_offer_out s r : M.parse_offer_str s = Some r ->
  exists ty sub ps, offer_ok ty sub ps /\ s = offer_text ty sub ps.
Proof.
  unfold M.parse_offer_str. intros H.
  destruct (mspan_split M.is_tchar s) as (S1 & T1 & _).
  destruct (fst (M.span M.is_tchar s)) as [|a ty] eqn:Et; [discriminate|].
  destruct (snd (M.span M.is_tchar s)) as [|c s2] eqn:E2; [discriminate|].
  destruct (c =? 47)%N eqn:Ec; [|discriminate]. apply N.eqb_eq in Ec. subst c.
  destruct (mspan_split M.is_tchar s2) as (S2 & T2 & _).
  destruct (fst (M.span M.is_tchar s2)) as [|b sub] eqn:Es; [discriminate|].
  destruct (M.params_loop _ _) as [raw|] eqn:Ep; [|discriminate].
  apply params_loop_out in Ep as (ps & Hps & Erest & _).
  exists (a :: ty), (b :: sub), ps. split.
  - split; [apply forall_tchar_back; [discriminate|exact T1]|].
    split; [apply forall_tchar_back; [discriminate|exact T2]|exact Hps].
  - unfold offer_text. rewrite <- Erest, <- S2. exact S1.
Qed.

(* parse_offer returns [r] for [s]  iff  [s] is a rendered media type with concrete type and subtype
   and [r] is its normal form *)
Theorem parse_offer_exact s r :
  M.parse_offer_str s = Some r <->
  exists ty sub ps, offer_ok ty sub ps /\ s = offer_text ty sub ps /\
                    ty <> M.star /\ sub <> M.star /\ r = offer_norm ty sub ps.
Proof.
  split.
  - intros H. destruct (parse_offer_out s r H) as (ty & sub & ps & Hok & ->).
    exists ty, sub, ps. rewrite (parse_offer_rendered ty sub ps Hok) in H.
    destruct (str_eqb ty M.star) eqn:E1; [discriminate|]. destruct (str_eqb sub M.star) eqn:E2; [discriminate|].
    cbn in H. injection H as <-.
    split; [exact Hok|]. split; [reflexivity|]. split; [|split; [|reflexivity]].
    + intros E. apply str_eqb_eq in E. congruence.
    + intros E. apply str_eqb_eq in E. congruence.
  - intros (ty & sub & ps & Hok & -> & H1 & H2 & ->). rewrite (parse_offer_rendered ty sub ps Hok).
    replace (str_eqb ty M.star) with false by (symmetry; destruct (str_eqb ty M.star) eqn:E; [apply str_eqb_eq in E; contradiction|reflexivity]).
    replace (str_eqb sub M.star) with false by (symmetry; destruct (str_eqb sub M.star) eqn:E; [apply str_eqb_eq in E; contradiction|reflexivity]).
    reflexivity.
Qed.

(* ------------------------------------------------------------------ the grammar *)
Lemma matches_ows o : all_ows o -> matches OWS o.
Proof.
  unfold OWS. induction 1 as [|c o Hc Ho IH]; [constructor|].
  change (c :: o) with ([c] ++ o). constructor; [|exact IH]. constructor. rewrite cmem_false.
  unfold S3.is_ows in Hc. cbn [in_ranges]. lia.
Qed.

Lemma matches_star_tchar t : Forall (fun c => S3.is_tchar c = true) t -> matches (Star tchar) t.
Proof.
  induction 1 as [|c t Hc Ht IH]; [constructor|]. change (c :: t) with ([c] ++ t).
  constructor; [|exact IH]. unfold tchar. constructor. rewrite cmem_false. exact Hc.
Qed.

Lemma matches_tok_not_q n : token_ok n -> not_q n -> matches tok_not_q n.
Proof.
  intros [Hne Ht] Hq. destruct n as [|c n]; [contradiction|]. inversion Ht as [|? ? Hc Hn]; subst.
  unfold tok_not_q. destruct (is_qQ c) eqn:Eq.
  - destruct n as [|d n]; [cbn in Hq; congruence|]. inversion Hn as [|? ? Hd Hn']; subst.
    apply MAltR. cbn [cats]. change (c :: d :: n) with ([c] ++ [d] ++ n).
    constructor; [|constructor; [|apply matches_star_tchar, Hn']].
    + unfold qQ. constructor. rewrite cmem_false. unfold is_qQ in Eq. cbn [in_ranges]. lia.
    + unfold tchar. constructor. rewrite cmem_false. exact Hd.
  - apply MAltL. change (c :: n) with ([c] ++ n). constructor; [|apply matches_star_tchar, Hn].
    unfold tchar_noq. constructor. rewrite cmem_false. unfold S3.is_tchar in Hc. unfold is_qQ in Eq.
    cbn [in_ranges] in *. lia.
Qed.

Lemma matches_qbody b : qbody b -> exists body, b = body ++ [34%N] /\ matches (Star (Alt qdtext qpair)) body.
Proof.
  induction 1 as [|c b Hc Hb IH|c b Hc Hb IH].
  - exists []. split; [reflexivity|constructor].
  - destruct IH as (body & -> & Hm). exists (92%N :: c :: body). split; [reflexivity|].
    change (92%N :: c :: body) with ([92%N; c] ++ body). constructor; [|exact Hm].
    apply MAltR. unfold qpair. change [92%N; c] with ([92%N] ++ [c]). constructor; [apply matches_ch|].
    constructor. rewrite cmem_false. exact Hc.
  - destruct IH as (body & -> & Hm). exists (c :: body). split; [reflexivity|].
    change (c :: body) with ([c] ++ body). constructor; [|exact Hm].
    apply MAltL. unfold qdtext. constructor. rewrite cmem_false. exact Hc.
Qed.

Lemma matches_value v : value_ok v -> matches value v.
Proof.
  intros [Ht|(b & -> & Hb)]; [apply MAltL, matches_plus_tchar, Ht|].
  apply MAltR. destruct (matches_qbody b Hb) as (body & -> & Hm).
  unfold qstr. cbn [cats]. change (34%N :: body ++ [34%N]) with ([34%N] ++ body ++ [34%N]).
  constructor; [apply matches_ch|]. constructor; [exact Hm|apply matches_ch].
Qed.

Lemma matches_param p : param_ok p -> matches (cats [OWS; ch 59; OWS; parameter]) (render_param p).
Proof.
  intros (H1 & H2 & Hn & Hq & Hv). unfold render_param. cbn [cats].
  constructor; [apply matches_ows, H1|]. change (59%N :: p_ows2 p ++ p_name p ++ 61%N :: p_val p)
    with ([59%N] ++ p_ows2 p ++ p_name p ++ 61%N :: p_val p).
  constructor; [apply matches_ch|]. constructor; [apply matches_ows, H2|].
  unfold parameter. cbn [cats]. constructor; [apply matches_tok_not_q; assumption|].
  change (61%N :: p_val p) with ([61%N] ++ p_val p). constructor; [apply matches_ch|apply matches_value, Hv].
Qed.

Lemma matches_offer ty sub ps : offer_ok ty sub ps -> matches abnf_media_type (offer_text ty sub ps).
Proof.
  intros (Hty & Hsub & Hps). unfold abnf_media_type, offer_text.
  replace (ty ++ 47%N :: sub ++ params_text ps) with ((ty ++ [47%N] ++ sub) ++ params_text ps)
    by (rewrite <- !app_assoc; reflexivity).
  constructor.
  - cbn [cats]. constructor; [apply matches_plus_tchar, Hty|].
    constructor; [apply matches_ch|apply matches_plus_tchar, Hsub].
  - unfold params_text. induction Hps as [|p ps Hp _ IH]; [constructor|].
    cbn [flat_map]. constructor; [apply matches_param, Hp|exact IH].
Qed.

Lemma inv_offer w : matches abnf_media_type w -> exists ty sub ps, offer_ok ty sub ps /\ w = offer_text ty sub ps.
Proof.
  unfold abnf_media_type. intros H. apply inv_cat in H as (ts & pt & -> & Hts & Hpt).
  cbn [cats] in Hts. apply inv_cat in Hts as (ty & r & -> & Hty & Hr). apply inv_cat in Hr as (sl & sub & -> & Hsl & Hsub).
  apply inv_ch in Hsl as ->. apply inv_token in Hty, Hsub. apply inv_params in Hpt as (ps & Hps & ->).
  exists ty, sub, ps. split; [split; [exact Hty|split; [exact Hsub|exact Hps]]|]. unfold offer_text, params_text.
  rewrite <- !app_assoc. reflexivity.
Qed.

(* no word of a regular expression none of whose classes contains [c] contains [c] *)
Fixpoint rx_excludes (c : N) (r : rx) : bool :=
  match r with
  | Emp | Eps => true
  | Cls neg rs => negb (cmem neg rs c)
  | Cat a b | Alt a b => rx_excludes c a && rx_excludes c b
  | Star a => rx_excludes c a
  end.

Lemma excludes_sound c r w : matches r w -> rx_excludes c r = true -> ~ In c w.
Proof.
  induction 1; cbn [rx_excludes]; intros He Hin.
  - contradiction.
  - destruct Hin as [->|[]]. rewrite H in He. discriminate.
  - apply andb_true_iff in He as [Ha Hb]. apply in_app_or in Hin as [Hin|Hin]; [now apply IHmatches1|now apply IHmatches2].
  - apply andb_true_iff in He as [Ha _]. now apply IHmatches.
  - apply andb_true_iff in He as [_ Hb]. now apply IHmatches.
  - contradiction.
  - apply in_app_or in Hin as [Hin|Hin]; [now apply IHmatches1|now apply IHmatches2].
Qed.

Lemma excludes_no_LF r w : rx_excludes 10 r = true -> matches r w -> no_LF w.
Proof.
  intros He Hm. pose proof (excludes_sound 10 r w Hm He) as Hn. unfold no_LF.
  apply Forall_forall. intros c Hc. unfold LF. cbn [in_ranges].
  destruct (N.eq_dec c 10) as [->|Hne]; [contradiction|lia].
Qed.

(* re-decided on every run for the regenerated pattern *)
Lemma gen_media_type_no_LF : rx_excludes 10 gen_media_type = true.
Proof. vm_compute. reflexivity. Qed.
Lemma abnf_media_type_no_LF : rx_excludes 10 abnf_media_type = true.
Proof. vm_compute. reflexivity. Qed.

(* the regenerated media_type_compiled_re accepts exactly the rendered media types, for EVERY string *)
Theorem media_type_regex_exact s :
  rmatch gen_media_type s = true <-> exists ty sub ps, offer_ok ty sub ps /\ s = offer_text ty sub ps.
Proof.
  split.
  - intros H. pose proof (proj1 (rmatch_correct s gen_media_type) H) as Hm.
    pose proof (excludes_no_LF _ _ gen_media_type_no_LF Hm) as Hlf.
    apply (media_type_eq s Hlf) in H. now apply inv_offer.
  - intros (ty & sub & ps & Hok & ->). pose proof (matches_offer ty sub ps Hok) as Hm.
    pose proof (excludes_no_LF _ _ abnf_media_type_no_LF Hm) as Hlf.
    now apply (media_type_eq _ Hlf).
Qed.

(* every text the regex rejects is rejected by parse_offer; every text it accepts is parsed to the
   normal form of its components, unless type or subtype is the wildcard *)
Theorem parse_offer_rejects s : rmatch gen_media_type s = false -> M.parse_offer_str s = None.
Proof.
  intros H. destruct (M.parse_offer_str s) as [r|] eqn:E; [|reflexivity].
  destruct (parse_offer_out s r E) as (ty & sub & ps & Hok & ->).
  assert (Ht : rmatch gen_media_type (offer_text ty sub ps) = true) by (apply media_type_regex_exact; eauto).
  congruence.
Qed.

Theorem parse_offer_accepts s : rmatch gen_media_type s = true ->
  exists ty sub ps, offer_ok ty sub ps /\ s = offer_text ty sub ps /\
    M.parse_offer_str s = if str_eqb ty M.star || str_eqb sub M.star then None else Some (offer_norm ty sub ps).
Proof.
  intros H. apply media_type_regex_exact in H as (ty & sub & ps & Hok & ->).
  exists ty, sub, ps. repeat split; try apply Hok. now apply parse_offer_rendered.
Qed.

(* type, subtype and parameter names are case-insensitive; values (after unquoting) are case-sensitive *)
Theorem offer_case_insensitive ty sub ps ty' sub' ps' :
  offer_ok ty sub ps -> offer_ok ty' sub' ps' -> ty <> M.star -> sub <> M.star -> ty' <> M.star -> sub' <> M.star ->
  (M.parse_offer_str (offer_text ty sub ps) = M.parse_offer_str (offer_text ty' sub' ps') <->
   lower ty = lower ty' /\ lower sub = lower sub' /\
   map (fun p => (lower (p_name p), unquote_value (p_val p))) ps =
   map (fun p => (lower (p_name p), unquote_value (p_val p))) ps').
Proof.
  intros Hok Hok' H1 H2 H3 H4.
  assert (E : M.parse_offer_str (offer_text ty sub ps) = Some (offer_norm ty sub ps))
    by (apply parse_offer_exact; exists ty, sub, ps; repeat split; trivial; apply Hok).
  assert (E' : M.parse_offer_str (offer_text ty' sub' ps') = Some (offer_norm ty' sub' ps'))
    by (apply parse_offer_exact; exists ty', sub', ps'; repeat split; trivial; apply Hok').
  rewrite E, E'. unfold offer_norm. split.
  - intros H. injection H as -> -> ->. auto.
  - intros (-> & -> & ->). reflexivity.
Qed.

(* ------------------------------------------------------------------ AcceptOffer instances *)
Lemma is_token_ok t : M.is_token t = true -> token_ok t.
Proof.
  unfold M.is_token. destruct t as [|c t]; [discriminate|]. intros H. split; [discriminate|].
  rewrite forallb_forall in H. apply Forall_forall. intros x Hx. rewrite tchar_eq. now apply H.
Qed.

Lemma ptext_eq (ps : M.params) :
  flat_map (fun nv : str * str => 59%N :: fst nv ++ 61%N :: escape_and_quote (snd nv)) ps =
  params_text (map (fun nv : str * str => mkP [] [] (fst nv) (escape_and_quote (snd nv))) ps).
Proof.
  unfold params_text. induction ps as [|nv ps IH]; [reflexivity|]. cbn [flat_map map]. rewrite IH. reflexivity.
Qed.

(* a pre-parsed offer AcceptOffer(type, subtype, params) is treated exactly as the media type text it stands
   for, str(offer) = type "/" subtype *( ";" name "=" quoted-or-token value )  (C03's form_media_range) *)
Theorem accept_offer_as_text ty st (ps : M.params) :
  M.is_token ty = true -> M.is_token st = true ->
  forallb (fun p => M.is_token (fst p)) ps = true -> existsb (fun p => M.is_q_name (fst p)) ps = false ->
  Forall (fun nv => qchar_ok (snd nv)) ps ->
  M.parse_offer (M.OObj ty st ps) = M.parse_offer_str (form_media_range (ty ++ 47%N :: st) ps).
Proof.
  intros Hty Hst Hn Hq Hv. unfold M.parse_offer. rewrite Hty, Hst, Hn, Hq. cbn [andb negb].
  set (rps := map (fun nv : str * str => mkP [] [] (fst nv) (escape_and_quote (snd nv))) ps).
  assert (Etext : form_media_range (ty ++ 47%N :: st) ps = offer_text ty st rps).
  { unfold form_media_range, offer_text, rps. rewrite ptext_eq, <- app_assoc. reflexivity. }
  assert (Hok : offer_ok ty st rps).
  { split; [now apply is_token_ok|]. split; [now apply is_token_ok|].
    unfold rps. apply Forall_forall. intros p Hp. apply in_map_iff in Hp as (nv & <- & Hin).
    rewrite forallb_forall in Hn. rewrite Forall_forall in Hv.
    unfold param_ok. cbn [p_ows1 p_ows2 p_name p_val].
    split; [constructor|]. split; [constructor|]. split; [apply (is_token_ok _ (Hn nv Hin))|]. split.
    - apply qname_eq'. destruct (M.is_q_name (fst nv)) eqn:E; [|reflexivity].
      assert (existsb (fun p => M.is_q_name (fst p)) ps = true) by (apply existsb_exists; eauto). congruence.
    - apply inv_value, quote_in_grammar, (Hv nv Hin). }
  rewrite Etext, (parse_offer_rendered ty st rps Hok).
  destruct (str_eqb ty M.star || str_eqb st M.star); [reflexivity|].
  unfold offer_norm, M.lower_names, rps. rewrite map_map. do 2 f_equal.
  apply map_ext. intros nv. cbn [p_name p_val]. now rewrite quote_inverse.
Qed.
