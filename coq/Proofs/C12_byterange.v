(* C12 — Range / Content-Range: totality, parse (str v) = v for every valid value, half-open in Python
   and inclusive on the wire.  About Model/C12_ByteRange.v, for BOTH variants of each source parameter. *)
From Coq Require Import ZArith NArith List Bool Lia ZifyBool ZifyNat ZifyN.
Require Import Webob.Lib.Val Webob.Lib.PyStr Webob.Lib.C12_PyInt Webob.Model.C12_Headers
               Webob.Model.C12_ByteRange Webob.Proofs.C12_pyint Webob.Proofs.C12_headers.
Import ListNotations.
Local Open Scope N_scope.

(* ------------------------------------------------------------------ totality *)
Lemma conv_range_total anch zn : conv_total (conv_range anch zn).
Proof.
  intros v. cbn. unfold parse_range. destruct v as [[|c s]|]; try reflexivity.
  destruct (range_parse anch zn (c :: s)); reflexivity.
Qed.

Lemma conv_content_range_total : conv_total conv_content_range.
Proof.
  intros v. cbn. unfold parse_content_range. destruct v as [[|c s]|]; try reflexivity.
  destruct (strip_by is_space_str (c :: s)); [reflexivity|].
  destruct (crange_parse (c :: s)); reflexivity.
Qed.

(* ------------------------------------------------------------------ scanner lemmas *)
Definition head_not_digit (r : str) : Prop :=
  match r with [] => True | c :: _ => is_digit c = false end.

Lemma take_digits_app d r : all_digits d -> head_not_digit r -> take_digits (d ++ r) = (d, r).
Proof.
  intros Hd Hr. induction Hd as [|c d Hc Hd IH]; cbn [app].
  - destruct r as [|c r]; [reflexivity|]. cbn in *. rewrite Hr. reflexivity.
  - cbn [take_digits]. rewrite Hc, IH. reflexivity.
Qed.

Lemma take_digits_all d : all_digits d -> take_digits d = (d, []).
Proof. intros Hd. rewrite <- (app_nil_r d) at 1. apply take_digits_app; [exact Hd|exact I]. Qed.

Lemma skip_sp_head c s : c <> 32 -> skip_sp (c :: s) = c :: s.
Proof. intros H. unfold skip_sp. cbn. destruct (c =? 32) eqn:E; [lia|reflexivity]. Qed.

Lemma skip_sp_digits d r : all_digits d -> d <> [] -> skip_sp (d ++ r) = d ++ r.
Proof.
  intros Hd Hne. destruct d as [|c d]; [congruence|]. inversion Hd as [|? ? Hc _]; subst.
  cbn [app]. apply skip_sp_head. unfold is_digit in Hc. lia.
Qed.

Lemma nonempty_s_true (d : str) : d <> [] -> nonempty_s d = true.
Proof. destruct d; [congruence|reflexivity]. Qed.

Lemma digit_head_not_digit_45 r : head_not_digit (45 :: r).
Proof. reflexivity. Qed.

Lemma match_ci_bytes r : match_ci s_bytes (s_bytes ++ r) = Some r.
Proof. reflexivity. Qed.

(* the regular expression on  bytes=D1-D2  (either digit string may be empty) *)
Lemma rx_range_canonical anch d1 d2 : all_digits d1 -> all_digits d2 ->
  rx_range anch (s_bytes_eq ++ d1 ++ [45] ++ d2) = Some (d1, d2).
Proof.
  intros H1 H2. unfold rx_range, s_bytes_eq.
  rewrite <- app_assoc, match_ci_bytes. cbn [app].
  assert (E1 : forall r, skip_sp (61 :: r) = 61 :: r) by (intros r; apply skip_sp_head; lia).
  rewrite E1. cbn [eat]. rewrite N.eqb_refl.
  assert (E2 : skip_sp (d1 ++ 45 :: d2) = d1 ++ 45 :: d2).
  { destruct d1 as [|c d]; [apply skip_sp_head; lia|].
    apply skip_sp_digits; [exact H1|discriminate]. }
  rewrite E2, (take_digits_app d1 (45 :: d2) H1 (digit_head_not_digit_45 d2)).
  rewrite (skip_sp_head 45 d2) by lia. cbn [eat]. rewrite N.eqb_refl.
  assert (E3 : skip_sp d2 = d2).
  { destruct d2 as [|c d]; [reflexivity|]. rewrite <- (app_nil_r (c :: d)).
    apply skip_sp_digits; [exact H2|discriminate]. }
  rewrite E3, (take_digits_all d2 H2). destruct anch; reflexivity.
Qed.

(* ------------------------------------------------------------------ integers *)
Definition printable (z : Z) : Prop := (ndigits z <= max_str_digits)%nat.

Lemma str_of_Z_nonneg z : (0 <= z)%Z ->
  all_digits (str_of_Z z) /\ str_of_Z z <> [].
Proof. apply str_of_Z_wire. Qed.

Lemma int_or_raise_str z : printable z -> int_or_raise (str_of_Z z) = Ok z.
Proof. intros H. unfold int_or_raise. rewrite (py_int_str_of_Z z H). reflexivity. Qed.

Lemma str_of_Z_neg z : (z < 0)%Z -> str_of_Z z = 45 :: str_of_Z (- z).
Proof. intros H. destruct z as [|p|p]; try lia. reflexivity. Qed.

Lemma printable_opp z : printable z -> printable (- z).
Proof. unfold printable, ndigits. rewrite Zabs2N.inj_opp. auto. Qed.

(* ------------------------------------------------------------------ Range *)
(* the values Range.__init__ and HTTP allow *)
Definition range_ok (r : range) : Prop :=
  match r with
  | (s, None) => printable s
  | (s, Some e) => (0 <= s < e)%Z /\ printable s /\ printable (e - 1)
  end.

Lemma range_parse_str anch zn r : range_ok r -> range_parse anch zn (range_str r) = Ok (Some r).
Proof.
  destruct r as [s [e|]]; cbn [range_ok range_str].
  - intros [Hse [Hs He]].
    destruct (str_of_Z_nonneg s ltac:(lia)) as [D1 N1].
    destruct (str_of_Z_nonneg (e - 1) ltac:(lia)) as [D2 N2].
    unfold range_parse. rewrite (rx_range_canonical anch _ _ D1 D2).
    rewrite (nonempty_s_true _ N1), (nonempty_s_true _ N2). cbn [negb].
    rewrite (int_or_raise_str s Hs), (int_or_raise_str (e - 1) He).
    cbv zeta. destruct (s >=? e - 1 + 1)%Z eqn:E; [lia|].
    repeat f_equal. lia.
  - intros Hs. destruct (Z_lt_ge_dec s 0) as [Hneg|Hpos].
    + rewrite (str_of_Z_neg s Hneg).
      assert (Hge : (s >=? 0)%Z = false) by lia. rewrite Hge.
      destruct (str_of_Z_nonneg (- s) ltac:(lia)) as [D2 N2].
      change (s_bytes_eq ++ (45 :: str_of_Z (- s)) ++ [])
        with (s_bytes_eq ++ [] ++ [45] ++ (str_of_Z (- s) ++ [])).
      rewrite app_nil_r.
      unfold range_parse. rewrite (rx_range_canonical anch [] _ (Forall_nil _) D2).
      cbn [nonempty_s negb]. rewrite (nonempty_s_true _ N2). cbn [negb].
      rewrite (int_or_raise_str (- s) (printable_opp s Hs)).
      assert (Hz : (- s =? 0)%Z = false) by lia. rewrite Hz, andb_false_r.
      repeat f_equal. lia.
    + assert (Hge : (s >=? 0)%Z = true) by lia. rewrite Hge.
      destruct (str_of_Z_nonneg s ltac:(lia)) as [D1 N1].
      change (s_bytes_eq ++ str_of_Z s ++ [45]) with (s_bytes_eq ++ str_of_Z s ++ [45] ++ []).
      unfold range_parse. rewrite (rx_range_canonical anch _ [] D1 (Forall_nil _)).
      rewrite (nonempty_s_true _ N1). cbn [nonempty_s negb].
      rewrite (int_or_raise_str s Hs). reflexivity.
Qed.

Lemma range_str_nonempty r : range_str r <> [].
Proof. destruct r as [s [e|]]; discriminate. Qed.

Lemma parse_range_str anch zn r : range_ok r ->
  parse_range anch zn (Some (range_str r)) = Ok (range_val (Some r)).
Proof.
  intros Hr. unfold parse_range.
  destruct (range_str r) as [|c s] eqn:E; [exfalso; exact (range_str_nonempty r E)|].
  rewrite <- E, (range_parse_str anch zn r Hr). reflexivity.
Qed.

(* wire -> Python: first-byte-pos a, last-byte-pos b (inclusive) reads as the half-open (a, b + 1) *)
Lemma range_wire_inclusive anch zn a b : (0 <= a <= b)%Z -> printable a -> printable b ->
  range_parse anch zn (s_bytes_eq ++ str_of_Z a ++ [45] ++ str_of_Z b) = Ok (Some (a, Some (b + 1)%Z)).
Proof.
  intros Hab Ha Hb.
  pose proof (range_parse_str anch zn (a, Some (b + 1)%Z)) as H. cbn [range_ok range_str] in H.
  replace (b + 1 - 1)%Z with b in H by lia. apply H. repeat split; try lia; assumption.
Qed.

(* ------------------------------------------------------------------ no CR / LF, single line *)
Lemma has_crlf_cons c s : has_crlf (c :: s) = ((c =? 10) || (c =? 13)) || has_crlf s.
Proof. reflexivity. Qed.

Lemma range_str_no_crlf r : has_crlf (range_str r) = false.
Proof.
  destruct r as [s [e|]]; cbn [range_str]; rewrite !has_crlf_app, !str_of_Z_no_crlf;
    [reflexivity|]. destruct (s >=? 0)%Z; reflexivity.
Qed.

(* ------------------------------------------------------------------ Content-Range *)
Lemma match_lit_self p r : match_lit p (p ++ r) = Some r.
Proof. induction p as [|c p IH]; cbn; [reflexivity|]. rewrite N.eqb_refl. exact IH. Qed.

Lemma eat_digit k d r : all_digits d -> d <> [] -> is_digit k = false -> eat k (d ++ r) = None.
Proof.
  intros Hd Hne Hk. destruct d as [|c d]; [congruence|]. inversion Hd as [|? ? Hc _]; subst.
  cbn. destruct (c =? k) eqn:E; [|reflexivity]. apply N.eqb_eq in E. subst. congruence.
Qed.

Lemma eat_self k r : eat k (k :: r) = Some r.
Proof. cbn. rewrite N.eqb_refl. reflexivity. Qed.

Definition crange_ok (c : crange) : Prop :=
  match c with
  | (None, None, None) => True
  | (None, None, Some l) => (0 <= l)%Z /\ printable l
  | (Some s, Some e, None) => (0 <= s < e)%Z /\ printable s /\ printable (e - 1)
  | (Some s, Some e, Some l) => (0 <= s < e)%Z /\ (e <= l)%Z /\ printable s /\ printable (e - 1) /\ printable l
  | _ => False
  end.

(* length part: "/" then digits or "*" *)
Lemma rx_cr_tail (g1 g2 : option str) (l : option Z) :
  (match l with Some z => (0 <= z)%Z | None => True end) ->
  (match eat 47 ([47] ++ oz_str l) with
   | Some r5 => match eat 42 r5 with
                | Some _ => Some (g1, g2, @None str)
                | None => let '(d3, _) := take_digits r5 in
                          if nonempty_s d3 then Some (g1, g2, Some d3) else None
                end
   | None => None
   end) = Some (g1, g2, match l with Some z => Some (str_of_Z z) | None => None end).
Proof.
  intros Hl. cbn [app]. rewrite eat_self. destruct l as [z|]; cbn [oz_str].
  - destruct (str_of_Z_nonneg z Hl) as [D N].
    rewrite <- (app_nil_r (str_of_Z z)) at 1.
    rewrite (eat_digit 42 _ [] D N eq_refl), (take_digits_all _ D), (nonempty_s_true _ N).
    reflexivity.
  - rewrite eat_self. reflexivity.
Qed.

Lemma rx_content_range_str c : crange_ok c ->
  rx_content_range (crange_str c) =
  Some (match c with (Some s, _, _) => Some (str_of_Z s) | _ => None end,
        match c with (_, Some e, _) => Some (str_of_Z (e - 1)) | _ => None end,
        match c with (_, _, Some l) => Some (str_of_Z l) | _ => None end).
Proof.
  destruct c as [[[s|] [e|]] l]; cbn [crange_ok crange_str]; try tauto.
  - (* start-stop *)
    intros H.
    assert (Hs : (0 <= s < e)%Z) by (destruct l; tauto).
    assert (Hl : match l with Some z => (0 <= z)%Z | None => True end) by (destruct l; [lia|exact I]).
    destruct (str_of_Z_nonneg s ltac:(lia)) as [D1 N1].
    destruct (str_of_Z_nonneg (e - 1) ltac:(lia)) as [D2 N2].
    unfold rx_content_range, s_bytes_sp. rewrite match_lit_self.
    rewrite (eat_digit 42 _ _ D1 N1 eq_refl).
    change ([45] ++ str_of_Z (e - 1) ++ [47] ++ oz_str l) with (45 :: str_of_Z (e - 1) ++ [47] ++ oz_str l).
    rewrite (take_digits_app _ _ D1 (digit_head_not_digit_45 _)).
    rewrite eat_self.
    assert (Hh : head_not_digit ([47] ++ oz_str l)) by reflexivity.
    rewrite (take_digits_app _ _ D2 Hh), (nonempty_s_true _ N1), (nonempty_s_true _ N2). cbn [andb].
    rewrite (rx_cr_tail (Some (str_of_Z s)) (Some (str_of_Z (e - 1))) l Hl). destruct l; reflexivity.
  - (* star *)
    intros H.
    assert (Hl : match l with Some z => (0 <= z)%Z | None => True end) by (destruct l; [lia|exact I]).
    unfold rx_content_range, s_bytes_sp. rewrite match_lit_self.
    cbn [app]. rewrite eat_self.
    pose proof (rx_cr_tail None None l Hl) as E. cbn [app] in E. rewrite E. destruct l; reflexivity.
Qed.

Lemma crange_parse_str c : crange_ok c -> crange_parse (crange_str c) = Ok (Some c).
Proof.
  intros Hc. unfold crange_parse. rewrite (rx_content_range_str c Hc).
  destruct c as [[[s|] [e|]] l]; cbn [crange_ok] in Hc; try tauto.
  - destruct l as [l|].
    + destruct Hc as [Hse [Hel [Ps [Pe Pl]]]].
      rewrite (int_or_raise_str s Ps), (int_or_raise_str (e - 1) Pe), (int_or_raise_str l Pl).
      replace (e - 1 + 1)%Z with e by lia.
      assert (V : cr_valid (Some s) (Some e) (Some l) true = true).
      { cbn [cr_valid andb]. destruct (s >=? e)%Z eqn:E1; [lia|]. destruct (e >? l)%Z eqn:E2; [lia|]. lia. }
      rewrite V. reflexivity.
    + destruct Hc as [Hse [Ps Pe]].
      rewrite (int_or_raise_str s Ps), (int_or_raise_str (e - 1) Pe).
      replace (e - 1 + 1)%Z with e by lia.
      assert (V : cr_valid (Some s) (Some e) None true = true) by (cbn; lia).
      rewrite V. reflexivity.
  - destruct l as [l|].
    + destruct Hc as [Hl Pl]. rewrite (int_or_raise_str l Pl).
      assert (V : cr_valid None None (Some l) true = true) by (cbn; lia).
      rewrite V. reflexivity.
    + reflexivity.
Qed.

(* the printed form starts with "b" and ends with a digit or "*": strip() leaves it alone *)
Lemma oz_str_last l : (match l with Some z => (0 <= z)%Z | None => True end) ->
  exists pre x, oz_str l = pre ++ [x] /\ is_space_str x = false /\ is_ows x = false.
Proof.
  intros Hl. destruct l as [z|]; cbn [oz_str].
  - destruct (str_of_Z_nonneg z Hl) as [D N].
    destruct (@exists_last _ (str_of_Z z) N) as [pre [x E]]. exists pre, x. split; [exact E|].
    rewrite E in D. apply Forall_app in D. destruct D as [_ D]. inversion D as [|? ? Hx _]; subst.
    unfold is_digit in Hx. unfold is_space_str, is_ows. lia.
  - exists [], 42. repeat split; reflexivity.
Qed.

Lemma crange_str_strip_gen f c : f 98 = false -> (forall x, is_space_str x = false /\ is_ows x = false -> f x = false) ->
  crange_ok c -> strip_by f (crange_str c) = crange_str c.
Proof.
  intros Hb Hf Hc.
  assert (Hl : match snd c with Some z => (0 <= z)%Z | None => True end).
  { destruct c as [[[s|] [e|]] [l|]]; cbn in *; try tauto; try lia. }
  destruct (oz_str_last (snd c) Hl) as [pre [x [E Hx0]]]. pose proof (Hf x Hx0) as Hx.
  destruct c as [[[s|] [e|]] l]; cbn [crange_ok] in Hc; try tauto; cbn [snd] in E; cbn [crange_str].
  - unfold s_bytes_sp, s_bytes. rewrite E. cbn [app].
    apply (strip_by_noop _ _ 98 x ([121; 116; 101; 115; 32] ++ str_of_Z s ++ [45] ++ str_of_Z (e - 1) ++ [47] ++ pre));
      [left|exact Hb|exact Hx].
    cbn [app]. do 6 f_equal. repeat (rewrite <- app_assoc; cbn [app]). reflexivity.
  - unfold s_bytes_sp, s_bytes. rewrite E. cbn [app].
    apply (strip_by_noop _ _ 98 x ([121; 116; 101; 115; 32; 42; 47] ++ pre)); [left; reflexivity|exact Hb|exact Hx].
Qed.

Lemma crange_str_strip c : crange_ok c -> strip_by is_space_str (crange_str c) = crange_str c.
Proof. apply crange_str_strip_gen; [reflexivity|tauto]. Qed.

Lemma crange_str_strip_ows c : crange_ok c -> strip_by is_ows (crange_str c) = crange_str c.
Proof. apply crange_str_strip_gen; [reflexivity|tauto]. Qed.

Lemma crange_str_nonempty c : crange_str c <> [].
Proof. destruct c as [[[s|] [e|]] l]; discriminate. Qed.

Lemma parse_content_range_str c : crange_ok c ->
  parse_content_range (Some (crange_str c)) = Ok (crange_val (Some c)).
Proof.
  intros Hc. unfold parse_content_range.
  destruct (crange_str c) as [|x s] eqn:E; [exfalso; exact (crange_str_nonempty c E)|].
  rewrite <- E, (crange_str_strip c Hc), E, <- E, (crange_parse_str c Hc). reflexivity.
Qed.

Lemma oz_str_no_crlf l : has_crlf (oz_str l) = false.
Proof. destruct l; [apply str_of_Z_no_crlf|reflexivity]. Qed.

Lemma crange_str_no_crlf c : has_crlf (crange_str c) = false.
Proof.
  destruct c as [[[s|] [e|]] l]; cbn [crange_str];
    rewrite !has_crlf_app, ?str_of_Z_no_crlf, ?oz_str_no_crlf; reflexivity.
Qed.

(* a valid response triple passes the constructor's (weaker) test too *)
Lemma crange_ok_init c : crange_ok c ->
  crange_init (fst (fst c)) (snd (fst c)) (snd c) = Ok c.
Proof.
  intros Hc. unfold crange_init.
  destruct c as [[[s|] [e|]] [l|]]; cbn [crange_ok fst snd] in *; try tauto.
  - assert (V : cr_valid (Some s) (Some e) (Some l) false = true).
    { cbn [cr_valid andb]. destruct (s >=? e)%Z eqn:E1; [lia|]. lia. }
    rewrite V. reflexivity.
  - assert (V : cr_valid (Some s) (Some e) None false = true) by (cbn [cr_valid]; lia).
    rewrite V. reflexivity.
  - assert (V : cr_valid None None (Some l) false = true) by (cbn [cr_valid]; lia).
    rewrite V. reflexivity.
Qed.

Lemma serialize_content_range_triple s e l : crange_ok (s, e, l) ->
  serialize_content_range (PInts [s; e; l]) = Ok (Some (crange_str (s, e, l))).
Proof.
  intros Hc. cbn [serialize_content_range].
  pose proof (crange_ok_init (s, e, l) Hc) as Hi. cbn [fst snd] in Hi. rewrite Hi.
  rewrite (crange_str_strip_ows _ Hc).
  destruct (crange_str (s, e, l)) eqn:E; [exfalso; exact (crange_str_nonempty _ E)|reflexivity].
Qed.

(* ------------------------------------------------------------------ the unguarded parsers do raise *)
(* 4301 ones: int() refuses them.  Proved symbolically (the number itself is never computed) *)
Definition huge_digits : str := repeat 49 4301.

Lemma huge_all_digits : all_digits huge_digits.
Proof. unfold huge_digits, all_digits. apply Forall_forall. intros c Hc. apply repeat_spec in Hc. subst. reflexivity. Qed.

Lemma huge_nonempty : huge_digits <> [].
Proof. unfold huge_digits. change 4301%nat with (S 4300). discriminate. Qed.

Lemma py_int_huge : py_int huge_digits = None.
Proof.
  unfold py_int. rewrite (strip_digits _ huge_all_digits). unfold int_signed.
  pose proof (digit_head_not_sign _ huge_all_digits huge_nonempty) as Hh.
  assert (E : (match huge_digits with 45 :: s' => (true, s') | 43 :: s' => (false, s') | _ => (false, huge_digits) end)
              = (false, huge_digits)).
  { unfold huge_digits. change 4301%nat with (S 4300). reflexivity. }
  rewrite E, (int_unsigned_digits _ huge_all_digits huge_nonempty).
  unfold huge_digits. rewrite repeat_length. reflexivity.
Qed.

Lemma parse_range_unguarded_raises anch zn :
  parse_range_unguarded anch zn (Some (s_bytes_eq ++ huge_digits ++ [45])) = Raise ValueError.
Proof.
  unfold parse_range_unguarded.
  assert (N : s_bytes_eq ++ huge_digits ++ [45] <> []) by discriminate.
  destruct (s_bytes_eq ++ huge_digits ++ [45]) as [|c s] eqn:E; [congruence|]. rewrite <- E.
  change (s_bytes_eq ++ huge_digits ++ [45]) with (s_bytes_eq ++ huge_digits ++ [45] ++ []).
  unfold range_parse. rewrite (rx_range_canonical anch _ [] huge_all_digits (Forall_nil _)).
  rewrite (nonempty_s_true _ huge_nonempty). cbn [negb].
  unfold int_or_raise. rewrite py_int_huge. reflexivity.
Qed.

Lemma pcr_unguarded_unfold c s : strip_by is_space_str (c :: s) = c :: s ->
  parse_content_range_unguarded (Some (c :: s)) =
  match crange_parse (c :: s) with Ok r => Ok (crange_val r) | Raise e => Raise e end.
Proof. intros St. unfold parse_content_range_unguarded. rewrite St. reflexivity. Qed.

Lemma crange_parse_huge : crange_parse (s_bytes_sp ++ [42; 47] ++ huge_digits) = Raise ValueError.
Proof.
  unfold crange_parse, rx_content_range, s_bytes_sp. rewrite match_lit_self.
  change ([42; 47] ++ huge_digits) with (42 :: 47 :: huge_digits). rewrite !eat_self.
  rewrite <- (app_nil_r huge_digits) at 1.
  rewrite (eat_digit 42 _ [] huge_all_digits huge_nonempty eq_refl).
  rewrite (take_digits_all _ huge_all_digits), (nonempty_s_true _ huge_nonempty).
  unfold int_or_raise. rewrite py_int_huge. reflexivity.
Qed.

Lemma parse_content_range_unguarded_raises :
  parse_content_range_unguarded (Some (s_bytes_sp ++ [42; 47] ++ huge_digits)) = Raise ValueError.
Proof.
  destruct (@exists_last _ huge_digits huge_nonempty) as [pre [x Ex]].
  assert (Dx : is_digit x = true).
  { pose proof huge_all_digits as A. rewrite Ex in A. apply Forall_app in A. destruct A as [_ A].
    inversion A; subst; assumption. }
  assert (St : strip_by is_space_str (s_bytes_sp ++ [42; 47] ++ huge_digits) = s_bytes_sp ++ [42; 47] ++ huge_digits).
  { rewrite Ex. apply (strip_by_noop _ _ 98 x ([121; 116; 101; 115; 32; 42; 47] ++ pre)); [left; reflexivity|reflexivity|].
    unfold is_digit in Dx. unfold is_space_str. lia. }
  change (s_bytes_sp ++ [42; 47] ++ huge_digits) with (98 :: ([121; 116; 101; 115; 32; 42; 47] ++ huge_digits)) in *.
  rewrite (pcr_unguarded_unfold _ _ St).
  change (98 :: ([121; 116; 101; 115; 32; 42; 47] ++ huge_digits)) with (s_bytes_sp ++ [42; 47] ++ huge_digits).
  rewrite crange_parse_huge. reflexivity.
Qed.
