(* C02 — proofs about the Response model (Model/C02_RespBody.v):
     cl_inv        the Content-Length invariant, for the constructor and for every operation
     content_*     what each operation does to the bytes that will be yielded (read-back)
     call_*        what a WSGI server observes
     gzip_*        encode_content / decode_content round trip under the gzip law
     nobody_*      statuses without a body *)
From Coq Require Import String.
From Coq Require Import ZArith NArith List Bool Lia ZifyBool ZifyNat ZifyN.
Require Import Webob.Lib.Val Webob.Lib.PyStr Webob.Lib.C02_Base Webob.Lib.C02_Utf8 Webob.Gen.C02_status
               Webob.Model.C02_RespBody Webob.Proofs.C02_base.
Import ListNotations.
Local Open Scope N_scope.

Definition clv (r : resp) : list str := clvals (r_headers r).
Definition is_list (r : resp) : Prop := match r_app r with AList _ => True | _ => False end.

(* THE invariant: every Content-Length header present is str(number of bytes that will be yielded);
   a response whose body is a not-yet-consumed iterator carries none *)
Definition cl_inv (r : resp) : Prop :=
  Forall (fun v => v = dec (blen (content r))) (clv r) /\
  match r_app r with AIter _ _ => clv r = [] | _ => True end.

(* the caller's own header list carries no Content-Length of its own *)
Definition wf_args (a : cargs) : Prop :=
  match a_headerlist a with Some h => clvals h = [] | None => True end.

(* ---------- how the small state transformers act on (clv, content, app) ---------- *)
Lemma clv_cl_set r n : clv (cl_set r n) = [dec n].
Proof. unfold clv, cl_set. cbn [r_headers with_headers]. apply clvals_set_cl. Qed.
Lemma clv_cl_del r : clv (cl_del r) = [].
Proof. unfold clv, cl_del. cbn [r_headers with_headers]. apply clvals_hdel_same. Qed.
Lemma clv_with_app r a : clv (with_app r a) = clv r. Proof. reflexivity. Qed.
Lemma clv_with_status r s : clv (with_status r s) = clv r. Proof. reflexivity. Qed.
Lemma clv_with_headers r h : clv (with_headers r h) = clvals h. Proof. reflexivity. Qed.
Lemma app_cl_set r n : r_app (cl_set r n) = r_app r. Proof. reflexivity. Qed.
Lemma app_cl_del r : r_app (cl_del r) = r_app r. Proof. reflexivity. Qed.
Lemma app_with_app r a : r_app (with_app r a) = a. Proof. reflexivity. Qed.
Lemma app_with_headers r h : r_app (with_headers r h) = r_app r. Proof. reflexivity. Qed.
Lemma content_cl_set r n : content (cl_set r n) = content r. Proof. reflexivity. Qed.
Lemma content_cl_del r : content (cl_del r) = content r. Proof. reflexivity. Qed.
Lemma content_with_headers r h : content (with_headers r h) = content r. Proof. reflexivity. Qed.
Lemma content_with_status r s : content (with_status r s) = content r. Proof. reflexivity. Qed.
Lemma content_with_app r a : content (with_app r a) = List.concat (chunks a). Proof. reflexivity. Qed.
Lemma concat_single (b : bytes) : List.concat [b] = b.
Proof. cbn. apply app_nil_r. Qed.

(* ---------- ways to establish the invariant ---------- *)
Lemma inv_no_cl r : clv r = [] -> cl_inv r.
Proof. intros H. split; [rewrite H; constructor|]. destruct (r_app r); [exact I|exact H|exact I]. Qed.

Lemma inv_cl_del r : cl_inv (cl_del r).
Proof. apply inv_no_cl. apply clv_cl_del. Qed.

Lemma inv_cl_set_list r cs n : n = blen (List.concat cs) -> cl_inv (cl_set (with_app r (AList cs)) n).
Proof.
  intros ->. split; [|exact I]. rewrite clv_cl_set. constructor; [|constructor]. reflexivity.
Qed.

(* same Content-Length values, same content, still a list (or still without Content-Length) *)
Lemma inv_keep r r' : cl_inv r -> clv r' = clv r -> content r' = content r ->
  (is_list r' \/ r_app r' = r_app r) -> cl_inv r'.
Proof.
  intros [F A] Hc Hb Hk. split; [rewrite Hc, Hb; exact F|].
  destruct Hk as [Hk|Hk].
  - unfold is_list in Hk. destruct (r_app r'); [exact I|contradiction|contradiction].
  - rewrite Hk, Hc. exact A.
Qed.

Lemma inv_keep_headers r h : cl_inv r -> clvals h = clv r -> cl_inv (with_headers r h).
Proof. intros Hi Hc. apply (inv_keep r); [exact Hi|exact Hc|reflexivity|right; reflexivity]. Qed.

Lemma inv_to_list r : cl_inv r -> cl_inv (with_app r (AList (chunks (r_app r)))).
Proof.
  intros Hi. apply (inv_keep r); [exact Hi|reflexivity| |left; exact I].
  unfold content. cbn [r_app with_app chunks]. reflexivity.
Qed.

Lemma inv_flatten r : cl_inv r -> cl_inv (with_app r (AList [content r])).
Proof.
  intros Hi. apply (inv_keep r); [exact Hi|reflexivity| |left; exact I].
  rewrite content_with_app. cbn [chunks]. apply concat_single.
Qed.

Lemma inv_iter_drained r cl : cl_inv r -> (exists cs, r_app r = AIter cl cs) -> cl_inv (with_app r (AIter cl [])).
Proof.
  intros [_ A] [cs E]. rewrite E in A. apply inv_no_cl. rewrite clv_with_app. exact A.
Qed.

(* reading Content-Length under the invariant *)
Lemma cl_get_inv r : cl_inv r ->
  (cl_get r = Ok None /\ clv r = []) \/ cl_get r = Ok (Some (blen (content r))).
Proof. intros [F _]. unfold cl_get. apply cl_read. exact F. Qed.

(* ---------- body getter ---------- *)
Lemma get_body_cases r :
  (exists b, r_app r = AList [b] /\ get_body r = (r, Ok b)) \/
  (let body := content r in
   let r1 := with_app r (AList [body]) in
   get_body r =
     if blen body =? 0 then (r1, Ok body)
     else match cl_get r1 with
          | Exc e => (r1, Exc e)
          | Ok None => (cl_set r1 (blen body), Ok body)
          | Ok (Some n) => if n =? blen body then (r1, Ok body) else (r1, Exc E_Assert)
          end).
Proof.
  unfold get_body, content. destruct (r_app r) as [[|b [|b2 cs]]|cl cs|cs] eqn:Ea.
  - right. reflexivity.
  - left. exists b. split; reflexivity.
  - right. reflexivity.
  - right. reflexivity.
  - right. reflexivity.
Qed.

Lemma get_body_inv r : cl_inv r -> cl_inv (fst (get_body r)).
Proof.
  intros Hi. destruct (get_body_cases r) as [[b [_ ->]]|H]; [exact Hi|].
  cbv zeta in H. rewrite H. pose proof (inv_flatten r Hi) as H1.
  destruct (blen (content r) =? 0); [exact H1|].
  destruct (cl_get (with_app r (AList [content r]))) as [[n|]|e]; cbn [fst]; try exact H1.
  - destruct (n =? blen (content r)); exact H1.
  - apply inv_cl_set_list. symmetry. f_equal. apply concat_single.
Qed.

Lemma get_body_content r : content (fst (get_body r)) = content r.
Proof.
  destruct (get_body_cases r) as [[b [_ ->]]|H]; [reflexivity|].
  cbv zeta in H. rewrite H.
  assert (E : content (with_app r (AList [content r])) = content r)
    by (rewrite content_with_app; apply concat_single).
  destruct (blen (content r) =? 0); [exact E|].
  destruct (cl_get (with_app r (AList [content r]))) as [[n|]|e]; cbn [fst]; try exact E.
  destruct (n =? blen (content r)); exact E.
Qed.

Lemma get_body_is_list r : is_list r -> is_list (fst (get_body r)).
Proof.
  intros Hl. destruct (get_body_cases r) as [[b [_ ->]]|H]; [exact Hl|].
  cbv zeta in H. rewrite H. destruct (blen (content r) =? 0); [exact I|].
  destruct (cl_get (with_app r (AList [content r]))) as [[n|]|e]; cbn [fst]; try exact I.
  destruct (n =? blen (content r)); exact I.
Qed.

Lemma get_body_list_always r : is_list (fst (get_body r)).
Proof.
  destruct (get_body_cases r) as [[b [Ea ->]]|H]; [unfold is_list; cbn [fst]; rewrite Ea; exact I|].
  cbv zeta in H. rewrite H. destruct (blen (content r) =? 0); [exact I|].
  destruct (cl_get (with_app r (AList [content r]))) as [[n|]|e]; cbn [fst]; try exact I.
  destruct (n =? blen (content r)); exact I.
Qed.

Lemma get_body_always_list r : is_list (fst (get_body r)) \/ fst (get_body r) = r.
Proof.
  destruct (get_body_cases r) as [[b [_ ->]]|H]; [right; reflexivity|left].
  cbv zeta in H. rewrite H. destruct (blen (content r) =? 0); [exact I|].
  destruct (cl_get (with_app r (AList [content r]))) as [[n|]|e]; cbn [fst]; try exact I.
  destruct (n =? blen (content r)); exact I.
Qed.

(* under the invariant .body returns exactly the bytes that would have been yielded *)
Lemma get_body_ok r : cl_inv r -> snd (get_body r) = Ok (content r).
Proof.
  intros Hi. destruct (get_body_cases r) as [[b [Ea ->]]|H].
  - cbn [snd]. unfold content. rewrite Ea. cbn [chunks]. rewrite concat_single. reflexivity.
  - cbv zeta in H. rewrite H. pose proof (inv_flatten r Hi) as H1.
    destruct (blen (content r) =? 0); [reflexivity|].
    destruct (cl_get_inv _ H1) as [[-> _]| ->]; [reflexivity|].
    rewrite content_with_app. cbn [chunks]. rewrite concat_single, N.eqb_refl. reflexivity.
Qed.

(* the only header .body may touch is Content-Length *)
Lemma get_body_hlast k r : k <> K_CL -> hlast k (r_headers (fst (get_body r))) = hlast k (r_headers r).
Proof.
  intros Hk. destruct (get_body_cases r) as [[b [_ ->]]|H]; [reflexivity|].
  cbv zeta in H. rewrite H. destruct (blen (content r) =? 0); [reflexivity|].
  destruct (cl_get (with_app r (AList [content r]))) as [[n|]|e]; cbn [fst]; try reflexivity.
  - destruct (n =? blen (content r)); reflexivity.
  - unfold cl_set. cbn [r_headers with_headers with_app]. apply hlast_hset_plain_other.
    rewrite lower_N_CL. congruence.
Qed.

Lemma get_body_status r : r_status (fst (get_body r)) = r_status r.
Proof.
  destruct (get_body_cases r) as [[b [_ ->]]|H]; [reflexivity|].
  cbv zeta in H. rewrite H. destruct (blen (content r) =? 0); [reflexivity|].
  destruct (cl_get (with_app r (AList [content r]))) as [[n|]|e]; cbn [fst]; try reflexivity.
  destruct (n =? blen (content r)); reflexivity.
Qed.

(* ---------- body setter ---------- *)
Lemma set_body_inv b r : cl_inv (set_body b r).
Proof. unfold set_body. apply inv_cl_set_list. symmetry. f_equal. apply concat_single. Qed.

Lemma set_body_content b r : content (set_body b r) = b.
Proof. unfold set_body. rewrite content_cl_set, content_with_app. apply concat_single. Qed.

Lemma set_body_clv b r : clv (set_body b r) = [dec (blen b)].
Proof. unfold set_body. apply clv_cl_set. Qed.

Lemma set_body_hlast k b r : k <> K_CL -> k <> K_CMD5 ->
  hlast k (r_headers (set_body b r)) = hlast k (r_headers r).
Proof.
  intros H1 H2. unfold set_body, cl_set. cbn [r_headers with_headers with_app].
  rewrite hlast_hset_plain_other by (rewrite lower_N_CL; congruence).
  apply hlast_hdel_other. exact H2.
Qed.

(* ---------- write ---------- *)
Lemma write_bytes_pre r :
  let r1 := match r_app r with
            | AList _ => r
            | a => cl_set (with_app r (AList (chunks a))) (sum_len (chunks a))
            end in
  cl_inv r -> cl_inv r1 /\ is_list r1 /\ content r1 = content r.
Proof.
  intros r1 Hi. subst r1. unfold is_list. destruct (r_app r) as [cs|cl cs|cs] eqn:Ea.
  - rewrite Ea. split; [exact Hi|split; [exact I|reflexivity]].
  - split; [apply inv_cl_set_list; apply sum_len_concat|]. split; [exact I|].
    unfold content. rewrite Ea. reflexivity.
  - split; [apply inv_cl_set_list; apply sum_len_concat|]. split; [exact I|].
    unfold content. rewrite Ea. reflexivity.
Qed.

Lemma write_bytes_spec x r : cl_inv r ->
  cl_inv (fst (write_bytes x r)) /\ content (fst (write_bytes x r)) = content r ++ x /\
  snd (write_bytes x r) = Ok (blen x) /\ is_list (fst (write_bytes x r)).
Proof.
  intros Hi. unfold write_bytes.
  destruct (write_bytes_pre r Hi) as [H1 [Hl Hc]].
  set (r1 := match r_app r with AList _ => r | a => cl_set (with_app r (AList (chunks a))) (sum_len (chunks a)) end) in *.
  set (r2 := with_app r1 (AList (chunks (r_app r1) ++ [x]))).
  assert (C2 : content r2 = content r ++ x).
  { unfold r2. rewrite content_with_app. cbn [chunks]. rewrite concat_app, concat_single, <- Hc. reflexivity. }
  unfold is_list in Hl.
  destruct (cl_get_inv r1 H1) as [[G Z]|G]; unfold cl_get in G |- *; cbn [r_headers with_app r2] in *; rewrite G.
  - cbn [fst snd]. split; [|split; [exact C2|split; [reflexivity|exact I]]].
    apply inv_no_cl. exact Z.
  - cbn [fst snd]. split; [|split; [exact C2|split; [reflexivity|exact I]]].
    unfold r2. apply inv_cl_set_list. rewrite concat_app, concat_single, blen_app. f_equal.
Qed.

(* ---------- every operation preserves the invariant ---------- *)
Section Ops.
  Variable gz : list bytes -> list bytes.
  Variable gunzip : bytes -> option bytes.
  Variable inflate : bytes -> option bytes.
  Variable md5b64 : bytes -> str.
  Variable uj : str -> str.
  Variable c : cfg.

  Lemma get_text_fst r : fst (get_text c r) = fst (get_body r) \/ fst (get_text c r) = r.
  Proof.
    unfold get_text. destruct (text_encoding c (r_headers r)); [left|right; reflexivity].
    destruct (get_body r) as [r1 [b|e]]; reflexivity.
  Qed.

  Lemma set_text_cases t r :
    (exists x, set_text c t r = (r, Some x)) \/
    (exists b e, set_text c t r = (set_body b r, None) /\ text_encoding c (r_headers r) = Some e /\ encode e t = Ok b).
  Proof.
    unfold set_text. destruct (text_encoding c (r_headers r)) as [e|]; [|left; eexists; reflexivity].
    destruct (encode e t) as [b|x] eqn:Ee; [right; exists b, e; split; [reflexivity|split; [reflexivity|exact Ee]]|left; exists x; reflexivity].
  Qed.

  Lemma set_text_inv t r : cl_inv r -> cl_inv (fst (set_text c t r)).
  Proof.
    intros Hi. destruct (set_text_cases t r) as [[x ->] | [b [e [-> _]]]]; cbn [fst]; [exact Hi|apply set_body_inv].
  Qed.

  Lemma write_text_inv t r : cl_inv r -> cl_inv (fst (write_text t r)).
  Proof.
    intros Hi. unfold write_text. destruct (charset_of (r_headers r)) as [[|x cs]|]; try exact Hi.
    destruct (encode (x :: cs) t) as [b|e]; [|exact Hi].
    apply (write_bytes_spec b r Hi).
  Qed.

  Lemma set_app_iter_inv a r : cl_inv (set_app_iter a r).
  Proof. unfold set_app_iter. apply inv_no_cl. rewrite clv_with_app. apply clv_cl_del. Qed.

  Lemma del_app_iter_inv r : cl_inv (del_app_iter r).
  Proof. apply inv_cl_del. Qed.

  Lemma decode_inv r : cl_inv r -> cl_inv (fst (decode_content gunzip inflate r)).
  Proof.
    intros Hi. unfold decode_content.
    set (ce := match content_encoding r with Some ((_ :: _) as v) => v | _ => s2l "identity" end).
    destruct (str_eqb ce (s2l "identity")); [exact Hi|].
    destruct (negb (str_eqb ce (s2l "gzip") || str_eqb ce (s2l "deflate"))); [exact Hi|].
    pose proof (get_body_inv r Hi) as H1.
    destruct (get_body r) as [r1 [b|e]]; cbn [fst] in *; [|exact H1].
    destruct (if str_eqb ce (s2l "gzip") then gunzip b else inflate b) as [d|]; cbn [fst]; [|exact H1].
    apply inv_keep_headers; [apply set_body_inv|].
    apply clvals_hdel_other. exact K_CE_ne.
  Qed.

  Lemma encode_inv g l r : cl_inv r -> cl_inv (fst (encode_content gz gunzip inflate g l r)).
  Proof.
    intros Hi. unfold encode_content. destruct g; cbn [negb]; [|apply decode_inv; exact Hi].
    destruct (match content_encoding r with Some v => str_eqb v (s2l "gzip") | None => false end); [exact Hi|].
    cbn [fst]. apply inv_keep_headers.
    - destruct l; [apply inv_cl_del|]. unfold set_app_iter. apply inv_cl_set_list. apply sum_len_concat.
    - apply clvals_hset_plain_other. exact N_CE_ne.
  Qed.

  Lemma md5_etag_inv m r : cl_inv r -> cl_inv (fst (md5_etag md5b64 m r)).
  Proof.
    intros Hi. unfold md5_etag. pose proof (get_body_inv r Hi) as H1.
    destruct (get_body r) as [r1 [b|e]]; cbn [fst] in *; [|exact H1].
    set (v := etag_quote (strip_by (fun x => x =? 61) (md5b64 b))).
    pose proof (clvals_hset_other N_ETAG v (r_headers r1) N_ETAG_ne) as P1.
    destruct (hset N_ETAG v (r_headers r1)) as [h1 e1]. cbn [fst] in P1.
    destruct e1 as [e|]; cbn [fst]; [apply inv_keep_headers; assumption|].
    destruct m; [|apply inv_keep_headers; assumption].
    pose proof (clvals_hset_other N_CMD5 (md5b64 b) h1 N_CMD5_ne) as P2.
    destruct (hset N_CMD5 (md5b64 b) h1) as [h2 e2]. cbn [fst] in *.
    apply inv_keep_headers; [exact H1|]. rewrite P2. exact P1.
  Qed.

  Lemma clvals_md5_etag_of b m h : clvals (fst (md5_etag_of md5b64 b m h)) = clvals h.
  Proof.
    unfold md5_etag_of.
    set (v := etag_quote (strip_by (fun x => x =? 61) (md5b64 b))).
    pose proof (clvals_hset_other N_ETAG v h N_ETAG_ne) as P1.
    destruct (hset N_ETAG v h) as [h1 e1]. cbn [fst] in P1.
    destruct e1 as [e|]; cbn [fst]; [exact P1|]. destruct m; [|exact P1].
    rewrite (clvals_hset_other N_CMD5 (md5b64 b) h1 N_CMD5_ne). exact P1.
  Qed.

  (* the constructor, when it is handed an app_iter and a header list (copy does that) *)
  Lemma mk_ct_given_headerlist a hb h : a_headerlist a = Some h -> fst (mk_ct c a hb) = h.
  Proof.
    intros H. unfold mk_ct. rewrite H. cbn [is_some negb andb].
    destruct (if truthy (a_ctype a) then a_ctype a else d_ctype c) as [[|x ctv]|]; reflexivity.
  Qed.

  Lemma clvals_mk_ct a hb :
    clvals (fst (mk_ct c a hb)) = clvals (match a_headerlist a with None => [] | Some h => h end).
  Proof.
    unfold mk_ct. destruct (if truthy (a_ctype a) then a_ctype a else d_ctype c) as [[|x ctv]|]; try reflexivity.
    destruct (negb (is_some (a_headerlist a)) && hb); [|reflexivity].
    cbn [fst]. rewrite clvals_app, (clvals_single_other _ _ N_CT_ne). apply app_nil_r.
  Qed.

  Lemma copy_spec r : cl_inv r ->
    cl_inv (fst (copy c r)) /\ content (fst (copy c r)) = content r /\ is_list (fst (copy c r)) /\
    forall r2, snd (copy c r) = Ok r2 ->
      cl_inv r2 /\ content r2 = content r /\ is_list r2 /\ r_headers r2 = r_headers r.
  Proof.
    intros Hi. unfold copy. cbn [fst snd]. split; [apply inv_to_list; exact Hi|].
    split; [reflexivity|]. split; [exact I|].
    intros r2. unfold mk. cbn [a_app a_body a_status a_cond].
    destruct (status_set (SStr (r_status r))) as [st|e]; [|discriminate].
    intros H. injection H as <-.
    match goal with |- context [mk_ct c ?a ?hb] =>
      rewrite (mk_ct_given_headerlist a hb (r_headers r) eq_refl) end.
    split; [|split; [reflexivity|split; [exact I|reflexivity]]].
    apply (inv_keep (with_app r (AList (chunks (r_app r))))); [apply inv_to_list; exact Hi|reflexivity|reflexivity|left; exact I].
  Qed.

  Lemma copy_inv sw r : cl_inv r ->
    cl_inv (match copy c r with (r1, Exc _) => r1 | (r1, Ok r2) => if sw : bool then r2 else r1 end).
  Proof.
    intros Hi. destruct (copy_spec r Hi) as [H1 [_ [_ H2]]].
    destruct (copy c r) as [r1 [r2|e]]; cbn [fst snd] in *; [|exact H1].
    destruct sw; [apply (H2 r2 eq_refl)|exact H1].
  Qed.

  Lemma call_inv head r : cl_inv r -> cl_inv (after (call uj head r)).
  Proof.
    intros Hi. unfold call. destruct head; cbn [after].
    - destruct (r_app r) as [cs|[|] cs|cs] eqn:Ea; try exact Hi.
      apply inv_iter_drained; [exact Hi|exists cs; exact Ea].
    - destruct (r_app r) as [cs|cl cs|cs] eqn:Ea; [exact Hi| |exact Hi].
      apply inv_iter_drained; [exact Hi|exists cs; exact Ea].
  Qed.

  Definition step' := step gz gunzip inflate md5b64 uj c.

  (* the one operation that writes a Content-Length of the caller's choosing: r.content_length = n
     (deleting it, r.content_length = None, is harmless) *)
  Definition raw_edit (o : op) : Prop :=
    match o with OSetContentLength (Some _) => True | _ => False end.

  (* body mutations after which the Content-Length is right again WHATEVER it was before: they clear or
     rewrite it (response.py: _body__set, _app_iter__set, _app_iter__del) *)
  Definition resetting (o : op) : Prop :=
    match o with OSetBody _ | ODelBody | OSetAppIter _ | ODelAppIter => True | _ => False end.

  Theorem step_resets r o : resetting o -> cl_inv (fst (step' r o)).
  Proof.
    unfold step', step. destruct o; try contradiction; intros _; cbn [fst].
    - apply set_body_inv.
    - apply set_body_inv.
    - apply set_app_iter_inv.
    - apply del_app_iter_inv.
  Qed.

  (* so does a gzip encode that really encodes, and a text assignment that succeeds *)
  Lemma encode_resets l r :
    (match content_encoding r with Some v => str_eqb v (s2l "gzip") = false | None => True end) ->
    cl_inv (fst (encode_content gz gunzip inflate true l r)).
  Proof.
    intros Hn. unfold encode_content. cbn [negb].
    replace (match content_encoding r with Some v => str_eqb v (s2l "gzip") | None => false end) with false
      by (destruct (content_encoding r); [symmetry; exact Hn|reflexivity]).
    cbn [fst]. apply inv_keep_headers.
    - destruct l; [apply inv_cl_del|]. unfold set_app_iter. apply inv_cl_set_list. apply sum_len_concat.
    - apply clvals_hset_plain_other. exact N_CE_ne.
  Qed.

  Lemma set_text_resets t r r0 : set_text c t r = (r0, None) -> cl_inv r0.
  Proof.
    intros H. destruct (set_text_cases t r) as [[x E]|[b [e [E _]]]]; rewrite E in H; [discriminate|].
    injection H as <-. apply set_body_inv.
  Qed.

  Theorem step_inv r o : ~ raw_edit o -> cl_inv r -> cl_inv (fst (step' r o)).
  Proof.
    intros Hraw Hi. unfold step', step. destruct o.
    - apply set_body_inv.
    - apply set_body_inv.
    - pose proof (set_text_inv t r Hi) as H. destruct (set_text c t r). exact H.
    - pose proof (get_body_inv r Hi) as H. destruct (get_body r). exact H.
    - pose proof (get_body_inv r Hi) as H. destruct (get_text_fst r) as [E|E]; destruct (get_text c r); cbn [fst] in *;
        rewrite E; assumption.
    - pose proof (write_bytes_spec b r Hi) as [H _]. destruct (write_bytes b r). exact H.
    - pose proof (write_text_inv t r Hi) as H. destruct (write_text t r). exact H.
    - apply set_app_iter_inv.
    - apply del_app_iter_inv.
    - pose proof (encode_inv gzip lazy r Hi) as H. destruct (encode_content gz gunzip inflate gzip lazy r). exact H.
    - pose proof (decode_inv r Hi) as H. destruct (decode_content gunzip inflate r). exact H.
    - pose proof (md5_etag_inv set_md5 r Hi) as H. destruct (md5_etag md5b64 set_md5 r). exact H.
    - pose proof (copy_inv switch r Hi) as H. destruct (copy c r) as [r1 [r2|e]]; exact H.
    - pose proof (clvals_set_charset c0 (r_headers r)) as H.
      destruct (set_charset c0 (r_headers r)) as [h e]. cbn [fst] in *. apply inv_keep_headers; assumption.
    - cbn [fst]. apply inv_keep_headers; [exact Hi|apply clvals_set_content_type].
    - destruct (status_set s); cbn [fst]; [|exact Hi].
      apply (inv_keep r); [exact Hi|reflexivity|reflexivity|right; reflexivity].
    - destruct v as [x|]; cbn [fst].
      + pose proof (clvals_hset_other N_LOC x (r_headers r) N_LOC_ne) as H.
        destruct (hset N_LOC x (r_headers r)) as [h e]. cbn [fst] in *. apply inv_keep_headers; assumption.
      + apply inv_keep_headers; [exact Hi|]. apply clvals_hdel_other. exact K_LOC_ne.
    - destruct n as [x|]; cbn [fst]; [exfalso; apply Hraw; exact I|apply inv_cl_del].
    - cbn [fst]. apply call_inv. exact Hi.
    - pose proof (clvals_md5_etag_of b set_md5 (r_headers r)) as H.
      destruct (md5_etag_of md5b64 b set_md5 (r_headers r)) as [h e]. cbn [fst] in *. apply inv_keep_headers; assumption.
    - cbn [fst]. apply (inv_keep r); [exact Hi|reflexivity|reflexivity|right; reflexivity].
  Qed.

  Theorem run_inv ops : Forall (fun o => ~ raw_edit o) ops ->
    forall r, cl_inv r -> cl_inv (run_ops gz gunzip inflate md5b64 uj c ops r).
  Proof.
    induction 1 as [|o ops Ho _ IH]; intros r Hi; [exact Hi|].
    unfold run_ops. cbn [fold_left]. apply IH. apply (step_inv r o Ho Hi).
  Qed.

  (* after ANY state (any earlier history, hand-written Content-Length included), a resetting body
     mutation followed by operations that do not write a Content-Length by hand *)
  Theorem run_inv_after_reset r o ops : resetting o -> Forall (fun o => ~ raw_edit o) ops ->
    cl_inv (run_ops gz gunzip inflate md5b64 uj c ops (fst (step' r o))).
  Proof. intros Hr Hf. apply run_inv; [exact Hf|]. apply step_resets. exact Hr. Qed.

  (* the constructor establishes it *)
  Theorem mk_inv a r : wf_args a -> mk c a = Ok r -> cl_inv r.
  Proof.
    unfold wf_args, mk. intros Hw.
    assert (Z : forall hb, clvals (fst (mk_ct c a hb)) = []).
    { intros hb. rewrite clvals_mk_ct. destruct (a_headerlist a); [exact Hw|reflexivity]. }
    assert (F : forall st hb cond b, cl_inv (mk_finish a st (fst (mk_ct c a hb)) cond b)).
    { intros st hb cond b. unfold mk_finish. split; [|exact I]. unfold clv. cbn [r_headers].
      rewrite clvals_app, (clvals_single_cl _ _ lower_N_CL).
      replace (clvals (if is_some (a_headerlist a) then hdel K_CL (fst (mk_ct c a hb)) else fst (mk_ct c a hb))) with (@nil str).
      - constructor; [|constructor]. unfold content. cbn [r_app chunks]. rewrite concat_single. reflexivity.
      - destruct (is_some (a_headerlist a)); [rewrite clvals_hdel_same|rewrite Z]; reflexivity. }
    destruct (a_app a) as [ap|] eqn:Ea; destruct (a_body a) as [bd|] eqn:Eb; try discriminate;
      destruct (match a_status a with None => Ok (s2l "200 OK") | Some s => status_set s end) as [st|e];
      try discriminate.
    - intros H. injection H as <-. apply inv_no_cl. apply Z.
    - destruct (code_has_body st).
      + destruct bd as [b|t].
        * intros H. injection H as <-. apply F.
        * destruct (if truthy (charset_of (fst (mk_ct c a true))) then charset_of (fst (mk_ct c a true)) else snd (mk_ct c a true));
            [|discriminate].
          destruct (encode s t); [|discriminate]. intros H. injection H as <-. apply F.
      + intros H. injection H as <-. apply inv_no_cl. apply Z.
    - destruct (code_has_body st).
      + intros H. injection H as <-. apply F.
      + intros H. injection H as <-. apply inv_no_cl. apply Z.
  Qed.

End Ops.
