(* C15 — the scanner on rendered headers: [scan (render ps tail) = (entries_of ps, tail)].
   Table facts are finite sweeps over the regenerated alphabets (vm_compute), lifted with forallb_forall. *)
From Coq Require Import Arith NArith List Bool Lia ZifyBool ZifyNat ZifyN.
Require Import Webob.Lib.Val Webob.Lib.PyStr Webob.Gen.C15_tables Webob.Model.C15_Scan Webob.Spec.C15_JarSpec.
Import ListNotations.
Local Open Scope N_scope.

(* ------------------------------------------------------------------ table facts *)
Lemma mem_n_In : forall c l, mem_n c l = true -> In c l.
Proof.
  induction l as [|x l IH]; cbn; intros Hm; [discriminate|].
  apply orb_true_iff in Hm. destruct Hm as [Hx|Hm].
  - left. apply N.eqb_eq in Hx. exact Hx.
  - right. auto.
Qed.

Definition legal_fact (c : N) : bool :=
  negb (is_ws c) && negb (c =? 34) && negb (c =? 44) && negb (c =? 59) && negb (c =? 92) && (c <? 256).

Lemma legal_sweep : forallb legal_fact legal_bytes = true.
Proof. vm_compute. reflexivity. Qed.

Lemma legal_facts : forall c, is_legal c = true -> legal_fact c = true.
Proof.
  intros c Hc. unfold is_legal in Hc. apply mem_n_In in Hc.
  exact (proj1 (forallb_forall _ _) legal_sweep c Hc).
Qed.

Lemma legal_not_ws : forall c, is_legal c = true -> is_ws c = false.
Proof. intros c Hc. pose proof (legal_facts c Hc) as Hf. unfold legal_fact in Hf. destruct (is_ws c); [cbn in Hf; discriminate|reflexivity]. Qed.

Lemma legal_neq : forall c, is_legal c = true -> c <> 34 /\ c <> 44 /\ c <> 59 /\ c <> 92.
Proof.
  intros c Hc. pose proof (legal_facts c Hc) as Hf. unfold legal_fact in Hf.
  repeat (apply andb_true_iff in Hf; destruct Hf as [Hf ?]).
  repeat split; intros ->; cbn in *; discriminate.
Qed.

Lemma not_legal_59 : is_legal 59 = false. Proof. vm_compute. reflexivity. Qed.
Lemma not_legal_32 : is_legal 32 = false. Proof. vm_compute. reflexivity. Qed.
Lemma not_legal_34 : is_legal 34 = false. Proof. vm_compute. reflexivity. Qed.

Lemma token_sweep : forallb keych valid_token_bytes = true.
Proof. vm_compute. reflexivity. Qed.

Lemma token_keych : forall c, is_token c = true -> keych c = true.
Proof.
  intros c Hc. unfold is_token in Hc. apply mem_n_In in Hc.
  exact (proj1 (forallb_forall _ _) token_sweep c Hc).
Qed.

Lemma keych_legal : forall c, keych c = true -> is_legal c = true.
Proof. intros c H. unfold keych in H. apply andb_true_iff in H. tauto. Qed.

Lemma keych_not_eq : forall c, keych c = true -> (c =? 61) = false.
Proof. intros c H. unfold keych in H. apply andb_true_iff in H. destruct H as [_ H]. destruct (c =? 61); [discriminate|reflexivity]. Qed.

Lemma keych_not_ws : forall c, keych c = true -> is_ws c = false.
Proof. intros c H. apply legal_not_ws, keych_legal, H. Qed.

Local Opaque is_legal.

(* ------------------------------------------------------------------ white space and the '=' separator *)
Definition no_ws_head (s : str) : bool := match s with [] => true | c :: _ => negb (is_ws c) end.

Lemma span_ws_app : forall w r, forallb is_ws w = true -> no_ws_head r = true -> span_ws (w ++ r) = (w, r).
Proof.
  induction w as [|c w IH]; intros r Hw Hr.
  - cbn. destruct r as [|d r]; [reflexivity|]. cbn in Hr. cbn. destruct (is_ws d); [discriminate|reflexivity].
  - cbn in Hw. apply andb_true_iff in Hw. destruct Hw as [Hc Hw].
    cbn. rewrite Hc. rewrite (IH r Hw Hr). reflexivity.
Qed.

Lemma eq_sep_app : forall w1 w2 r, forallb is_ws w1 = true -> forallb is_ws w2 = true -> no_ws_head r = true ->
  eq_sep (w1 ++ 61 :: w2 ++ r) = Some (w1 ++ 61 :: w2, r).
Proof.
  intros w1 w2 r H1 H2 Hr. unfold eq_sep.
  rewrite (span_ws_app w1 (61 :: w2 ++ r) H1 eq_refl).
  cbn [N.eqb Pos.eqb]. rewrite (span_ws_app w2 r H2 Hr). reflexivity.
Qed.

(* what \s*= sees when the text starts with something that is neither white space nor '=' *)
Lemma eq_sep_head : forall c s, is_ws c = false -> (c =? 61) = false -> eq_sep (c :: s) = None.
Proof. intros c s Hw He. unfold eq_sep. cbn. rewrite Hw, He. reflexivity. Qed.

(* … and on '='-free text followed by the end or by such a character *)
Definition stops_eq (rest : str) : bool :=
  match rest with [] => true | c :: _ => negb (is_ws c) && negb (c =? 61) end.

Lemma eq_sep_noeq : forall t rest, noeq t = true -> stops_eq rest = true -> eq_sep (t ++ rest) = None.
Proof.
  assert (Hgen : forall t rest, noeq t = true -> stops_eq rest = true ->
            match snd (span_ws (t ++ rest)) with [] => True | c :: _ => (c =? 61) = false end).
  { induction t as [|c t IH]; intros rest Ht Hr.
    - cbn [app]. destruct rest as [|d rest]; [exact I|]. cbn in Hr. apply andb_true_iff in Hr. destruct Hr as [Hw He].
      cbn. destruct (is_ws d); [discriminate|]. cbn. destruct (d =? 61); [discriminate|reflexivity].
    - cbn in Ht. apply andb_true_iff in Ht. destruct Ht as [Hc Ht].
      cbn [app span_ws]. destruct (is_ws c).
      + specialize (IH rest Ht Hr). destruct (span_ws (t ++ rest)) as [a r]. exact IH.
      + cbn. destruct (c =? 61); [discriminate|reflexivity]. }
  intros t rest Ht Hr. specialize (Hgen t rest Ht Hr). unfold eq_sep.
  destruct (span_ws (t ++ rest)) as [a r]. cbn in Hgen. destruct r as [|c r]; [reflexivity|]. rewrite Hgen. reflexivity.
Qed.

(* ------------------------------------------------------------------ the lazy key *)
Lemma match_key_app : forall k sp r, key_ok k = true -> eq_sep (sp ++ r) = Some (sp, r) ->
  match_key (k ++ sp ++ r) = Some (k, sp, r).
Proof.
  induction k as [|c k IH]; intros sp r Hk Hs; [discriminate|].
  cbn in Hk. apply andb_true_iff in Hk. destruct Hk as [Hc Hk].
  cbn [app match_key]. rewrite (keych_legal c Hc).
  destruct k as [|d k].
  - cbn [app]. rewrite Hs. reflexivity.
  - assert (Hd : keych d = true) by (cbn in Hk; apply andb_true_iff in Hk; tauto).
    change ((d :: k) ++ sp ++ r) with (d :: (k ++ sp ++ r)).
    rewrite (eq_sep_head d _ (keych_not_ws d Hd) (keych_not_eq d Hd)).
    change (d :: (k ++ sp ++ r)) with ((d :: k) ++ sp ++ r).
    rewrite (IH sp r); [reflexivity| |exact Hs].
    cbn. exact Hk.
Qed.

(* no key starts inside '='-free text that is followed by the end, or that ends in a non-legal character and is
   followed by a name *)
Definition gap_then (t rest : str) : bool :=
  match rest with
  | [] => true
  | c :: _ => keych c && match t with [] => true | _ => negb (is_legal (last t 0)) end
  end.

Lemma keych_stops : forall rest, match rest with [] => true | c :: _ => keych c end = true -> stops_eq rest = true.
Proof.
  intros [|c r] H; [reflexivity|]. cbn. rewrite (keych_not_ws c H), (keych_not_eq c H). reflexivity.
Qed.

Lemma match_key_gap : forall t rest, t <> [] -> noeq t = true -> gap_then t rest = true -> match_key (t ++ rest) = None.
Proof.
  induction t as [|c t IH]; intros rest Hne Ht Hg; [congruence|].
  cbn in Ht. apply andb_true_iff in Ht. destruct Ht as [Hc Ht].
  cbn [app match_key]. destruct (is_legal c) eqn:Hl; [|reflexivity].
  assert (Hstop : stops_eq rest = true).
  { apply keych_stops. destruct rest as [|d r]; [reflexivity|]. cbn in Hg. apply andb_true_iff in Hg. tauto. }
  rewrite (eq_sep_noeq t rest Ht Hstop).
  destruct t as [|d t].
  - (* c is the last character of the gap: then nothing may follow *)
    destruct rest as [|e r]; [reflexivity|]. cbn [gap_then last] in Hg. rewrite Hl in Hg. apply andb_true_iff in Hg. destruct Hg; discriminate.
  - rewrite IH; [reflexivity|discriminate|exact Ht|].
    destruct rest as [|e r]; [reflexivity|]. cbn [gap_then] in *. exact Hg.
Qed.

(* ------------------------------------------------------------------ the value alternatives *)
Lemma alt_quoted_none : forall s, match s with [] => true | c :: _ => negb (c =? 34) end = true -> alt_quoted s = None.
Proof. intros [|c s] H; [reflexivity|]. cbn. destruct (c =? 34); [discriminate|reflexivity]. Qed.

Lemma alt_expires_none : forall s,
  match s with
  | a :: b :: c :: d :: _ => negb (is_word a && is_word b && is_word c && (d =? 44))
  | _ => true
  end = true -> alt_expires s = None.
Proof.
  intros s H. unfold alt_expires.
  destruct s as [|a [|b [|c [|d t]]]]; unfold seq2 at 1; cbn [take_exact pre].
  - reflexivity.
  - destruct (is_word a); reflexivity.
  - destruct (is_word a); [|reflexivity]. destruct (is_word b); reflexivity.
  - destruct (is_word a); [|reflexivity]. destruct (is_word b); [|reflexivity]. destruct (is_word c); reflexivity.
  - destruct (is_word a); [|reflexivity]. destruct (is_word b); [|reflexivity]. destruct (is_word c); [|reflexivity].
    cbn [pre]. unfold seq2 at 1. cbn [one]. rewrite N.eqb_sym. cbn in H. destruct (d =? 44); [discriminate|reflexivity].
Qed.

Lemma follows_not_ws : forall rest, follows_ok rest = true -> no_ws_head rest = true.
Proof. intros [|c r] H; [reflexivity|]. cbn in *. apply N.eqb_eq in H. subst c. reflexivity. Qed.

Lemma u_body_app : forall u rest, forallb is_legal u = true -> follows_ok rest = true -> u_body (u ++ rest) = (u, rest).
Proof.
  induction u as [|c u IH]; intros rest Hu Hr.
  - cbn [app]. destruct rest as [|d r]; [reflexivity|]. cbn in Hr. apply N.eqb_eq in Hr. subst d.
    cbn [u_body]. rewrite not_legal_59. reflexivity.
  - cbn in Hu. apply andb_true_iff in Hu. destruct Hu as [Hc Hu].
    cbn [app u_body]. rewrite Hc. rewrite (IH rest Hu Hr). reflexivity.
Qed.

Lemma unquoted_val : forall u rest, forallb is_legal u = true -> follows_ok rest = true ->
  match_val (u ++ rest) = (u, rest).
Proof.
  intros u rest Hu Hr. unfold match_val.
  rewrite alt_quoted_none.
  2:{ destruct u as [|c u]; cbn [app].
      - destruct rest as [|d r]; [reflexivity|]. cbn in Hr. apply N.eqb_eq in Hr. subst d. reflexivity.
      - cbn in Hu. apply andb_true_iff in Hu. destruct Hu as [Hc _]. destruct (legal_neq c Hc) as [H34 _].
        apply N.eqb_neq in H34. rewrite H34. reflexivity. }
  rewrite alt_expires_none; [apply u_body_app; assumption|].
  (* the fourth character is a legal character of u (never a comma), or the ';' after it *)
  assert (Hno : forall c, is_legal c = true -> (c =? 44) = false).
  { intros c Hc. destruct (legal_neq c Hc) as [_ [H44 _]]. apply N.eqb_neq. exact H44. }
  destruct u as [|a [|b [|c [|d u]]]]; cbn [app]; cbn in Hu;
    repeat (apply andb_true_iff in Hu; destruct Hu as [? Hu]).
  - destruct rest as [|x [|y [|z [|w r]]]]; try reflexivity. cbn in Hr. apply N.eqb_eq in Hr. subst x. reflexivity.
  - destruct rest as [|x [|y [|z r]]]; try reflexivity. cbn in Hr. apply N.eqb_eq in Hr. subst x.
    replace (is_word 59) with false by reflexivity. rewrite andb_false_r. reflexivity.
  - destruct rest as [|x [|y r]]; try reflexivity. cbn in Hr. apply N.eqb_eq in Hr. subst x.
    replace (is_word 59) with false by reflexivity. rewrite andb_false_r. reflexivity.
  - destruct rest as [|x r]; try reflexivity. cbn in Hr. apply N.eqb_eq in Hr. subst x.
    replace (59 =? 44) with false by reflexivity. rewrite andb_false_r. reflexivity.
  - rewrite (Hno d) by assumption. rewrite andb_false_r. reflexivity.
Qed.

Lemma q_body_app : forall b rest, forallb qch b = true -> (last b 0 =? 92) = false ->
  q_body (b ++ 34 :: rest) = Some (b ++ [34], rest).
Proof.
  induction b as [|c b IH]; intros rest Hb Hl.
  - reflexivity.
  - cbn in Hb. apply andb_true_iff in Hb. destruct Hb as [Hc Hb].
    unfold qch in Hc. apply andb_true_iff in Hc. destruct Hc as [H34 H10].
    apply negb_true_iff in H34. apply negb_true_iff in H10.
    cbn [app q_body]. rewrite H34.
    assert (Hl' : (last b 0 =? 92) = false \/ b = []).
    { destruct b as [|d b]; [right; reflexivity|left]. exact Hl. }
    destruct (c =? 92) eqn:H92.
    + destruct b as [|d b].
      * cbn in Hl. rewrite Hl in H92. discriminate.
      * cbn [app]. assert (Hd : (d =? 34) = false).
        { cbn in Hb. apply andb_true_iff in Hb. destruct Hb as [Hd _]. unfold qch in Hd.
          apply andb_true_iff in Hd. destruct Hd as [Hd _]. apply negb_true_iff in Hd. exact Hd. }
        rewrite Hd. change (d :: b ++ 34 :: rest) with ((d :: b) ++ 34 :: rest).
        rewrite (IH rest Hb); [reflexivity|]. destruct Hl' as [H|H]; [exact H|discriminate].
    + rewrite H10. destruct b as [|d b].
      * reflexivity.
      * rewrite (IH rest Hb); [reflexivity|]. destruct Hl' as [H|H]; [exact H|discriminate].
Qed.

Lemma quoted_val : forall b rest, forallb qch b = true -> (last b 0 =? 92) = false ->
  match_val (34 :: b ++ 34 :: rest) = (34 :: b ++ [34], rest).
Proof.
  intros b rest Hb Hl. unfold match_val, alt_quoted. cbn [N.eqb Pos.eqb].
  rewrite (q_body_app b rest Hb Hl). reflexivity.
Qed.

Lemma val_match : forall v rest, val_ok v = true -> follows_ok rest = true ->
  match_val (val_text v ++ rest) = (val_text v, rest).
Proof.
  intros [u|b] rest Hv Hr; cbn [val_text val_ok] in *.
  - apply unquoted_val; assumption.
  - apply andb_true_iff in Hv. destruct Hv as [Hv _].
    apply andb_true_iff in Hv. destruct Hv as [Hb Hl]. apply negb_true_iff in Hl.
    cbn [app]. rewrite <- app_assoc. cbn [app]. apply quoted_val; assumption.
Qed.

Lemma val_text_no_ws_head : forall v rest, val_ok v = true -> follows_ok rest = true -> no_ws_head (val_text v ++ rest) = true.
Proof.
  intros [u|b] rest Hv Hr; cbn [val_text val_ok] in *.
  - destruct u as [|c u]; cbn [app].
    + apply follows_not_ws, Hr.
    + cbn in Hv. apply andb_true_iff in Hv. destruct Hv as [Hc _]. cbn. rewrite (legal_not_ws c Hc). reflexivity.
  - reflexivity.
Qed.

(* ------------------------------------------------------------------ one pair *)
Lemma item_match : forall i rest, item_ok i = true -> follows_ok rest = true ->
  match_at (item_text i ++ rest) = Some (i_key i, item_sep i, val_text (i_val i), rest).
Proof.
  intros i rest Hi Hr. unfold item_ok in Hi.
  repeat (apply andb_true_iff in Hi; destruct Hi as [Hi ?]).
  rename Hi into Hk, H1 into Hw1, H0 into Hw2, H into Hv.
  assert (Heq : item_text i ++ rest = i_key i ++ (i_w1 i ++ 61 :: i_w2 i) ++ (val_text (i_val i) ++ rest)).
  { unfold item_text, item_sep. rewrite <- !app_assoc. reflexivity. }
  unfold match_at. rewrite Heq.
  rewrite (match_key_app (i_key i) (i_w1 i ++ 61 :: i_w2 i) (val_text (i_val i) ++ rest) Hk).
  - rewrite (val_match _ _ Hv Hr). reflexivity.
  - rewrite <- app_assoc. cbn [app]. apply eq_sep_app; try assumption. apply val_text_no_ws_head; assumption.
Qed.

(* ------------------------------------------------------------------ the whole header *)
Definition entry_of (p : str * item) : entry :=
  mkEntry (fst p) (i_key (snd p)) (item_sep (snd p)) (val_text (i_val (snd p))).
Definition entries_of (ps : list (str * item)) : list entry := map entry_of ps.

Lemma push_fold_entry : forall g k sp v es tail,
  fold_right push (mkEntry [] k sp v :: es, tail) g = (mkEntry g k sp v :: es, tail).
Proof.
  induction g as [|c g IH]; intros; [reflexivity|]. cbn [fold_right]. rewrite IH. cbn. rewrite app_nil_r || reflexivity.
Qed.

Lemma push_fold_tail : forall g t, fold_right push (@nil entry, t) g = ([], g ++ t).
Proof. induction g as [|c g IH]; intros; [reflexivity|]. cbn [fold_right]. rewrite IH. reflexivity. Qed.

Lemma scan_fuel_nil : forall f, scan_fuel f [] = ([], []).
Proof. destruct f; reflexivity. Qed.

Lemma scan_fuel_miss : forall f c s, match_key (c :: s) = None -> scan_fuel (S f) (c :: s) = push c (scan_fuel f s).
Proof. intros f c s H. cbn [scan_fuel]. unfold match_at. rewrite H. reflexivity. Qed.

Lemma scan_fuel_hit : forall f s k sp v r, s <> [] -> match_at s = Some (k, sp, v, r) ->
  scan_fuel (S f) s = (mkEntry [] k sp v :: fst (scan_fuel f r), snd (scan_fuel f r)).
Proof.
  intros f s k sp v r Hne H. destruct s as [|c s]; [congruence|]. cbn [scan_fuel]. rewrite H.
  destruct (scan_fuel f r). reflexivity.
Qed.

Lemma gap_then_tail : forall c g rest, gap_then (c :: g) rest = true -> gap_then g rest = true.
Proof.
  intros c g rest H. destruct rest as [|d r]; [reflexivity|]. cbn [gap_then] in *.
  apply andb_true_iff in H. destruct H as [Hd Hl]. rewrite Hd. destruct g as [|e g]; [reflexivity|]. exact Hl.
Qed.

Lemma scan_gap : forall g rest f, noeq g = true -> gap_then g rest = true -> (length g + length rest < f)%nat ->
  scan_fuel f (g ++ rest) = fold_right push (scan_fuel (f - length g) rest) g.
Proof.
  induction g as [|c g IH]; intros rest f Hn Hg Hf.
  - cbn. rewrite Nat.sub_0_r. reflexivity.
  - destruct f as [|f]; [cbn in Hf; lia|].
    cbn [app]. rewrite scan_fuel_miss.
    + cbn [fold_right length Nat.sub]. f_equal. apply IH.
      * cbn in Hn. apply andb_true_iff in Hn. tauto.
      * eapply gap_then_tail. exact Hg.
      * cbn in Hf. lia.
    + change (c :: g ++ rest) with ((c :: g) ++ rest). apply match_key_gap; [discriminate|exact Hn|exact Hg].
Qed.

Lemma render_cons : forall g i ps tail, render ((g, i) :: ps) tail = g ++ item_text i ++ render ps tail.
Proof. intros. unfold render. cbn [flat_map fst snd]. rewrite <- !app_assoc. reflexivity. Qed.

Lemma key_ok_cons : forall k, key_ok k = true -> exists c k', k = c :: k' /\ keych c = true.
Proof.
  intros [|c k] H; [discriminate|]. exists c, k. split; [reflexivity|]. cbn in H. apply andb_true_iff in H. tauto.
Qed.

Lemma item_ok_key : forall i, item_ok i = true -> key_ok (i_key i) = true.
Proof. intros i H. unfold item_ok in H. repeat (apply andb_true_iff in H; destruct H as [H ?]). exact H. Qed.

Lemma scan_render : forall ps tail f, wf_ps ps tail = true -> (length (render ps tail) < f)%nat ->
  scan_fuel f (render ps tail) = (entries_of ps, tail).
Proof.
  induction ps as [|[g i] ps IH]; intros tail f Hwf Hf.
  - cbn [wf_ps] in Hwf. apply andb_true_iff in Hwf. destruct Hwf as [Hwf _]. unfold render in *. cbn [flat_map app] in *.
    rewrite <- (app_nil_r tail) at 1. rewrite scan_gap; [|exact Hwf|reflexivity|cbn [length]; lia].
    rewrite scan_fuel_nil, push_fold_tail, app_nil_r. reflexivity.
  - cbn [wf_ps] in Hwf.
    apply andb_true_iff in Hwf. destruct Hwf as [Hwf Hrest].
    apply andb_true_iff in Hwf. destruct Hwf as [Hwf Hfo].
    apply andb_true_iff in Hwf. destruct Hwf as [Hg Hi].
    rewrite render_cons in *.
    destruct (key_ok_cons _ (item_ok_key i Hi)) as [c [k' [Hk Hc]]].
    unfold gap_ok in Hg. apply andb_true_iff in Hg. destruct Hg as [Hg _].
    apply andb_true_iff in Hg. destruct Hg as [Hn Hl].
    assert (Hlen : (length (item_text i) >= 1)%nat).
    { unfold item_text. rewrite Hk. cbn. lia. }
    rewrite scan_gap; [|exact Hn| |rewrite !app_length in *; lia].
    2:{ unfold item_text. rewrite Hk. cbn [app gap_then]. rewrite Hc. exact Hl. }
    rewrite !app_length in Hf.
    destruct (f - length g)%nat as [|f'] eqn:Hf'; [lia|].
    assert (Hne : item_text i ++ render ps tail <> []) by (unfold item_text; rewrite Hk; discriminate).
    rewrite (scan_fuel_hit f' _ _ _ _ _ Hne (item_match i _ Hi Hfo)).
    rewrite (IH tail f' Hrest) by lia.
    cbn [fst snd]. rewrite push_fold_entry. reflexivity.
Qed.

Theorem scan_wf : forall ps tail, wf_ps ps tail = true -> scan (render ps tail) = (entries_of ps, tail).
Proof. intros ps tail H. unfold scan. apply scan_render; [exact H|lia]. Qed.
