(* C08 — dict_of_lists / mixed of the code-shaped model against their declarative reading:
   one entry per distinct (normalised) key in order of first occurrence, carrying all values stored
   under that key in order; mixed shows a single value bare. *)
From Coq Require Import ZArith NArith List Bool Lia.
Require Import Webob.Lib.Val Webob.Lib.PyStr Webob.Model.MultiDict Webob.Proofs.C08_multidict.
Import ListNotations.

Section Dicts.
  Variable norm : str -> str.
  Variable rh : bool.
  Notation dkey := (dkey norm rh).

  (* declarative reading *)
  Fixpoint dedup (ks : list str) : list str :=
    match ks with
    | [] => []
    | k :: r => k :: filter (fun x => negb (str_eqb x k)) (dedup r)
    end.
  Definition values_of (k : str) (l : items) : list str :=
    map snd (filter (fun kv => str_eqb (dkey (fst kv)) k) l).
  Definition dol_spec (l : items) : list (str * list str) :=
    map (fun k => (k, values_of k l)) (dedup (map (fun kv => dkey (fst kv)) l)).

  (* the implementation's loop body *)
  Definition upsert (r : list (str * list str)) (kv : item) : list (str * list str) :=
    let k' := dkey (fst kv) in
    match assoc_get k' r with
    | Some vs => assoc_set k' (vs ++ [snd kv]) r
    | None => r ++ [(k', [snd kv])]
    end.

  Lemma dol_go_fold l : forall r, dol_go norm rh l r = fold_left upsert l r.
  Proof.
    induction l as [|[k v] l IH]; intros r; cbn; [reflexivity|].
    unfold upsert at 2. cbn [fst snd]. destruct (assoc_get (dkey k) r); apply IH.
  Qed.

  Lemma str_eqb_sym a b : str_eqb a b = str_eqb b a.
  Proof.
    destruct (str_eqb a b) eqn:E.
    - apply str_eqb_eq in E as ->. symmetry. apply str_eqb_refl.
    - destruct (str_eqb b a) eqn:E2; [|reflexivity]. apply str_eqb_eq in E2 as ->.
      rewrite str_eqb_refl in E. discriminate.
  Qed.

  (* dedup of a list extended on the right *)
  Lemma dedup_snoc ks k :
    dedup (ks ++ [k]) = if existsb (fun x => str_eqb x k) ks then dedup ks else dedup ks ++ [k].
  Proof.
    induction ks as [|a ks IH]; cbn; [reflexivity|].
    rewrite IH. destruct (str_eqb a k) eqn:E; cbn.
    - destruct (existsb (fun x => str_eqb x k) ks); [reflexivity|].
      rewrite filter_app. cbn. apply str_eqb_eq in E as ->. rewrite str_eqb_refl. cbn.
      rewrite app_nil_r. reflexivity.
    - destruct (existsb (fun x => str_eqb x k) ks); [reflexivity|].
      rewrite filter_app. cbn. rewrite str_eqb_sym, E. reflexivity.
  Qed.

  Lemma in_dedup ks k : In k (dedup ks) <-> In k ks.
  Proof.
    induction ks as [|a ks IH]; cbn; [tauto|]. rewrite filter_In, IH. split.
    - intros [->|[H _]]; auto.
    - intros [->|H]; [auto|]. destruct (str_eqb k a) eqn:E.
      + apply str_eqb_eq in E as ->. auto.
      + right. split; [exact H|reflexivity].
  Qed.

  Lemma existsb_str_in ks k : existsb (fun x => str_eqb x k) ks = true <-> In k ks.
  Proof.
    rewrite existsb_exists. split.
    - intros (x & Hx & E). apply str_eqb_eq in E as ->. exact Hx.
    - intros H. exists k. split; [exact H|apply str_eqb_refl].
  Qed.

  (* lookup / update in the declarative dictionary *)
  Lemma assoc_get_map (f : str -> list str) ks k :
    assoc_get k (map (fun x => (x, f x)) ks) = if existsb (fun x => str_eqb x k) ks then Some (f k) else None.
  Proof.
    induction ks as [|a ks IH]; cbn; [reflexivity|].
    destruct (str_eqb a k) eqn:E; cbn; [apply str_eqb_eq in E as ->; reflexivity|exact IH].
  Qed.

  Lemma nodup_dedup ks a : ~ In a (filter (fun x => negb (str_eqb x a)) ks).
  Proof. rewrite filter_In. intros [_ H]. rewrite str_eqb_refl in H. discriminate. Qed.

  Lemma assoc_set_map (f g : str -> list str) ks k :
    NoDup ks -> (forall x, x <> k -> g x = f x) ->
    In k ks ->
    assoc_set k (g k) (map (fun x => (x, f x)) ks) = map (fun x => (x, g x)) ks.
  Proof.
    intros Hnd Hg. induction Hnd as [|a ks Hna Hnd IH]; intros Hin; [contradiction|].
    cbn. destruct (str_eqb a k) eqn:E.
    - apply str_eqb_eq in E. rewrite E in Hna |- *. f_equal. apply map_ext_in. intros x Hx. rewrite Hg; [reflexivity|].
      intros Hxk. rewrite Hxk in Hx. contradiction.
    - destruct Hin as [->|Hin]; [rewrite str_eqb_refl in E; discriminate|].
      rewrite (Hg a) by (intros Hak; rewrite Hak, str_eqb_refl in E; discriminate). f_equal. apply IH, Hin.
  Qed.

  Lemma NoDup_dedup ks : NoDup (dedup ks).
  Proof.
    induction ks as [|a ks IH]; cbn; constructor.
    - apply nodup_dedup.
    - apply NoDup_filter, IH.
  Qed.

  Lemma values_of_snoc k l kv :
    values_of k (l ++ [kv]) = if str_eqb (dkey (fst kv)) k then values_of k l ++ [snd kv] else values_of k l.
  Proof.
    unfold values_of. rewrite filter_app, map_app. cbn.
    destruct (str_eqb (dkey (fst kv)) k); cbn; [reflexivity|apply app_nil_r].
  Qed.

  Lemma dol_spec_snoc l kv : dol_spec (l ++ [kv]) = upsert (dol_spec l) kv.
  Proof.
    unfold dol_spec, upsert. set (ks := map (fun kv0 => dkey (fst kv0)) l). set (k' := dkey (fst kv)).
    rewrite map_app. cbn [map]. fold ks k'. rewrite dedup_snoc.
    change (map (fun kv0 : str * str => dkey (fst kv0)) l) with ks.
    rewrite (assoc_get_map (fun k => values_of k l)).
    assert (Hex : existsb (fun x => str_eqb x k') (dedup ks) = existsb (fun x => str_eqb x k') ks).
    { apply eq_true_iff_eq. rewrite !existsb_str_in. apply in_dedup. }
    rewrite Hex. destruct (existsb (fun x => str_eqb x k') ks) eqn:E.
    - (* key already present: its entry gains the value, every other entry is unchanged *)
      symmetry.
      replace (values_of k' l ++ [snd kv]) with (values_of k' (l ++ [kv]))
        by (rewrite values_of_snoc; fold k'; rewrite str_eqb_refl; reflexivity).
      apply (assoc_set_map (fun k => values_of k l) (fun k => values_of k (l ++ [kv])) (dedup ks) k').
      + apply NoDup_dedup.
      + intros x Hx. rewrite values_of_snoc. fold k'. destruct (str_eqb k' x) eqn:E2; [|reflexivity].
        apply str_eqb_eq in E2. congruence.
      + apply in_dedup, existsb_str_in, E.
    - rewrite map_app. cbn [map]. f_equal.
      + apply map_ext_in. intros x Hx. rewrite values_of_snoc. fold k'.
        destruct (str_eqb k' x) eqn:E2; [|reflexivity]. apply str_eqb_eq in E2. rewrite <- E2 in Hx.
        apply (proj1 (in_dedup _ _)) in Hx. apply (proj2 (existsb_str_in _ _)) in Hx. rewrite Hx in E. discriminate.
      + rewrite values_of_snoc. fold k'. rewrite str_eqb_refl.
        assert (V : values_of k' l = []).
        { unfold values_of.
          assert (F : forall l0, (forall y, In y l0 -> In y l) ->
                      filter (fun kv0 => str_eqb (dkey (fst kv0)) k') l0 = []).
          { induction l0 as [|y l0 IHl]; intros Hsub; [reflexivity|]. cbn.
            destruct (str_eqb (dkey (fst y)) k') eqn:Ey.
            - exfalso. apply str_eqb_eq in Ey.
              assert (Hin : In k' ks).
              { rewrite <- Ey. unfold ks. apply in_map_iff. exists y. split; [reflexivity|]. apply Hsub. left. reflexivity. }
              apply (proj2 (existsb_str_in _ _)) in Hin. rewrite Hin in E. discriminate.
            - apply IHl. intros z Hz. apply Hsub. right. exact Hz. }
          rewrite (F l) by auto. reflexivity. }
        rewrite V. reflexivity.
  Qed.

  Theorem dict_of_lists_spec l : dict_of_lists_i norm rh l = dol_spec l.
  Proof.
    unfold dict_of_lists_i. rewrite dol_go_fold.
    induction l as [|kv l IH] using rev_ind; [reflexivity|].
    rewrite fold_left_app. cbn [fold_left]. rewrite IH. symmetry. apply dol_spec_snoc.
  Qed.
End Dicts.

(* ---------- MultiDict.mixed: same dictionary, single values shown bare ---------- *)
Section Mixed.
  Variable norm : str -> str.

  Definition show_vals (vs : list str) : val :=
    match vs with [v] => VStr v | _ => VList (map VStr vs) end.

  (* the result/multi pair of dictionaries carries exactly dict_of_lists plus a flag "has >= 2 values" *)
  Definition flag_ok (e : str * (bool * list str)) : Prop :=
    let '(_, (b, vs)) := e in vs <> [] /\ b = (2 <=? length vs)%nat.
  Definition strip (res : list (str * (bool * list str))) : list (str * list str) :=
    map (fun e => (fst e, snd (snd e))) res.

  Lemma assoc_get_strip k res :
    assoc_get k (strip res) = option_map snd (assoc_get k res).
  Proof.
    unfold strip. induction res as [|[a [b vs]] res IH]; cbn; [reflexivity|]. destruct (str_eqb a k); [reflexivity|exact IH].
  Qed.

  Lemma assoc_set_strip k b vs res :
    strip (assoc_set k (b, vs) res) = assoc_set k vs (strip res).
  Proof.
    unfold strip. induction res as [|[a [b0 vs0]] res IH]; cbn; [reflexivity|].
    destruct (str_eqb a k); cbn; [reflexivity|]. rewrite IH. reflexivity.
  Qed.

  Lemma assoc_get_in {A} k (d : list (str * A)) a : assoc_get k d = Some a -> exists k0, In (k0, a) d.
  Proof.
    induction d as [|[x y] d IH]; cbn; [discriminate|]. destruct (str_eqb x k).
    - intros [= ->]. exists x. left. reflexivity.
    - intros H. destruct (IH H) as [k0 H0]. exists k0. right. exact H0.
  Qed.

  Lemma assoc_set_forall {A} (P : str * A -> Prop) k a (d : list (str * A)) :
    Forall P d -> (forall k0, P (k0, a)) -> Forall P (assoc_set k a d).
  Proof.
    intros Hd Ha. induction Hd as [|[x y] d Hx Hd IH]; cbn; [constructor; [apply Ha|constructor]|].
    destruct (str_eqb x k); constructor; auto.
  Qed.

  Lemma mixed_go_sim l : forall res,
    Forall flag_ok res ->
    strip (mixed_go l res) = dol_go (fun k => k) false l (strip res) /\ Forall flag_ok (mixed_go l res).
  Proof.
    induction l as [|[k v] l IH]; intros res Hres; cbn; [split; [reflexivity|exact Hres]|].
    unfold dkey. cbn. rewrite assoc_get_strip.
    destruct (assoc_get k res) as [[b vs]|] eqn:E; cbn.
    - rewrite <- assoc_set_strip with (b := true). apply IH.
      apply assoc_set_forall; [exact Hres|]. intros k0. cbn.
      destruct (assoc_get_in _ _ _ E) as [k1 Hin]. rewrite Forall_forall in Hres. specialize (Hres _ Hin).
      cbn in Hres. destruct Hres as [Hne _]. split.
      + intros H. apply app_eq_nil in H as [_ H]. discriminate.
      + rewrite app_length. destruct vs; [contradiction|]. cbn [length]. rewrite Nat.add_1_r. reflexivity.
    - replace (strip res ++ [(k, [v])]) with (strip (res ++ [(k, (false, [v]))])).
      + apply IH. apply Forall_app. split; [exact Hres|]. constructor; [|constructor]. cbn. split; [discriminate|reflexivity].
      + unfold strip. rewrite map_app. reflexivity.
  Qed.

  Lemma mixed_val_show e : flag_ok e -> mixed_val (snd e) = show_vals (snd (snd e)).
  Proof.
    destruct e as [k [b vs]]. cbn. intros [Hne ->]. destruct vs as [|v [|w vs]]; [contradiction|reflexivity|reflexivity].
  Qed.

  Theorem mixed_spec rh l :
    mixed_i norm rh l =
    VList (map (fun kv => VList [VStr (fst kv); show_vals (snd kv)]) (dol_spec norm rh l)).
  Proof.
    unfold mixed_i. destruct rh.
    - rewrite dict_of_lists_spec. f_equal. apply map_ext. intros [k vs]. cbn [fst snd].
      destruct vs as [|v [|w vs]]; reflexivity.
    - assert (Hd : dol_go norm false l [] = dol_go (fun k => k) false l []).
      { generalize (@nil (str * list str)). induction l as [|[k v] l IH]; intros r; cbn; [reflexivity|].
        unfold dkey. destruct (assoc_get k r); apply IH. }
      destruct (mixed_go_sim l [] (Forall_nil _)) as [Hs Hf]. cbn in Hs.
      rewrite <- (dict_of_lists_spec norm false). unfold dict_of_lists_i.
      rewrite Hd, <- Hs. unfold strip. rewrite map_map. f_equal.
      apply map_ext_in. intros e He. rewrite Forall_forall in Hf. rewrite (mixed_val_show e (Hf e He)). reflexivity.
  Qed.
End Mixed.
