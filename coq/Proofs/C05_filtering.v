(* C05 — basic_filtering: the first-occurrence tables, the (qvalue, position) order of the acceptable
   ranges, the per-tag decision and the two stable sorts of the result implement the statement's
   reading of RFC 4647 3.3.1 (Spec/C05_Rfc4647.v: first_occurrence, governs, row_before). *)
From Coq Require Import PeanoNat NArith List Bool Lia Sorted Permutation.
Require Import Webob.Lib.Val Webob.Lib.PyStr Webob.Model.C05_AcceptLang Webob.Spec.C05_Rfc4647
               Webob.Proofs.C05_sort.
Import ListNotations.
Local Open Scope N_scope.

(* ------------------------------------------------------------------ case and '*' *)
Lemma lower_c_42 c : lower_c c = 42 -> c = 42.
Proof.
  unfold lower_c.
  destruct ((65 <=? c) && (c <=? 90)) eqn:E1.
  - apply andb_true_iff in E1 as [E1 _]. apply N.leb_le in E1. lia.
  - destruct ((192 <=? c) && (c <=? 222) && negb (c =? 215)) eqn:E2.
    + apply andb_true_iff in E2 as [E2 _]. apply andb_true_iff in E2 as [E2 _]. apply N.leb_le in E2. lia.
    + auto.
Qed.

Lemma lower_star r : lower r = star <-> r = star.
Proof.
  unfold lower, star. split.
  - destruct r as [|c [|d r]]; cbn; intros H; try discriminate.
    injection H as H. apply lower_c_42 in H. subst. reflexivity.
  - intros ->. reflexivity.
Qed.

Lemma bf_match_spec r t : bf_match (lower t) (lower r) = true <-> matches331 r t.
Proof.
  unfold bf_match, matches331. rewrite orb_true_iff, str_eqb_eq, starts_with_spec.
  split; (intros [H|[rest H]]; [left; exact H | right; exists rest]).
  - rewrite H, <- app_assoc. reflexivity.
  - rewrite H, <- app_assoc. reflexivity.
Qed.

(* ------------------------------------------------------------------ the header's ranges, first occurrences *)
Definition rr_range (x : range_row) : str := fst (fst x).

(* on the lower-cased parsed list *)
Fixpoint first_occs (seen : list str) (pos : nat) (lp : parsed) : list range_row :=
  match lp with
  | [] => []
  | (r, q) :: lp' =>
      if in_strs r seen then first_occs seen (S pos) lp'
      else (r, q, pos) :: first_occs (r :: seen) (S pos) lp'
  end.

Definition lower_parsed (p : parsed) : parsed := map (fun e => (lower (fst e), snd e)) p.
Definition eff (p : parsed) : list range_row := first_occs [] 0 (lower_parsed p).

Lemma first_occs_In r q pos' : forall lp seen pos,
  In (r, q, pos') (first_occs seen pos lp) <->
  exists k, pos' = (pos + k)%nat /\ nth_error lp k = Some (r, q) /\ ~ In r seen /\
            forall j r1 q1, (j < k)%nat -> nth_error lp j = Some (r1, q1) -> r1 <> r.
Proof.
  induction lp as [|[r0 q0] lp IH]; intros seen pos; cbn [first_occs].
  - split; [intros [] | intros [k [_ [H _]]]; destruct k; discriminate].
  - destruct (in_strs r0 seen) eqn:Es.
    + rewrite IH. split.
      * intros [k [Hp [Hn [Hs Hj]]]]. exists (S k). split; [lia|]. split; [exact Hn|]. split; [exact Hs|].
        intros [|j] r1 q1 Hlt Hn1; cbn in Hn1.
        -- injection Hn1 as <- <-. intros ->. apply in_strs_In in Es. contradiction.
        -- apply (Hj j r1 q1); [lia | exact Hn1].
      * intros [[|k] [Hp [Hn [Hs Hj]]]]; cbn in Hn.
        -- injection Hn as -> ->. apply in_strs_In in Es. contradiction.
        -- exists k. split; [lia|]. split; [exact Hn|]. split; [exact Hs|].
           intros j r1 q1 Hlt Hn1. apply (Hj (S j) r1 q1); [lia | exact Hn1].
    + apply in_strs_false in Es. cbn [In]. rewrite IH. split.
      * intros [H|[k [Hp [Hn [Hs Hj]]]]].
        -- injection H as -> -> <-. exists 0%nat. split; [lia|]. split; [reflexivity|]. split; [exact Es|].
           intros j r1 q1 Hlt. lia.
        -- exists (S k). split; [lia|]. split; [exact Hn|]. split; [intros Hin; apply Hs; right; exact Hin|].
           intros [|j] r1 q1 Hlt Hn1; cbn in Hn1.
           ++ injection Hn1 as <- <-. intros ->. apply Hs. left. reflexivity.
           ++ apply (Hj j r1 q1); [lia | exact Hn1].
      * intros [[|k] [Hp [Hn [Hs Hj]]]]; cbn in Hn.
        -- injection Hn as -> ->. left. f_equal. lia.
        -- right. exists k. split; [lia|]. split; [exact Hn|]. split.
           ++ intros [->|Hin]; [|contradiction]. apply (Hj 0%nat r q0); [lia | reflexivity | reflexivity].
           ++ intros j r1 q1 Hlt Hn1. apply (Hj (S j) r1 q1); [lia | exact Hn1].
Qed.

Lemma nth_error_lower_parsed p k :
  nth_error (lower_parsed p) k = option_map (fun e => (lower (fst e), snd e)) (nth_error p k).
Proof. unfold lower_parsed. apply nth_error_map. Qed.

(* membership in the first-occurrence table, in the statement's terms *)
Lemma eff_In p r q pos :
  In (r, q, pos) (eff p) <-> exists r0, first_occurrence p pos r0 q /\ lower r0 = r.
Proof.
  unfold eff. rewrite first_occs_In. unfold first_occurrence. split.
  - intros [k [Hp [Hn [_ Hj]]]]. cbn in Hp. subst k.
    rewrite nth_error_lower_parsed in Hn. destruct (nth_error p pos) as [[r0 q0]|] eqn:E; [|discriminate].
    cbn in Hn. injection Hn as <- <-. exists r0. split; [|reflexivity]. split; [reflexivity|].
    intros j r1 q1 Hlt Hn1. apply (Hj j (lower r1) q1 Hlt).
    rewrite nth_error_lower_parsed, Hn1. reflexivity.
  - intros [r0 [[Hn Hj] <-]]. exists pos. split; [reflexivity|]. split.
    + rewrite nth_error_lower_parsed, Hn. reflexivity.
    + split; [intros []|]. intros j r1 q1 Hlt Hn1.
      rewrite nth_error_lower_parsed in Hn1. destruct (nth_error p j) as [[r2 q2]|] eqn:E; [|discriminate].
      cbn in Hn1. injection Hn1 as <- <-. apply (Hj j r2 q2 Hlt E).
Qed.

(* a range has at most one first occurrence *)
Lemma first_occurrence_unique p pos r0 q pos' r0' q' :
  first_occurrence p pos r0 q -> first_occurrence p pos' r0' q' -> lower r0 = lower r0' ->
  pos = pos' /\ q = q' /\ r0 = r0'.
Proof.
  intros [Hn Hj] [Hn' Hj'] E.
  destruct (Nat.lt_trichotomy pos pos') as [Hlt|[->|Hlt]].
  - exfalso. apply (Hj' pos r0 q Hlt Hn). exact E.
  - rewrite Hn in Hn'. injection Hn' as -> ->. auto.
  - exfalso. apply (Hj pos' r0' q' Hlt Hn'). symmetry. exact E.
Qed.

(* positions in the table are strictly increasing *)
Lemma first_occs_pos_sorted : forall lp seen pos,
  StronglySorted (fun x y : range_row => (snd x < snd y)%nat) (first_occs seen pos lp) /\
  Forall (fun x : range_row => (pos <= snd x)%nat) (first_occs seen pos lp).
Proof.
  induction lp as [|[r q] lp IH]; intros seen pos; cbn [first_occs]; [split; constructor|].
  destruct (in_strs r seen).
  - destruct (IH seen (S pos)) as [H1 H2]. split; [exact H1|].
    eapply Forall_impl; [|exact H2]. cbn. intros a Ha. lia.
  - destruct (IH (r :: seen) (S pos)) as [H1 H2]. split.
    + constructor; [exact H1|]. eapply Forall_impl; [|exact H2]. cbn. intros a Ha. lia.
    + constructor; [cbn; lia|]. eapply Forall_impl; [|exact H2]. cbn. intros a Ha. lia.
Qed.

(* ------------------------------------------------------------------ the table-building loop *)
Definition is_star_row (x : range_row) : bool := str_eqb (rr_range x) star.
Definition zf (x : range_row) : bool := negb (is_star_row x) && (rr_q x =? 0).
Definition af (x : range_row) : bool := negb (is_star_row x) && negb (rr_q x =? 0).
Definition to_dict (x : range_row) : str * (N * nat) := (rr_range x, (rr_q x, snd x)).
Definition star_of (E : list range_row) : option (N * nat) :=
  option_map (fun x => (rr_q x, snd x)) (find is_star_row E).
Definition merge_ast (ast : option (N * nat)) (E : list range_row) : option (N * nat) :=
  match ast with Some _ => ast | None => star_of E end.
Definition is_some {B} (o : option B) : bool := match o with Some _ => true | None => false end.

Definition scan_inv (seen nacc : list str) (acc : list (str * (N * nat))) (ast : option (N * nat)) : Prop :=
  (forall r, in_strs r seen = in_keys r acc || in_strs r nacc || (str_eqb r star && is_some ast)) /\
  in_keys star acc = false /\ in_strs star nacc = false.

Lemma in_strs_app r a b : in_strs r (a ++ b) = in_strs r a || in_strs r b.
Proof. apply existsb_app. Qed.
Lemma in_keys_app r a b : in_keys r (a ++ b) = in_keys r a || in_keys r b.
Proof. apply existsb_app. Qed.

Lemma zf_val r q pos : zf (r, q, pos) = negb (str_eqb r star) && (q =? 0).
Proof. reflexivity. Qed.
Lemma af_val r q pos : af (r, q, pos) = negb (str_eqb r star) && negb (q =? 0).
Proof. reflexivity. Qed.
Lemma merge_ast_cons_nonstar ast r q pos E :
  str_eqb r star = false -> merge_ast ast ((r, q, pos) :: E) = merge_ast ast E.
Proof.
  intros H. destruct ast; [reflexivity|]. unfold merge_ast, star_of. cbn [find].
  unfold is_star_row at 1, rr_range. cbn [fst]. rewrite H. reflexivity.
Qed.

Lemma bf_scan_spec : forall lp pos seen nacc acc ast,
  scan_inv seen nacc acc ast ->
  let E := first_occs seen pos lp in
  bf_scan pos lp (nacc, acc, ast) =
  (nacc ++ map rr_range (filter zf E), acc ++ map to_dict (filter af E), merge_ast ast E).
Proof.
  induction lp as [|[r q] lp IH]; intros pos seen nacc acc ast Hinv; cbn zeta.
  - cbn. rewrite !app_nil_r. destruct ast; reflexivity.
  - destruct Hinv as [Hseen [Hsa Hsn]].
    cbn [bf_scan first_occs]. unfold bf_scan_step.
    destruct (str_eqb r star) eqn:Er.
    + apply str_eqb_eq in Er. subst r.
      rewrite (Hseen star), Hsa, Hsn, str_eqb_refl. cbn [orb andb].
      destruct ast as [a|]; cbn [is_some].
      * rewrite (IH (S pos) seen nacc acc (Some a)); [reflexivity|]. repeat split; assumption.
      * rewrite (IH (S pos) (star :: seen) nacc acc (Some (q, pos))).
        -- cbn [filter]. unfold zf at 2, af at 2, is_star_row, rr_range. cbn [fst snd]. rewrite str_eqb_refl.
           cbn [negb andb merge_ast]. unfold star_of. cbn [find]. unfold is_star_row at 1, rr_range. cbn [fst].
           rewrite str_eqb_refl. reflexivity.
        -- split; [|split; assumption]. intros r'. cbn [in_strs existsb]. fold (in_strs r' seen).
           rewrite (Hseen r'). cbn [is_some].
           destruct (str_eqb r' star), (in_keys r' acc), (in_strs r' nacc); reflexivity.
    + rewrite (Hseen r), Er. cbn [andb]. rewrite orb_false_r.
      destruct (in_keys r acc || in_strs r nacc) eqn:Eseen.
      * assert (negb (in_keys r acc) && negb (in_strs r nacc) = false) as ->
            by (destruct (in_keys r acc), (in_strs r nacc); cbn in *; congruence).
        rewrite (IH (S pos) seen nacc acc ast); [reflexivity|]. repeat split; assumption.
      * apply orb_false_iff in Eseen as [Ek En]. rewrite Ek, En. cbn [negb andb].
        assert (Hsr : str_eqb star r = false) by (rewrite str_eqb_sym; exact Er).
        destruct (q =? 0) eqn:Eq.
        -- rewrite (IH (S pos) (r :: seen) (nacc ++ [r]) acc ast).
           ++ cbn [filter]. rewrite zf_val, af_val, Er, Eq. cbn [negb andb map].
              rewrite (merge_ast_cons_nonstar _ _ _ _ _ Er).
              change (rr_range (r, q, pos)) with r. rewrite <- app_assoc. reflexivity.
           ++ split; [|split].
              ** intros r'. cbn [in_strs existsb]. fold (in_strs r' seen). rewrite (Hseen r'), in_strs_app.
                 cbn [in_strs existsb]. rewrite orb_false_r.
                 destruct (str_eqb r' r), (in_keys r' acc), (in_strs r' nacc), (str_eqb r' star && is_some ast); reflexivity.
              ** exact Hsa.
              ** rewrite in_strs_app, Hsn. unfold in_strs. cbn [existsb orb]. rewrite Hsr. reflexivity.
        -- rewrite (IH (S pos) (r :: seen) nacc (acc ++ [(r, (q, pos))]) ast).
           ++ cbn [filter]. rewrite zf_val, af_val, Er, Eq. cbn [negb andb map].
              rewrite (merge_ast_cons_nonstar _ _ _ _ _ Er).
              change (to_dict (r, q, pos)) with (r, (q, pos)). rewrite <- app_assoc. reflexivity.
           ++ split; [|split].
              ** intros r'. cbn [in_strs existsb]. fold (in_strs r' seen). rewrite (Hseen r'), in_keys_app.
                 cbn [in_keys existsb fst]. rewrite orb_false_r.
                 destruct (str_eqb r' r), (in_keys r' acc), (in_strs r' nacc), (str_eqb r' star && is_some ast); reflexivity.
              ** rewrite in_keys_app, Hsa. unfold in_keys. cbn [existsb orb fst]. rewrite Hsr. reflexivity.
              ** exact Hsn.
Qed.

Lemma bf_tables_spec p :
  bf_scan 0 (lower_parsed p) ([], [], None) =
  (map rr_range (filter zf (eff p)), map to_dict (filter af (eff p)), star_of (eff p)).
Proof.
  rewrite (bf_scan_spec (lower_parsed p) 0%nat [] [] [] None); [reflexivity|].
  split; [|split; reflexivity]. intros r. cbn. rewrite andb_false_r. reflexivity.
Qed.

(* ------------------------------------------------------------------ order of the acceptable ranges *)
Definition range_before (x y : range_row) : Prop :=
  rr_q y < rr_q x \/ (rr_q x = rr_q y /\ (snd x <= snd y)%nat).

Definition sorted_ranges (p : parsed) : list range_row :=
  sort_k true rr_q (sort_k false rr_pos (filter af (eff p))).

Lemma bf_sorted_ranges_spec p : bf_sorted_ranges (map to_dict (filter af (eff p))) = sorted_ranges p.
Proof.
  unfold bf_sorted_ranges, sorted_ranges. rewrite map_map.
  rewrite (map_ext _ (fun x => x)); [rewrite map_id; reflexivity|].
  intros [[r q] pos]. reflexivity.
Qed.

Lemma sorted_ranges_In p x : In x (sorted_ranges p) <-> In x (eff p) /\ af x = true.
Proof. unfold sorted_ranges. rewrite !sort_k_In, filter_In. reflexivity. Qed.

Lemma sorted_ranges_sorted p : StronglySorted range_before (sorted_ranges p).
Proof.
  unfold sorted_ranges.
  pose proof (sort_k_lex true rr_q (lexR false rr_pos (fun _ _ => True)) _
                (sort_k_lex false rr_pos (fun _ _ => True) _ (SS_True (filter af (eff p))))) as H.
  induction H as [|x s Hs IH Hx]; constructor; [exact IH|].
  rewrite Forall_forall in *. intros y Hy. specialize (Hx y Hy).
  unfold lexR, kstrict, range_before, rr_pos in *. lia.
Qed.

Lemma bf_first_match_find tag ranges :
  bf_first_match tag ranges =
  option_map (fun x : range_row => (rr_q x, snd x)) (find (fun x => bf_match tag (rr_range x)) ranges).
Proof.
  induction ranges as [|[[r q] pos] rs IH]; cbn; [reflexivity|].
  unfold rr_range at 1. cbn [fst]. destruct (bf_match tag r); [reflexivity | exact IH].
Qed.

(* ------------------------------------------------------------------ the per-tag decision *)
Definition tag_decision (p : parsed) (t : str) : option (N * nat) :=
  bf_tag (map rr_range (filter zf (eff p))) (sorted_ranges p) (star_of (eff p)) (lower t).

Lemma is_star_row_false r q pos : is_star_row (r, q, pos) = false <-> r <> star.
Proof. unfold is_star_row, rr_range. cbn. apply str_eqb_neq. Qed.

Lemma zero_hit_iff p t :
  existsb (bf_match (lower t)) (map rr_range (filter zf (eff p))) = true <->
  exists r0 pos0, first_occurrence p pos0 r0 0 /\ r0 <> star /\ matches331 r0 t.
Proof.
  rewrite existsb_exists. split.
  - intros [z [Hz Hm]]. apply in_map_iff in Hz as [[[r q] pos] [<- Hx]].
    apply filter_In in Hx as [Hx Hf]. unfold zf in Hf. apply andb_true_iff in Hf as [Hs Hq].
    apply negb_true_iff, is_star_row_false in Hs. apply N.eqb_eq in Hq. unfold rr_q in Hq. cbn in Hq. subst q.
    apply eff_In in Hx as [r0 [Hfo <-]]. unfold rr_range in Hm. cbn in Hm.
    exists r0, pos. split; [exact Hfo|]. split; [|apply bf_match_spec; exact Hm].
    intros ->. apply Hs. reflexivity.
  - intros [r0 [pos0 [Hfo [Hs Hm]]]]. exists (lower r0). split; [|apply bf_match_spec; exact Hm].
    apply in_map_iff. exists (lower r0, 0, pos0). split; [reflexivity|]. apply filter_In. split.
    + apply eff_In. exists r0. auto.
    + unfold zf. apply andb_true_iff. split; [|reflexivity]. apply negb_true_iff, is_star_row_false.
      intros H. apply (proj1 (lower_star _)) in H. contradiction.
Qed.

Lemma af_row_iff p r q pos :
  In (r, q, pos) (eff p) /\ af (r, q, pos) = true <->
  exists r0, first_occurrence p pos r0 q /\ lower r0 = r /\ r0 <> star /\ q <> 0.
Proof.
  rewrite eff_In. unfold af. rewrite andb_true_iff, !negb_true_iff, is_star_row_false.
  unfold rr_q. cbn [fst snd]. rewrite N.eqb_neq. split.
  - intros [[r0 [Hfo <-]] [Hs Hq]]. exists r0. split; [exact Hfo|]. split; [reflexivity|]. split; [|exact Hq].
    intros ->. apply Hs. reflexivity.
  - intros [r0 [Hfo [<- [Hs Hq]]]]. split; [exists r0; auto|]. split; [|exact Hq].
    intros H. apply (proj1 (lower_star _)) in H. contradiction.
Qed.

Lemma star_of_iff p q pos :
  star_of (eff p) = Some (q, pos) <-> first_occurrence p pos star q.
Proof.
  unfold star_of. split.
  - destruct (find is_star_row (eff p)) as [[[r q'] pos']|] eqn:Ef; [|discriminate].
    cbn. unfold rr_q. cbn. intros H. injection H as -> ->.
    apply find_some in Ef as [Hin Hs]. unfold is_star_row, rr_range in Hs. cbn in Hs. apply str_eqb_eq in Hs. subst r.
    apply eff_In in Hin as [r0 [Hfo Hl]]. apply (proj1 (lower_star _)) in Hl. subst r0. exact Hfo.
  - intros Hfo.
    assert (Hin : In (star, q, pos) (eff p)) by (apply eff_In; exists star; split; [exact Hfo | reflexivity]).
    destruct (find is_star_row (eff p)) as [[[r q'] pos']|] eqn:Ef.
    + apply find_some in Ef as [Hin' Hs]. unfold is_star_row, rr_range in Hs. cbn in Hs. apply str_eqb_eq in Hs. subst r.
      apply eff_In in Hin' as [r0 [Hfo' Hl]]. apply (proj1 (lower_star _)) in Hl. subst r0.
      destruct (first_occurrence_unique _ _ _ _ _ _ _ Hfo Hfo' eq_refl) as [-> [-> _]]. reflexivity.
    + exfalso. eapply find_none in Ef; [|exact Hin]. unfold is_star_row, rr_range in Ef. cbn in Ef.
      discriminate.
Qed.

(* no acceptable (non-zero, non-'*') range matches *)
Lemma no_range_match_iff p t :
  find (fun x => bf_match (lower t) (rr_range x)) (sorted_ranges p) = None <->
  forall r1 q1 pos1, first_occurrence p pos1 r1 q1 -> r1 <> star -> q1 <> 0 -> ~ matches331 r1 t.
Proof.
  rewrite find_none_iff. split.
  - intros H r1 q1 pos1 Hfo Hs Hq Hm.
    assert (Hin : In (lower r1, q1, pos1) (sorted_ranges p)).
    { apply sorted_ranges_In. apply af_row_iff. exists r1. auto. }
    specialize (H _ Hin). unfold rr_range in H. cbn in H. apply bf_match_spec in Hm. congruence.
  - intros H [[r q] pos] Hin. apply sorted_ranges_In, af_row_iff in Hin as [r0 [Hfo [<- [Hs Hq]]]].
    unfold rr_range. cbn. destruct (bf_match (lower t) (lower r0)) eqn:Em; [|reflexivity].
    exfalso. apply (H r0 q pos Hfo Hs Hq). apply bf_match_spec. exact Em.
Qed.

(* soundness of the decision *)
Lemma tag_decision_sound p t q pos : tag_decision p t = Some (q, pos) -> governs p t q pos.
Proof.
  unfold tag_decision, bf_tag.
  destruct (existsb (bf_match (lower t)) (map rr_range (filter zf (eff p)))) eqn:Ez; [discriminate|].
  assert (Hzero : forall r0 pos0, first_occurrence p pos0 r0 0 -> r0 <> star -> ~ matches331 r0 t).
  { intros r0 pos0 Hfo Hs Hm. assert (existsb (bf_match (lower t)) (map rr_range (filter zf (eff p))) = true).
    { apply zero_hit_iff. exists r0, pos0. auto. } congruence. }
  rewrite bf_first_match_find.
  destruct (find (fun x => bf_match (lower t) (rr_range x)) (sorted_ranges p)) as [[[r qx] px]|] eqn:Ef.
  - cbn. unfold rr_q. cbn. intros H. injection H as -> ->.
    destruct (find_sorted_first _ _ _ _ (sorted_ranges_sorted p) Ef) as [Hin [Hm Hmin]].
    apply sorted_ranges_In, af_row_iff in Hin as [r0 [Hfo [<- [Hs Hq]]]].
    unfold rr_range in Hm. cbn in Hm.
    split; [exact Hzero|]. left. exists r0. split; [exact Hfo|]. split; [exact Hs|]. split; [exact Hq|].
    split; [apply bf_match_spec; exact Hm|].
    intros r1 q1 pos1 Hfo1 Hs1 Hq1 Hm1.
    assert (Hin1 : In (lower r1, q1, pos1) (sorted_ranges p)).
    { apply sorted_ranges_In. apply af_row_iff. exists r1. auto. }
    destruct (Hmin _ Hin1) as [E|Hb].
    + unfold rr_range. cbn. apply bf_match_spec. exact Hm1.
    + injection E as _ -> ->. right. split; [reflexivity | lia].
    + unfold range_before, rr_q in Hb. cbn in Hb. unfold better_eq. lia.
  - cbn [option_map]. destruct (star_of (eff p)) as [[qs ps]|] eqn:Es; [|discriminate].
    destruct (qs =? 0) eqn:Eq; [discriminate|]. intros H. injection H as -> ->.
    apply N.eqb_neq in Eq. apply star_of_iff in Es.
    split; [exact Hzero|]. right. split; [|split; assumption].
    intros r1 q1 pos1 Hfo1 Hs1. destruct (N.eq_dec q1 0) as [->|Hq1].
    + apply (Hzero r1 pos1 Hfo1 Hs1).
    + apply (proj1 (no_range_match_iff p t) Ef r1 q1 pos1 Hfo1 Hs1 Hq1).
Qed.

(* a tag the decision skips is governed by nothing *)
Lemma tag_decision_none p t : tag_decision p t = None -> forall q pos, ~ governs p t q pos.
Proof.
  unfold tag_decision, bf_tag. intros H q pos [Hzero Hg].
  destruct (existsb (bf_match (lower t)) (map rr_range (filter zf (eff p)))) eqn:Ez.
  - apply zero_hit_iff in Ez as [r0 [pos0 [Hfo [Hs Hm]]]]. apply (Hzero r0 pos0 Hfo Hs Hm).
  - rewrite bf_first_match_find in H.
    destruct (find (fun x => bf_match (lower t) (rr_range x)) (sorted_ranges p)) as [x|] eqn:Ef; [discriminate|].
    cbn [option_map] in H.
    destruct Hg as [[r0 [Hfo [Hs [Hq [Hm _]]]]] | [_ [Hfo Hq]]].
    + apply (proj1 (no_range_match_iff p t) Ef r0 q pos Hfo Hs Hq Hm).
    + apply star_of_iff in Hfo. rewrite Hfo in H. apply N.eqb_neq in Hq. rewrite Hq in H. discriminate.
Qed.

Lemma governs_functional p t q pos q' pos' :
  governs p t q pos -> governs p t q' pos' -> q = q' /\ pos = pos'.
Proof.
  intros [_ [[r0 [Hfo [Hs [Hq [Hm Hmin]]]]] | [Hno [Hfo Hq]]]]
         [_ [[r0' [Hfo' [Hs' [Hq' [Hm' Hmin']]]]] | [Hno' [Hfo' Hq']]]].
  - pose proof (Hmin _ _ _ Hfo' Hs' Hq' Hm') as B1. pose proof (Hmin' _ _ _ Hfo Hs Hq Hm) as B2.
    unfold better_eq in *. lia.
  - exfalso. apply (Hno' _ _ _ Hfo Hs Hm).
  - exfalso. apply (Hno _ _ _ Hfo' Hs' Hm').
  - destruct (first_occurrence_unique _ _ _ _ _ _ _ Hfo Hfo' eq_refl) as [-> [-> _]]. auto.
Qed.

Lemma tag_decision_iff p t q pos : tag_decision p t = Some (q, pos) <-> governs p t q pos.
Proof.
  split; [apply tag_decision_sound|]. intros Hg.
  destruct (tag_decision p t) as [[q' pos']|] eqn:E.
  - apply tag_decision_sound in E. destruct (governs_functional _ _ _ _ _ _ Hg E) as [-> ->]. reflexivity.
  - exfalso. eapply tag_decision_none; eauto.
Qed.

(* ------------------------------------------------------------------ the loop over the offered tags *)
Lemma bf_filter_In nacc ranges ast i q pos : forall ltags index,
  In (i, q, pos) (bf_filter nacc ranges ast index ltags) <->
  exists k lt, i = (index + k)%nat /\ nth_error ltags k = Some lt /\ bf_tag nacc ranges ast lt = Some (q, pos).
Proof.
  induction ltags as [|t ts IH]; intros index; cbn [bf_filter].
  - split; [intros [] | intros [k [lt [_ [H _]]]]; destruct k; discriminate].
  - destruct (bf_tag nacc ranges ast t) as [[q0 pos0]|] eqn:Et; cbn [In]; rewrite IH; split.
    + intros [H|[k [lt [Hi [Hn Hb]]]]].
      * injection H as -> -> ->. exists 0%nat, t. split; [lia|]. split; [reflexivity | exact Et].
      * exists (S k), lt. split; [lia|]. split; assumption.
    + intros [[|k] [lt [Hi [Hn Hb]]]]; cbn in Hn.
      * injection Hn as ->. left. rewrite Et in Hb. injection Hb as -> ->. f_equal. f_equal. lia.
      * right. exists k, lt. split; [lia|]. split; assumption.
    + intros [k [lt [Hi [Hn Hb]]]]. exists (S k), lt. split; [lia|]. split; assumption.
    + intros [[|k] [lt [Hi [Hn Hb]]]]; cbn in Hn.
      * injection Hn as ->. congruence.
      * exists k, lt. split; [lia|]. split; assumption.
Qed.

Lemma bf_filter_sorted nacc ranges ast : forall ltags index,
  StronglySorted (fun x y : tag_row => (tr_idx x < tr_idx y)%nat) (bf_filter nacc ranges ast index ltags) /\
  Forall (fun x : tag_row => (index <= tr_idx x)%nat) (bf_filter nacc ranges ast index ltags).
Proof.
  induction ltags as [|t ts IH]; intros index; cbn [bf_filter]; [split; constructor|].
  destruct (IH (S index)) as [H1 H2].
  destruct (bf_tag nacc ranges ast t) as [[q0 pos0]|].
  - split.
    + constructor; [exact H1|]. eapply Forall_impl; [|exact H2]. unfold tr_idx. cbn. intros a Ha. lia.
    + constructor; [unfold tr_idx; cbn; lia|]. eapply Forall_impl; [|exact H2]. cbn. intros a Ha. lia.
  - split; [exact H1|]. eapply Forall_impl; [|exact H2]. cbn. intros a Ha. lia.
Qed.

Lemma SS_lt_NoDup {B} (f : B -> nat) l :
  StronglySorted (fun x y => (f x < f y)%nat) l -> NoDup (map f l).
Proof.
  induction l as [|a l IH]; intros H; cbn; constructor.
  - apply StronglySorted_inv in H as [_ H]. rewrite Forall_forall in H.
    intros Hin. apply in_map_iff in Hin as [b [E Hb]]. specialize (H b Hb). lia.
  - apply IH. apply StronglySorted_inv in H as [H _]. exact H.
Qed.

Lemma SS_impl {B} (R R' : B -> B -> Prop) l :
  (forall x y, R x y -> R' x y) -> StronglySorted R l -> StronglySorted R' l.
Proof.
  intros Himp H. induction H as [|x s Hs IH Hx]; constructor; [exact IH|].
  eapply Forall_impl; [|exact Hx]. intros y. apply Himp.
Qed.

(* ------------------------------------------------------------------ the theorem *)
Definition filtered_rows (p : parsed) (tags : list str) : list tag_row :=
  bf_filter (map rr_range (filter zf (eff p))) (sorted_ranges p) (star_of (eff p)) 0 (map lower tags).

Lemma bf_rows_eq p tags :
  bf_rows p tags = sort_k true tr_q (sort_k false tr_pos (filtered_rows p tags)).
Proof.
  unfold bf_rows. fold (lower_parsed p). rewrite bf_tables_spec, bf_sorted_ranges_spec. reflexivity.
Qed.

Lemma filtered_rows_In p tags i q pos :
  In (i, q, pos) (filtered_rows p tags) <-> exists t, nth_error tags i = Some t /\ governs p t q pos.
Proof.
  unfold filtered_rows. rewrite bf_filter_In. split.
  - intros [k [lt [Hi [Hn Hb]]]]. cbn in Hi. subst k.
    rewrite nth_error_map in Hn. destruct (nth_error tags i) as [t|] eqn:Et; [|discriminate].
    cbn in Hn. injection Hn as <-. exists t. split; [reflexivity|]. apply tag_decision_iff. exact Hb.
  - intros [t [Hn Hg]]. exists i, (lower t). split; [reflexivity|]. split.
    + rewrite nth_error_map, Hn. reflexivity.
    + apply tag_decision_iff. exact Hg.
Qed.

Theorem basic_filtering_spec p tags :
  exists rows : list tag_row,
    basic_filtering p tags = map (fun x => (nth (tr_idx x) tags [], tr_q x)) rows /\
    NoDup (map tr_idx rows) /\
    (forall i q pos, In (i, q, pos) rows <-> exists t, nth_error tags i = Some t /\ governs p t q pos) /\
    StronglySorted row_before rows.
Proof.
  exists (bf_rows p tags). split; [reflexivity|]. rewrite bf_rows_eq.
  set (F := filtered_rows p tags).
  assert (HP : Permutation (sort_k true tr_q (sort_k false tr_pos F)) F).
  { rewrite sort_k_perm. apply sort_k_perm. }
  split; [|split].
  - apply (Permutation_NoDup (Permutation_sym (Permutation_map tr_idx HP))).
    apply SS_lt_NoDup. unfold F, filtered_rows. apply (proj1 (bf_filter_sorted _ _ _ _ _)).
  - intros i q pos. rewrite <- filtered_rows_In. fold F.
    split; apply Permutation_in; [exact HP | apply Permutation_sym; exact HP].
  - assert (HF : StronglySorted (fun x y : tag_row => (tr_idx x < tr_idx y)%nat) F)
      by (unfold F, filtered_rows; apply (proj1 (bf_filter_sorted _ _ _ _ _))).
    pose proof (sort_k_lex true tr_q _ _ (sort_k_lex false tr_pos _ _ HF)) as H.
    eapply SS_impl; [|exact H]. intros x y Hxy.
    unfold lexR, kstrict, row_before in *. lia.
Qed.

(* consequences in the statement's words *)
Corollary basic_filtering_sound p tags t q :
  In (t, q) (basic_filtering p tags) ->
  exists i pos, nth_error tags i = Some t /\ governs p t q pos.
Proof.
  destruct (basic_filtering_spec p tags) as [rows [-> [_ [Hin _]]]].
  intros H. apply in_map_iff in H as [[[i q'] pos] [E Hx]]. unfold tr_idx, tr_q in E. cbn in E.
  apply Hin in Hx as [t' [Hn Hg]]. injection E as <- <-.
  exists i, pos. rewrite (nth_error_nth _ _ _ Hn). auto.
Qed.

Corollary basic_filtering_complete p tags i t q pos :
  nth_error tags i = Some t -> governs p t q pos -> In (t, q) (basic_filtering p tags).
Proof.
  destruct (basic_filtering_spec p tags) as [rows [-> [_ [Hin _]]]].
  intros Hn Hg. apply in_map_iff. exists (i, q, pos). unfold tr_idx, tr_q. cbn.
  split; [rewrite (nth_error_nth _ _ _ Hn); reflexivity|]. apply Hin. exists t. auto.
Qed.

Corollary basic_filtering_length p tags :
  forall rows, basic_filtering p tags = map (fun x => (nth (tr_idx x) tags [], tr_q x)) rows ->
  length (basic_filtering p tags) = length rows.
Proof. intros rows ->. apply map_length. Qed.
