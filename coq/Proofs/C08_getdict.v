(* C08 — GetDict: the tracked query string always equals the items, and a refused write changes nothing. *)
From Coq Require Import ZArith NArith List Bool.
Require Import Webob.Lib.Val Webob.Lib.PyStr Webob.Model.MultiDict Webob.Model.C08_GetDict.
Import ListNotations.

Definition gd_inv (g : gd) : Prop := g_written g = g_items g /\ g_env g = g_items g.

(* a MultiDict operation that raises leaves the item list as it was *)
Lemma step_err_unchanged norm rh go l o :
  is_err (snd (step_i norm rh go l o)) = true -> fst (step_i norm rh go l o) = l.
Proof.
  destruct o as [k v|k v|k|k d| |k d|u|u|u| | | ]; cbn [step_i]; try (cbn; discriminate).
  - destruct (del_i norm k l) as [r f]; destruct f; cbn; [discriminate | reflexivity].
  - destruct (pop_i norm k l) as [[v r]|]; [cbn; discriminate|].
    destruct d as [dv|]; cbn; [|reflexivity].
    destruct dv; cbn; discriminate.
  - destruct (rev l) as [|[k v] r]; cbn; [reflexivity | discriminate].
  - destruct (setdefault_i norm k d l) as [v r] eqn:E. unfold setdefault_i in E.
    destruct (find_first norm k l); [inversion E; subst; cbn; discriminate|].
    destruct d; inversion E; subst; cbn; discriminate.
Qed.

Lemma gstep_inv g o : gd_inv g -> gd_inv (fst (gstep g o)).
Proof.
  intros [Hw He]. destruct o as [o|k|k]; cbn [gstep].
  - destruct o; try (
      match goal with |- context [step_i ?n ?r ?go ?l ?o] =>
        pose proof (step_err_unchanged n r go l o) as Hu;
        destruct (step_i n r go l o) as [l' ret] eqn:E; cbn [fst snd] in Hu;
        destruct (is_err ret) eqn:Er; cbn [fst]; unfold gd_inv; cbn;
        [rewrite (Hu eq_refl); split; assumption | split; reflexivity]
      end).
    cbn. split; assumption.
  - unfold gd_inv; cbn. split; [reflexivity | rewrite He, Hw; reflexivity].
  - unfold gd_inv; cbn. split; [reflexivity | rewrite He, Hw; reflexivity].
Qed.

(* every reachable state of a GetDict keeps QUERY_STRING and the snapshot equal to the items *)
Theorem getdict_tracked ops g : gd_inv g -> gd_inv (fold_left (fun g o => fst (gstep g o)) ops g).
Proof.
  revert g; induction ops as [|o ops IH]; cbn [fold_left]; intros g H; [exact H|].
  apply IH, gstep_inv, H.
Qed.

(* a refused write (a raising operation of either kind) leaves items, snapshot and QUERY_STRING untouched *)
Theorem getdict_refused_write_changes_nothing g o :
  gd_inv g -> is_err (snd (gstep g o)) = true ->
  g_items (fst (gstep g o)) = g_items g /\ g_env (fst (gstep g o)) = g_env g.
Proof.
  intros [Hw He] Herr. destruct o as [o|k|k]; cbn [gstep] in *.
  - destruct o; try (
      match goal with |- context [step_i ?n ?r ?go ?l ?o] =>
        pose proof (step_err_unchanged n r go l o) as Hu;
        destruct (step_i n r go l o) as [l' ret] eqn:E; cbn [fst snd] in Hu;
        destruct (is_err ret) eqn:Er; cbn [fst snd] in *;
        [split; [apply Hu; reflexivity | reflexivity] | rewrite Er in Herr; discriminate]
      end).
    cbn in Herr. discriminate.
  - cbn. split; [exact Hw | reflexivity].
  - cbn. split; [exact Hw | reflexivity].
Qed.

(* a successful mutation is written back at once *)
Theorem getdict_success_written g o :
  o <> OCopy -> is_err (snd (step_i (fun k => k) false md_get_other (g_items g) o)) = false ->
  g_env (fst (gstep g (GOk o))) = fst (step_i (fun k => k) false md_get_other (g_items g) o).
Proof.
  intros Hc Hok. destruct o; try congruence; cbn [gstep];
    match goal with |- context [step_i ?n ?r ?go ?l ?o] =>
      destruct (step_i n r go l o) as [l' ret] eqn:E; cbn [fst snd] in *; rewrite Hok; reflexivity end.
Qed.

Example getdict_refused_set_example :
  gstep (mkGd [([97], [49]); ([98], [50])] [([97], [49]); ([98], [50])] [([97], [49]); ([98], [50])])%N (GBadSet [97]%N)
  = (mkGd [([97], [49]); ([98], [50])] [([97], [49]); ([98], [50])] [([97], [49]); ([98], [50])], VErr AttributeError)%N.
Proof. reflexivity. Qed.
Example getdict_inv_example : gd_inv (mkGd [([97], [49])] [([97], [49])] [([97], [49])])%N.
Proof. split; reflexivity. Qed.
Example getdict_refused_example :
  snd (gstep (mkGd [([97], [49])] [([97], [49])] [([97], [49])])%N (GBadAdd [98]%N)) = VErr AttributeError.
Proof. reflexivity. Qed.
