(* C07 — output side: what _value_quote / _path_quote emit is escaped text in the sense of the
   specification, it denotes the original octets, and webob's own _unquote inverts it. *)
From Coq Require Import String.
From Coq Require Import ZArith NArith List Bool Lia ZifyBool ZifyNat ZifyN.
Require Import Webob.Lib.Val Webob.Lib.PyStr Webob.Gen.C07_tables Webob.Model.C07_CookieCodec
               Webob.Spec.C07_CookieSpec Webob.Proofs.C07_tables.
Import ListNotations.
Local Open Scope N_scope.

(* ---------------------------------------------------------------- generic facts about escaped text *)
Lemma escaped_shape_app sp c e rest : esc_shape sp c e -> escaped sp rest -> escaped sp (e ++ rest).
Proof.
  intros Hs Hr. destruct Hs as [Hb|Hsp Hc|a b d Ha Hb Hd Hv]; cbn [app].
  - apply esc_bare; assumption.
  - subst c. apply esc_sp; assumption.
  - apply esc_oct; assumption.
Qed.

Lemma escaped_weaken s : escaped false s -> escaped true s.
Proof.
  induction 1 as [|c s Hc _ IH|s Hsp _ IH|a b d s Ha Hb Hd _ IH].
  - constructor.
  - apply esc_bare; assumption.
  - discriminate.
  - apply esc_oct; assumption.
Qed.

Lemma bare_safe_range c : bare_safe c = true -> 33 <= c <= 126 /\ c <> 34 /\ c <> 44 /\ c <> 59 /\ c <> 92.
Proof. unfold bare_safe, is_delim. lia. Qed.

(* what can be seen in escaped text: printable characters only; no ';' ',' or double quote; a backslash
   only as the head of an octal escape (by construction); SP only where [sp] allows it *)
Definition wire_char (sp : bool) (c : N) : bool :=
  printable c && negb (c =? 59) && negb (c =? 44) && negb (c =? 34) && (sp || negb (c =? 32)).

Lemma escaped_wire sp s : escaped sp s -> forallb (wire_char sp) s = true.
Proof.
  induction 1 as [|c s Hc _ IH|s Hsp _ IH|a b d s Ha Hb Hd _ IH]; cbn [forallb].
  - reflexivity.
  - rewrite IH. apply bare_safe_range in Hc. unfold wire_char, printable. lia.
  - rewrite IH. subst sp. reflexivity.
  - rewrite IH. unfold wire_char, printable, oct03, oct07 in *. lia.
Qed.

Lemma wire_char_weaken sp c : wire_char sp c = true -> wire_char true c = true.
Proof. unfold wire_char. lia. Qed.

Lemma safe_value_wire s : safe_value s ->
  forallb (fun c => printable c && negb (c =? 59) && negb (c =? 44)) s = true.
Proof.
  intros [He|[body [-> He]]].
  - apply escaped_wire in He. rewrite forallb_forall in *. intros c Hc. specialize (He c Hc).
    unfold wire_char in He. lia.
  - apply escaped_wire in He. cbn [forallb]. rewrite forallb_app. cbn [forallb].
    replace (forallb _ body) with true; [reflexivity|].
    symmetry. rewrite forallb_forall in *. intros c Hc. specialize (He c Hc). unfold wire_char in He. lia.
Qed.

(* ---------------------------------------------------------------- _value_quote / _path_quote emit escaped text *)
Lemma flat_escape_escaped v : octets v -> escaped true (flat_map escape_char v).
Proof.
  induction 1 as [|c v Hc _ IH]; cbn [flat_map]; [constructor|].
  apply escaped_shape_app with (c := c); [apply escape_shape, Hc|exact IH].
Qed.

Lemma allowed_escaped v : forallb is_allowed v = true -> escaped false v.
Proof.
  induction v as [|c v IH]; cbn [forallb]; intros Ha; [constructor|].
  apply andb_true_iff in Ha as [Hc Hv]. apply esc_bare; [apply allowed_safe, Hc|apply IH, Hv].
Qed.

Theorem value_quote_safe v : octets v -> safe_value (value_quote v).
Proof.
  intros Ho. unfold value_quote. destruct (forallb is_allowed v) eqn:Ea.
  - left. apply allowed_escaped, Ea.
  - right. exists (flat_map escape_char v). split; [reflexivity|apply flat_escape_escaped, Ho].
Qed.

Theorem path_quote_safe v : octets v -> escaped false (path_quote v).
Proof.
  unfold path_quote. induction 1 as [|c v Hc _ IH]; cbn [flat_map]; [constructor|].
  apply escaped_shape_app with (c := c); [apply path_escape_shape, Hc|exact IH].
Qed.

(* ---------------------------------------------------------------- the escaped text denotes the original octets *)
Lemma esc_denote_shape_app sp c e rest : esc_shape sp c e -> esc_denote (e ++ rest) = c :: esc_denote rest.
Proof.
  intros Hs. destruct Hs as [Hb|Hsp Hc|a b d Ha Hb Hd Hv]; cbn [app esc_denote].
  - apply bare_safe_range in Hb. replace (c =? 92) with false by lia. reflexivity.
  - subst c. reflexivity.
  - subst c. reflexivity.
Qed.

Lemma esc_denote_flat_escape v : octets v -> esc_denote (flat_map escape_char v) = v.
Proof.
  induction 1 as [|c v Hc _ IH]; cbn [flat_map]; [reflexivity|].
  rewrite (esc_denote_shape_app true c) by (apply escape_shape, Hc). rewrite IH. reflexivity.
Qed.

Lemma esc_denote_path_quote v : octets v -> esc_denote (path_quote v) = v.
Proof.
  unfold path_quote. induction 1 as [|c v Hc _ IH]; cbn [flat_map]; [reflexivity|].
  rewrite (esc_denote_shape_app false c) by (apply path_escape_shape, Hc). rewrite IH. reflexivity.
Qed.

Lemma esc_denote_no_backslash s : forallb (fun c => negb (c =? 92)) s = true -> esc_denote s = s.
Proof.
  induction s as [|c s IH]; cbn [forallb esc_denote]; intros Hs; [reflexivity|].
  apply andb_true_iff in Hs as [Hc Hs]. replace (c =? 92) with false by lia. rewrite IH by exact Hs. reflexivity.
Qed.

Lemma allowed_no_backslash v : forallb is_allowed v = true -> forallb (fun c => negb (c =? 92)) v = true.
Proof.
  intros Ha. rewrite forallb_forall in *. intros c Hc. specialize (Ha c Hc).
  apply allowed_safe, bare_safe_range in Ha. lia.
Qed.

Lemma last_quoted body : last (34 :: body ++ [34]) 0 = 34.
Proof. rewrite app_comm_cons. apply last_last. Qed.

Lemma denote_value_quoted body : denote_value (34 :: body ++ [34]) = esc_denote body.
Proof.
  unfold denote_value. rewrite last_quoted. rewrite N.eqb_refl. rewrite removelast_last. reflexivity.
Qed.

(* a string that does not start with a double quote is decoded as it stands *)
Lemma denote_value_bare s : (forall t, s <> 34 :: t) -> denote_value s = esc_denote s.
Proof.
  intros Hn. destruct s as [|c t]; [reflexivity|].
  unfold denote_value.
  destruct c as [|p]; [reflexivity|].
  do 6 (destruct p as [p|p|]; try reflexivity).
  exfalso. apply (Hn t). reflexivity.
Qed.

Lemma allowed_not_quote c v : forallb is_allowed (c :: v) = true -> c <> 34.
Proof.
  cbn [forallb]. intros Ha. apply andb_true_iff in Ha as [Hc _].
  apply allowed_safe, bare_safe_range in Hc. lia.
Qed.

Theorem denote_value_quote v : octets v -> denote_value (value_quote v) = v.
Proof.
  intros Ho. unfold value_quote. destruct (forallb is_allowed v) eqn:Ea.
  - rewrite denote_value_bare.
    + apply esc_denote_no_backslash, allowed_no_backslash, Ea.
    + intros t ->. apply allowed_not_quote in Ea. congruence.
  - rewrite denote_value_quoted. apply esc_denote_flat_escape, Ho.
Qed.

Lemma escaped_false_no_quote s : escaped false s -> forall t, s <> 34 :: t.
Proof.
  intros He t ->. apply escaped_wire in He. cbn [forallb] in He. unfold wire_char in He. cbn in He. discriminate.
Qed.

Theorem denote_path_quote v : octets v -> denote_value (path_quote v) = v.
Proof.
  intros Ho. rewrite denote_value_bare.
  - apply esc_denote_path_quote, Ho.
  - apply escaped_false_no_quote, path_quote_safe, Ho.
Qed.

(* ---------------------------------------------------------------- webob's own _unquote inverts both quoters *)
(* one-step unfolding of the scanner (kept explicit so that rewriting stays under control) *)
Lemma unq_scan_cons c s1 :
  unq_scan (c :: s1) =
  if c =? 92 then
    match s1 with
    | [] => [c]
    | a :: s2 =>
        match s2 with
        | b :: d :: s4 =>
            if is03 a && is07 b && is07 d then unq_oct a b d :: unq_scan s4
            else if a =? 10 then c :: unq_scan s1
            else unq_single a :: unq_scan s2
        | _ =>
            if a =? 10 then c :: unq_scan s1
            else unq_single a :: unq_scan s2
        end
    end
  else c :: unq_scan s1.
Proof. reflexivity. Qed.

Lemma unq_scan_shape_app sp c e rest : esc_shape sp c e -> unq_scan (e ++ rest) = c :: unq_scan rest.
Proof.
  intros Hs. destruct Hs as [Hb|Hsp Hc|a b d Ha Hb Hd Hv]; cbn [app].
  - rewrite unq_scan_cons. apply bare_safe_range in Hb. replace (c =? 92) with false by lia. reflexivity.
  - subst c. reflexivity.
  - rewrite unq_scan_cons. change (92 =? 92) with true. cbv beta iota.
    assert (E : is03 a && is07 b && is07 d = true)
      by (change (oct03 a && oct07 b && oct07 d = true); rewrite Ha, Hb, Hd; reflexivity).
    rewrite E. rewrite unq_oct_value by assumption. rewrite Hv. reflexivity.
Qed.

Lemma unq_scan_flat_escape v : octets v -> unq_scan (flat_map escape_char v) = v.
Proof.
  induction 1 as [|c v Hc _ IH]; cbn [flat_map]; [reflexivity|].
  rewrite (unq_scan_shape_app true c) by (apply escape_shape, Hc). rewrite IH. reflexivity.
Qed.

Lemma unq_scan_path_quote v : octets v -> unq_scan (path_quote v) = v.
Proof.
  unfold path_quote. induction 1 as [|c v Hc _ IH]; cbn [flat_map]; [reflexivity|].
  rewrite (unq_scan_shape_app false c) by (apply path_escape_shape, Hc). rewrite IH. reflexivity.
Qed.

Lemma unq_scan_no_backslash s : forallb (fun c => negb (c =? 92)) s = true -> unq_scan s = s.
Proof.
  induction s as [|c s IH]; cbn [forallb unq_scan]; intros Hs; [reflexivity|].
  apply andb_true_iff in Hs as [Hc Hs]. replace (c =? 92) with false by lia. rewrite IH by exact Hs. reflexivity.
Qed.

Lemma strip_quotes_quoted body : strip_quotes (34 :: body ++ [34]) = body.
Proof.
  unfold strip_quotes. rewrite last_quoted. rewrite N.eqb_refl. cbn [andb]. apply removelast_last.
Qed.

Lemma strip_quotes_bare s : (forall t, s <> 34 :: t) -> strip_quotes s = s.
Proof.
  intros Hn. destruct s as [|c t]; [reflexivity|].
  unfold strip_quotes. destruct (c =? 34) eqn:Ec; [|reflexivity].
  apply N.eqb_eq in Ec. subst c. exfalso. apply (Hn t). reflexivity.
Qed.

(* C07_escape_inverse, lifted from the 256-entry sweep to every byte string *)
Theorem unquote_value_quote v : octets v -> unquote (value_quote v) = v.
Proof.
  intros Ho. unfold unquote, value_quote. destruct (forallb is_allowed v) eqn:Ea.
  - rewrite strip_quotes_bare.
    + apply unq_scan_no_backslash, allowed_no_backslash, Ea.
    + intros t ->. apply allowed_not_quote in Ea. congruence.
  - rewrite strip_quotes_quoted. apply unq_scan_flat_escape, Ho.
Qed.

Theorem unquote_path_quote v : octets v -> unquote (path_quote v) = v.
Proof.
  intros Ho. unfold unquote. rewrite strip_quotes_bare.
  - apply unq_scan_path_quote, Ho.
  - apply escaped_false_no_quote, path_quote_safe, Ho.
Qed.

(* the 256-sweep form of the same fact, one octet at a time *)
Theorem unquote_escape_octet c : c < 256 -> unq_scan (escape_char c) = [c] /\ unq_scan (path_escape_char c) = [c].
Proof.
  intros Hc. split.
  - rewrite <- (app_nil_r (escape_char c)). rewrite (unq_scan_shape_app true c) by (apply escape_shape, Hc). reflexivity.
  - rewrite <- (app_nil_r (path_escape_char c)).
    rewrite (unq_scan_shape_app false c) by (apply path_escape_shape, Hc). reflexivity.
Qed.
