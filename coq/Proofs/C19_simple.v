(* C19 — Accept-Charset / Accept-Encoding / Accept-Language:
     * parse (a ++ ", " ++ b) = parse a ++ parse b for valid non-empty a, b (any spelling);
     * for the element list p of ANY valid header, str p is valid, parses back to p, and is a fixed point. *)
From Coq Require Import ZArith NArith List Bool Lia.
Require Import Webob.Lib.Val Webob.Lib.PyStr Webob.Lib.Rx Webob.Gen.C03_regexes Webob.Spec.C03_abnf
               Webob.Proofs.C03_lang Webob.Model.C03_scan Webob.Proofs.C03_scan Webob.Model.C19_acceptstr
               Webob.Proofs.C19_quote Webob.Proofs.C19_local Webob.Proofs.C19_valid.
Import ListNotations.
Local Open Scope N_scope.

(* ---------- the weight text written for a quality below 1 ---------- *)
Definition wtext (q : N) : str := if q =? 0 then [48] else float_repr q.
Definition below1000 : list N := map N.of_nat (seq 0 1000).
Lemma below1000_in q : q < 1000 -> In q below1000.
Proof. intros H. apply in_map_iff. exists (N.to_nat q). split; [lia|]. apply in_seq. lia. Qed.

Definition qtext_okb (t : str) : bool :=
  match t with
  | [48] => true
  | 48 :: 46 :: ds => (length ds <=? 3)%nat && forallb is_digit ds
  | _ => false
  end.
Lemma qtext_okb_ok t : qtext_okb t = true -> qtext_ok t.
Proof.
  destruct t as [|c0 t]; [discriminate|]. destruct (N.eq_dec c0 48) as [->|H0];
    [|split_N c0; try discriminate; contradiction H0; reflexivity].
  destruct t as [|c1 t]; [left; reflexivity|].
  destruct (N.eq_dec c1 46) as [->|H1]; [|split_N c1; try discriminate; contradiction H1; reflexivity].
  cbn [qtext_okb]. intros H. apply andb_true_iff in H as [Hl Hd]. right; right; left. exists t.
  split; [reflexivity|]. split; [apply Nat.leb_le, Hl|]. apply Forall_forall. rewrite forallb_forall in Hd. exact Hd.
Qed.

Lemma wtext_sweep : forallb (fun q => qtext_okb (wtext q) && (thousandths (wtext q) =? q) &&
                                     rmatch qvalue (wtext q)) below1000 = true.
Proof. vm_compute. reflexivity. Qed.
Lemma wtext_facts q : q < 1000 ->
  qtext_ok (wtext q) /\ thousandths (wtext q) = q /\ matches qvalue (wtext q).
Proof.
  intros H. pose proof wtext_sweep as S. rewrite forallb_forall in S. specialize (S q (below1000_in q H)).
  apply andb_true_iff in S as [S S3]. apply andb_true_iff in S as [S1 S2].
  split; [apply qtext_okb_ok, S1|]. split; [apply N.eqb_eq, S2|apply rmatch_correct, S3].
Qed.

(* the text written for one element *)
Lemma simple_el_text_eq it q : q <= 1000 ->
  simple_el_text (it, q) = if q =? 1000 then it else it ++ semi_q_eq ++ wtext q.
Proof.
  intros H. unfold simple_el_text, item_q_element, q_is, wtext. cbn [fst snd q_thousandths qtext].
  destruct (q =? 1000); [reflexivity|]. destruct (q =? 0); reflexivity.
Qed.

(* ---------- str_simple as a C03 rendering ---------- *)
Definition el_of (e : str * N) : el :=
  (fst e, if snd e =? 1000 then None else Some (mkWt [] [] 113 (wtext (snd e)))).
Fixpoint els_of (p : list (str * N)) : list (el * str) :=
  match p with
  | [] => []
  | [e] => [(el_of e, [])]
  | e :: p' => (el_of e, comma_sp) :: els_of p'
  end.

Definition wf_simple (item_ok : str -> Prop) (p : list (str * N)) : Prop :=
  Forall (fun e => item_ok (fst e) /\ snd e <= 1000) p.

Lemma render_el_of e : snd e <= 1000 -> render_el (el_of e) = simple_el_text e.
Proof.
  destruct e as [it q]. cbn [snd]. intros H. rewrite simple_el_text_eq by exact H. unfold render_el, el_of. cbn [fst snd].
  destruct (q =? 1000); [apply app_nil_r|]. reflexivity.
Qed.

Lemma str_simple_render (item_ok : str -> Prop) p : wf_simple item_ok p -> str_simple p = render [] (els_of p).
Proof.
  unfold str_simple, render, body. cbn [app]. induction 1 as [|e p [_ Hq] Hp IH]; [reflexivity|].
  destruct p as [|e2 p'].
  - cbn [map join els_of flat_map fst snd]. rewrite render_el_of by exact Hq. rewrite !app_nil_r. reflexivity.
  - change (els_of (e :: e2 :: p')) with ((el_of e, comma_sp) :: els_of (e2 :: p')).
    cbn [flat_map fst snd]. cbn [map]. rewrite join_cons. cbn [map] in IH. rewrite IH.
    rewrite render_el_of by exact Hq. rewrite <- app_assoc. reflexivity.
Qed.

Lemma canon_el_of e : snd e <= 1000 -> canon (el_of e) = e.
Proof.
  destruct e as [it q]. cbn [snd]. intros H. unfold canon, el_of. cbn [fst snd].
  destruct (q =? 1000) eqn:E; [apply N.eqb_eq in E as ->; reflexivity|].
  cbn [w_text]. apply N.eqb_neq in E. destruct (wtext_facts q) as (_ & -> & _); [lia|reflexivity].
Qed.
Lemma canon_els_of (item_ok : str -> Prop) p : wf_simple item_ok p -> map (fun ej => canon (fst ej)) (els_of p) = p.
Proof.
  induction 1 as [|e p [_ Hq] Hp IH]; [reflexivity|]. destruct p as [|e2 p'].
  - cbn [els_of map fst]. rewrite canon_el_of by exact Hq. reflexivity.
  - change (els_of (e :: e2 :: p')) with ((el_of e, comma_sp) :: els_of (e2 :: p')).
    cbn [map fst]. rewrite canon_el_of by exact Hq. f_equal. exact IH.
Qed.

Lemma el_of_ok (item_ok : str -> Prop) e : item_ok (fst e) -> snd e <= 1000 -> el_ok item_ok (el_of e).
Proof.
  destruct e as [it q]. cbn [fst snd]. intros Hi Hq. split; [exact Hi|]. unfold el_of. cbn [fst snd].
  destruct (q =? 1000) eqn:E; [exact I|]. apply N.eqb_neq in E.
  split; [constructor|]. split; [constructor|]. split; [reflexivity|]. cbn [w_text].
  apply wtext_facts. lia.
Qed.
Lemma els_of_ok (item_ok : str -> Prop) p : wf_simple item_ok p -> els_ok item_ok (els_of p).
Proof.
  induction 1 as [|e p [Hi Hq] Hp IH]; [exact I|]. destruct p as [|e2 p'].
  - cbn [els_of els_ok]. split; [apply el_of_ok; assumption|]. split; [constructor|]. split; [intros H; contradiction|exact I].
  - change (els_of (e :: e2 :: p')) with ((el_of e, comma_sp) :: els_of (e2 :: p')).
    cbn [els_ok]. split; [apply el_of_ok; assumption|]. split; [repeat constructor|].
    split; [intros _; discriminate|exact IH].
Qed.

(* ---------- membership of the canonical text in the ABNF ---------- *)
Lemma weight_matches q : q < 1000 -> matches weight (semi_q_eq ++ wtext q).
Proof.
  intros H. unfold weight, semi_q_eq. cbn [cats].
  change ([59; 113; 61] ++ wtext q) with ([] ++ [59] ++ [] ++ [113] ++ [61] ++ wtext q).
  apply matches_cat; [apply matches_ows_nil|]. apply matches_cat; [apply matches_ch|].
  apply matches_cat; [apply matches_ows_nil|]. apply matches_cat; [constructor; reflexivity|].
  apply matches_cat; [apply matches_ch|]. apply wtext_facts, H.
Qed.

Lemma simple_el_matches (item_rx : rx) e :
  matches item_rx (fst e) -> snd e <= 1000 -> matches (Cat item_rx (opt weight)) (simple_el_text e).
Proof.
  destruct e as [it q]. cbn [fst snd]. intros Hi Hq. rewrite simple_el_text_eq by exact Hq.
  destruct (q =? 1000) eqn:E.
  - rewrite <- (app_nil_r it). apply matches_cat; [exact Hi|apply MAltL; constructor].
  - apply N.eqb_neq in E. apply matches_cat; [exact Hi|]. apply MAltR. apply weight_matches. lia.
Qed.

Lemma token_item_matches it : token_ok it -> matches (Alt token (ch 42)) it.
Proof. intros H. apply MAltL, matches_plus_tchar, H. Qed.

Lemma upto_matches r n : forall w ws, w = concat ws -> Forall (matches r) ws -> (length ws <= n)%nat ->
  matches (upto n r) w.
Proof.
  induction n as [|n IH]; intros w ws -> Hall Hl.
  - destruct ws; [constructor|cbn in Hl; lia].
  - cbn [upto]. destruct ws as [|x ws]; [apply MAltL; constructor|]. inversion Hall; subst.
    apply MAltR. cbn [concat]. apply matches_cat; [assumption|]. apply (IH _ ws); auto. cbn in Hl. lia.
Qed.
Lemma cls_run_matches rs n a : Forall (fun c => in_ranges rs c = true) a -> (1 <= length a <= n)%nat ->
  matches (one_to n (Cls false rs)) a.
Proof.
  intros Hall [H1 Hn]. destruct a as [|c a]; [cbn in H1; lia|]. inversion Hall as [|? ? Hc Ha]; subst.
  unfold one_to. change (c :: a) with ([c] ++ a). apply matches_cat; [constructor; rewrite cmem_false; exact Hc|].
  apply (upto_matches _ _ _ (map (fun d => [d]) a)).
  - clear. induction a as [|d a IH]; [reflexivity|]. cbn [map concat app]. f_equal. exact IH.
  - clear - Ha. induction Ha as [|d a Hd Ha IH]; [constructor|]. cbn [map]. constructor; [|exact IH].
    constructor. rewrite cmem_false. exact Hd.
  - rewrite map_length. cbn [length] in Hn. lia.
Qed.

Lemma lang_item_matches it : lang_ok it -> matches lang_range it.
Proof.
  intros [->|(a & subs & -> & Hl & Ha & Hs)]; [apply MAltR, matches_ch|].
  apply MAltL. apply matches_cat.
  - apply cls_run_matches; [|exact Hl]. eapply Forall_impl; [|exact Ha]. intros c Hc.
    unfold is_alpha in Hc. cbn [in_ranges]. rewrite orb_false_r. exact Hc.
  - induction Hs as [|s subs [Hsl Hsa] Hs IH]; [constructor|].
    unfold subs_text. cbn [flat_map]. fold (subs_text subs). constructor; [|exact IH].
    change (45 :: s) with ([45] ++ s). apply matches_cat; [apply matches_ch|].
    apply cls_run_matches; [|exact Hsl]. eapply Forall_impl; [|exact Hsa]. intros c Hc.
    unfold is_alnum, is_alpha, is_digit in Hc. cbn [in_ranges]. lia.
Qed.

(* ---------- the three families ---------- *)
Section Fam.
  Variables (gen abnf : rx) (take_item : str -> option (str * str)) (item_ok : str -> Prop) (item_rx : rx).
  Let parse := parse_simple gen take_item.
  Hypothesis Heq : forall w, no_LF w -> (rmatch gen w = true <-> matches abnf w).
  Hypothesis Habnf : rx_nolf abnf = true.
  Hypothesis Hjoinv : forall a b, rmatch gen a = true -> a <> [] -> rmatch gen b = true -> b <> [] ->
                                  rmatch gen (a ++ comma_sp ++ b) = true.
  Hypothesis Hscanj : forall a b, scanF take_item (a ++ comma_sp ++ b) = scanF take_item a ++ scanF take_item b.
  Hypothesis Hitem : forall it rest, item_ok it -> stop_ok rest -> take_item (it ++ rest) = Some (it, rest).
  Hypothesis Hjunk : forall c rest, is_junk c = true -> take_item (c :: rest) = None.
  Hypothesis Hne : forall it, item_ok it -> it <> [].
  Hypothesis Hstart : forall it, item_ok it -> match it with c :: _ => is_stop c = false | [] => True end.
  Hypothesis Hout : forall s it r, take_item s = Some (it, r) -> item_ok it.
  Hypothesis Hrx : forall it, item_ok it -> matches item_rx it.
  (* the ABNF is the list rule over item [weight]; `one` says whether at least one element is required *)
  Variable one : bool.
  Hypothesis Hlist : abnf = if one then hash1 (Cat item_rx (opt weight)) else hash0 (Cat item_rx (opt weight)).
  Hypothesis Hscan_ne : one = true -> forall w, rmatch gen w = true -> scanF take_item w <> [].

  Theorem parse_join a b pa pb :
    parse a = Some pa -> parse b = Some pb -> a <> [] -> b <> [] ->
    parse (a ++ comma_sp ++ b) = Some (pa ++ pb).
  Proof.
    unfold parse, parse_simple. intros Ha Hb Hane Hbne.
    destruct (rmatch gen a) eqn:Va; [|discriminate]. destruct (rmatch gen b) eqn:Vb; [|discriminate].
    injection Ha as <-. injection Hb as <-. rewrite Hjoinv by assumption. f_equal. apply Hscanj.
  Qed.

  Lemma parse_wf w p : parse w = Some p -> wf_simple item_ok p /\ (one = true -> p <> []).
  Proof.
    unfold parse, parse_simple. destruct (rmatch gen w) eqn:V; [|discriminate]. intros E; injection E as <-.
    split.
    - unfold wf_simple. apply Forall_forall. intros e He. split.
      + pose proof (scan_items_ok take_item item_ok Hout (S (length w)) w) as H. rewrite Forall_forall in H. apply H, He.
      + pose proof (scan_q_bound take_item (S (length w)) w) as H. rewrite Forall_forall in H. apply H, He.
    - intros Ho. apply (Hscan_ne Ho w V).
  Qed.

  Theorem str_valid p : wf_simple item_ok p -> (one = true -> p <> []) -> rmatch gen (str_simple p) = true.
  Proof.
    intros Hwf Hnonempty. apply (abnf_valid gen abnf _ Heq Habnf). rewrite Hlist.
    assert (Hall : Forall (matches (Cat item_rx (opt weight))) (map simple_el_text p)).
    { apply Forall_forall. intros x Hx. apply in_map_iff in Hx as (e & <- & He).
      unfold wf_simple in Hwf. rewrite Forall_forall in Hwf. destruct (Hwf e He) as [Hi Hq].
      apply simple_el_matches; [apply Hrx, Hi|exact Hq]. }
    unfold str_simple. destruct one.
    - apply join_hash1; [exact Hall|]. destruct p; [exfalso; apply Hnonempty; reflexivity|discriminate].
    - apply join_hash0, Hall.
  Qed.

  Theorem str_reparse p : wf_simple item_ok p -> (one = true -> p <> []) -> parse (str_simple p) = Some p.
  Proof.
    intros Hwf Hnonempty. unfold parse, parse_simple. rewrite str_valid by assumption. f_equal.
    rewrite (str_simple_render item_ok p Hwf).
    rewrite (scan_render_full take_item item_ok Hitem Hjunk Hne Hstart); [|constructor|apply els_of_ok, Hwf].
    apply (canon_els_of item_ok), Hwf.
  Qed.

  (* the statement about every valid header: its canonical text is valid, has the same elements, and
     re-serialises to itself *)
  Theorem str_roundtrip w p : parse w = Some p ->
    rmatch gen (str_simple p) = true /\ parse (str_simple p) = Some p.
  Proof.
    intros H. apply parse_wf in H as [Hwf Hn]. split; [apply str_valid|apply str_reparse]; assumption.
  Qed.
End Fam.

(* at least one element is found in every valid 1#element header *)
Lemma star_junk_all w : matches (Star (Cat (ch 44) OWS)) w -> all_junk w.
Proof.
  intros H. remember (Star (Cat (ch 44) OWS)) as r eqn:Hr. induction H; try discriminate.
  - constructor.
  - injection Hr as ->. apply Forall_app. split; [|apply IHmatches2; reflexivity].
    apply inv_cat in H as (x & y & -> & Hx & Hy). apply inv_cls in Hx as (c & -> & Hc).
    rewrite cmem_false in Hc. cbn [in_ranges] in Hc. rewrite orb_false_r in Hc.
    apply andb_true_iff in Hc as [H1 H2]. apply N.leb_le in H1, H2. assert (c = 44) as -> by lia.
    constructor; [reflexivity|]. unfold OWS in Hy. apply star_cls_forall in Hy.
    eapply Forall_impl; [|exact Hy]. intros d Hd. cbn [in_ranges] in Hd. unfold is_junk. lia.
Qed.

Section FirstElement.
  Variables (take_item : str -> option (str * str)).
  Hypothesis Hjunk : forall c rest, is_junk c = true -> take_item (c :: rest) = None.
  Lemma scan_first j s f it r : all_junk j -> take_item s = Some (it, r) -> s <> [] -> (length j + length s < f)%nat ->
    scan_simple take_item f (j ++ s) <> [].
  Proof.
    intros Hj Hi Hs Hf. replace f with (length j + (f - length j))%nat by lia.
    rewrite (scan_junk take_item Hjunk j s _ Hj). destruct (f - length j)%nat as [|f'] eqn:E; [lia|].
    destruct s as [|c s']; [contradiction|]. cbn [scan_simple]. rewrite Hi.
    destruct (take_weight r) as [[q r']|]; discriminate.
  Qed.
End FirstElement.

Lemma first_token_el e rest : matches (Cat (Alt token (ch 42)) (opt weight)) e ->
  exists it r, take_token (e ++ rest) = Some (it, r) /\ e ++ rest <> [].
Proof.
  intros H. apply inv_cat in H as (x & y & -> & Hx & _).
  assert (exists c x', x = c :: x' /\ is_tchar c = true) as (c & x' & -> & Hc).
  { apply inv_alt in Hx as [Hx|Hx].
    - unfold token, plus in Hx. apply inv_cat in Hx as (u & v & -> & Hu & _). apply inv_cls in Hu as (c & -> & Hc).
      rewrite cmem_false in Hc. exists c, v. split; [reflexivity|exact Hc].
    - apply inv_cls in Hx as (c & -> & Hc). rewrite cmem_false in Hc. cbn [in_ranges] in Hc.
      exists c, []. split; [reflexivity|]. assert (c = 42) as -> by lia. reflexivity. }
  cbn [app]. unfold take_token. cbn [span]. rewrite Hc.
  destruct (span is_tchar ((x' ++ y) ++ rest)) as [u v]. eexists _, _. split; [reflexivity|discriminate].
Qed.

Lemma hash1_first el w : matches (hash1 el) w ->
  exists j e rest, w = j ++ e ++ rest /\ all_junk j /\ matches el e.
Proof.
  unfold hash1. cbn [cats]. intros H. apply inv_cat in H as (j & y & -> & Hj & Hy).
  apply inv_cat in Hy as (e & rest & -> & He & _). exists j, e, rest. split; [reflexivity|].
  split; [apply star_junk_all, Hj|exact He].
Qed.

Lemma charset_scan_nonempty w : rmatch gen_accept_charset w = true -> scanF take_token w <> [].
Proof.
  intros V. apply (valid_abnf _ _ _ accept_charset_eq nolf_charset) in V.
  apply hash1_first in V as (j & e & rest & -> & Hj & He).
  destruct (first_token_el e rest He) as (it & r & Hi & Hne). unfold scanF.
  eapply (scan_first take_token take_token_junk); eauto. rewrite !app_length. lia.
Qed.

Lemma span_upto_S n p c X : span_upto (S n) p (c :: X) =
  if p c then let '(a, b) := span_upto n p X in (c :: a, b) else ([], c :: X).
Proof. reflexivity. Qed.

Lemma span_upto_first c X : is_alpha c = true ->
  exists a1 r0, span_upto 8 is_alpha (c :: X) = (c :: a1, r0).
Proof.
  intros Ha. change 8%nat with (S 7). rewrite span_upto_S, Ha.
  destruct (span_upto 7 is_alpha X) as [p q]. exists p, q. reflexivity.
Qed.

Lemma first_lang_el e rest : matches (Cat lang_range (opt weight)) e ->
  exists it r, take_lang_range (e ++ rest) = Some (it, r) /\ e ++ rest <> [].
Proof.
  intros H. apply inv_cat in H as (x & y & -> & Hx & _).
  apply inv_alt in Hx as [Hx|Hx].
  - apply inv_cat in Hx as (u & v & -> & Hu & _). unfold one_to in Hu.
    apply inv_cat in Hu as (u1 & u2 & -> & Hu1 & _). apply inv_cls in Hu1 as (c & -> & Hc).
    rewrite cmem_false in Hc. cbn [app]. unfold take_lang_range.
    assert (Ha : is_alpha c = true) by (unfold is_alpha; cbn [in_ranges] in Hc; lia).
    rewrite (alpha_not_star c Ha).
    destruct (span_upto_first c (((u2 ++ v) ++ y) ++ rest) Ha) as (a1 & r0 & ->).
    destruct (take_subtags (length r0) r0). eexists _, _. split; [reflexivity|discriminate].
  - apply inv_cls in Hx as (c & -> & Hc). rewrite cmem_false in Hc. cbn [in_ranges] in Hc.
    assert (c = 42) as -> by lia. cbn [app]. eexists _, _. split; [reflexivity|discriminate].
Qed.

Lemma language_scan_nonempty w : rmatch gen_accept_language w = true -> scanF take_lang_range w <> [].
Proof.
  intros V. apply (valid_abnf _ _ _ accept_language_eq nolf_language) in V.
  apply hash1_first in V as (j & e & rest & -> & Hj & He).
  destruct (first_lang_el e rest He) as (it & r & Hi & Hne). unfold scanF.
  eapply (scan_first take_lang_range take_lang_junk); eauto. rewrite !app_length. lia.
Qed.

(* ---------- instances ---------- *)
Definition charset_parse_join := parse_join gen_accept_charset take_token join_valid_charset scan_token_join.
Definition encoding_parse_join := parse_join gen_accept_encoding take_token join_valid_encoding scan_token_join.
Definition language_parse_join := parse_join gen_accept_language take_lang_range join_valid_language scan_lang_join.

Lemma token_ne it : token_ok it -> it <> []. Proof. intros [H _]; exact H. Qed.

Theorem charset_roundtrip w p : parse_accept_charset w = Some p ->
  rmatch gen_accept_charset (str_simple p) = true /\ parse_accept_charset (str_simple p) = Some p.
Proof.
  apply (str_roundtrip gen_accept_charset abnf_accept_charset take_token token_ok (Alt token (ch 42))
           accept_charset_eq nolf_abnf_charset take_token_item take_token_junk token_ne token_start take_token_ok
           token_item_matches true eq_refl (fun _ => charset_scan_nonempty)).
Qed.
Theorem encoding_roundtrip w p : parse_accept_encoding w = Some p ->
  rmatch gen_accept_encoding (str_simple p) = true /\ parse_accept_encoding (str_simple p) = Some p.
Proof.
  apply (str_roundtrip gen_accept_encoding abnf_accept_encoding take_token token_ok (Alt token (ch 42))
           accept_encoding_eq nolf_abnf_encoding take_token_item take_token_junk token_ne token_start take_token_ok
           token_item_matches false eq_refl).
  intros H; discriminate.
Qed.
Theorem language_roundtrip w p : parse_accept_language w = Some p ->
  rmatch gen_accept_language (str_simple p) = true /\ parse_accept_language (str_simple p) = Some p.
Proof.
  apply (str_roundtrip gen_accept_language abnf_accept_language take_lang_range lang_ok lang_range
           accept_language_eq nolf_abnf_language take_lang_item take_lang_junk lang_nonempty lang_start take_lang_ok
           lang_item_matches true eq_refl (fun _ => language_scan_nonempty)).
Qed.
