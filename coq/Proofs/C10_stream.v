(* C10 — lemmas about byte segments, files, LimitedLengthFile.readinto and the adversarial
   BufferedReader abstraction. *)
From Coq Require Import ZArith NArith List Bool Arith Lia.
Require Import Webob.Lib.Val Webob.Model.C10_BodyStream.
Import ListNotations.

(* ------------------------------------------------------------------ segments *)
Definition seg (s : bytes) (a b : nat) : bytes := firstn (b - a) (skipn a s).

Lemma firstn_plus : forall (l : bytes) m k, firstn (m + k) l = firstn m l ++ firstn k (skipn m l).
Proof.
  intros l m; revert l; induction m as [|m IH]; intros l k; cbn.
  - reflexivity.
  - destruct l as [|x l]; cbn.
    + now rewrite firstn_nil.
    + now rewrite IH.
Qed.

Lemma skipn_skipn' : forall (l : bytes) a b, skipn a (skipn b l) = skipn (b + a) l.
Proof.
  intros l a b; revert l; induction b as [|b IH]; intros l; cbn.
  - reflexivity.
  - destruct l as [|x l]; cbn.
    + now rewrite skipn_nil.
    + apply IH.
Qed.

Lemma seg_app : forall s a b c, a <= b -> b <= c -> seg s a b ++ seg s b c = seg s a c.
Proof.
  intros s a b c Hab Hbc; unfold seg.
  replace (c - a) with ((b - a) + (c - b)) by lia.
  rewrite firstn_plus, skipn_skipn'. replace (a + (b - a)) with b by lia. reflexivity.
Qed.

Lemma seg_length : forall s a b, a <= b -> b <= length s -> length (seg s a b) = b - a.
Proof.
  intros s a b Hab Hb; unfold seg. rewrite firstn_length, skipn_length. lia.
Qed.

Lemma seg_length_le : forall s a b, length (seg s a b) <= b - a.
Proof. intros; unfold seg; rewrite firstn_length; lia. Qed.

Lemma seg_same : forall s a, seg s a a = [].
Proof. intros; unfold seg; now rewrite Nat.sub_diag. Qed.

Lemma seg_ge : forall s a b, b <= a -> seg s a b = [].
Proof. intros s a b H; unfold seg. replace (b - a) with 0 by lia. reflexivity. Qed.

Lemma seg_0 : forall s n, seg s 0 n = firstn n s.
Proof. intros; unfold seg; cbn. now rewrite Nat.sub_0_r. Qed.

Lemma seg_to_end : forall s a, seg s a (length s) = skipn a s.
Proof.
  intros; unfold seg. apply firstn_all2. rewrite skipn_length; lia.
Qed.

Lemma seg_past_end : forall s a b, length s <= b -> seg s a b = skipn a s.
Proof.
  intros s a b H; unfold seg. apply firstn_all2. rewrite skipn_length; lia.
Qed.

Lemma firstn_seg : forall s a b k, a + k <= b -> firstn k (seg s a b) = seg s a (a + k).
Proof.
  intros s a b k H; unfold seg. rewrite firstn_firstn. f_equal. lia.
Qed.

Lemma skipn_seg : forall s a b k, a + k <= b -> skipn k (seg s a b) = seg s (a + k) b.
Proof.
  intros s a b k H.
  rewrite <- (seg_app s a (a + k) b) by lia.
  destruct (Nat.le_gt_cases (a + k) (length s)) as [Hk|Hk].
  - rewrite skipn_app. rewrite seg_length by lia.
    replace (a + k - a) with k by lia. rewrite Nat.sub_diag; cbn.
    rewrite skipn_all2; [reflexivity|]. rewrite seg_length by lia; lia.
  - (* beyond the end: everything after is empty *)
    assert (E : seg s (a + k) b = []).
    { unfold seg. rewrite skipn_all2 by lia. now rewrite firstn_nil. }
    rewrite E, app_nil_r. apply skipn_all2. pose proof (seg_length_le s a (a + k)); lia.
Qed.

Lemma seg_firstn : forall s n a b, b <= n -> seg (firstn n s) a b = seg s a b.
Proof.
  intros s n a b H; unfold seg.
  rewrite skipn_firstn_comm, firstn_firstn. f_equal. lia.
Qed.

Lemma skipn_firstn_seg : forall s n a, skipn a (firstn n s) = seg s a n.
Proof. intros; unfold seg. now rewrite skipn_firstn_comm. Qed.

(* ------------------------------------------------------------------ files *)
Definition fwf (f : file) : Prop := fpos f <= length (fdata f).

Lemma fread_spec : forall k f d f',
  fwf f -> fread k f = (d, f') ->
  fdata f' = fdata f /\ fkd f' = fkd f /\ fwf f' /\
  fpos f' = fpos f + length d /\ d = seg (fdata f) (fpos f) (fpos f') /\
  match k with
  | Some k => length d = Nat.min k (length (fdata f) - fpos f)
  | None => fpos f' = length (fdata f)
  end.
Proof.
  intros k f d f' Hwf H; unfold fread in H; injection H as Hd Hf; subst f'.
  unfold fwf in *; cbn [fdata fpos fkd].
  assert (Hlen : length d = match k with Some k => Nat.min k (length (fdata f) - fpos f)
                                    | None => length (fdata f) - fpos f end).
  { subst d; destruct k; [rewrite firstn_length|]; rewrite skipn_length; reflexivity. }
  assert (Hseg : d = seg (fdata f) (fpos f) (fpos f + length d)).
  { unfold seg. replace (fpos f + length d - fpos f) with (length d) by lia.
    subst d; destruct k as [k|].
    - rewrite firstn_length.
      destruct (Nat.le_gt_cases k (length (skipn (fpos f) (fdata f)))) as [Hk|Hk].
      + now rewrite Nat.min_l by lia.
      + rewrite Nat.min_r by lia. rewrite firstn_all. apply firstn_all2; lia.
    - symmetry; apply firstn_all. }
  rewrite Hd. repeat split; auto; destruct k; lia.
Qed.

Lemma fseek0_wf : forall f, fwf (fseek0 f).
Proof. intros; unfold fwf, fseek0; cbn; lia. Qed.

(* ------------------------------------------------------------------ LimitedLengthFile.readinto *)
Lemma llf_spec : forall a w f x w' f',
  fwf f -> 1 <= a -> llf_readinto a w f = (x, w', f') ->
  fdata f' = fdata f /\ fkd f' = fkd f /\ fwf f' /\ wraw w' = wraw w /\ wbuf w' = wbuf w /\
  fpos f' + wrem w' = fpos f + wrem w /\ fpos f <= fpos f' /\
  match x with
  | Ok d => d = seg (fdata f) (fpos f) (fpos f') /\ length d = fpos f' - fpos f /\
            (0 < wrem w -> 1 <= length d)
  | Disc => fpos f' = length (fdata f) /\ 0 < wrem w'
  | Fuel => False
  end.
Proof.
  intros a w f x w' f' Hwf Ha H; unfold llf_readinto in H.
  destruct (Nat.eqb (wrem w) 0) eqn:E0.
  - injection H as <- <- <-. apply Nat.eqb_eq in E0.
    repeat split; try lia; try assumption.
    now rewrite seg_same. cbn; lia.
  - apply Nat.eqb_neq in E0.
    destruct (fread (Some (Nat.min a (wrem w))) f) as [d f1] eqn:Er.
    destruct (fread_spec _ _ _ _ Hwf Er) as (Hd & Hk & Hwf1 & Hp & Hseg & Hlen).
    cbn [wbuf wrem wraw] in H.
    destruct (Nat.ltb (length d) (Nat.min a (wrem w)) &&
              negb (Nat.eqb (wrem w - length d) 0)) eqn:Eb.
    + injection H as <- <- <-; cbn.
      apply andb_true_iff in Eb; destruct Eb as [E1 E2].
      apply Nat.ltb_lt in E1. apply negb_true_iff, Nat.eqb_neq in E2.
      unfold fwf in *. repeat split; try lia; try assumption.
    + injection H as <- <- <-; cbn.
      apply andb_false_iff in Eb.
      assert (Hfull : length d = Nat.min a (wrem w)).
      { destruct Eb as [E1|E2].
        - apply Nat.ltb_ge in E1. lia.
        - apply negb_false_iff, Nat.eqb_eq in E2. lia. }
      repeat split; try lia; try assumption.
Qed.

(* ------------------------------------------------------------------ BufferedReader *)
Lemma next_size_pos : forall adv a adv', next_size adv = (a, adv') -> 1 <= a.
Proof.
  intros adv a adv' H; unfold next_size in H; injection H as <- <-.
  destruct (match adv with [] => default_buffer_size | a :: _ => a end); lia.
Qed.

Definition gap (need : option nat) (w : wrapper) : nat :=
  match need with Some k => k - length (wbuf w) | None => wrem w end.

Lemma br_fill_spec : forall fuel need adv w f c x adv' w' f',
  fwf f -> c <= fpos f -> wbuf w = seg (fdata f) c (fpos f) -> gap need w < fuel ->
  br_fill fuel need adv w f = (x, adv', w', f') ->
  fdata f' = fdata f /\ fkd f' = fkd f /\ fwf f' /\ wraw w' = wraw w /\ fpos f <= fpos f' /\
  fpos f' + wrem w' = fpos f + wrem w /\
  match x with
  | Ok _ => wbuf w' = seg (fdata f) c (fpos f') /\
            (enough need (length (wbuf w')) = true \/ wrem w' = 0)
  | Disc => wbuf w' = [] /\ fpos f' = length (fdata f) /\ 0 < wrem w'
  | Fuel => False
  end.
Proof.
  induction fuel as [|fuel IH]; intros need adv w f c x adv' w' f' Hwf Hc Hb Hg H.
  - lia.
  - cbn [br_fill] in H.
    destruct (enough need (length (wbuf w))) eqn:Een.
    { injection H as <- <- <- <-. repeat split; auto; lia. }
    destruct (Nat.eqb (wrem w) 0) eqn:E0.
    { injection H as <- <- <- <-. apply Nat.eqb_eq in E0. repeat split; auto; lia. }
    apply Nat.eqb_neq in E0.
    destruct (next_size adv) as [a adv1] eqn:En.
    pose proof (next_size_pos _ _ _ En) as Ha.
    destruct (llf_readinto a w f) as [[y w1] f1] eqn:El.
    destruct (llf_spec _ _ _ _ _ _ Hwf Ha El) as (Hd & Hk & Hwf1 & Hr & Hbuf & Hcons & Hle & Hy).
    destruct y as [d| |].
    + destruct Hy as (Hseg & Hlen & Hpos). specialize (Hpos ltac:(lia)).
      assert (Hfp1 : fpos f1 <= length (fdata f)) by (unfold fwf in Hwf1; rewrite Hd in Hwf1; lia).
      eapply (IH _ _ _ _ c) in H; cbn [wbuf wrem wraw]; try eassumption.
      * destruct H as (Hd' & Hk' & Hwf' & Hr' & Hle' & Hcons' & Hx).
        cbn [wbuf wrem wraw] in *.
        rewrite Hd in *.
        repeat split; try congruence; try lia.
        all: try (destruct x; exact Hx).
      * lia.
      * rewrite Hbuf, Hb, Hseg, Hd. apply seg_app; lia.
      * unfold gap in *. cbn [wbuf wrem]. destruct need as [k|].
        -- rewrite app_length, Hbuf. cbn in Een. apply Nat.leb_gt in Een. lia.
        -- lia.
    + injection H as <- <- <- <-; cbn [wbuf wrem wraw].
      destruct Hy as (Hy1 & Hy2). repeat split; auto; lia.
    + contradiction.
Qed.

Lemma br_read_spec : forall need adv w f c x adv' w' f',
  fwf f -> c <= fpos f -> wbuf w = seg (fdata f) c (fpos f) ->
  br_read need adv w f = (x, adv', w', f') ->
  fdata f' = fdata f /\ fkd f' = fkd f /\ fwf f' /\ wraw w' = wraw w /\ fpos f <= fpos f' /\
  fpos f' + wrem w' = fpos f + wrem w /\
  match x with
  | Ok d => d = seg (fdata f) c (c + length d) /\ c + length d <= fpos f' /\
            wbuf w' = seg (fdata f) (c + length d) (fpos f') /\
            match need with
            | Some k => length d = k \/ (length d < k /\ wrem w' = 0 /\ wbuf w' = [] /\ c + length d = fpos f')
            | None => wrem w' = 0 /\ wbuf w' = [] /\ c + length d = fpos f'
            end
  | Disc => wbuf w' = [] /\ fpos f' = length (fdata f) /\ 0 < wrem w'
  | Fuel => False
  end.
Proof.
  intros need adv w f c x adv' w' f' Hwf Hc Hb H; unfold br_read in H.
  destruct (br_fill _ need adv w f) as [[[y adv1] w1] f1] eqn:Ef.
  eapply br_fill_spec in Ef; try eassumption.
  2:{ unfold gap; destruct need; lia. }
  destruct Ef as (Hd & Hk & Hwf1 & Hr & Hle & Hcons & Hy).
  assert (Hfp1 : fpos f1 <= length (fdata f)) by (unfold fwf in Hwf1; rewrite Hd in Hwf1; lia).
  destruct y as [u| |].
  - injection H as <- <- <- <-; cbn [wbuf wrem wraw].
    destruct Hy as (Hbuf & Hor).
    assert (Hlen : length (wbuf w1) = fpos f1 - c) by (rewrite Hbuf; apply seg_length; lia).
    destruct need as [k|].
    + destruct (Nat.le_gt_cases k (length (wbuf w1))) as [Hk1|Hk1].
      * assert (Hl : length (firstn k (wbuf w1)) = k) by (rewrite firstn_length; lia).
        rewrite Hl. rewrite Hbuf.
        split; [auto|]. split; [auto|]. split; [auto|]. split; [auto|]. split; [auto|]. split; [auto|].
        split; [apply firstn_seg; lia|]. split; [lia|]. split; [apply skipn_seg; lia|]. now left.
      * assert (Hw0 : wrem w1 = 0).
        { destruct Hor as [Hor|Hor]; auto. cbn in Hor. apply Nat.leb_le in Hor. lia. }
        rewrite firstn_all2 by lia. rewrite skipn_all2 by lia.
        rewrite Hlen. replace (c + (fpos f1 - c)) with (fpos f1) by lia.
        split; [auto|]. split; [auto|]. split; [auto|]. split; [auto|]. split; [auto|]. split; [auto|].
        split; [auto|]. split; [lia|]. split; [now rewrite seg_same|].
        right. repeat split; auto; lia.
    + destruct Hor as [Hor|Hor]; [discriminate|].
      rewrite Hlen. replace (c + (fpos f1 - c)) with (fpos f1) by lia.
      split; [auto|]. split; [auto|]. split; [auto|]. split; [auto|]. split; [auto|]. split; [auto|].
      split; [auto|]. split; [lia|]. split; [now rewrite seg_same|]. repeat split; auto.
  - injection H as <- <- <- <-. repeat split; auto; apply Hy.
  - contradiction.
Qed.
