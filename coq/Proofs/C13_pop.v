(* C13 — assignment / read-back of path_info and script_name; path_info_pop / path_info_peek. *)
From Coq Require Import NArith ZArith List Bool Lia ZifyBool ZifyNat ZifyN.
Require Import Webob.Lib.Val Webob.Lib.PyStr Webob.Lib.C13_Utf8 Webob.Gen.C13_tables
               Webob.Model.C13_urlsplit Webob.Model.C13_urlpath Webob.Spec.C13_spec
               Webob.Proofs.C13_quote Webob.Proofs.C13_host.
Import ListNotations.
Local Open Scope N_scope.

(* ------------------------------------------------------------------ set / get *)
Theorem set_get_path e text : text_ok (e_enc e) text ->
  exists raw e', set_path e text = Ok e' /\ encode (e_enc e) text = Ok raw /\
    e_path e' = raw /\ forallb is_octet raw = true /\ get_path e' = Ok text /\
    e_script e' = e_script e /\ e_enc e' = e_enc e.
Proof.
  intros Ht. destruct (encode_text_ok _ _ Ht) as [raw Hr].
  exists raw. eexists. unfold set_path, encset. rewrite Hr. cbn [bind].
  split; [reflexivity|]. split; [reflexivity|]. split; [reflexivity|].
  split; [apply (encode_octets _ _ _ Hr)|]. split; [|split; reflexivity].
  unfold get_path. cbn [e_enc e_path]. apply encget_encode. exact Hr.
Qed.

Theorem set_get_script e text : text_ok (e_enc e) text ->
  exists raw e', set_script e text = Ok e' /\ encode (e_enc e) text = Ok raw /\
    e_script e' = Some raw /\ forallb is_octet raw = true /\ get_script e' = Ok text /\
    e_path e' = e_path e /\ e_enc e' = e_enc e.
Proof.
  intros Ht. destruct (encode_text_ok _ _ Ht) as [raw Hr].
  exists raw. eexists. unfold set_script, encset. rewrite Hr. cbn [bind].
  split; [reflexivity|]. split; [reflexivity|]. split; [reflexivity|].
  split; [apply (encode_octets _ _ _ Hr)|]. split; [|split; reflexivity].
  unfold get_script, raw_script. cbn [e_enc e_script]. apply encget_encode. exact Hr.
Qed.

(* text outside the encoding's repertoire is refused, nothing is stored *)
Theorem set_path_refused e text : ~ text_ok (e_enc e) text -> set_path e text = Raise EUnicodeEncode.
Proof.
  intros Hn. unfold set_path, encset. destruct (encode (e_enc e) text) as [raw|x] eqn:E.
  - exfalso. apply Hn. apply (encode_ok_text _ _ _ E).
  - destruct (e_enc e); cbn [encode] in E.
    + destruct (valid_text text); [discriminate|]. injection E as <-. reflexivity.
    + destruct (forallb is_octet text); [discriminate|]. injection E as <-. reflexivity.
Qed.

(* ------------------------------------------------------------------ the URL forms in terms of the raw strings *)
Lemma url_forms e st pt :
  encode (e_enc e) st = Ok (raw_script e) -> encode (e_enc e) pt = Ok (e_path e) ->
  application_url e = Ok (host_url e ++ url_quote (raw_script e)) /\
  path e = Ok (url_quote (raw_script e ++ e_path e)) /\
  path_url e = Ok (host_url e ++ url_quote (raw_script e ++ e_path e)) /\
  path_qs e = Ok (add_query e (url_quote (raw_script e ++ e_path e))) /\
  url e = Ok (add_query e (host_url e ++ url_quote (raw_script e ++ e_path e))).
Proof.
  intros Hs Hp.
  assert (Qs : quoted_script e = Ok (url_quote (raw_script e))).
  { unfold quoted_script, get_script. rewrite (encget_encode _ _ _ Hs). cbn [bind]. rewrite Hs. reflexivity. }
  assert (Qp : quoted_path e = Ok (url_quote (e_path e))).
  { unfold quoted_path, get_path. rewrite (encget_encode _ _ _ Hp). cbn [bind]. rewrite Hp. reflexivity. }
  unfold url, path_qs, path_url, path, application_url. rewrite Qs, Qp. cbn [bind].
  rewrite url_quote_app, <- app_assoc. repeat split; reflexivity.
Qed.

(* ------------------------------------------------------------------ pop / peek *)
Lemma take_drop_while f s : take_while f s ++ drop_while f s = s.
Proof.
  induction s as [|c s IH]; [reflexivity|]. cbn [take_while drop_while].
  destruct (f c); [cbn [app]; rewrite IH|]; reflexivity.
Qed.

Lemma take_while_all f s : forallb f (take_while f s) = true.
Proof.
  induction s as [|c s IH]; [reflexivity|]. cbn [take_while]. destruct (f c) eqn:E; [|reflexivity].
  cbn [forallb]. rewrite E, IH. reflexivity.
Qed.

Definition accepts (pat : option (str -> bool)) (r : str) : bool :=
  match pat with None => true | Some f => f r end.

Section Pop.
  Variables (e : environ) (st pt : str).
  Hypothesis Hs : encode (e_enc e) st = Ok (raw_script e).
  Hypothesis Hp : encode (e_enc e) pt = Ok (e_path e).

  Definition slashes : str := take_while is_slash pt.
  Definition seg : str := fst (span_until is_slash (drop_while is_slash pt)).
  Definition after : str := snd (span_until is_slash (drop_while is_slash pt)).

  Lemma pt_decomp : pt = slashes ++ seg ++ after.
  Proof. unfold slashes, seg, after. rewrite span_until_concat, take_drop_while. reflexivity. Qed.

  Lemma p_get_path : get_path e = Ok pt.
  Proof. unfold get_path. apply encget_encode. exact Hp. Qed.
  Lemma p_get_script : get_script e = Ok st.
  Proof. unfold get_script. apply encget_encode. exact Hs. Qed.

  Theorem peek_spec : path_info_peek e = Ok (if is_empty pt then None else Some seg).
  Proof. unfold path_info_peek. rewrite p_get_path. cbn [bind]. destruct (is_empty pt); reflexivity. Qed.

  Theorem pop_empty pat : pt = [] -> path_info_pop pat e = Ok (None, e).
  Proof. intros E. unfold path_info_pop. rewrite p_get_path. cbn [bind]. rewrite E. reflexivity. Qed.

  Theorem pop_nomatch pat : accepts pat seg = false -> path_info_pop pat e = Ok (None, e).
  Proof.
    intros Hn. unfold path_info_pop. rewrite p_get_path. cbn [bind].
    destruct (is_empty pt); [reflexivity|].
    unfold accepts, seg in Hn. destruct (span_until is_slash (drop_while is_slash pt)) as [r a].
    cbn [fst] in Hn. rewrite Hn. reflexivity.
  Qed.

  Theorem pop_match pat : pt <> [] -> accepts pat seg = true ->
    exists rs' rp',
      let e' := mkEnv (e_scheme e) (e_http_host e) (e_server_name e) (e_server_port e) (Some rs') rp'
                      (e_query e) (e_enc e) in
      path_info_pop pat e = Ok (Some seg, e') /\
      path_info_peek e = Ok (Some seg) /\
      encode (e_enc e) (st ++ slashes ++ seg) = Ok rs' /\
      encode (e_enc e) after = Ok rp' /\
      get_script e' = Ok (st ++ slashes ++ seg) /\ get_path e' = Ok after /\
      (st ++ slashes ++ seg) ++ after = st ++ pt /\
      rs' ++ rp' = raw_script e ++ e_path e /\
      forallb is_slash slashes = true /\
      forallb (fun c => negb (is_slash c)) seg = true /\
      rooted after /\
      path e' = path e /\ path_qs e' = path_qs e /\ path_url e' = path_url e /\ url e' = url e.
  Proof.
    intros Hne Hacc.
    pose proof pt_decomp as Hd.
    pose proof Hp as Hp'. rewrite Hd in Hp'.
    apply encode_app_inv in Hp' as [rsl [rrest [Hsl [Hrest Epath]]]].
    apply encode_app_inv in Hrest as [rr [ra [Hr [Ha ->]]]].
    pose proof (encode_app _ _ _ _ _ Hsl Hr) as Hslr.
    pose proof (encode_app _ _ _ _ _ Hs Hslr) as Hnew.
    exists (raw_script e ++ rsl ++ rr), ra. cbn zeta.
    set (e' := mkEnv (e_scheme e) (e_http_host e) (e_server_name e) (e_server_port e)
                     (Some (raw_script e ++ rsl ++ rr)) ra (e_query e) (e_enc e)).
    assert (Hempty : is_empty pt = false) by (destruct pt; [contradiction|reflexivity]).
    assert (Hs' : encode (e_enc e') (st ++ slashes ++ seg) = Ok (raw_script e')) by exact Hnew.
    assert (Hp2 : encode (e_enc e') after = Ok (e_path e')) by exact Ha.
    assert (Hraw : raw_script e' ++ e_path e' = raw_script e ++ e_path e).
    { cbn [raw_script e_script e_path e']. rewrite Epath, <- !app_assoc. reflexivity. }
    split.
    { unfold path_info_pop. rewrite p_get_path. cbn [bind]. rewrite Hempty.
      unfold accepts, seg in Hacc. unfold seg, after in *. fold slashes.
      destruct (span_until is_slash (drop_while is_slash pt)) as [r a]. cbn [fst snd] in *.
      rewrite Hacc. rewrite p_get_script. cbn [bind].
      unfold set_script, encset. rewrite Hnew. cbn [bind].
      unfold set_path, encset. cbn [e_enc]. rewrite Ha. reflexivity. }
    split; [rewrite peek_spec, Hempty; reflexivity|].
    split; [exact Hnew|]. split; [exact Ha|].
    split; [unfold get_script; apply (encget_encode _ _ _ Hs')|].
    split; [unfold get_path; apply (encget_encode _ _ _ Hp2)|].
    split; [rewrite <- !app_assoc; f_equal; symmetry; exact Hd|].
    split; [exact Hraw|].
    split; [apply take_while_all|].
    split; [apply span_until_fst|].
    split.
    { unfold after. destruct (span_until_snd is_slash (drop_while is_slash pt)) as [->|[c [b [-> Hc]]]];
        [left; reflexivity|right]. unfold is_slash in Hc. apply N.eqb_eq in Hc. subst c. eexists; reflexivity. }
    destruct (url_forms e st pt Hs Hp) as [_ [F1 [F2 [F3 F4]]]].
    destruct (url_forms e' _ _ Hs' Hp2) as [_ [G1 [G2 [G3 G4]]]].
    change (path e' = path e /\ path_qs e' = path_qs e /\ path_url e' = path_url e /\ url e' = url e).
    rewrite F1, F2, F3, F4, G1, G2, G3, G4, Hraw. repeat split; reflexivity.
  Qed.
End Pop.
