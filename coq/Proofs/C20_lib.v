(* C20 — generic lemmas: lines, stripping, splitting, int()/str(), url quoting, ordered dicts, sorting. *)
From Coq Require Import ZArith NArith List Bool Lia Permutation.
Require Import Webob.Lib.Val Webob.Lib.PyStr Webob.Model.C20_wire Webob.Spec.C20_spec.
From Coq Require String.
Import String.StringSyntax.
Import ListNotations.
Local Open Scope string_scope.
Local Open Scope list_scope.
Local Open Scope N_scope.

(* ------------------------------------------------------------------ str_eqb *)
Lemma seqb_refl s : str_eqb s s = true.
Proof. induction s as [|c s IH]; cbn; [reflexivity|]. rewrite N.eqb_refl, IH. reflexivity. Qed.

Lemma seqb_eq a : forall b, str_eqb a b = true <-> a = b.
Proof.
  induction a as [|x a IH]; intros [|y b]; cbn; split; intros H; try reflexivity; try discriminate.
  - apply andb_true_iff in H as [H1 H2]. apply N.eqb_eq in H1. apply IH in H2. congruence.
  - injection H as -> ->. rewrite N.eqb_refl. apply seqb_refl.
Qed.

Lemma seqb_neq a b : a <> b -> str_eqb a b = false.
Proof.
  intros H. destruct (str_eqb a b) eqn:E; [|reflexivity]. apply seqb_eq in E. contradiction.
Qed.

Lemma seqb_false a b : str_eqb a b = false -> a <> b.
Proof. intros H E. subst. rewrite seqb_refl in H. discriminate. Qed.

(* ------------------------------------------------------------------ readline *)

Lemma readline_lf l rest : no_lf l -> readline (l ++ 10 :: rest) = (l ++ [10], rest).
Proof.
  induction 1 as [|c l Hc Hl IH]; cbn.
  - reflexivity.
  - destruct (c =? 10) eqn:E; [apply N.eqb_eq in E; contradiction|]. rewrite IH. reflexivity.
Qed.

Lemma readline_eof l : no_lf l -> readline l = (l, []).
Proof.
  induction 1 as [|c l Hc Hl IH]; cbn.
  - reflexivity.
  - destruct (c =? 10) eqn:E; [apply N.eqb_eq in E; contradiction|]. rewrite IH. reflexivity.
Qed.

Lemma no_lf_app a b : no_lf a -> no_lf b -> no_lf (a ++ b).
Proof. intros; apply Forall_app; split; assumption. Qed.

(* a line followed by the rest of a CRLF-joined message *)
Lemma readline_join l L : no_lf l ->
  readline (join CRLF (l :: L)) =
  (l ++ match L with [] => [] | _ => CRLF end, join CRLF L).
Proof.
  intros Hl. destruct L as [|l2 L].
  - cbn. rewrite app_nil_r. apply readline_eof. assumption.
  - change (join CRLF (l :: l2 :: L)) with (l ++ CRLF ++ join CRLF (l2 :: L)).
    unfold CRLF at 1. cbn [app].
    replace (l ++ 13 :: 10 :: join CRLF (l2 :: L)) with ((l ++ [13]) ++ 10 :: join CRLF (l2 :: L))
      by (rewrite <- app_assoc; reflexivity).
    rewrite readline_lf.
    + rewrite <- app_assoc. reflexivity.
    + apply no_lf_app; [assumption|]. constructor; [discriminate|constructor].
Qed.

Lemma join_last_app (sep : str) (L : list str) (b x : str) :
  join sep (L ++ [b]) ++ x = join sep (L ++ [b ++ x]).
Proof.
  induction L as [|l L IH]; cbn.
  - reflexivity.
  - destruct L as [|l2 L].
    + cbn. rewrite <- !app_assoc. reflexivity.
    + cbn [app] in *. change (join sep (l :: (l2 :: L) ++ [b])) with (l ++ sep ++ join sep ((l2 :: L) ++ [b])).
      change (join sep (l :: (l2 :: L) ++ [b ++ x])) with (l ++ sep ++ join sep ((l2 :: L) ++ [b ++ x])).
      rewrite <- IH, <- !app_assoc. reflexivity.
Qed.

Lemma headers_fuel hl (tl : list str) :
  (length hl < S (length (join CRLF (map hline hl ++ tl))))%nat.
Proof.
  assert (length hl <= length (join CRLF (map hline hl ++ tl)))%nat; [|lia].
  induction hl as [|p hl IH]; [cbn; lia|].
  cbn [map app]. destruct (map hline hl ++ tl) as [|l1 L1] eqn:E.
  - destruct hl; [|discriminate]. cbn. unfold hline, COLON_SP. rewrite !app_length. cbn. lia.
  - change (join CRLF (hline p :: l1 :: L1)) with (hline p ++ CRLF ++ join CRLF (l1 :: L1)).
    rewrite !app_length. cbn [length CRLF]. lia.
Qed.

(* ------------------------------------------------------------------ strip *)

Lemma drop_while_all sp s : Forall (fun c => sp c = true) s -> drop_while sp s = [].
Proof. induction 1 as [|c s Hc Hs IH]; cbn; [reflexivity|]. rewrite Hc. assumption. Qed.

Lemma drop_while_pad sp pre s : Forall (fun c => sp c = true) pre -> drop_while sp (pre ++ s) = drop_while sp s.
Proof. induction 1 as [|c p Hc Hp IH]; cbn; [reflexivity|]. rewrite Hc. assumption. Qed.

Lemma drop_while_keep sp c s : sp c = false -> drop_while sp (c :: s) = c :: s.
Proof. intros H. cbn. rewrite H. reflexivity. Qed.

Lemma rstrip_pad sp x post : Forall (fun c => sp c = true) post -> rstrip_by sp (x ++ post) = rstrip_by sp x.
Proof.
  intros H. unfold rstrip_by. rewrite rev_app_distr, drop_while_pad; [reflexivity|].
  apply Forall_rev. assumption.
Qed.

Lemma rstrip_keep sp x z : sp z = false -> rstrip_by sp (x ++ [z]) = x ++ [z].
Proof.
  intros H. unfold rstrip_by. rewrite rev_app_distr. cbn [rev app].
  rewrite drop_while_keep by assumption. cbn [rev]. rewrite rev_involutive. reflexivity.
Qed.

Lemma rstrip_last sp s : s <> [] -> sp (last s 0) = false -> rstrip_by sp s = s.
Proof.
  intros Hs Hl. rewrite (app_removelast_last 0 Hs). apply rstrip_keep. exact Hl.
Qed.

Lemma last_in {T} (s : list T) d : s <> [] -> In (last s d) s.
Proof.
  intros Hs. rewrite (app_removelast_last d Hs) at 2. apply in_or_app. right. left. reflexivity.
Qed.

Lemma rstrip_nil sp : rstrip_by sp [] = [].
Proof. reflexivity. Qed.

Lemma tight_last sp v : v <> [] -> tightb sp v = true -> exists x z, v = x ++ [z] /\ sp z = false.
Proof.
  intros Hv Ht. destruct v as [|c v]; [contradiction|].
  unfold tightb in Ht. apply andb_true_iff in Ht as [_ Ht]. apply negb_true_iff in Ht.
  exists (removelast (c :: v)), (last (c :: v) 0). split; [|assumption].
  apply app_removelast_last. discriminate.
Qed.

Lemma tight_first sp c v : tightb sp (c :: v) = true -> sp c = false.
Proof. unfold tightb. intros H. apply andb_true_iff in H as [H _]. apply negb_true_iff in H. assumption. Qed.

(* whitespace pre ++ v ++ whitespace post strips to v *)
Lemma strip_pad sp pre v post :
  Forall (fun c => sp c = true) pre -> Forall (fun c => sp c = true) post ->
  tightb sp v = true -> strip_by sp (pre ++ v ++ post) = v.
Proof.
  intros Hpre Hpost Ht. unfold strip_by, lstrip_by. rewrite drop_while_pad by assumption.
  destruct v as [|c v].
  - cbn [app]. rewrite drop_while_all by assumption. reflexivity.
  - pose proof (tight_first _ _ _ Ht) as Hc.
    cbn [app]. rewrite drop_while_keep by assumption.
    change (c :: v ++ post) with ((c :: v) ++ post). rewrite rstrip_pad by assumption.
    destruct (tight_last sp (c :: v)) as [x [z [E Hz]]]; [discriminate|assumption|].
    rewrite E. apply rstrip_keep. assumption.
Qed.

Lemma strip_tight sp v : tightb sp v = true -> strip_by sp v = v.
Proof.
  intros H. pose proof (strip_pad sp [] v [] (Forall_nil _) (Forall_nil _) H) as E.
  cbn [app] in E. rewrite app_nil_r in E. exact E.
Qed.

Lemma tightb_weaken (sp1 sp2 : N -> bool) v :
  (forall c, sp1 c = true -> sp2 c = true) -> tightb sp2 v = true -> tightb sp1 v = true.
Proof.
  intros Hs. destruct v as [|c v]; [reflexivity|]. unfold tightb. intros H.
  apply andb_true_iff in H as [H1 H2]. apply negb_true_iff in H1, H2.
  apply andb_true_iff; split; apply negb_true_iff.
  - destruct (sp1 c) eqn:E; [|reflexivity]. apply Hs in E. congruence.
  - destruct (sp1 (last (c :: v) 0)) eqn:E; [|reflexivity]. apply Hs in E. congruence.
Qed.

Lemma last_app_nonnil (a b : str) d : b <> [] -> last (a ++ b) d = last b d.
Proof.
  intros Hb. induction a as [|x a IH]; [reflexivity|].
  cbn [app]. destruct (a ++ b) eqn:E.
  - apply app_eq_nil in E as [_ E]. contradiction.
  - rewrite <- E in *. cbn. rewrite E. rewrite <- E. exact IH.
Qed.

(* a ++ b is tight when a starts and b ends with a non-sp character *)
Lemma tightb_app sp c a b :
  sp c = false -> b <> [] -> tightb sp b = true -> tightb sp ((c :: a) ++ b) = true.
Proof.
  intros Hc Hb Ht. cbn [app]. unfold tightb. rewrite Hc. cbn [negb andb].
  change (c :: a ++ b) with ((c :: a) ++ b). rewrite last_app_nonnil by assumption.
  destruct b as [|y b]; [contradiction|]. unfold tightb in Ht.
  apply andb_true_iff in Ht as [_ Ht]. exact Ht.
Qed.

(* a stripped non-empty thing is not blank *)
Lemma strip_nonnil sp c s : sp c = false -> strip_by sp (c :: s) <> [].
Proof.
  intros Hc. unfold strip_by, lstrip_by. rewrite drop_while_keep by assumption.
  unfold rstrip_by. cbn [rev].
  assert (H : forall x, drop_while sp (x ++ [c]) <> []).
  { induction x as [|y x IH]; cbn; [rewrite Hc; discriminate|]. destruct (sp y); [assumption|discriminate]. }
  intros E. apply (f_equal (@rev N)) in E. rewrite rev_involutive in E. cbn in E. apply (H _ E).
Qed.

(* ------------------------------------------------------------------ partition / split *)
Lemma partition_first sep n rest : Forall (fun c => c <> sep) n ->
  partition_c sep (n ++ sep :: rest) = (n, true, rest).
Proof.
  induction 1 as [|c n Hc Hn IH]; cbn.
  - rewrite N.eqb_refl. reflexivity.
  - destruct (c =? sep) eqn:E; [apply N.eqb_eq in E; contradiction|]. rewrite IH. reflexivity.
Qed.

Lemma partition_none sep n : Forall (fun c => c <> sep) n -> partition_c sep n = (n, false, []).
Proof.
  induction 1 as [|c n Hc Hn IH]; cbn.
  - reflexivity.
  - destruct (c =? sep) eqn:E; [apply N.eqb_eq in E; contradiction|]. rewrite IH. reflexivity.
Qed.


Lemma span_not_word sp w c r : no_sp sp w -> sp c = true -> span_not sp (w ++ c :: r) = (w, c :: r).
Proof.
  induction 1 as [|x w Hx Hw IH]; intros Hc; cbn.
  - rewrite Hc. reflexivity.
  - rewrite Hx, IH by assumption. reflexivity.
Qed.

(* "m SP t SP v".split(None, 2) *)
Lemma split_three sp m t v c0 :
  sp 32 = true -> m <> [] -> t <> [] -> no_sp sp m -> no_sp sp t -> sp c0 = false ->
  split_ws_max sp 2 (m ++ 32 :: t ++ 32 :: c0 :: v) = [m; t; c0 :: v].
Proof.
  intros Hsp Hm Ht Hnm Hnt Hc0. unfold split_ws_max.
  destruct m as [|m0 m]; [contradiction|]. destruct t as [|t0 t]; [contradiction|].
  pose proof (Forall_inv Hnm) as Hm0. pose proof (Forall_inv Hnt) as Ht0. cbn beta in Hm0, Ht0.
  set (s := (m0 :: m) ++ 32 :: (t0 :: t) ++ 32 :: c0 :: v).
  assert (L : (3 <= length s)%nat).
  { unfold s. rewrite !app_length. cbn [length]. rewrite app_length. cbn [length]. lia. }
  remember (length s) as n eqn:En. unfold s. clear s En.
  destruct n as [|[|[|n]]]; try lia.
  cbn [split_ws]. cbn [app]. rewrite drop_while_keep by assumption.
  change (m0 :: m ++ 32 :: t0 :: t ++ 32 :: c0 :: v) with ((m0 :: m) ++ 32 :: (t0 :: t) ++ 32 :: c0 :: v).
  rewrite span_not_word by assumption.
  cbn [drop_while]. rewrite Hsp. cbn [app]. rewrite drop_while_keep by assumption.
  change (t0 :: t ++ 32 :: c0 :: v) with ((t0 :: t) ++ 32 :: c0 :: v).
  rewrite span_not_word by assumption.
  cbn [drop_while]. rewrite Hsp, Hc0. reflexivity.
Qed.

(* the first word of "code SP rest" *)
Lemma split_first sp code rest :
  sp 32 = true -> code <> [] -> no_sp sp code ->
  exists tl, split_ws_max sp 1 (code ++ 32 :: rest) = code :: tl.
Proof.
  intros Hsp Hc Hn. unfold split_ws_max. destruct code as [|c0 code]; [contradiction|].
  pose proof (Forall_inv Hn) as Hc0. cbn beta in Hc0.
  cbn [length app split_ws]. rewrite drop_while_keep by assumption.
  change (c0 :: code ++ 32 :: rest) with ((c0 :: code) ++ 32 :: rest).
  rewrite span_not_word by assumption. eexists. reflexivity.
Qed.

(* ------------------------------------------------------------------ int() and str() *)

Definition dval (s : str) (acc : Z) : Z := fold_left (fun a c => (a * 10 + Z.of_N (c - 48))%Z) s acc.

Lemma digits_us_digits s : forall acc b, all_digits s -> (s <> [] \/ b = true) ->
  digits_us s acc b = Some (dval s acc).
Proof.
  induction s as [|c s IH]; intros acc b Hd Hn; cbn.
  - destruct Hn as [Hn|Hn]; [contradiction|]. rewrite Hn. reflexivity.
  - inversion Hd as [|? ? Hc Hs]; subst. rewrite Hc. apply IH; [assumption|]. right. reflexivity.
Qed.

Lemma digits_us_stop ds c r : forall acc b, all_digits ds -> is_digit c = false -> c <> 95 ->
  digits_us (ds ++ c :: r) acc b = None.
Proof.
  induction ds as [|d ds IH]; intros acc b Hd Hc H95; cbn.
  - rewrite Hc. destruct (c =? 95) eqn:E; [apply N.eqb_eq in E; contradiction|]. reflexivity.
  - inversion Hd as [|? ? Hd1 Hd2]; subst. rewrite Hd1. apply IH; assumption.
Qed.

Lemma digit_not_space_int c : is_digit c = true -> is_space_int c = false.
Proof.
  unfold is_digit, is_space_int, is_space_bytes. intros H.
  apply andb_true_iff in H as [H1 H2]. apply N.leb_le in H1, H2.
  repeat match goal with |- context [?a <=? ?b] => destruct (N.leb_spec a b) end;
  repeat match goal with |- context [?a =? ?b] => destruct (N.eqb_spec a b) end; cbn; try reflexivity; lia.
Qed.

Lemma digits_tight_int s : all_digits s -> tightb is_space_int s = true.
Proof.
  intros H. destruct s as [|c s]; [reflexivity|]. unfold tightb.
  assert (Hl : is_digit (last (c :: s) 0) = true).
  { assert (In (last (c :: s) 0) (c :: s)).
    { rewrite (app_removelast_last 0 (l := c :: s)) at 2 by discriminate. apply in_or_app. right. left. reflexivity. }
    unfold all_digits in H. rewrite Forall_forall in H. apply H. assumption. }
  rewrite (digit_not_space_int c), (digit_not_space_int _ Hl); [reflexivity|].
  inversion H; assumption.
Qed.

Lemma digit_not_sign c : is_digit c = true -> (c =? 43) = false /\ (c =? 45) = false.
Proof.
  unfold is_digit. intros H. apply andb_true_iff in H as [H1 H2]. apply N.leb_le in H1, H2.
  split; apply N.eqb_neq; lia.
Qed.

Lemma py_int_digits s : all_digits s -> s <> [] -> py_int s = Some (dval s 0).
Proof.
  intros Hd Hn. unfold py_int. rewrite strip_tight by (apply digits_tight_int; assumption).
  destruct s as [|c s]; [contradiction|].
  inversion Hd as [|? ? Hc Hs]; subst.
  destruct (digit_not_sign _ Hc) as [E1 E2]. rewrite E1, E2.
  apply digits_us_digits; [assumption|left; discriminate].
Qed.

(* "digits SP more" is not an integer *)
Lemma py_int_with_space code rest :
  all_digits code -> code <> [] -> tightb is_space_int (code ++ 32 :: rest) = true ->
  py_int (code ++ 32 :: rest) = None.
Proof.
  intros Hd Hn Ht. unfold py_int. rewrite strip_tight by assumption.
  destruct code as [|c code]; [contradiction|].
  inversion Hd as [|? ? Hc Hs]; subst. cbn [app].
  destruct (digit_not_sign _ Hc) as [E1 E2]. rewrite E1, E2.
  change (c :: code ++ 32 :: rest) with ((c :: code) ++ 32 :: rest).
  apply digits_us_stop; [assumption|reflexivity|discriminate].
Qed.

Lemma dec_aux_digits fuel : forall n tl, all_digits tl -> all_digits (dec_aux fuel n tl).
Proof.
  induction fuel as [|f IH]; intros n tl Ht; cbn [dec_aux]; [assumption|].
  assert (Hd : is_digit (48 + n mod 10) = true).
  { unfold is_digit. pose proof (N.mod_upper_bound n 10 ltac:(lia)) as Hm. remember (n mod 10) as r eqn:Er. clear Er.
    apply andb_true_iff; split; apply N.leb_le; lia. }
  destruct (n <? 10); [constructor; assumption|]. apply IH. constructor; assumption.
Qed.

Lemma dec_aux_nonnil fuel n tl : dec_aux (S fuel) n tl <> [].
Proof.
  revert n tl. induction fuel as [|f IH]; intros n tl; cbn [dec_aux].
  - destruct (n <? 10); discriminate.
  - destruct (n <? 10); [discriminate|]. apply (IH (n / 10) ((48 + n mod 10) :: tl)).
Qed.

Lemma dval_dec_aux fuel : forall n tl, (N.to_nat n < fuel)%nat ->
  dval (dec_aux fuel n tl) 0 = dval tl (Z.of_N n).
Proof.
  induction fuel as [|f IH]; intros n tl Hf; [lia|]. cbn [dec_aux].
  destruct (N.ltb_spec n 10) as [Hlt|Hge].
  - rewrite N.mod_small by assumption. unfold dval. cbn [fold_left]. f_equal.
    replace (48 + n - 48) with n by lia. lia.
  - assert (Hq : n / 10 < n) by (apply N.div_lt; lia).
    pose proof (N.div_mod n 10 ltac:(lia)) as E.
    remember (n / 10) as q eqn:Eq. remember (n mod 10) as r eqn:Er. clear Eq Er.
    rewrite IH by lia.
    unfold dval. cbn [fold_left]. f_equal.
    replace (48 + r - 48) with r by lia. lia.
Qed.

Lemma dec_digits n : all_digits (dec n).
Proof. apply dec_aux_digits. constructor. Qed.

Lemma dec_nonnil n : dec n <> [].
Proof. apply dec_aux_nonnil. Qed.

Theorem py_int_dec n : py_int (dec n) = Some (Z.of_N n).
Proof.
  rewrite py_int_digits by (apply dec_digits || apply dec_nonnil).
  unfold dec. rewrite dval_dec_aux by lia. reflexivity.
Qed.

Lemma dec_len_nonnil {T} (l : list T) : dec_len l <> [].
Proof. apply dec_nonnil. Qed.

Lemma parse_dec_len {T} (l : list T) : parse_int_safe (Some (dec_len l)) = Some (Z.of_nat (length l)).
Proof.
  unfold parse_int_safe. destruct (dec_len l) eqn:E; [exfalso; exact (dec_len_nonnil l E)|].
  rewrite <- E. unfold dec_len. rewrite py_int_dec. f_equal. lia.
Qed.

(* ------------------------------------------------------------------ printable characters *)

Lemma vis_not_space text c : vis c -> space_of text c = false.
Proof.
  intros [H1 H2]. destruct text; unfold space_of, is_space_str, is_space_bytes;
  repeat match goal with |- context [?a <=? ?b] => destruct (N.leb_spec a b) end;
  repeat match goal with |- context [?a =? ?b] => destruct (N.eqb_spec a b) end; cbn; try reflexivity; lia.
Qed.

Lemma all_vis_no_sp text s : all_vis s -> no_sp (space_of text) s.
Proof. intros H. eapply Forall_impl; [|exact H]. intros c Hc. apply vis_not_space. assumption. Qed.

Lemma all_vis_no_lf s : all_vis s -> no_lf s.
Proof. intros H. eapply Forall_impl; [|exact H]. intros c [H1 H2] E. lia. Qed.

Lemma all_vis_ascii s : all_vis s -> ascii_only s = true.
Proof.
  intros H. unfold ascii_only. apply forallb_forall. intros c Hc.
  unfold all_vis in H. rewrite Forall_forall in H. destruct (H c Hc). apply N.ltb_lt. lia.
Qed.

Lemma ascii_only_app a b : ascii_only (a ++ b) = ascii_only a && ascii_only b.
Proof. unfold ascii_only. apply forallb_app. Qed.

(* ------------------------------------------------------------------ url quoting *)
Lemma hexval_hexc d : d < 16 -> hexval (hexc d) = Some d.
Proof.
  intros H. unfold hexc.
  assert (d = 0 \/ d = 1 \/ d = 2 \/ d = 3 \/ d = 4 \/ d = 5 \/ d = 6 \/ d = 7 \/ d = 8 \/ d = 9 \/
          d = 10 \/ d = 11 \/ d = 12 \/ d = 13 \/ d = 14 \/ d = 15) as Hd by lia.
  repeat (destruct Hd as [->|Hd]; [reflexivity|]). subst. reflexivity.
Qed.

Lemma path_safe_not_pct c : path_safe c = true -> c <> 37.
Proof. intros H E. subst. vm_compute in H. discriminate. Qed.

Theorem unquote_quote bs : Forall (fun c => c < 256) bs -> url_unquote (url_quote bs) = bs.
Proof.
  induction 1 as [|c bs Hc Hbs IH]; [reflexivity|].
  unfold url_quote in *. cbn [flat_map]. unfold quote_c at 1.
  destruct (path_safe c) eqn:Hs.
  - cbn [app url_unquote]. pose proof (path_safe_not_pct _ Hs) as Hn.
    destruct (c =? 37) eqn:E; [apply N.eqb_eq in E; contradiction|]. rewrite IH. reflexivity.
  - cbn [app url_unquote]. cbn [N.eqb Pos.eqb].
    assert (H1 : c / 16 < 16) by (apply N.div_lt_upper_bound; lia).
    assert (H2 : c mod 16 < 16) by (apply N.mod_upper_bound; lia).
    rewrite (hexval_hexc _ H1), (hexval_hexc _ H2), IH. f_equal.
    pose proof (N.div_mod c 16 ltac:(lia)) as E.
    remember (c / 16) as q eqn:Eq. remember (c mod 16) as r eqn:Er. clear Eq Er. lia.
Qed.

Lemma url_quote_app a b : url_quote (a ++ b) = url_quote a ++ url_quote b.
Proof. unfold url_quote. apply flat_map_app. Qed.

Lemma hexc_vis d : d < 16 -> vis (hexc d) /\ hexc d <> 63.
Proof. intros H. unfold hexc, vis. destruct (N.ltb_spec d 10); lia. Qed.

Lemma mem_n_in c l : mem_n c l = true -> In c l.
Proof.
  induction l as [|x l IH]; cbn; intros H; [discriminate|].
  apply orb_true_iff in H as [H|H]; [left; apply N.eqb_eq; assumption|right; auto].
Qed.

Lemma path_safe_vis c : path_safe c = true -> vis c /\ c <> 63.
Proof.
  unfold path_safe, vis. intros H. apply orb_true_iff in H as [H|H].
  - unfold is_alnum, is_alpha, is_upper, is_lower, is_digit in H.
    repeat (apply orb_true_iff in H as [H|H]);
      apply andb_true_iff in H as [H1 H2]; apply N.leb_le in H1, H2; lia.
  - apply mem_n_in in H. cbn in H.
    repeat (destruct H as [H|H]; [subst; lia|]). contradiction.
Qed.

Lemma quote_chars bs : Forall (fun c => c < 256) bs -> Forall (fun c => vis c /\ c <> 63) (url_quote bs).
Proof.
  induction 1 as [|c bs Hc Hbs IH]; [constructor|].
  unfold url_quote in *. cbn [flat_map]. apply Forall_app; split; [|assumption].
  unfold quote_c. destruct (path_safe c) eqn:Hs.
  - constructor; [apply path_safe_vis; assumption|constructor].
  - assert (H1 : c / 16 < 16) by (apply N.div_lt_upper_bound; lia).
    assert (H2 : c mod 16 < 16) by (apply N.mod_upper_bound; lia).
    repeat constructor; try (apply hexc_vis; assumption); unfold vis; lia.
Qed.

Lemma quote_nonnil c bs : url_quote (c :: bs) <> [].
Proof. unfold url_quote. cbn. unfold quote_c. destruct (path_safe c); discriminate. Qed.

Lemma quote_slash bs : url_quote (47 :: bs) = 47 :: url_quote bs.
Proof. reflexivity. Qed.

(* ------------------------------------------------------------------ ordered dicts *)

Lemma dict_get_none k d : ~ In k (keys d) -> dict_get k d = None.
Proof.
  induction d as [|[k' v] d IH]; cbn; intros H; [reflexivity|].
  rewrite seqb_neq by (intros E; apply H; left; assumption). apply IH. intros Hin. apply H. right. assumption.
Qed.

Lemma dict_get_in k d v : dict_get k d = Some v -> In (k, v) d.
Proof.
  induction d as [|[k' v'] d IH]; cbn; intros H; [discriminate|].
  destruct (str_eqb k' k) eqn:E.
  - apply seqb_eq in E. injection H as ->. subst. left. reflexivity.
  - right. apply IH. assumption.
Qed.

Lemma dict_get_nodup k v d : NoDup (keys d) -> In (k, v) d -> dict_get k d = Some v.
Proof.
  induction d as [|[k' v'] d IH]; cbn; intros Hn Hin; [contradiction|].
  inversion Hn as [|? ? Hk Hd]; subst. destruct Hin as [E|Hin].
  - injection E as -> ->. rewrite seqb_refl. reflexivity.
  - rewrite seqb_neq; [apply IH; assumption|].
    intros ->. apply Hk. unfold keys. change k with (fst (k, v)). apply in_map. assumption.
Qed.

Lemma dict_set_new k v d : dict_get k d = None -> dict_set k v d = d ++ [(k, v)].
Proof.
  induction d as [|[k' v'] d IH]; cbn; intros H; [reflexivity|].
  destruct (str_eqb k' k); [discriminate|]. rewrite IH by assumption. reflexivity.
Qed.

Lemma dict_set_same k v d : dict_get k d = Some v -> dict_set k v d = d.
Proof.
  induction d as [|[k' v'] d IH]; cbn; intros H; [discriminate|].
  destruct (str_eqb k' k) eqn:E; [injection H as ->; reflexivity|]. rewrite IH by assumption. reflexivity.
Qed.

Lemma dict_get_app_new k v d : dict_get k d = None -> dict_get k (d ++ [(k, v)]) = Some v.
Proof.
  induction d as [|[k' v'] d IH]; cbn; intros H; [rewrite seqb_refl; reflexivity|].
  destruct (str_eqb k' k); [discriminate|]. apply IH. assumption.
Qed.

Lemma dict_get_app_other k k2 v d : k2 <> k -> dict_get k (d ++ [(k2, v)]) = dict_get k d.
Proof.
  intros Hn. induction d as [|[k' v'] d IH]; cbn.
  - rewrite seqb_neq by assumption. reflexivity.
  - destruct (str_eqb k' k); [reflexivity|]. apply IH.
Qed.

Lemma dict_get_set_other k k2 v d : k2 <> k -> dict_get k (dict_set k2 v d) = dict_get k d.
Proof.
  intros Hn. induction d as [|[k' v'] d IH]; cbn.
  - rewrite seqb_neq by assumption. reflexivity.
  - destruct (str_eqb k' k2) eqn:E2; cbn.
    + apply seqb_eq in E2. subst. rewrite seqb_neq by assumption. reflexivity.
    + destruct (str_eqb k' k); [reflexivity|]. apply IH.
Qed.

Lemma dict_get_set_same k v d : dict_get k (dict_set k v d) = Some v.
Proof.
  induction d as [|[k' v'] d IH]; cbn.
  - rewrite seqb_refl. reflexivity.
  - destruct (str_eqb k' k) eqn:E; cbn; rewrite E; [reflexivity|apply IH].
Qed.

Lemma dict_get_perm k d d' : Permutation d d' -> NoDup (keys d) -> dict_get k d = dict_get k d'.
Proof.
  intros Hp Hn.
  assert (Hn' : NoDup (keys d')).
  { unfold keys. eapply Permutation_NoDup; [apply Permutation_map; exact Hp|assumption]. }
  destruct (dict_get k d) as [v|] eqn:E.
  - symmetry. apply dict_get_nodup; [assumption|].
    eapply Permutation_in; [exact Hp|]. apply dict_get_in. assumption.
  - destruct (dict_get k d') as [v|] eqn:E'; [|reflexivity].
    apply dict_get_in in E'. apply Permutation_sym in Hp.
    pose proof (Permutation_in _ Hp E') as Hin.
    rewrite (dict_get_nodup _ _ _ Hn Hin) in E. discriminate.
Qed.

(* ------------------------------------------------------------------ sorting *)
Lemma insert_perm p l : Permutation (insert_sorted p l) (p :: l).
Proof.
  induction l as [|q l IH]; cbn; [apply Permutation_refl|].
  destruct (pair_leb p q); [apply Permutation_refl|].
  eapply Permutation_trans; [apply perm_skip; exact IH|apply perm_swap].
Qed.

Lemma sort_perm l : Permutation (sort_items l) l.
Proof.
  induction l as [|p l IH]; cbn; [constructor|].
  eapply Permutation_trans; [apply insert_perm|]. apply perm_skip. assumption.
Qed.

(* ------------------------------------------------------------------ lists *)
Lemma skipn_length_app {T} (a b : list T) : skipn (length a) (a ++ b) = b.
Proof. induction a as [|x a IH]; cbn; [reflexivity|assumption]. Qed.

Lemma firstn_length_app {T} (a b : list T) : firstn (length a) (a ++ b) = a.
Proof. induction a as [|x a IH]; cbn; [reflexivity|]. rewrite IH. reflexivity. Qed.

(* ------------------------------------------------------------------ reading a body of n bytes *)
Lemma text_width_bound_aux cw t : sane_widths cw t -> (length t <= text_width cw t <= 4 * length t)%nat.
Proof. induction 1 as [|c t Hc Ht IH]; cbn [text_width length]; lia. Qed.

Lemma text_width_bound cw t : sane_widths cw t -> (length t <= text_width cw t <= 4 * length t)%nat.
Proof. apply text_width_bound_aux. Qed.

Lemma text_width_app cw a b : text_width cw (a ++ b) = (text_width cw a + text_width cw b)%nat.
Proof. induction a as [|c a IH]; cbn [app text_width]; [reflexivity|]. rewrite IH. lia. Qed.

Lemma firstn_app_le {T} (n : nat) (a b : list T) : (n <= length a)%nat ->
  firstn n (a ++ b) = firstn n a /\ skipn n (a ++ b) = skipn n a ++ b.
Proof.
  revert a. induction n as [|n IH]; intros a Hn; [split; reflexivity|].
  destruct a as [|x a]; [cbn in Hn; lia|]. cbn [length] in Hn.
  destruct (IH a ltac:(lia)) as [E1 E2]. cbn [app firstn skipn]. rewrite E1, E2. split; reflexivity.
Qed.



(* the loop invariant: what has been read is a prefix t1 of the body t1 ++ t2, the file holds
   t2 ++ u; the chunk never reaches into u because no character is wider than chunk_div bytes *)
Lemma read_text_loop_exact cw u : forall fuel t1 t2,
  sane_widths cw t2 -> (length t2 < fuel)%nat ->
  read_text_loop fuel cw (text_width cw (t1 ++ t2)) t1 (t2 ++ u) = (t1 ++ t2, u).
Proof.
  induction fuel as [|f IH]; intros t1 t2 Hw Hf; [lia|].
  cbn [read_text_loop]. rewrite text_width_app.
  replace (text_width cw t1 + text_width cw t2 - text_width cw t1)%nat with (text_width cw t2) by lia.
  pose proof (text_width_bound_aux cw t2 Hw) as B.
  destruct t2 as [|c t2'].
  - cbn [text_width app]. rewrite app_nil_r. reflexivity.
  - set (t2 := c :: t2') in *.
    destruct (text_width cw t2) as [|m] eqn:Em.
    { exfalso. unfold t2 in B. cbn [length] in B. lia. }
    set (k := Nat.max 1 (S m / chunk_div)).
    assert (Hk : (1 <= k <= length t2)%nat).
    { unfold k, chunk_div. split; [lia|].
      assert (S m / 4 <= length t2)%nat by (apply Nat.div_le_upper_bound; lia).
      unfold t2 in *. cbn [length] in *. lia. }
    change ((c :: t2') ++ u) with (t2 ++ u). destruct (t2 ++ u) as [|x r] eqn:Er; [discriminate|]. rewrite <- Er.
    destruct (firstn_app_le k t2 u (proj2 Hk)) as [E1 E2]. rewrite E1, E2.
    rewrite <- (firstn_skipn k t2) at 3.
    assert (Hlen : (length (skipn k t2) < f)%nat) by (rewrite skipn_length; lia).
    assert (Hw2 : sane_widths cw (skipn k t2)).
    { unfold sane_widths in *. rewrite <- (firstn_skipn k t2) in Hw. apply Forall_app in Hw. apply Hw. }
    pose proof (IH (t1 ++ firstn k t2) (skipn k t2) Hw2 Hlen) as P.
    rewrite <- !app_assoc in P. rewrite (firstn_skipn k t2) in P. rewrite text_width_app, Em in P.
    rewrite (firstn_skipn k t2). exact P.
Qed.

(* the contract of read_text_body: from t ++ u, asked for the number of bytes t encodes to, it
   returns exactly t and leaves u *)
Theorem read_text_exact cw t u : sane_widths cw t -> read_text cw (text_width cw t) (t ++ u) = (t, u).
Proof.
  intros Hw. unfold read_text.
  apply (read_text_loop_exact cw u (S (length (t ++ u))) [] t Hw). rewrite app_length. lia.
Qed.

Lemma read_body_width cw t rest :
  sane_widths cw t ->
  read_body cw (Some (Z.of_nat (text_width cw t))) (t ++ rest) = (t, rest).
Proof.
  intros Hs. unfold read_body. pose proof (text_width_bound cw t Hs) as B.
  destruct (Z.ltb_spec (Z.of_nat (text_width cw t)) 0); [lia|]. cbn [orb].
  destruct (Z.ltb_spec (4 * Z.of_nat (length (t ++ rest))) (Z.of_nat (text_width cw t))) as [Hlt|_].
  - rewrite app_length in Hlt. lia.
  - rewrite Nat2Z.id. apply read_text_exact. assumption.
Qed.

Lemma one_byte_width t : text_width one_byte t = length t /\ sane_widths one_byte t.
Proof.
  induction t as [|c t [IH1 IH2]]; [split; [reflexivity|constructor]|].
  split; [cbn; rewrite IH1; reflexivity|constructor; [unfold one_byte; lia|assumption]].
Qed.

(* binary file: exactly the body, whatever follows *)
Lemma read_body_exact (body extra : bytes) :
  read_body one_byte (Some (Z.of_nat (length body))) (body ++ extra) = (body, extra).
Proof.
  destruct (one_byte_width body) as [E S]. rewrite <- E. apply read_body_width. assumption.
Qed.

Lemma utf8_width_sane t : sane_widths utf8_width t.
Proof.
  apply Forall_forall. intros c _. unfold utf8_width.
  destruct (c <? 128); [lia|]. destruct (c <? 2048); [lia|]. destruct (c <? 65536); lia.
Qed.
