(* C18 — the JSON form: the text produced by the model's json.dumps is accepted by the reference
   decoder and decodes to exactly the dict it was made from; strip_tags leaves no tag. *)
From Coq Require Import ZArith NArith List Bool Lia ZifyBool ZifyNat ZifyN String Ascii.
Require Import Webob.Lib.Val Webob.Lib.PyStr Webob.Model.C18_ExcBody Webob.Spec.C18_HtmlTok Webob.Spec.C18_Flat.
Import ListNotations.
Local Open Scope N_scope.

Ltac Zify.zify_post_hook ::= Z.to_euclidean_division_equations.

(* ------------------------------------------------------------------ hex *)
Lemma unhexd_hexd : forall k, k < 16 -> unhexd (hexd k) = Some k.
Proof.
  intros k H.
  assert (D : k = 0 \/ k = 1 \/ k = 2 \/ k = 3 \/ k = 4 \/ k = 5 \/ k = 6 \/ k = 7 \/ k = 8 \/ k = 9 \/
              k = 10 \/ k = 11 \/ k = 12 \/ k = 13 \/ k = 14 \/ k = 15) by lia.
  repeat (destruct D as [-> | D]; [reflexivity|]). subst; reflexivity.
Qed.

Lemma unhex4_hex4 : forall n x, n < 65536 ->
  match hex4 n ++ x with
  | a :: b :: c :: d :: r => unhex4 a b c d = Some n /\ r = x
  | _ => False
  end.
Proof.
  intros n x H. unfold hex4. cbn [app]. unfold unhex4.
  rewrite !unhexd_hexd by (apply N.mod_lt; lia). split; [|reflexivity]. f_equal. lia.
Qed.

(* ------------------------------------------------------------------ one character *)
Lemma scalar_c_spec : forall c, scalar_c c = true -> c < 1114112 /\ (c < 55296 \/ 57343 < c).
Proof. unfold scalar_c; intros; lia. Qed.

Lemma jdec_jesc : forall c f x acc, scalar_c c = true ->
  jdec (S f) (jesc c ++ x) acc = jdec f x (c :: acc).
Proof.
  intros c f x acc Hs. apply scalar_c_spec in Hs as [Hmax Hsur]. unfold jesc.
  destruct (c =? 34) eqn:E1; [apply N.eqb_eq in E1; subst; reflexivity|].
  destruct (c =? 92) eqn:E2; [apply N.eqb_eq in E2; subst; reflexivity|].
  destruct (c =? 10) eqn:E3; [apply N.eqb_eq in E3; subst; reflexivity|].
  destruct (c =? 13) eqn:E4; [apply N.eqb_eq in E4; subst; reflexivity|].
  destruct (c =? 9) eqn:E5; [apply N.eqb_eq in E5; subst; reflexivity|].
  destruct (c =? 12) eqn:E6; [apply N.eqb_eq in E6; subst; reflexivity|].
  destruct (c =? 8) eqn:E7; [apply N.eqb_eq in E7; subst; reflexivity|].
  destruct ((32 <=? c) && (c <=? 126)) eqn:E8.
  - cbn [app jdec]. rewrite E1, E2. replace (c <? 32) with false by lia. reflexivity.
  - destruct (c <? 65536) eqn:E9.
    + change ((92 :: 117 :: hex4 c) ++ x) with (92 :: 117 :: (hex4 c ++ x)).
      pose proof (unhex4_hex4 c x ltac:(lia)) as H.
      destruct (hex4 c ++ x) as [|a [|b [|c2 [|d r]]]]; try contradiction.
      destruct H as [H ->]. cbn [jdec]. change (92 =? 34) with false. change (92 =? 92) with true.
      cbn match. change (117 =? 34) with false. change (117 =? 92) with false. change (117 =? 47) with false.
      change (117 =? 98) with false. change (117 =? 102) with false. change (117 =? 110) with false.
      change (117 =? 114) with false. change (117 =? 116) with false. change (117 =? 117) with true.
      cbn match. rewrite H. replace (is_high c) with false by (unfold is_high; lia). reflexivity.
    + set (v := c - 65536). set (hi := 55296 + v / 1024). set (lo := 56320 + v mod 1024).
      assert (Hhi : hi < 65536 /\ is_high hi = true) by (unfold is_high, hi, v; lia).
      assert (Hlo : lo < 65536 /\ is_low lo = true) by (unfold is_low, lo, v; lia).
      assert (Hc : 65536 + (hi - 55296) * 1024 + (lo - 56320) = c) by (unfold hi, lo, v; lia).
      change (((92 :: 117 :: hex4 hi) ++ 92 :: 117 :: hex4 lo) ++ x)
        with (92 :: 117 :: (hex4 hi ++ (92 :: 117 :: (hex4 lo ++ x)))).
      pose proof (unhex4_hex4 hi (92 :: 117 :: (hex4 lo ++ x)) (proj1 Hhi)) as H1.
      destruct (hex4 hi ++ 92 :: 117 :: hex4 lo ++ x) as [|a [|b [|c2 [|d r]]]]; try contradiction.
      destruct H1 as [H1 ->].
      pose proof (unhex4_hex4 lo x (proj1 Hlo)) as H2.
      destruct (hex4 lo ++ x) as [|a' [|b' [|c' [|d' r']]]]; try contradiction.
      destruct H2 as [H2 ->]. cbn [jdec]. change (92 =? 34) with false. change (92 =? 92) with true.
      cbn match. change (117 =? 34) with false. change (117 =? 92) with false. change (117 =? 47) with false.
      change (117 =? 98) with false. change (117 =? 102) with false. change (117 =? 110) with false.
      change (117 =? 114) with false. change (117 =? 116) with false. change (117 =? 117) with true.
      cbn match. rewrite H1. rewrite (proj2 Hhi). rewrite H2. rewrite (proj2 Hlo). rewrite Hc. reflexivity.
Qed.

Lemma jdec_string : forall s fuel acc rest, scalar s = true -> (List.length s < fuel)%nat ->
  jdec fuel (flat_map jesc s ++ 34 :: rest) acc = Some (rev acc ++ s, rest).
Proof.
  induction s as [|c s IH]; intros fuel acc rest Hs Hf.
  - destruct fuel; [cbn in Hf; lia|]. cbn. rewrite app_nil_r. reflexivity.
  - destruct fuel; [cbn in Hf; lia|]. cbn [scalar forallb] in Hs. apply andb_true_iff in Hs as [Hc Hs].
    cbn [flat_map]. rewrite <- app_assoc. rewrite jdec_jesc by exact Hc.
    rewrite IH; [|exact Hs | cbn [List.length] in Hf; lia]. cbn [rev]. rewrite <- app_assoc. reflexivity.
Qed.

Lemma jesc_nonempty : forall c, (1 <= List.length (jesc c))%nat.
Proof.
  intros c. unfold jesc.
  repeat match goal with |- context [if ?b then _ else _] => destruct b end; cbn; try lia.
Qed.

Lemma flat_jesc_length : forall s, (List.length s <= List.length (flat_map jesc s))%nat.
Proof.
  induction s as [|c s IH]; cbn [flat_map List.length]; [lia|].
  rewrite app_length. pose proof (jesc_nonempty c). lia.
Qed.

Lemma jstring_jstr : forall s rest, scalar s = true -> jstring (jstr s ++ rest) = Some (s, rest).
Proof.
  intros s rest Hs. unfold jstr. cbn [app]. rewrite <- app_assoc. cbn [app jstring].
  rewrite jdec_string; [reflexivity | exact Hs |].
  rewrite app_length. pose proof (flat_jesc_length s). lia.
Qed.

(* ------------------------------------------------------------------ the object *)

Lemma skip_colon : forall x, skip_lit [58; 32] (A ": " ++ x) = Some x.
Proof. reflexivity. Qed.

Lemma comma_shape : forall x, A ", " ++ x = 44 :: 32 :: x.
Proof. reflexivity. Qed.

Lemma json_members_cons : forall k v kv2 l,
  json_members ((k, v) :: kv2 :: l) = jstr k ++ A ": " ++ jstr v ++ A ", " ++ json_members (kv2 :: l).
Proof. reflexivity. Qed.

Lemma jmembers_dumps : forall l fuel rest, l <> [] -> forallb pair_scalar l = true ->
  (List.length l <= fuel)%nat ->
  jmembers fuel (json_members l ++ 125 :: rest) = Some (l, rest).
Proof.
  induction l as [|[k v] l IH]; intros fuel rest Hne Hs Hf; [congruence|].
  destruct fuel; [cbn in Hf; lia|].
  cbn [forallb] in Hs. apply andb_true_iff in Hs as [Hkv Hs].
  unfold pair_scalar in Hkv. cbn [fst snd] in Hkv. apply andb_true_iff in Hkv as [Hk Hv].
  destruct l as [|kv2 l'].
  - cbn [json_members jmembers]. rewrite <- !app_assoc. rewrite (jstring_jstr k) by exact Hk.
    rewrite skip_colon. cbn match.
    rewrite (jstring_jstr v) by exact Hv. reflexivity.
  - rewrite json_members_cons. cbn [jmembers]. rewrite <- !app_assoc. rewrite (jstring_jstr k) by exact Hk.
    rewrite skip_colon. cbn match.
    rewrite (jstring_jstr v) by exact Hv. rewrite comma_shape.
    rewrite (IH fuel rest); [reflexivity | discriminate | exact Hs | cbn [List.length] in *; lia].
Qed.

Lemma jstr_length : forall s, (1 <= List.length (jstr s))%nat.
Proof. intros; unfold jstr; cbn; lia. Qed.

Lemma json_members_length : forall l, (List.length l <= List.length (json_members l))%nat.
Proof.
  induction l as [|[k v] l IH]; [cbn; lia|].
  destruct l as [|kv2 l']; cbn [json_members List.length] in *.
  - rewrite app_length. pose proof (jstr_length k). lia.
  - rewrite !app_length. pose proof (jstr_length k). cbn [List.length] in *. lia.
Qed.

Theorem json_roundtrip : forall l, l <> [] -> forallb pair_scalar l = true ->
  jobject (json_dumps l) = Some l.
Proof.
  intros l Hne Hs. unfold json_dumps, jobject.
  rewrite jmembers_dumps; auto.
  rewrite app_length. pose proof (json_members_length l). cbn [List.length]. lia.
Qed.

(* the encoder's output alphabet: printable ASCII only *)
Lemma hexd_printable : forall k, k < 16 -> 32 <= hexd k <= 126.
Proof. intros k H; unfold hexd; destruct (k <? 10) eqn:E; lia. Qed.

Lemma jesc_printable : forall c, Forall (fun d => 32 <= d <= 126) (jesc c).
Proof.
  intros c. unfold jesc.
  assert (Hh : forall n, Forall (fun d => 32 <= d <= 126) (hex4 n)).
  { intros n. unfold hex4.
    repeat (apply Forall_cons; [apply hexd_printable; apply N.mod_lt; lia|]). apply Forall_nil. }
  repeat match goal with |- context [if ?b then _ else _] => destruct b eqn:? end;
    try solve [repeat (apply Forall_cons; [lia|]); apply Forall_nil].
  - apply Forall_cons; [lia|]. apply Forall_cons; [lia|]. apply Hh.
  - apply Forall_app; split; (apply Forall_cons; [lia|]; apply Forall_cons; [lia|]; apply Hh).
Qed.

Lemma jstr_printable : forall s, Forall (fun d => 32 <= d <= 126) (jstr s).
Proof.
  intros s. unfold jstr. apply Forall_cons; [lia|]. apply Forall_app; split.
  - induction s as [|c s IH]; cbn [flat_map]; [apply Forall_nil|].
    apply Forall_app; split; [apply jesc_printable | exact IH].
  - apply Forall_cons; [lia | apply Forall_nil].
Qed.

(* ------------------------------------------------------------------ strip_tags leaves no tag *)
Lemma no_tag_spec : forall t, no_tag t = true -> forall a b, t = a ++ 60 :: b -> has_gt b = false.
Proof.
  induction t as [|c t IH]; intros H a b E; [destruct a; discriminate|].
  cbn [no_tag] in H. apply andb_true_iff in H as [H1 H2].
  destruct a as [|x a]; cbn [app] in E; inversion E; subst.
  - change (60 =? 60) with true in H1. destruct (has_gt b); [discriminate | reflexivity].
  - eapply IH; eauto.
Qed.

Lemma sub_tag_gt : forall s inside, has_gt (sub_tag inside s) = true -> has_gt s = true.
Proof.
  induction s as [|c r IH]; intros inside H; [destruct inside; exact H|].
  cbn [sub_tag] in H. unfold has_gt in *. cbn [existsb].
  destruct inside.
  - destruct (c =? 62) eqn:E; [rewrite N.eqb_sym, E; reflexivity|].
    rewrite (IH _ H). apply orb_true_r.
  - destruct ((c =? 60) && existsb (N.eqb 62) r) eqn:E.
    + rewrite (IH _ H). apply orb_true_r.
    + cbn [existsb] in H. apply orb_true_iff in H as [H|H]; [rewrite H; reflexivity|].
      rewrite (IH _ H). apply orb_true_r.
Qed.

Lemma sub_tag_no_tag : forall s inside, no_tag (sub_tag inside s) = true.
Proof.
  induction s as [|c r IH]; intros inside; [destruct inside; reflexivity|].
  cbn [sub_tag]. destruct inside.
  - destruct (c =? 62); apply IH.
  - destruct ((c =? 60) && has_gt r) eqn:E; [apply IH|].
    cbn [no_tag]. rewrite IH, andb_true_r.
    destruct (c =? 60) eqn:E60; [|reflexivity].
    cbn [andb] in E. destruct (has_gt (sub_tag false r)) eqn:Eg; [|reflexivity].
    apply sub_tag_gt in Eg. congruence.
Qed.

Theorem strip_tags_no_tag : forall v, no_tag (strip_tags v) = true.
Proof. intros v. unfold strip_tags. apply sub_tag_no_tag. Qed.
