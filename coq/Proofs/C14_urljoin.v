(* C14 — lemmas about the urllib.parse model: a base of the form scheme://netloc[/path] parses
   to that scheme and netloc; a reference without scheme and netloc joined to it keeps both. *)
From Coq Require Import NArith List Bool Lia ZifyBool ZifyN.
Require Import Webob.Lib.Val Webob.Lib.PyStr Webob.Model.C14_urlsplit Webob.Model.C14_location
               Webob.Spec.C14_origin.
Import ListNotations.
Local Open Scope N_scope.

(* ---------- generic list facts ---------- *)
Lemma str_eqb_refl s : str_eqb s s = true.
Proof. induction s as [|c s IH]; cbn; [reflexivity|]. rewrite N.eqb_refl, IH. reflexivity. Qed.

Lemma str_eqb_eq a : forall b, str_eqb a b = true -> a = b.
Proof.
  induction a as [|x a IH]; intros [|y b] H; cbn in H; try discriminate; [reflexivity|].
  apply andb_true_iff in H as [H1 H2]. apply N.eqb_eq in H1. subst. f_equal. auto.
Qed.

Lemma filter_id {A} (f : A -> bool) l : forallb f l = true -> filter f l = l.
Proof.
  induction l as [|x l IH]; cbn; [reflexivity|]. intros H. apply andb_true_iff in H as [H1 H2].
  rewrite H1, IH by assumption. reflexivity.
Qed.

Lemma forallb_impl {A} (f g : A -> bool) l :
  (forall x, f x = true -> g x = true) -> forallb f l = true -> forallb g l = true.
Proof.
  intros Hfg. induction l as [|x l IH]; cbn; [reflexivity|]. intros H.
  apply andb_true_iff in H as [H1 H2]. rewrite (Hfg _ H1), IH by assumption. reflexivity.
Qed.

Lemma forallb_rev {A} (f : A -> bool) l : forallb f (rev l) = forallb f l.
Proof.
  induction l as [|x l IH]; cbn; [reflexivity|]. rewrite forallb_app, IH. cbn.
  rewrite andb_true_r. apply andb_comm.
Qed.

Lemma forallb_skipn {A} (f : A -> bool) n : forall l, forallb f l = true -> forallb f (skipn n l) = true.
Proof.
  induction n as [|n IH]; intros l H; [exact H|]. destruct l as [|x l]; [reflexivity|].
  cbn in *. apply andb_true_iff in H as [_ H]. auto.
Qed.

Lemma span_until_app f a b :
  forallb (fun c => negb (f c)) a = true ->
  match b with [] => True | c :: _ => f c = true end ->
  span_until f (a ++ b) = (a, b).
Proof.
  intros Ha Hb. induction a as [|x a IH]; cbn.
  - destruct b as [|c b]; cbn; [reflexivity|]. rewrite Hb. reflexivity.
  - cbn in Ha. apply andb_true_iff in Ha as [Hx Ha]. apply negb_true_iff in Hx. rewrite Hx.
    rewrite (IH Ha). reflexivity.
Qed.

(* ---------- character class facts ---------- *)
Lemma host_char_safe c : host_char c = true -> unsafe_byte c = false /\ is_delim c = false /\ c0_or_space c = false
                                              /\ (c =? 91) = false /\ (c =? 93) = false.
Proof. unfold host_char, unsafe_byte, is_delim, c0_or_space, mem_n. lia. Qed.

Lemma scheme_char_not_delim c : is_scheme_char c = true -> is_delim c = false.
Proof. unfold is_scheme_char, is_ascii_alpha, is_digit, is_delim. lia. Qed.

Lemma hexdigit_ge n : 48 <= hexdigit n.
Proof. unfold hexdigit. destruct (n <? 10); lia. Qed.

Lemma pct_chars c : forallb (fun x => negb (x <=? 32)) (pct c) = true.
Proof.
  unfold pct. cbn. pose proof (hexdigit_ge (c / 16)). pose proof (hexdigit_ge (c mod 16)).
  generalize dependent (hexdigit (c / 16)). generalize dependent (hexdigit (c mod 16)). intros. lia.
Qed.

Lemma mem_n_false c l : forallb (fun x => negb (x =? c)) l = true -> mem_n c l = false.
Proof.
  induction l as [|x l IH]; cbn; [reflexivity|]. intros H. apply andb_true_iff in H as [H1 H2].
  apply negb_true_iff in H1. rewrite H1, IH by assumption. reflexivity.
Qed.

(* ---------- urlunparse with a netloc produces scheme://netloc followed by / ? # or nothing ---------- *)
Lemma urlunparse_origin scheme netloc p pa q f :
  scheme <> [] -> netloc <> [] -> has_origin scheme netloc (urlunparse scheme netloc p pa q f).
Proof.
  intros Hs Hn. unfold urlunparse, urlunsplit.
  destruct netloc as [|n0 netloc]; [congruence|]. destruct scheme as [|s0 scheme]; [congruence|].
  cbn [is_empty negb orb].
  set (url1 := if is_empty pa then p else p ++ 59 :: pa).
  set (url2 := match url1 with [] => url1 | c :: _ => if c =? 47 then url1 else 47 :: url1 end).
  exists (url2 ++ (if is_empty q then [] else 63 :: q) ++ (if is_empty f then [] else 35 :: f)).
  split.
  - unfold s_css. clearbody url2. clear.
    destruct (is_empty q), (is_empty f); repeat (progress (cbn [app]; rewrite <- ?app_assoc));
      rewrite ?app_nil_r; reflexivity.
  - assert (Hu : url2 = [] \/ exists t, url2 = 47 :: t).
    { unfold url2. destruct url1 as [|c t]; [left; reflexivity|]. right.
      destruct (c =? 47) eqn:E; [apply N.eqb_eq in E; subst; eauto | eauto]. }
    destruct Hu as [-> | [t ->]]; cbn; [|reflexivity].
    destruct (is_empty q); cbn; [|reflexivity]. destruct (is_empty f); cbn; [exact I | reflexivity].
Qed.

(* ---------- urlsplit / urlparse of scheme://netloc[/path] ---------- *)
Lemma clean_url_id u :
  match u with [] => True | c :: _ => c0_or_space c = false end ->
  forallb (fun c => negb (unsafe_byte c)) u = true -> clean_url u = u.
Proof.
  intros Hh Hu. unfold clean_url, lstrip_by. destruct u as [|c u]; [reflexivity|].
  cbn [drop_while]. rewrite Hh. apply filter_id. exact Hu.
Qed.

Lemma take_scheme_http d rest : take_scheme d (s_http ++ 58 :: rest) = (s_http, rest).
Proof. reflexivity. Qed.
Lemma take_scheme_https d rest : take_scheme d (s_https ++ 58 :: rest) = (s_https, rest).
Proof. reflexivity. Qed.

Definition qpath_ok (q : str) : Prop :=
  match q with [] => True | c :: _ => c = 47 end /\ forallb (fun c => negb (unsafe_byte c)) q = true.

Lemma take_netloc_base netloc qpath :
  forallb host_char netloc = true -> qpath_ok qpath ->
  take_netloc (47 :: 47 :: netloc ++ qpath) = (netloc, qpath).
Proof.
  intros Hn [Hq _]. unfold take_netloc. cbn [starts2 skipn]. rewrite N.eqb_refl. cbn [andb].
  apply span_until_app.
  - eapply forallb_impl; [|exact Hn]. intros c Hc. apply host_char_safe in Hc as (_ & -> & _). reflexivity.
  - destruct qpath as [|c t]; [exact I|]. subst c. reflexivity.
Qed.

Lemma host_no_brackets netloc : forallb host_char netloc = true -> mem_n 91 netloc = false /\ mem_n 93 netloc = false.
Proof.
  intros H. split; apply mem_n_false; (eapply forallb_impl; [|exact H]); intros c Hc;
    apply host_char_safe in Hc as (_ & _ & _ & H1 & H2); rewrite ?H1, ?H2; reflexivity.
Qed.

Lemma host_checknetloc netloc : forallb host_char netloc = true -> checknetloc netloc = false.
Proof.
  unfold checknetloc. induction netloc as [|c t IH]; [reflexivity|]. cbn [forallb existsb]. intros H.
  apply andb_true_iff in H as [Hc Ht]. rewrite (IH Ht), orb_false_r.
  unfold host_char in Hc. unfold nfkc_delim, mem_n. lia.
Qed.

Lemma urlsplit_base scheme netloc qpath :
  (scheme = s_http \/ scheme = s_https) -> forallb host_char netloc = true -> qpath_ok qpath ->
  exists p q f, urlsplit (scheme ++ s_css ++ netloc ++ qpath) [] = SOk scheme netloc p q f.
Proof.
  intros Hs Hn Hq.
  assert (Hclean : clean_url (scheme ++ s_css ++ netloc ++ qpath) = scheme ++ s_css ++ netloc ++ qpath).
  { apply clean_url_id.
    - destruct Hs as [-> | ->]; reflexivity.
    - rewrite !forallb_app. destruct Hq as [_ Hq]. rewrite Hq.
      assert (forallb (fun c => negb (unsafe_byte c)) netloc = true) as ->.
      { eapply forallb_impl; [|exact Hn]. intros c Hc. apply host_char_safe in Hc as (-> & _). reflexivity. }
      destruct Hs as [-> | ->]; reflexivity. }
  unfold urlsplit. rewrite Hclean.
  assert (Hts : take_scheme (clean_scheme []) (scheme ++ s_css ++ netloc ++ qpath) = (scheme, 47 :: 47 :: netloc ++ qpath)).
  { destruct Hs as [-> | ->]; reflexivity. }
  rewrite Hts. rewrite (take_netloc_base _ _ Hn Hq).
  destruct (host_no_brackets _ Hn) as [-> ->]. cbn [xorb andb]. rewrite (host_checknetloc _ Hn).
  destruct (split_or 35 qpath) as [a b]. destruct (split_or 63 a) as [a' b']. eauto.
Qed.

Lemma urlparse_of_split url sch scheme netloc p q f :
  urlsplit url sch = SOk scheme netloc p q f ->
  exists p' pa, urlparse url sch = POk scheme netloc p' pa q f.
Proof.
  intros H. unfold urlparse. rewrite H.
  destruct (mem_str scheme uses_params && mem_n 59 p); [destruct (splitparams p) as [p' pa]|]; eauto.
Qed.

(* ---------- urlsplit of a reference that has no scheme, no '//' and nothing urlsplit strips ---------- *)
Definition ref_ok (u : str) : Prop :=
  forallb (fun c => negb (c <=? 32)) u = true /\ starts2 47 47 u = false /\ (forall d, take_scheme d u = (d, u)).

Lemma urlsplit_ref sch u :
  (sch = s_http \/ sch = s_https) -> ref_ok u -> exists p q f, urlsplit u sch = SOk sch [] p q f.
Proof.
  intros Hs (Hc & H2 & Hts).
  assert (Hclean : clean_url u = u).
  { apply clean_url_id.
    - destruct u as [|c t]; [exact I|]. cbn [forallb] in Hc. apply andb_true_iff in Hc as [Hc _]. unfold c0_or_space. lia.
    - eapply forallb_impl; [|exact Hc]. intros c H. cbv beta in *. unfold unsafe_byte. lia. }
  unfold urlsplit. rewrite Hclean, Hts.
  assert (clean_scheme sch = sch) as -> by (destruct Hs as [-> | ->]; reflexivity).
  unfold take_netloc. rewrite H2. cbn [mem_n xorb andb checknetloc existsb].
  destruct (split_or 35 u) as [a b]. destruct (split_or 63 a) as [a' b']. eauto.
Qed.

(* ---------- urljoin keeps the base's scheme and netloc for such a reference ---------- *)
Lemma mem_uses scheme : (scheme = s_http \/ scheme = s_https) ->
  mem_str scheme uses_relative = true /\ mem_str scheme uses_netloc = true /\ scheme <> [].
Proof. intros [-> | ->]; repeat split; try reflexivity; discriminate. Qed.

Lemma urljoin_origin scheme netloc qpath u :
  (scheme = s_http \/ scheme = s_https) -> forallb host_char netloc = true -> netloc <> [] ->
  qpath_ok qpath -> ref_ok u ->
  exists r, urljoin (scheme ++ s_css ++ netloc ++ qpath) u = JOk r /\ has_origin scheme netloc r.
Proof.
  intros Hs Hn Hne Hq Hu. unfold urljoin.
  assert (is_empty (scheme ++ s_css ++ netloc ++ qpath) = false) as -> by (destruct Hs as [-> | ->]; reflexivity).
  destruct (is_empty u) eqn:Eu.
  - eexists; split; [reflexivity|]. exists qpath. split; [reflexivity|].
    destruct Hq as [Hq _]. destruct qpath as [|c t]; [exact I|]. subst c. reflexivity.
  - destruct (urlsplit_base _ _ _ Hs Hn Hq) as (bp & bq & bf & Hb).
    destruct (urlparse_of_split _ _ _ _ _ _ _ Hb) as (bp' & bpa & ->).
    destruct (urlsplit_ref _ _ Hs Hu) as (p & q & f & Hr).
    destruct (urlparse_of_split _ _ _ _ _ _ _ Hr) as (p' & pa & ->).
    destruct (mem_uses _ Hs) as (-> & -> & Hsne).
    rewrite str_eqb_refl. cbn [negb orb andb is_empty].
    destruct (is_empty p' && is_empty pa); (eexists; split; [reflexivity|]); apply urlunparse_origin; assumption.
Qed.
