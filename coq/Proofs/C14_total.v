(* C14 — urljoin only rearranges the characters of its arguments (plus / : ; ? #), hence a resolved
   Location contains no CR/LF and the redirect classes always emit it (totality of the _HTTPMove path). *)
From Coq Require Import NArith Arith List Bool Lia ZifyBool ZifyN.
Require Import Webob.Lib.Val Webob.Lib.PyStr Webob.Model.C14_urlsplit Webob.Model.C14_location
               Webob.Spec.C14_origin Webob.Proofs.C14_urljoin Webob.Proofs.C14_location.
Import ListNotations.
Local Open Scope N_scope.

Section Preservation.
  Variable P : N -> bool.
  Hypothesis P47 : P 47 = true.
  Hypothesis P58 : P 58 = true.
  Hypothesis P59 : P 59 = true.
  Hypothesis P63 : P 63 = true.
  Hypothesis P35 : P 35 = true.
  Hypothesis Plower : forall c, P c = true -> P (lower_c c) = true.

  Notation ok := (forallb P).
  Notation oks := (forallb (forallb P)).

  Lemma ok_app a b : ok (a ++ b) = ok a && ok b. Proof. apply forallb_app. Qed.

  Lemma ite_true {A} (f : A -> bool) (b : bool) x y : f x = true -> f y = true -> f (if b then x else y) = true.
  Proof. destruct b; auto. Qed.

  Lemma split_first_ok d s : forall a b, ok s = true -> split_first d s = Some (a, b) -> ok a = true /\ ok b = true.
  Proof.
    induction s as [|c s IH]; intros a b Hs H; cbn in H; [discriminate|].
    cbn [forallb] in Hs. apply andb_true_iff in Hs as [Hc Hs].
    destruct (c =? d); [injection H as <- <-; split; [reflexivity | exact Hs]|].
    destruct (split_first d s) as [[a' b']|]; [|discriminate]. injection H as <- <-.
    destruct (IH _ _ Hs eq_refl) as [Ha Hb]. split; [cbn; rewrite Hc, Ha; reflexivity | exact Hb].
  Qed.

  Lemma ok_rev s : ok (rev s) = ok s. Proof. apply forallb_rev. Qed.

  Lemma split_last_ok d s a b : ok s = true -> split_last d s = Some (a, b) -> ok a = true /\ ok b = true.
  Proof.
    unfold split_last. intros Hs. destruct (split_first d (rev s)) as [[b' a']|] eqn:E; [|discriminate].
    intros H. injection H as <- <-. rewrite <- ok_rev in Hs. destruct (split_first_ok _ _ _ _ Hs E) as [H1 H2].
    rewrite !ok_rev. auto.
  Qed.

  Lemma span_until_ok f s : ok s = true -> ok (fst (span_until f s)) = true /\ ok (snd (span_until f s)) = true.
  Proof.
    induction s as [|c s IH]; intros Hs; [split; reflexivity|]. cbn [span_until].
    destruct (f c); [split; [reflexivity | exact Hs]|].
    cbn [forallb] in Hs. apply andb_true_iff in Hs as [Hc Hs]. destruct (IH Hs) as [H1 H2].
    destruct (span_until f s) as [a b]. cbn [fst snd] in *. split; [cbn; rewrite Hc, H1; reflexivity | exact H2].
  Qed.

  Lemma filter_ok f s : ok s = true -> ok (filter f s) = true.
  Proof.
    induction s as [|c s IH]; intros Hs; [reflexivity|]. cbn [forallb] in Hs. apply andb_true_iff in Hs as [Hc Hs].
    cbn [filter]. destruct (f c); [cbn; rewrite Hc; auto | auto].
  Qed.

  Lemma drop_while_ok f s : ok s = true -> ok (drop_while f s) = true.
  Proof.
    induction s as [|c s IH]; intros Hs; [reflexivity|]. cbn [drop_while]. destruct (f c); [|exact Hs].
    cbn [forallb] in Hs. apply andb_true_iff in Hs as [_ Hs]. auto.
  Qed.

  Lemma clean_url_ok u : ok u = true -> ok (clean_url u) = true.
  Proof. intros H. unfold clean_url, lstrip_by. auto using filter_ok, drop_while_ok. Qed.

  Lemma clean_scheme_ok u : ok u = true -> ok (clean_scheme u) = true.
  Proof.
    intros H. unfold clean_scheme, strip_by, rstrip_by, lstrip_by. apply filter_ok. rewrite ok_rev.
    apply drop_while_ok. rewrite ok_rev. apply drop_while_ok. exact H.
  Qed.

  Lemma lower_ok s : ok s = true -> ok (lower s) = true.
  Proof.
    unfold lower. induction s as [|c s IH]; intros Hs; [reflexivity|]. cbn [forallb map] in *.
    apply andb_true_iff in Hs as [Hc Hs]. rewrite (Plower _ Hc), (IH Hs). reflexivity.
  Qed.

  Lemma take_scheme_ok d u : ok d = true -> ok u = true ->
    ok (fst (take_scheme d u)) = true /\ ok (snd (take_scheme d u)) = true.
  Proof.
    intros Hd Hu. unfold take_scheme. destruct (split_first 58 u) as [[[|c p] r]|] eqn:E; try (split; assumption).
    destruct (is_ascii_alpha c && forallb is_scheme_char (c :: p)); [|split; assumption].
    destruct (split_first_ok _ _ _ _ Hu E) as [H1 H2]. cbn [fst snd]. split; [apply lower_ok; exact H1 | exact H2].
  Qed.

  Lemma take_netloc_ok u : ok u = true -> ok (fst (take_netloc u)) = true /\ ok (snd (take_netloc u)) = true.
  Proof.
    intros Hu. unfold take_netloc. destruct (starts2 47 47 u); [|split; [reflexivity | exact Hu]].
    apply span_until_ok. apply forallb_skipn. exact Hu.
  Qed.

  Lemma split_or_ok d u : ok u = true -> ok (fst (split_or d u)) = true /\ ok (snd (split_or d u)) = true.
  Proof.
    intros Hu. unfold split_or. destruct (split_first d u) as [[a b]|] eqn:E;
      [exact (split_first_ok _ _ _ _ Hu E) | split; [exact Hu | reflexivity]].
  Qed.

  Lemma urlsplit_ok u sch a b c d e : ok u = true -> ok sch = true -> urlsplit u sch = SOk a b c d e ->
    ok a = true /\ ok b = true /\ ok c = true /\ ok d = true /\ ok e = true.
  Proof.
    intros Hu Hs. unfold urlsplit.
    pose proof (take_scheme_ok _ _ (clean_scheme_ok _ Hs) (clean_url_ok _ Hu)) as [H1 H2].
    destruct (take_scheme (clean_scheme sch) (clean_url u)) as [s1 u1]. cbn [fst snd] in *.
    pose proof (take_netloc_ok _ H2) as [H3 H4]. destruct (take_netloc u1) as [n1 u2]. cbn [fst snd] in *.
    destruct (xorb _ _); [discriminate|]. destruct (_ && _); [discriminate|]. destruct (checknetloc n1); [discriminate|].
    pose proof (split_or_ok 35 _ H4) as [H5 H6]. destruct (split_or 35 u2) as [u3 f1]. cbn [fst snd] in *.
    pose proof (split_or_ok 63 _ H5) as [H7 H8]. destruct (split_or 63 u3) as [u4 q1]. cbn [fst snd] in *.
    intros H. injection H as <- <- <- <- <-. repeat split; assumption.
  Qed.

  Lemma splitparams_ok u : ok u = true -> ok (fst (splitparams u)) = true /\ ok (snd (splitparams u)) = true.
  Proof.
    intros Hu. unfold splitparams. destruct (split_last 47 u) as [[pre lastseg]|] eqn:E.
    - destruct (split_last_ok _ _ _ _ Hu E) as [H1 H2].
      destruct (split_first 59 lastseg) as [[a b]|] eqn:E2; [|split; [exact Hu | reflexivity]].
      destruct (split_first_ok _ _ _ _ H2 E2) as [H3 H4]. cbn [fst snd]. split; [|exact H4].
      rewrite ok_app, H1. cbn [forallb]. rewrite P47, H3. reflexivity.
    - destruct (split_first 59 u) as [[a b]|] eqn:E2; [exact (split_first_ok _ _ _ _ Hu E2) | split; [exact Hu | reflexivity]].
  Qed.

  Lemma urlparse_ok u sch a b c pa d e : ok u = true -> ok sch = true -> urlparse u sch = POk a b c pa d e ->
    ok a = true /\ ok b = true /\ ok c = true /\ ok pa = true /\ ok d = true /\ ok e = true.
  Proof.
    intros Hu Hs. unfold urlparse. destruct (urlsplit u sch) as [a' b' c' d' e'| |] eqn:E; try discriminate.
    destruct (urlsplit_ok _ _ _ _ _ _ _ Hu Hs E) as (Ha & Hb & Hc & Hd & He).
    destruct (_ && _).
    - pose proof (splitparams_ok _ Hc) as [H1 H2]. destruct (splitparams c') as [p1 p2]. cbn [fst snd] in *.
      intros H. injection H as <- <- <- <- <- <-. repeat split; assumption.
    - intros H. injection H as <- <- <- <- <- <-. repeat split; assumption.
  Qed.

  Lemma urlunparse_ok (a b c pa d e : str) : ok a = true -> ok b = true -> ok c = true -> ok pa = true -> ok d = true -> ok e = true ->
    ok (urlunparse a b c pa d e) = true.
  Proof.
    intros Ha Hb Hc Hpa Hd He. unfold urlunparse, urlunsplit. cbv zeta.
    set (u1 := if is_empty pa then c else c ++ 59 :: pa).
    assert (H1 : ok u1 = true) by (unfold u1; destruct (is_empty pa); [exact Hc | rewrite ok_app; cbn; rewrite Hc, P59, Hpa; reflexivity]).
    clearbody u1.
    match goal with |- context [if ?cnd then ?x else u1] => set (u2 := if cnd then x else u1) end.
    assert (H2 : ok u2 = true).
    { unfold u2. destruct (_ || _); [|exact H1]. cbn [forallb]. rewrite P47. cbn [andb]. rewrite ok_app, Hb.
      destruct u1 as [|x t]; [reflexivity|]. destruct (x =? 47); [exact H1 | cbn [forallb]; rewrite P47; exact H1]. }
    clearbody u2.
    set (u3 := if is_empty a then u2 else a ++ 58 :: u2).
    assert (H3 : ok u3 = true) by (unfold u3; destruct (is_empty a); [exact H2 | rewrite ok_app; cbn; rewrite Ha, P58, H2; reflexivity]).
    clearbody u3.
    set (u4 := if is_empty d then u3 else u3 ++ 63 :: d).
    assert (H4 : ok u4 = true) by (unfold u4; destruct (is_empty d); [exact H3 | rewrite ok_app; cbn; rewrite H3, P63, Hd; reflexivity]).
    clearbody u4.
    destruct (is_empty e); [exact H4 | rewrite ok_app; cbn; rewrite H4, P35, He; reflexivity].
  Qed.

  Lemma split_c_ok d s : ok s = true -> oks (split_c d s) = true.
  Proof.
    induction s as [|c s IH]; intros Hs; [reflexivity|]. cbn [forallb] in Hs. apply andb_true_iff in Hs as [Hc Hs].
    cbn [split_c]. specialize (IH Hs). destruct (c =? d); [cbn; exact IH|].
    destruct (split_c d s) as [|f fs]; [cbn; rewrite Hc; reflexivity|].
    cbn [forallb] in *. apply andb_true_iff in IH as [Hf Hfs]. rewrite Hc, Hf, Hfs. reflexivity.
  Qed.

  Lemma oks_removelast (l : list str) : oks l = true -> oks (removelast l) = true.
  Proof.
    induction l as [|x l IH]; intros H; [reflexivity|]. cbn [forallb] in H. apply andb_true_iff in H as [Hx Hl].
    cbn [removelast]. destruct l as [|y l]; [reflexivity|]. cbn [forallb]. rewrite Hx. exact (IH Hl).
  Qed.

  Lemma oks_last (l : list str) : oks l = true -> ok (last l []) = true.
  Proof.
    induction l as [|x l IH]; intros H; [reflexivity|]. cbn [forallb] in H. apply andb_true_iff in H as [Hx Hl].
    cbn [last]. destruct l as [|y l]; [exact Hx | exact (IH Hl)].
  Qed.

  Lemma oks_filter f (l : list str) : oks l = true -> oks (filter f l) = true.
  Proof.
    induction l as [|x l IH]; intros H; [reflexivity|]. cbn [forallb] in H. apply andb_true_iff in H as [Hx Hl].
    cbn [filter]. destruct (f x); [cbn [forallb]; rewrite Hx; auto | auto].
  Qed.

  Lemma filter_middle_ok l : oks l = true -> oks (filter_middle l) = true.
  Proof.
    intros H. unfold filter_middle. destruct l as [|first rest]; [reflexivity|].
    cbn [forallb] in H. apply andb_true_iff in H as [Hf Hr]. destruct rest as [|r0 rest']; [cbn; rewrite Hf; reflexivity|].
    cbn [forallb]. rewrite Hf. cbn [andb]. rewrite forallb_app. rewrite (oks_filter _ _ (oks_removelast _ Hr)).
    cbn [forallb]. rewrite (oks_last _ Hr). reflexivity.
  Qed.

  Lemma resolve_ok segs : forall acc, oks segs = true -> oks acc = true -> oks (resolve segs acc) = true.
  Proof.
    induction segs as [|s segs IH]; intros acc Hs Ha; cbn [resolve].
    - rewrite forallb_rev. exact Ha.
    - cbn [forallb] in Hs. apply andb_true_iff in Hs as [H1 H2].
      destruct (str_eqb s dotdot); [apply IH; [exact H2|]; destruct acc as [|x acc]; [reflexivity|];
        cbn [forallb tl] in *; apply andb_true_iff in Ha as [_ Ha]; exact Ha|].
      destruct (str_eqb s dot); [apply IH; assumption|]. apply IH; [exact H2|]. cbn [forallb]. rewrite H1, Ha. reflexivity.
  Qed.

  Lemma join_ok sep l : ok sep = true -> oks l = true -> ok (join sep l) = true.
  Proof.
    intros Hsep. induction l as [|x l IH]; intros H; [reflexivity|]. cbn [forallb] in H. apply andb_true_iff in H as [Hx Hl].
    cbn [join]. destruct l as [|y l]; [exact Hx|]. rewrite !ok_app, Hx, Hsep, (IH Hl). reflexivity.
  Qed.

  Lemma urljoin_ok (base u r : str) : ok base = true -> ok u = true -> urljoin base u = JOk r -> ok r = true.
  Proof.
    intros Hb Hu. unfold urljoin. destruct (is_empty base); [intros H; injection H as <-; exact Hu|].
    destruct (is_empty u); [intros H; injection H as <-; exact Hb|].
    destruct (urlparse base []) as [bs bn bp bpa bq bf| |] eqn:Eb; try discriminate.
    destruct (urlparse_ok base [] _ _ _ _ _ _ Hb eq_refl Eb) as (Hbs & Hbn & Hbp & Hbpa & Hbq & Hbf).
    destruct (urlparse u bs) as [s n p pa q f| |] eqn:Eu; try discriminate.
    destruct (urlparse_ok _ _ _ _ _ _ _ _ Hu Hbs Eu) as (Hs & Hn & Hp & Hpa & Hq & Hf).
    destruct (_ || _); [intros H; injection H as <-; exact Hu|].
    destruct (mem_str s uses_netloc && negb (is_empty n)); [intros H; injection H as <-; apply urlunparse_ok; assumption|].
    set (n' := if mem_str s uses_netloc then bn else n).
    assert (Hn' : ok n' = true) by (unfold n'; destruct (mem_str s uses_netloc); assumption).
    clearbody n'.
    destruct (is_empty p && is_empty pa).
    - intros H; injection H as <-. apply urlunparse_ok; try assumption. destruct (is_empty q); assumption.
    - intros H; injection H as <-. apply urlunparse_ok; try assumption.
      apply (ite_true (forallb P)); [cbn [forallb]; rewrite P47; reflexivity|].
      apply join_ok; [cbn [forallb]; rewrite P47; reflexivity|].
      assert (Hbparts : oks (if is_empty (last (split_c 47 bp) []) then split_c 47 bp else removelast (split_c 47 bp)) = true).
      { apply (ite_true (forallb (forallb P))); [|apply oks_removelast]; apply split_c_ok; exact Hbp. }
      assert (Hseg : oks (if starts_with [47] p then split_c 47 p
                          else filter_middle ((if is_empty (last (split_c 47 bp) []) then split_c 47 bp
                                               else removelast (split_c 47 bp)) ++ split_c 47 p)) = true).
      { apply (ite_true (forallb (forallb P))); [apply split_c_ok; exact Hp|]. apply filter_middle_ok.
        rewrite forallb_app. apply andb_true_iff. split; [exact Hbparts | apply split_c_ok; exact Hp]. }
      apply (ite_true (forallb (forallb P))).
      + rewrite forallb_app. apply andb_true_iff. split; [apply resolve_ok; [exact Hseg | reflexivity] | reflexivity].
      + apply resolve_ok; [exact Hseg | reflexivity].
  Qed.
End Preservation.

(* ---------- instance: characters above SP ---------- *)
Lemma gt32_lower c : gt32 c = true -> gt32 (lower_c c) = true.
Proof. unfold gt32, lower_c. intros H. destruct (_ && _); [lia|]. destruct (_ && _); [lia | exact H]. Qed.

Lemma urljoin_gt32 base u r : forallb gt32 base = true -> forallb gt32 u = true -> urljoin base u = JOk r ->
  forallb gt32 r = true.
Proof. apply (urljoin_ok gt32); try reflexivity. exact gt32_lower. Qed.

Lemma gt32_no_crlf r : forallb gt32 r = true -> mem_n 10 r || mem_n 13 r = false.
Proof.
  intros H. apply orb_false_iff. split; apply mem_n_false; (eapply forallb_impl; [|exact H]); intros c Hc;
    unfold gt32 in Hc; lia.
Qed.

Lemma make_abs_printable e v r : env_ok e -> has_alpha_scheme v = false ->
  make_location_absolute e v = JOk r -> forallb gt32 r = true.
Proof.
  intros He Hv. unfold make_location_absolute. rewrite Hv.
  destruct (request_uri_shape e He) as (qpath & -> & _ & Hq). destruct He as [Hs Hh Hn _ _].
  apply urljoin_gt32; [|exact (proj1 (relative_location_ok v))].
  rewrite !forallb_app, Hq.
  assert (forallb gt32 (req_netloc e) = true) as ->.
  { eapply forallb_impl; [|apply req_netloc_chars; exact Hh]. intros c Hc. unfold gt32, host_char in *. lia. }
  destruct Hs as [-> | ->]; reflexivity.
Qed.

(* the redirect classes always emit, for every location without CR/LF *)
Lemma move_total e v : env_ok e -> v <> [] -> mem_n 10 v || mem_n 13 v = false ->
  exists r, move_emit e (Some v) false = JOk r /\
            (has_alpha_scheme v = true -> r = v) /\ (has_alpha_scheme v = false -> same_origin e r).
Proof.
  intros He Hne Hc. destruct (has_alpha_scheme v) eqn:Ev.
  - exists v. split; [apply move_absolute_emitted; assumption | split; [reflexivity | discriminate]].
  - destruct (make_abs_same_origin e v He Ev) as (r & Hr & Ho). exists r.
    split; [|split; [discriminate | intros _; exact Ho]].
    unfold move_emit, move_init. rewrite Hc. unfold move_call, resolve_move.
    destruct v as [|c v]; [congruence|]. cbn [is_empty]. rewrite Hr. cbn [bind].
    unfold set_header. rewrite (gt32_no_crlf _ (make_abs_printable _ _ _ He Ev Hr)). cbn [bind].
    apply make_abs_unchanged. exact (origin_has_alpha_scheme _ _ He Ho).
Qed.

(* a Location that reaches _HTTPMove.__call__ by another door than the location= argument (headers=[...],
   exc.headers[...] = ...): no CR/LF hypothesis is needed for a scheme-less value, it is percent-encoded *)
Lemma move_call_any_door e v : env_ok e -> v <> [] -> has_alpha_scheme v = false ->
  exists r, move_call e (Some v) false = JOk r /\ same_origin e r.
Proof.
  intros He Hne Ev. destruct (make_abs_same_origin e v He Ev) as (r & Hr & Ho). exists r. split; [|exact Ho].
  unfold move_call, resolve_move. destruct v as [|c v]; [congruence|]. cbn [is_empty]. rewrite Hr. cbn [bind].
  unfold set_header. rewrite (gt32_no_crlf _ (make_abs_printable _ _ _ He Ev Hr)). cbn [bind].
  apply make_abs_unchanged. exact (origin_has_alpha_scheme _ _ He Ho).
Qed.
