(* C14 — the independent WHATWG-style splitter of Spec/C14_origin.v reads the request's scheme and
   host out of every string of the form scheme://netloc[/?#...]. *)
From Coq Require Import NArith Arith List Bool Lia ZifyBool ZifyN.
Require Import Webob.Lib.Val Webob.Lib.PyStr Webob.Model.C14_urlsplit Webob.Model.C14_location
               Webob.Spec.C14_origin Webob.Proofs.C14_urljoin Webob.Proofs.C14_location.
Import ListNotations.
Local Open Scope N_scope.

Lemma drop_while_app f (a b : str) :
  drop_while f (a ++ b) = if forallb f a then drop_while f b else drop_while f a ++ b.
Proof.
  induction a as [|c a IH]; [reflexivity|]. cbn [app drop_while forallb]. destruct (f c); [exact IH | reflexivity].
Qed.

Lemma rstrip_cons f c t : f c = false -> rstrip_by f (c :: t) = c :: rstrip_by f t.
Proof.
  intros Hc. unfold rstrip_by. cbn [rev]. rewrite drop_while_app. destruct (forallb f (rev t)) eqn:E.
  - cbn [drop_while]. rewrite Hc.
    assert (drop_while f (rev t) = []) as ->; [|reflexivity].
    clear -E. induction (rev t) as [|x l IH]; [reflexivity|]. cbn in *. apply andb_true_iff in E as [-> E]. auto.
  - rewrite rev_app_distr. reflexivity.
Qed.

Lemma rstrip_prefix f p rest : forallb (fun c => negb (f c)) p = true -> rstrip_by f (p ++ rest) = p ++ rstrip_by f rest.
Proof.
  induction p as [|c p IH]; [reflexivity|]. cbn [forallb app]. intros H. apply andb_true_iff in H as [Hc Hp].
  apply negb_true_iff in Hc. rewrite rstrip_cons by exact Hc. rewrite IH by exact Hp. reflexivity.
Qed.

Lemma origin_of_clean_http rest :
  origin_of_clean (s_http ++ 58 :: rest) = option_map (fun a => (s_http, a)) (read_authority rest).
Proof. reflexivity. Qed.
Lemma origin_of_clean_https rest :
  origin_of_clean (s_https ++ 58 :: rest) = option_map (fun a => (s_https, a)) (read_authority rest).
Proof. reflexivity. Qed.

Lemma read_authority_ok c auth rest2 :
  is_slash c = false -> span_until ends_authority ((c :: auth) ++ rest2) = (c :: auth, rest2) ->
  read_authority (47 :: 47 :: (c :: auth) ++ rest2) = Some (c :: auth).
Proof.
  intros Hc Hspan. unfold read_authority.
  assert (drop_while is_slash (47 :: 47 :: (c :: auth) ++ rest2) = (c :: auth) ++ rest2) as ->.
  { change (drop_while is_slash ((c :: auth) ++ rest2) = (c :: auth) ++ rest2). cbn [app drop_while]. rewrite Hc. reflexivity. }
  rewrite Hspan. cbn [length fst].
  replace (S (S (length ((c :: auth) ++ rest2))) - length ((c :: auth) ++ rest2))%nat with 2%nat by lia.
  reflexivity.
Qed.

Lemma host_char_auth c : host_char c = true ->
  is_slash c = false /\ ends_authority c = false /\ c0_or_space c = false /\ unsafe_byte c = false.
Proof. unfold host_char, is_slash, ends_authority, is_slash, c0_or_space, unsafe_byte, mem_n. lia. Qed.

Lemma delim_auth c : is_delim c = true -> ends_authority c = true /\ c0_or_space c = false /\ unsafe_byte c = false.
Proof. unfold is_delim, ends_authority, is_slash, c0_or_space, unsafe_byte. lia. Qed.

Lemma origin_of_has_origin scheme netloc r :
  (scheme = s_http \/ scheme = s_https) -> forallb host_char netloc = true -> netloc <> [] ->
  has_origin scheme netloc r -> origin_of r = Some (scheme, netloc).
Proof.
  intros Hs Hn Hne (rest & -> & Hrest). unfold origin_of, strip_by, lstrip_by.
  assert (Hl : drop_while c0_or_space (scheme ++ s_css ++ netloc ++ rest) = scheme ++ s_css ++ netloc ++ rest)
    by (destruct Hs as [-> | ->]; reflexivity).
  rewrite Hl. clear Hl.
  assert (Hp : forallb (fun c => negb (c0_or_space c)) (scheme ++ s_css ++ netloc) = true).
  { rewrite !forallb_app.
    assert (forallb (fun c => negb (c0_or_space c)) netloc = true) as ->.
    { eapply forallb_impl; [|exact Hn]. intros c Hc. apply host_char_auth in Hc as (_ & _ & -> & _). reflexivity. }
    destruct Hs as [-> | ->]; reflexivity. }
  replace (scheme ++ s_css ++ netloc ++ rest) with ((scheme ++ s_css ++ netloc) ++ rest) by (rewrite <- !app_assoc; reflexivity).
  rewrite (rstrip_prefix _ _ _ Hp), filter_app.
  assert (Hu : filter (fun c => negb (unsafe_byte c)) (scheme ++ s_css ++ netloc) = scheme ++ s_css ++ netloc).
  { apply filter_id. rewrite !forallb_app.
    assert (forallb (fun c => negb (unsafe_byte c)) netloc = true) as ->.
    { eapply forallb_impl; [|exact Hn]. intros c Hc. apply host_char_auth in Hc as (_ & _ & _ & ->). reflexivity. }
    destruct Hs as [-> | ->]; reflexivity. }
  rewrite Hu. clear Hu Hp.
  set (rest2 := filter (fun c => negb (unsafe_byte c)) (rstrip_by c0_or_space rest)).
  assert (Hr2 : match rest2 with [] => True | c :: _ => ends_authority c = true end).
  { unfold rest2. destruct rest as [|c t]; [exact I|]. apply delim_auth in Hrest as (Ha & Hc0 & Hun).
    rewrite (rstrip_cons _ _ _ Hc0). cbn [filter]. rewrite Hun. cbn [negb]. exact Ha. }
  clearbody rest2.
  destruct netloc as [|n0 netloc]; [congruence|]. cbn [forallb] in Hn. apply andb_true_iff in Hn as [Hn0 Hn].
  pose proof (host_char_auth _ Hn0) as (Hsl & Hea & _ & _).
  assert (Hspan : span_until ends_authority ((n0 :: netloc) ++ rest2) = (n0 :: netloc, rest2)).
  { apply span_until_app; [|exact Hr2]. cbn [forallb]. rewrite Hea. cbn [negb andb].
    eapply forallb_impl; [|exact Hn]. intros c Hc. apply host_char_auth in Hc as (_ & -> & _). reflexivity. }
  rewrite <- !app_assoc. unfold s_css. cbn [app].
  pose proof (read_authority_ok _ _ _ Hsl Hspan) as Hra. cbn [app] in Hra.
  destruct Hs as [-> | ->].
  - rewrite origin_of_clean_http, Hra. reflexivity.
  - rewrite origin_of_clean_https, Hra. reflexivity.
Qed.

Lemma make_abs_origin_of e v : env_ok e -> has_alpha_scheme v = false ->
  exists r, make_location_absolute e v = JOk r /\ origin_of r = Some (e_scheme e, req_netloc e).
Proof.
  intros He Hv. destruct (make_abs_same_origin e v He Hv) as (r & Hr & Ho). exists r. split; [exact Hr|].
  destruct He as [Hs Hh Hn _ _]. apply origin_of_has_origin; auto using req_netloc_chars.
Qed.
