(* C20 — call_application / send return exactly what the application script produced. *)
From Coq Require Import ZArith NArith List Bool Lia.
Require Import Webob.Lib.Val Webob.Lib.PyStr Webob.Model.C20_wire Webob.Model.C20_callapp Webob.Spec.C20_spec.
From Coq Require String.
Import String.StringSyntax.
Import ListNotations.
Local Open Scope string_scope.
Local Open Scope list_scope.
Local Open Scope N_scope.


Lemma concat_chunk_list its : concat (chunk_list its) = spec_body its.
Proof.
  induction its as [|[[st h exc|b|x]|b] r IH]; cbn; try rewrite IH; reflexivity.
Qed.

Lemma chunk_list_app a b : chunk_list (a ++ b) = chunk_list a ++ chunk_list b.
Proof.
  induction a as [|[[st h exc|c|x]|c] r IH]; cbn; try rewrite IH; reflexivity.
Qed.

Lemma spec_body_app a b : spec_body (a ++ b) = spec_body a ++ spec_body b.
Proof. rewrite <- !concat_chunk_list, chunk_list_app, concat_app. reflexivity. Qed.

Lemma last_start_app a b acc : last_start (a ++ b) acc = last_start b (last_start a acc).
Proof.
  revert acc. induction a as [|[[st h exc|c|x]|c] r IH]; intros acc; cbn; try apply IH; reflexivity.
Qed.

Lemma first_raise_app catch a b :
  first_raise catch (a ++ b) =
  match first_raise catch a with Some x => Some x | None => first_raise catch b end.
Proof.
  induction a as [|[[st h [e|]|c|x]|c] r IH]; cbn; try apply IH; try reflexivity.
  destruct catch; [apply IH | reflexivity].
Qed.

(* running the call phase is running its events as items *)
Lemma run_call_items catch evs : forall s, run_call catch s evs = run_items catch s (map IEv evs).
Proof.
  induction evs as [|e evs IH]; intros s; cbn; [reflexivity|].
  destruct (step_ev catch s e); [apply IH | reflexivity].
Qed.

(* no raising event: the closure ends with the last start_response and all chunks, in order *)
Lemma run_items_ok catch its : forall s,
  first_raise catch its = None ->
  run_items catch s its = inl (mkCst (last_start its (captured s)) (output s ++ chunk_list its)).
Proof.
  induction its as [|[[st h [e|]|c|x]|c] r IH]; intros [cap out] Hr; cbn in *.
  - rewrite app_nil_r. reflexivity.
  - destruct catch; [|discriminate]. rewrite IH by assumption. reflexivity.
  - rewrite IH by assumption. reflexivity.
  - rewrite IH by assumption. cbn. rewrite <- app_assoc. reflexivity.
  - discriminate.
  - rewrite IH by assumption. cbn. rewrite <- app_assoc. reflexivity.
Qed.

(* the first raising event is what propagates *)
Lemma run_items_raise catch its x : forall s,
  first_raise catch its = Some x -> run_items catch s its = inr x.
Proof.
  induction its as [|[[st h [e|]|c|y]|c] r IH]; intros [cap out] Hr; cbn in *; try discriminate.
  - destruct catch; [apply IH; assumption | congruence].
  - apply IH; assumption.
  - apply IH; assumption.
  - congruence.
  - apply IH; assumption.
Qed.

Lemma chunk_list_call_nil evs : is_nil (chunk_list (map IEv evs)) = negb (has_write evs).
Proof.
  induction evs as [|[st h exc|b|x] r IH]; cbn; auto.
Qed.

Lemma last_start_call_none evs : forall acc,
  is_none (last_start (map IEv evs) acc) = is_none acc && negb (has_start evs).
Proof.
  induction evs as [|[st h exc|b|x] r IH]; intros acc; cbn.
  - rewrite andb_true_r. reflexivity.
  - rewrite IH. cbn. rewrite andb_false_r. reflexivity.
  - apply IH.
  - apply IH.
Qed.

(* webob consumes the iterable itself iff the script wrote eagerly or did not start eagerly *)
Lemma consumes_spec catch evs s :
  run_call catch (mkCst None []) evs = inl s -> first_raise catch (map IEv evs) = None ->
  consumes s = has_write evs || negb (has_start evs).
Proof.
  intros Hrun Hr. rewrite run_call_items, run_items_ok in Hrun by assumption.
  injection Hrun as <-. unfold consumes. cbn.
  rewrite chunk_list_call_nil, negb_involutive, last_start_call_none. reflexivity.
Qed.

(* the caller draining the application's own iterable when it only yields or raises *)

Lemma drain_quiet catch its : forall s,
  forallb quiet its = true -> drain catch s its = yields_before_raise its.
Proof.
  induction its as [|[[st h exc|c|x]|c] r IH]; intros s Hq; cbn in *; try discriminate; try reflexivity.
  rewrite IH by assumption. reflexivity.
Qed.

Lemma quiet_no_raise catch its :
  forallb quiet its = true -> first_raise catch its = None ->
  yields_before_raise its = (chunk_list its, None).
Proof.
  induction its as [|[[st h exc|c|x]|c] r IH]; cbn; intros Hq Hr; try discriminate; try reflexivity.
  rewrite IH by assumption. reflexivity.
Qed.

Lemma quiet_last_start its acc : forallb quiet its = true -> last_start its acc = acc.
Proof.
  revert acc. induction its as [|[[st h exc|c|x]|c] r IH]; cbn; intros acc Hq; try discriminate; auto.
Qed.


(* ---------------------------------------------------------------- main theorem, success case *)
Theorem call_application_returns : forall catch a st h exc,
  events_lost a = false ->
  first_raise catch (all_events a) = None ->
  last_start (all_events a) None = Some (st, h, exc) ->
  exists chunks,
    call_application catch a =
      Returned st h chunks exc (webob_consumes a && a_close a) (negb (webob_consumes a)) None
    /\ concat chunks = spec_body (all_events a).
Proof.
  intros catch a st h exc Hlost Hr Hls.
  unfold all_events in *. rewrite first_raise_app in Hr.
  destruct (first_raise catch (map IEv (a_call a))) eqn:Hr1; [discriminate|].
  rewrite last_start_app in Hls. unfold call_application.
  destruct (run_call catch (mkCst None []) (a_call a)) as [s|x] eqn:Hrun.
  2:{ rewrite run_call_items, run_items_ok in Hrun by assumption. discriminate. }
  pose proof (consumes_spec _ _ _ Hrun Hr1) as Hc. fold (webob_consumes a) in Hc.
  rewrite run_call_items, run_items_ok in Hrun by assumption. injection Hrun as <-. cbn [captured output] in *.
  rewrite Hc. destruct (webob_consumes a) eqn:Hw; cbn [negb andb].
  - rewrite run_items_ok by assumption. cbn [captured output]. rewrite Hls.
    eexists; split; [reflexivity|].
    rewrite <- chunk_list_app, concat_chunk_list. reflexivity.
  - unfold events_lost in Hlost. rewrite Hw in Hlost. cbn in Hlost.
    apply negb_false_iff in Hlost.
    rewrite (quiet_last_start _ _ Hlost) in Hls. rewrite Hls.
    rewrite drain_quiet by assumption. rewrite (quiet_no_raise catch) by assumption.
    eexists; split; [reflexivity|].
    (* nothing was written eagerly, so the body is what the iterable yields *)
    unfold webob_consumes in Hw. apply orb_false_iff in Hw as [Hw _].
    rewrite spec_body_app, concat_chunk_list.
    assert (Hnil : spec_body (map IEv (a_call a)) = []).
    { rewrite <- concat_chunk_list. pose proof (chunk_list_call_nil (a_call a)) as E.
      rewrite Hw in E. cbn in E. destruct (chunk_list (map IEv (a_call a))); [reflexivity|discriminate]. }
    rewrite Hnil. reflexivity.
Qed.

(* start_response never called: nothing can be returned (IndexError in webob) *)
Theorem call_application_no_start : forall catch a,
  first_raise catch (all_events a) = None ->
  last_start (all_events a) None = None ->
  call_application catch a = Failed (A "IndexError") (a_close a).
Proof.
  intros catch a Hr Hls. unfold all_events in *. rewrite first_raise_app in Hr.
  destruct (first_raise catch (map IEv (a_call a))) eqn:Hr1; [discriminate|].
  rewrite last_start_app in Hls. unfold call_application.
  rewrite run_call_items, run_items_ok by assumption. cbn [captured output].
  assert (Hn : last_start (map IEv (a_call a)) None = None).
  { destruct (last_start (map IEv (a_call a)) None) as [p|] eqn:E; [|reflexivity].
    exfalso. clear -Hls. revert p Hls. generalize (a_items a).
    induction l as [|[[st h exc|c|x]|c] r IH]; cbn; intros p H; try discriminate; eauto. }
  unfold consumes. cbn [captured output]. rewrite Hn. cbn [is_none]. rewrite orb_true_r.
  rewrite run_items_ok by assumption. cbn [captured]. rewrite Hn in Hls. rewrite Hls. reflexivity.
Qed.

(* ---------------------------------------------------------------- exceptions *)
(* raised while the application is being called: propagates, no iterable to close *)
Theorem call_application_raise_in_call : forall catch a x,
  first_raise catch (map IEv (a_call a)) = Some x ->
  call_application catch a = Raised x false.
Proof.
  intros catch a x Hr. unfold call_application.
  rewrite run_call_items, (run_items_raise _ _ x) by assumption. reflexivity.
Qed.

(* raised while webob consumes the iterable: propagates, after close() *)
Theorem call_application_raise_in_iter : forall catch a x,
  first_raise catch (map IEv (a_call a)) = None ->
  webob_consumes a = true ->
  first_raise catch (a_items a) = Some x ->
  call_application catch a = Raised x (a_close a).
Proof.
  intros catch a x Hr1 Hw Hr2. unfold call_application.
  destruct (run_call catch (mkCst None []) (a_call a)) as [s|y] eqn:Hrun.
  2:{ rewrite run_call_items, run_items_ok in Hrun by assumption. discriminate. }
  rewrite (consumes_spec _ _ _ Hrun Hr1). fold (webob_consumes a). rewrite Hw.
  rewrite (run_items_raise _ _ x) by assumption. reflexivity.
Qed.

(* raised by the application's own iterable after it was handed back: the caller meets it *)
Theorem call_application_raise_in_own_iter : forall catch a st h exc,
  first_raise catch (map IEv (a_call a)) = None ->
  webob_consumes a = false ->
  forallb quiet (a_items a) = true ->
  last_start (map IEv (a_call a)) None = Some (st, h, exc) ->
  call_application catch a =
    Returned st h (fst (yields_before_raise (a_items a))) exc false true
             (snd (yields_before_raise (a_items a))).
Proof.
  intros catch a st h exc Hr1 Hw Hq Hls. unfold call_application.
  destruct (run_call catch (mkCst None []) (a_call a)) as [s|y] eqn:Hrun.
  2:{ rewrite run_call_items, run_items_ok in Hrun by assumption. discriminate. }
  rewrite (consumes_spec _ _ _ Hrun Hr1). fold (webob_consumes a). rewrite Hw.
  rewrite run_call_items, run_items_ok in Hrun by assumption. injection Hrun as <-. cbn [captured].
  rewrite Hls, drain_quiet by assumption.
  destruct (yields_before_raise (a_items a)); reflexivity.
Qed.

(* exc_info is captured, not raised, when catch_exc_info is set *)
Theorem catch_never_raises_exc_info : forall its,
  (forall x, ~ In (IEv (ERaise x)) its) -> first_raise true its = None.
Proof.
  induction its as [|[[st h [e|]|c|x]|c] r IH]; cbn; intros H; auto.
  - apply IH. intros x Hx. apply (H x). right. assumption.
  - apply IH. intros x Hx. apply (H x). right. assumption.
  - apply IH. intros x Hx. apply (H x). right. assumption.
  - exfalso. apply (H x). left. reflexivity.
  - apply IH. intros x Hx. apply (H x). right. assumption.
Qed.

(* ---------------------------------------------------------------- send / get_response *)
Theorem send_returns : forall catch a st h exc,
  events_lost a = false ->
  first_raise catch (all_events a) = None ->
  last_start (all_events a) None = Some (st, h, exc) ->
  send catch a = Sent st h (spec_body (all_events a)) (a_close a).
Proof.
  intros catch a st h exc Hl Hr Hls.
  destruct (call_application_returns _ _ _ _ _ Hl Hr Hls) as [chunks [Hc Hb]].
  unfold send. rewrite Hc, Hb. reflexivity.
Qed.

(* ---------------------------------------------------------------- the excluded region is a real loss *)
Definition lazy_writer : app :=
  mkApp [EStart (A "200 OK") [] None] [IEv (EWrite [97]); IYield [98]] false.

Theorem call_application_lazy_write_refuted :
  events_lost lazy_writer = true /\
  first_raise false (all_events lazy_writer) = None /\
  spec_body (all_events lazy_writer) = [97; 98] /\
  call_application false lazy_writer = Returned (A "200 OK") [] [[98]] None false true None /\
  send false lazy_writer = Sent (A "200 OK") [] [98] false.
Proof. repeat split; vm_compute; reflexivity. Qed.
