(* C17 — DirectoryApp: containment, non-interference, the index redirect, and the
   refutation witness for the order of tests in the unrepaired tree. *)
From Coq Require Import ZArith NArith List Bool Lia.
Require Import Webob.Lib.Val Webob.Lib.PyStr Webob.Model.C17_path Webob.Model.C17_static Webob.Spec.C17_spec
               Webob.Proofs.C17_path.
Import ListNotations.
Local Open Scope N_scope.

(* the path handed to the file system *)
Definition req_path (root : str) (rq : dreq) : str :=
  abspath [SEP] (pjoin root (lstrip_sep (path_info rq))).

Lemma req_path_normal : forall root rq, isabs root = true -> normal_abs (req_path root rq).
Proof.
  intros root rq H. unfold req_path. rewrite abspath_of_abs by (apply isabs_pjoin; exact H).
  apply normpath_abs. apply isabs_pjoin. exact H.
Qed.

Lemma idx_truthy_proper : forall idx, idx_ok idx -> idx_truthy idx = true -> proper (idx_str idx) = true.
Proof. intros [[|c l]|] Hok Ht; cbn in *; try discriminate. exact Hok. Qed.

Lemma normal_pjoin : forall path c, normal_abs path -> proper c = true -> normal_abs (pjoin path c).
Proof.
  intros path c [Ha Hp] Hc. split.
  - apply isabs_pjoin. exact Ha.
  - rewrite (comps_pjoin _ _ Hc). apply Forall_app. split; auto.
Qed.

(* ---- what DirectoryApp.index returns is decided by nodes inside the root only ---- *)
Lemma index_serves_inside : forall root idx fs rq path p,
  proper idx = true -> inside root path -> normal_abs path ->
  dirapp_index idx fs rq path = DServe p ->
  inside root p /\ normal_abs p /\ isfile fs p = true.
Proof.
  intros root idx fs rq path p Hidx Hin Hn H. unfold dirapp_index in H.
  destruct (isfile fs (pjoin path idx)) eqn:E1; cbn [negb] in H; [|discriminate].
  destruct (ends_with_sep (path_info rq)); cbn [negb] in H; [|discriminate].
  injection H as <-. repeat split.
  - apply inside_pjoin; auto.
  - apply isabs_pjoin. apply Hn.
  - apply (normal_pjoin _ _ Hn Hidx).
  - exact E1.
Qed.

(* 200 only for a regular file located inside the root *)
Theorem contained : forall root idx hide fs rq p,
  isabs root = true -> ends_with_sep root = true -> idx_ok idx ->
  dirapp_call root idx hide fs rq = DServe p ->
  inside root p /\ normal_abs p /\ isfile fs p = true.
Proof.
  intros root idx hide fs rq p Ha He Hok H. unfold dirapp_call in H.
  fold (req_path root rq) in H.
  pose proof (req_path_normal root rq Ha) as Hn.
  set (path := req_path root rq) in *.
  destruct (starts_with root (path ++ [SEP])) eqn:E0; cbn [negb] in H; [|discriminate].
  pose proof (check_inside _ _ He E0) as Hin.
  destruct (isdir fs path && idx_truthy idx) eqn:E1.
  - apply andb_true_iff in E1. destruct E1 as [_ E1].
    eapply index_serves_inside; eauto. apply idx_truthy_proper; auto.
  - destruct (idx_truthy idx && hide && ends_with (SEP :: idx_str idx) path); [discriminate|].
    destruct (starts_with root path); cbn [negb] in H; [|discriminate].
    destruct (isfile fs path) eqn:E3; cbn [negb] in H; [|discriminate].
    injection H as <-. auto.
Qed.

(* a path that leaves the root is refused without looking at the file system *)
Theorem escape_forbidden : forall root idx hide fs rq,
  starts_with root (req_path root rq ++ [SEP]) = false ->
  dirapp_call root idx hide fs rq = D403.
Proof. intros root idx hide fs rq H. unfold dirapp_call. fold (req_path root rq). rewrite H. reflexivity. Qed.

(* the decision is the same for file systems that agree inside the root *)
Theorem dirapp_noninterference : forall root idx hide fs fs' rq,
  ends_with_sep root = true -> idx_ok idx -> agree_inside root fs fs' ->
  dirapp_call root idx hide fs rq = dirapp_call root idx hide fs' rq.
Proof.
  intros root idx hide fs fs' rq He Hok Hag. unfold dirapp_call.
  fold (req_path root rq). set (path := req_path root rq).
  destruct (starts_with root (path ++ [SEP])) eqn:E0; cbn [negb]; [|reflexivity].
  pose proof (check_inside _ _ He E0) as Hin.
  assert (Hd : isdir fs path = isdir fs' path) by (unfold isdir; rewrite (Hag _ Hin); reflexivity).
  assert (Hf : isfile fs path = isfile fs' path) by (unfold isfile; rewrite (Hag _ Hin); reflexivity).
  rewrite <- Hd, <- Hf.
  destruct (isdir fs path && idx_truthy idx) eqn:E1; [|reflexivity].
  apply andb_true_iff in E1. destruct E1 as [_ E1].
  pose proof (idx_truthy_proper _ Hok E1) as Hp.
  unfold dirapp_index, isfile.
  rewrite (Hag (pjoin path (idx_str idx)) (inside_pjoin _ _ _ Hp Hin)). reflexivity.
Qed.

Theorem serve_noninterference : forall root idx hide fs fs' dq fq,
  isabs root = true -> ends_with_sep root = true -> idx_ok idx -> agree_inside root fs fs' ->
  serve root idx hide fs dq fq = serve root idx hide fs' dq fq.
Proof.
  intros root idx hide fs fs' dq fq Ha He Hok Hag. unfold serve.
  rewrite <- (dirapp_noninterference root idx hide fs fs' dq He Hok Hag).
  destruct (dirapp_call root idx hide fs dq) as [| | |p] eqn:E; try reflexivity.
  destruct (contained _ _ _ _ _ _ Ha He Hok E) as [Hin _].
  rewrite (Hag _ Hin). reflexivity.
Qed.

(* a directory inside the root is served through its index page, after a redirect that adds
   the trailing slash; without an index file the answer is 404 *)
Theorem index_redirect : forall root idx hide fs rq,
  starts_with root (req_path root rq ++ [SEP]) = true ->
  isdir fs (req_path root rq) = true -> idx_truthy idx = true ->
  dirapp_call root idx hide fs rq =
    let ip := pjoin (req_path root rq) (idx_str idx) in
    if isfile fs ip
    then if ends_with_sep (path_info rq) then DServe ip
         else D301 (with_query (path_url rq ++ [SEP]) (query_string rq))
    else D404 ip.
Proof.
  intros root idx hide fs rq H0 Hd Ht. unfold dirapp_call. fold (req_path root rq).
  rewrite H0, Hd, Ht. cbn [negb andb]. unfold dirapp_index.
  destruct (isfile fs (pjoin (req_path root rq) (idx_str idx))); cbn [negb]; [|reflexivity].
  destruct (ends_with_sep (path_info rq)); reflexivity.
Qed.

(* ------------------------------------------------------------------ the unrepaired order *)
(* root "/r/", GET "/../": the parent's index.html is served although it is outside the root *)
Definition w_root : str := [SEP; 114; SEP].
Definition w_idx : option str := Some [105; 110; 100; 101; 120].            (* "index" *)
Definition w_rq : dreq := mkDreq [SEP; 46; 46; SEP] [] [].
Definition w_secret : bytes := [115; 101; 99; 114; 101; 116].
Definition w_fs : fsys := fs_of [([SEP], Dir); ([SEP; 105; 110; 100; 101; 120], File true w_secret)].
Definition w_fs' : fsys := fs_of [].
Definition w_fq : freq := mkFreq GET None (KWrapper [w_secret]).

Lemma w_agree : agree_inside w_root w_fs w_fs'.
Proof.
  intros p [rest Hp]. unfold w_fs, w_fs', fs_of.
  destruct (str_eqb [SEP] p) eqn:E1.
  { apply str_eqb_eq in E1. subst p. vm_compute in Hp. discriminate. }
  destruct (str_eqb [SEP; 105; 110; 100; 101; 120] p) eqn:E2.
  { apply str_eqb_eq in E2. subst p. vm_compute in Hp. discriminate. }
  reflexivity.
Qed.

Theorem unrepaired_refuted :
  exists root idx hide fs fs' dq fq,
    isabs root = true /\ ends_with_sep root = true /\ idx_ok idx /\ agree_inside root fs fs' /\
    serve_unrepaired root idx hide fs dq fq <> serve_unrepaired root idx hide fs' dq fq /\
    body (serve_unrepaired root idx hide fs dq fq) = Some w_secret /\
    ~ inside root [SEP; 105; 110; 100; 101; 120].
Proof.
  exists w_root, w_idx, false, w_fs, w_fs', w_rq, w_fq.
  repeat split; try reflexivity.
  - exact w_agree.
  - vm_compute. discriminate.
  - intros [rest H]. vm_compute in H. discriminate.
Qed.

(* the same request on the repaired order *)
Example repaired_witness :
  serve w_root w_idx false w_fs w_rq w_fq = simple 403.
Proof. vm_compute. reflexivity. Qed.
