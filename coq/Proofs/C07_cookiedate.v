(* C07 — the rendered expires date (Model/C07_CookieDate.v) satisfies the date hypotheses of the C07 theorems. *)
From Coq Require Import String.
From Coq Require Import ZArith NArith List Bool Lia ZifyBool ZifyNat ZifyN.
Require Import Webob.Lib.Val Webob.Lib.PyStr Webob.Lib.C07_Utf8 Webob.Gen.C07_tables Webob.Model.C07_CookieCodec
               Webob.Spec.C07_CookieSpec Webob.Spec.C07_Requested
               Webob.Proofs.C07_tables Webob.Proofs.C07_input Webob.Proofs.C07_serialize Webob.Proofs.C07_reparse.
Require Import Webob.Gen.C07_dates Webob.Lib.C12_Civil Webob.Proofs.C12_civil Webob.Model.C07_CookieDate.
Require Webob.Proofs.C12_dates.
Import ListNotations.
Local Open Scope N_scope.

(* ---------------------------------------------------------------- finite ranges *)
Definition nrange (n : nat) : list N := map N.of_nat (seq 0 n).
Lemma in_nrange n x : x < N.of_nat n -> In x (nrange n).
Proof. intros Hx. unfold nrange. apply in_map_iff. exists (N.to_nat x). split; [lia|]. apply in_seq. lia. Qed.
Lemma nsweep (P : N -> bool) n : forallb P (nrange n) = true -> forall x, x < N.of_nat n -> P x = true.
Proof. intros Hs x Hx. rewrite forallb_forall in Hs. apply Hs, in_nrange, Hx. Qed.

(* ---------------------------------------------------------------- the scanner primitives on a known prefix *)
Lemma take_exact_app p a : forall r, forallb p a = true -> take_exact p (length a) (a ++ r) = Some (a, r).
Proof.
  induction a as [|c a IH]; intros r Hp; cbn [length app take_exact]; [reflexivity|].
  cbn [forallb] in Hp. apply andb_true_iff in Hp as [Hc Ha]. rewrite Hc, (IH r Ha). reflexivity.
Qed.

Lemma take_upto_app p a : forall n c r, forallb p a = true -> (length a <= n)%nat -> p c = false ->
  take_upto p n (a ++ c :: r) = (a, c :: r).
Proof.
  induction a as [|x a IH]; intros n c r Hp Hn Hc; cbn [app].
  - destruct n; cbn [take_upto]; [reflexivity|]. rewrite Hc. reflexivity.
  - cbn [forallb] in Hp. apply andb_true_iff in Hp as [Hx Ha]. cbn [length] in Hn.
    destruct n as [|n]; [lia|]. cbn [take_upto]. rewrite Hx, (IH n c r Ha ltac:(lia) Hc). reflexivity.
Qed.

Lemma date_run_app a r : forallb is_datec a = true -> (9 <= length a <= 11)%nat ->
  date_run (a ++ 32 :: r) = Some (a, 32 :: r).
Proof.
  intros Hp Hl. unfold date_run. rewrite (take_upto_app is_datec a 11 32 r Hp ltac:(lia) eq_refl).
  destruct (9 <=? length a)%nat eqn:E; [reflexivity|]. apply Nat.leb_gt in E. lia.
Qed.

(* the shape taken in full by the expires alternative *)
Lemma alt_expires_shape wn dr tm :
  length wn = 3%nat -> forallb is_word wn = true ->
  forallb is_datec dr = true -> (9 <= length dr <= 11)%nat ->
  length tm = 8%nat -> forallb is_timec tm = true ->
  let d := wn ++ 44 :: 32 :: dr ++ 32 :: tm ++ [32; 71; 77; 84] in
  alt_expires d = Some (d, []).
Proof.
  intros Hwl Hw Hd Hdl Htl Ht d. unfold alt_expires, seq2 at 1.
  unfold d at 1. rewrite <- Hwl at 1. rewrite (take_exact_app is_word wn _ Hw).
  unfold seq2 at 1. cbn [one N.eqb Pos.eqb]. unfold seq2 at 1. cbn [one is_ws]. 
  replace (is_ws 32) with true by reflexivity.
  unfold seq2 at 1. rewrite (date_run_app dr _ Hd Hdl).
  unfold seq2 at 1. cbn [one]. replace (is_ws 32) with true by reflexivity.
  unfold seq2 at 1. rewrite <- Htl at 1. rewrite (take_exact_app is_timec tm _ Ht).
  cbn. unfold d. repeat rewrite <- app_assoc. reflexivity.
Qed.

Lemma cookie_date_shape wn dr tm :
  length wn = 3%nat -> forallb is_word wn = true ->
  forallb is_datec dr = true -> (9 <= length dr <= 11)%nat ->
  length tm = 8%nat -> forallb is_timec tm = true ->
  cookie_date (wn ++ 44 :: 32 :: dr ++ 32 :: tm ++ [32; 71; 77; 84]) = true.
Proof.
  intros. unfold cookie_date. rewrite alt_expires_shape by assumption. apply str_eqb_refl.
Qed.

(* ---------------------------------------------------------------- the parts, by finite sweeps over the regenerated tables *)
Definition name_chk (s : str) : bool :=
  (length s =? 3)%nat && forallb is_word s && forallb is_datec s && plain s.
Definition wd_chk (w : N) : bool := match weekday_name w with Ok s => name_chk s | Raise _ => false end.
Definition mn_chk (m : N) : bool := (m =? 0) || match month_name m with Ok s => name_chk s | Raise _ => false end.
Definition dig_chk (c : N) : bool := is_digit c && is_datec c && is_timec c && plain_char c.
Definition pad_chk (n : N) : bool := forallb dig_chk (pad2 n).
Definition year_chk (y : N) : bool :=
  forallb dig_chk (pad4 y) && (length (pad4 y) =? 4)%nat.

Lemma weekdays_sweep : forallb wd_chk (nrange 7) = true.   Proof. vm_compute. reflexivity. Qed.
Lemma months_sweep : forallb mn_chk (nrange 13) = true.    Proof. vm_compute. reflexivity. Qed.
Lemma pad2_sweep : forallb pad_chk (nrange 100) = true.    Proof. vm_compute. reflexivity. Qed.
Definition n10000 : nat := N.to_nat 10000.
Lemma year_sweep : forallb year_chk (nrange n10000) = true. Proof. vm_compute. reflexivity. Qed.
Lemma year_facts y : y < 10000 -> year_chk y = true.
Proof. intros Hy. apply (nsweep year_chk n10000 year_sweep). unfold n10000. rewrite N2Nat.id. exact Hy. Qed.

Lemma name_chk_props s : name_chk s = true ->
  length s = 3%nat /\ forallb is_word s = true /\ forallb is_datec s = true /\ plain s = true.
Proof.
  unfold name_chk. intros Hc. repeat (apply andb_true_iff in Hc as [Hc ?]). apply Nat.eqb_eq in Hc. auto.
Qed.

Lemma forallb_imp {A} (p q : A -> bool) l : (forall x, p x = true -> q x = true) -> forallb p l = true -> forallb q l = true.
Proof. intros Hpq Hp. rewrite forallb_forall in *. auto. Qed.

Lemma dig_datec c : dig_chk c = true -> is_datec c = true.
Proof. unfold dig_chk. intros Hc. repeat (apply andb_true_iff in Hc as [Hc ?]). assumption. Qed.
Lemma dig_timec c : dig_chk c = true -> is_timec c = true.
Proof. unfold dig_chk. intros Hc. repeat (apply andb_true_iff in Hc as [Hc ?]). assumption. Qed.
Lemma dig_plain c : dig_chk c = true -> plain_char c = true.
Proof. unfold dig_chk. intros Hc. repeat (apply andb_true_iff in Hc as [Hc ?]). assumption. Qed.

Lemma pad2_dig n : n < 100 -> forallb dig_chk (pad2 n) = true.
Proof. intros Hn. exact (nsweep pad_chk 100 pad2_sweep n Hn). Qed.

(* ---------------------------------------------------------------- the rendered text *)
Lemma cd_text_plain wn d mn y hh mi ss :
  plain wn = true -> plain mn = true -> d < 100 -> y < 10000 -> hh < 100 -> mi < 100 -> ss < 100 ->
  plain (cd_text wn d mn (pad4 y) hh mi ss) = true.
Proof.
  intros Hw Hm Hd Hy Hh Hmi Hs. unfold plain, cd_text in *.
  pose proof (year_facts y Hy) as Hyc. unfold year_chk in Hyc.
  apply andb_true_iff in Hyc as [Hyc _].
  repeat (rewrite forallb_app || cbn [forallb]).
  rewrite Hw, Hm.
  rewrite (forallb_imp _ _ _ dig_plain (pad2_dig d Hd)), (forallb_imp _ _ _ dig_plain (pad2_dig hh Hh)),
          (forallb_imp _ _ _ dig_plain (pad2_dig mi Hmi)), (forallb_imp _ _ _ dig_plain (pad2_dig ss Hs)),
          (forallb_imp _ _ _ dig_plain Hyc).
  reflexivity.
Qed.

Lemma cd_text_cookie_date wn d mn y hh mi ss :
  name_chk wn = true -> name_chk mn = true -> d < 100 -> y < 10000 -> hh < 100 -> mi < 100 -> ss < 100 ->
  cookie_date (cd_text wn d mn (pad4 y) hh mi ss) = true.
Proof.
  intros Hw Hm Hd Hy Hh Hmi Hs. unfold cd_text.
  apply name_chk_props in Hw as [Hwl [Hww _]]. apply name_chk_props in Hm as [Hml [_ [Hmd _]]].
  pose proof (year_facts y Hy) as Hyc. unfold year_chk in Hyc.
  apply andb_true_iff in Hyc as [Hyc Hy2].
  assert (Hlen : length (pad4 y) = 4%nat) by (apply Nat.eqb_eq; exact Hy2).
  apply cookie_date_shape; try assumption.
  - repeat (rewrite forallb_app || cbn [forallb]).
    rewrite Hmd, (forallb_imp _ _ _ dig_datec (pad2_dig d Hd)), (forallb_imp _ _ _ dig_datec Hyc). reflexivity.
  - rewrite app_length. cbn [length pad2]. rewrite app_length. cbn [length]. lia.
  - reflexivity.
  - repeat (rewrite forallb_app || cbn [forallb]).
    rewrite (forallb_imp _ _ _ dig_timec (pad2_dig hh Hh)), (forallb_imp _ _ _ dig_timec (pad2_dig mi Hmi)),
            (forallb_imp _ _ _ dig_timec (pad2_dig ss Hs)). reflexivity.
Qed.

Lemma fields_ok_props w d m y hh mi ss : fields_ok w d m y hh mi ss = true ->
  w < 7 /\ 1 <= d <= 31 /\ 1 <= m <= 12 /\ y <= 9999 /\ hh < 24 /\ mi < 60 /\ ss <= 61.
Proof. unfold fields_ok. intros Hf. lia. Qed.

(* for every time tuple Python produces: a text is rendered, it is plain (printable ASCII, no semicolon, double quote or backslash),
   and the expires alternative of the scanner takes it in full *)
Lemma cd_fields_hyps w d m y hh mi ss : fields_ok w d m y hh mi ss = true ->
  exists s, cd_fields w d m y hh mi ss = Ok s /\ plain s = true /\ forallb printable s = true
            /\ cookie_date s = true.
Proof.
  intros Hf. apply fields_ok_props in Hf as [Hw [Hd [Hm [Hy [Hh [Hmi Hs]]]]]].
  unfold cd_fields, cd_fields_gen.
  replace ((12 <? m) || (31 <? d) || (23 <? hh) || (59 <? mi) || (61 <? ss)) with false by lia.
  pose proof (nsweep wd_chk 7 weekdays_sweep w Hw) as Hwc. unfold wd_chk in Hwc.
  pose proof (nsweep mn_chk 13 months_sweep m ltac:(lia)) as Hmc. unfold mn_chk in Hmc.
  replace (m =? 0) with false in Hmc by lia. cbn [orb] in Hmc.
  destruct (weekday_name w) as [wn|]; [|discriminate]. destruct (month_name m) as [mn|]; [|discriminate].
  replace (d =? 0) with false by lia.
  eexists. split; [reflexivity|].
  assert (Hp : plain (cd_text wn d mn (pad4 y) hh mi ss) = true).
  { apply cd_text_plain; try lia; [apply (name_chk_props _ Hwc)|apply (name_chk_props _ Hmc)]. }
  split; [exact Hp|]. split.
  - unfold plain in Hp. revert Hp. apply forallb_imp. intros c Hc. unfold plain_char in Hc.
    apply andb_true_iff in Hc as [Hc _]. exact Hc.
  - apply cd_text_cookie_date; try assumption; lia.
Qed.

(* the UNREPAIRED rendering (year through glibc's unpadded %Y): in the years 1..9 the date run has 8 characters and the
   expires alternative of webob's own scanner does not take the text; the repaired rendering of the same tuple is taken *)
Lemma cookie_date_unpadded_year_refuted :
  exists s, fields_ok 0 9 6 3 17 23 17 = true /\ cd_fields_unpadded 0 9 6 3 17 23 17 = Ok s /\ plain s = true /\ cookie_date s = false.
Proof. eexists. split; [reflexivity|]. split; [reflexivity|]. split; vm_compute; reflexivity. Qed.

(* ---------------------------------------------------------------- from an instant (datetime / int / timedelta paths) *)
Lemma year_bounds_full days y m d :
  civil_from_days days = (y, m, d) -> (-719162 <= days <= 2932896)%Z -> (1 <= y <= 9999)%Z.
Proof.
  intros E Hd.
  pose proof (days_from_civil_of_days days) as D. rewrite E in D.
  pose proof (civil_from_days_ranges days) as V. rewrite E in V. destruct V as [Vm Vd].
  rewrite Webob.Proofs.C12_dates.dfc_closed in D. cbv zeta in D. unfold mp_of_month in D.
  destruct (m <=? 2)%Z eqn:E1; destruct (m >? 2)%Z eqn:E2; try lia;
    revert D; Z.div_mod_to_equations; lia.
Qed.

Lemma cd_of_ts_fields_ok t : (ts_min <= t <= ts_max)%Z ->
  let days := (t / 86400)%Z in let sod := (t mod 86400)%Z in
  let '(y, m, d) := civil_from_days days in
  fields_ok (Z.to_N (weekday_of_days days)) (Z.to_N d) (Z.to_N m) (Z.to_N y)
            (Z.to_N (sod / 3600)) (Z.to_N ((sod / 60) mod 60)) (Z.to_N (sod mod 60)) = true.
Proof.
  unfold ts_min, ts_max. intros Ht. cbv zeta.
  destruct (civil_from_days (t / 86400)) as [[y m] d] eqn:E.
  assert (Hdays : (-719162 <= t / 86400 <= 2932896)%Z) by (Z.div_mod_to_equations; lia).
  pose proof (year_bounds_full _ _ _ _ E Hdays) as Hy.
  pose proof (civil_from_days_ranges (t / 86400)) as V. rewrite E in V. destruct V as [Vm Vd].
  pose proof (Webob.Proofs.C12_dates.time_of_day t) as T. cbv zeta in T. destruct T as [Th [Tm [Ts _]]].
  assert (Hw : (0 <= weekday_of_days (t / 86400) < 7)%Z) by (unfold weekday_of_days; apply Z.mod_pos_bound; lia).
  unfold fields_ok.
  repeat (apply andb_true_iff; split); lia.
Qed.

(* every instant datetime can hold: 0001-01-01T00:00:00 .. 9999-12-31T23:59:59 *)
Lemma cd_of_ts_hyps t : (ts_min <= t <= ts_max)%Z ->
  exists s, cd_of_ts t = Ok s /\ plain s = true /\ forallb printable s = true /\ cookie_date s = true.
Proof.
  intros Ht. pose proof (cd_of_ts_fields_ok t Ht) as Hf. cbv zeta in Hf. unfold cd_of_ts.
  replace ((ts_min <=? t)%Z && (t <=? ts_max)%Z) with true by lia.
  destruct (civil_from_days (t / 86400)) as [[y m] d].
  destruct (cd_fields_hyps _ _ _ _ _ _ _ Hf) as [s [Hs [Hp [Hpr Hc]]]].
  exists s. repeat split; auto.
Qed.

(* ---------------------------------------------------------------- the C07 theorems without the abstract date hypotheses *)
Lemma one_cookie_exact_attrs_dated validate r line w d m y hh mi ss :
  req_octets r -> fields_ok w d m y hh mi ss = true -> cd_fields w d m y hh mi ss = Ok (r_date r) ->
  make_cookie validate r = Ok line ->
  forallb printable line = true /\ ref_parse line = Some (r_name r, value_octets r, requested r).
Proof.
  intros Ho Hf Hd Hm. destruct (cd_fields_hyps _ _ _ _ _ _ _ Hf) as [s [Hs [Hp _]]].
  rewrite Hd in Hs. injection Hs as <-. exact (one_cookie_exact_attrs_any validate r line Ho Hp Hm).
Qed.

Lemma webob_reads_own_line_dated validate r line w d m y hh mi ss :
  req_octets r -> fields_ok w d m y hh mi ss = true -> cd_fields w d m y hh mi ss = Ok (r_date r) ->
  make_cookie validate r = Ok line ->
  parse_cookie_raw line = (r_name r, value_octets r) :: valued_attrs (requested r)
  /\ parse_cookie line = [(r_name r, value_octets r)]
  /\ exists mo, cookie_load line = [(r_name r, mo)] /\ pm_name mo = r_name r /\ pm_value mo = value_octets r.
Proof.
  intros Ho Hf Hd Hm. destruct (cd_fields_hyps _ _ _ _ _ _ _ Hf) as [s [Hs [Hp [_ Hc]]]].
  rewrite Hd in Hs. injection Hs as <-. exact (webob_reads_own_line_any validate r line Ho Hp Hc Hm).
Qed.

Lemma set_cookie_text_exact_dated validate r t b line w d m y hh mi ss :
  r_value r = CText t -> utf8_encode t = Some b ->
  opt_octets (r_path r) -> opt_octets (r_domain r) -> opt_octets (r_comment r) ->
  fields_ok w d m y hh mi ss = true -> cd_fields w d m y hh mi ss = Ok (r_date r) ->
  set_cookie validate r = Ok line ->
  forallb printable line = true /\ ref_parse line = Some (r_name r, b, requested (with_value r (CBytes b))).
Proof.
  intros Hv Hb H1 H2 H3 Hf Hd Hm. destruct (cd_fields_hyps _ _ _ _ _ _ _ Hf) as [s [Hs [Hp _]]].
  rewrite Hd in Hs. injection Hs as <-. exact (set_cookie_text_exact_any validate r t b line Hv Hb H1 H2 H3 Hp Hm).
Qed.

(* the same from an instant: utcnow() + max_age as whole seconds, any instant datetime can hold *)
Lemma make_cookie_at_instant validate r line t :
  req_octets r -> (ts_min <= t <= ts_max)%Z -> cd_of_ts t = Ok (r_date r) ->
  make_cookie validate r = Ok line ->
  (forallb printable line = true /\ ref_parse line = Some (r_name r, value_octets r, requested r))
  /\ parse_cookie line = [(r_name r, value_octets r)].
Proof.
  intros Ho Ht Hd Hm. destruct (cd_of_ts_hyps t Ht) as [s [Hs [Hp [_ Hc]]]].
  rewrite Hd in Hs. injection Hs as <-. split.
  - exact (one_cookie_exact_attrs_any validate r line Ho Hp Hm).
  - exact (proj1 (proj2 (webob_reads_own_line_any validate r line Ho Hp Hc Hm))).
Qed.

(* the regenerated tables are the RFC 6265 / RFC 1123 names, Monday first (time tuple weekday 0 = Monday),
   months[0] = None so that the month number indexes directly *)
Lemma weekdays_rfc : weekdays = [H "4d6f6e"%string; H "547565"%string; H "576564"%string; H "546875"%string;
                                 H "467269"%string; H "536174"%string; H "53756e"%string].
Proof. reflexivity. Qed.
Lemma months_rfc : months = [None; Some (H "4a616e"%string); Some (H "466562"%string); Some (H "4d6172"%string);
  Some (H "417072"%string); Some (H "4d6179"%string); Some (H "4a756e"%string); Some (H "4a756c"%string);
  Some (H "417567"%string); Some (H "536570"%string); Some (H "4f6374"%string); Some (H "4e6f76"%string); Some (H "446563"%string)].
Proof. reflexivity. Qed.
