(* C19 — statements that span the four families *)
From Coq Require Import ZArith NArith List Bool.
Require Import Webob.Lib.Val Webob.Lib.PyStr Webob.Lib.Rx Webob.Gen.C03_regexes Webob.Spec.C03_abnf
               Webob.Proofs.C03_lang Webob.Model.C03_scan Webob.Model.C19_acceptstr Webob.Proofs.C19_valid
               Webob.Proofs.C19_simple Webob.Proofs.C19_accept.
Import ListNotations.
Local Open Scope N_scope.

Theorem join_valid_all a b : a <> [] -> b <> [] ->
  (rmatch gen_accept a = true -> rmatch gen_accept b = true -> rmatch gen_accept (a ++ comma_sp ++ b) = true) /\
  (rmatch gen_accept_charset a = true -> rmatch gen_accept_charset b = true -> rmatch gen_accept_charset (a ++ comma_sp ++ b) = true) /\
  (rmatch gen_accept_encoding a = true -> rmatch gen_accept_encoding b = true -> rmatch gen_accept_encoding (a ++ comma_sp ++ b) = true) /\
  (rmatch gen_accept_language a = true -> rmatch gen_accept_language b = true -> rmatch gen_accept_language (a ++ comma_sp ++ b) = true).
Proof.
  intros Ha Hb. split; [|split; [|split]]; intros Va Vb.
  - apply join_valid_accept; assumption.
  - apply join_valid_charset; assumption.
  - apply join_valid_encoding; assumption.
  - apply join_valid_language; assumption.
Qed.

Theorem str_in_abnf w :
  (forall p, parse_accept w = Some p -> matches abnf_accept (str_accept p)) /\
  (forall p, parse_accept_charset w = Some p -> matches abnf_accept_charset (str_simple p)) /\
  (forall p, parse_accept_encoding w = Some p -> matches abnf_accept_encoding (str_simple p)) /\
  (forall p, parse_accept_language w = Some p -> matches abnf_accept_language (str_simple p)).
Proof.
  split; [|split; [|split]]; intros p H.
  - apply (valid_abnf _ _ _ accept_eq nolf_accept), (accept_roundtrip w p H).
  - apply (valid_abnf _ _ _ accept_charset_eq nolf_charset), (charset_roundtrip w p H).
  - apply (valid_abnf _ _ _ accept_encoding_eq nolf_encoding), (encoding_roundtrip w p H).
  - apply (valid_abnf _ _ _ accept_language_eq nolf_language), (language_roundtrip w p H).
Qed.
