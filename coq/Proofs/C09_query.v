(* C09 — proofs about the query codec: unquote = reference scanner, parse_qsl_text = reference
   decoder, and parse (urlencode items) = items. *)
From Coq Require Import NArith ZArith List Bool Lia ZifyBool ZifyNat ZifyN.
Require Import Webob.Lib.Val Webob.Lib.PyStr Webob.Lib.C09_Utf8 Webob.Model.MultiDict
               Webob.Model.C09_QueryCodec Webob.Spec.C09_FormSpec Webob.Proofs.C09_utf8.
Import ListNotations.
Local Open Scope N_scope.

(* ------------------------------------------------------------------ split_c / join *)
Definition free (sep : N) (s : str) : bool := forallb (fun c => negb (c =? sep)) s.

Lemma split_c_ne sep s : split_c sep s <> [].
Proof.
  destruct s as [|c s]; cbn [split_c]; [discriminate|].
  destruct (c =? sep); [discriminate|]. destruct (split_c sep s); discriminate.
Qed.

Lemma split_c_free_app sep a b : free sep a = true ->
  split_c sep (a ++ sep :: b) = a :: split_c sep b.
Proof.
  induction a as [|c a IH]; intros Hf.
  - cbn [app split_c]. rewrite N.eqb_refl. reflexivity.
  - cbn [free forallb] in Hf. apply andb_true_iff in Hf as [Hc Ha].
    cbn [app split_c]. destruct (c =? sep) eqn:E; [discriminate|].
    fold (free sep a) in Ha. rewrite (IH Ha). reflexivity.
Qed.

Lemma split_c_free sep a : free sep a = true -> split_c sep a = [a].
Proof.
  induction a as [|c a IH]; intros Hf; [reflexivity|].
  cbn [free forallb] in Hf. apply andb_true_iff in Hf as [Hc Ha].
  cbn [split_c]. destruct (c =? sep) eqn:E; [discriminate|].
  fold (free sep a) in Ha. rewrite (IH Ha). reflexivity.
Qed.

Lemma join_tail sep r0 rest : join [sep] (r0 :: rest) = r0 ++ concat (map (cons sep) rest).
Proof.
  revert r0. induction rest as [|r1 rest IH]; intros r0.
  - cbn. rewrite app_nil_r. reflexivity.
  - change (join [sep] (r0 :: r1 :: rest)) with (r0 ++ [sep] ++ join [sep] (r1 :: rest)).
    rewrite IH. reflexivity.
Qed.

Lemma split_c_join sep l : l <> [] -> forallb (free sep) l = true ->
  split_c sep (join [sep] l) = l.
Proof.
  induction l as [|r0 l IH]; intros Hne Hf; [congruence|].
  cbn [forallb] in Hf. apply andb_true_iff in Hf as [H0 Hl].
  destruct l as [|r1 l].
  - cbn [join]. apply split_c_free; exact H0.
  - change (join [sep] (r0 :: r1 :: l)) with (r0 ++ sep :: join [sep] (r1 :: l)).
    rewrite split_c_free_app by exact H0. rewrite IH; [reflexivity|discriminate|exact Hl].
Qed.

Lemma split_c_spec sep s :
  join [sep] (split_c sep s) = s /\ forallb (free sep) (split_c sep s) = true.
Proof.
  induction s as [|c s [IHj IHf]]; [split; reflexivity|].
  cbn [split_c]. destruct (c =? sep) eqn:E.
  - apply N.eqb_eq in E. subst c. destruct (split_c sep s) as [|f fs] eqn:Es.
    + exfalso. exact (split_c_ne sep s Es).
    + split; [|exact IHf].
      change (join [sep] ([] :: f :: fs)) with ([] ++ [sep] ++ join [sep] (f :: fs)). rewrite IHj. reflexivity.
  - destruct (split_c sep s) as [|f fs] eqn:Es; [exfalso; exact (split_c_ne sep s Es)|].
    split.
    + rewrite <- IHj. destruct fs; reflexivity.
    + cbn [forallb free] in *. rewrite E. exact IHf.
Qed.

(* ------------------------------------------------------------------ unquote = the reference scanner *)
Lemma hexval_spec c : hexval c = if is_hex c then Some (hex_value c) else None.
Proof.
  unfold hexval, is_hex, hex_value.
  destruct ((48 <=? c) && (c <=? 57)) eqn:E1.
  { replace (c <=? 57) with true by lia. reflexivity. }
  destruct ((65 <=? c) && (c <=? 70)) eqn:E2.
  { replace (c <=? 57) with false by lia. replace (c <=? 70) with true by lia. rewrite orb_true_r. reflexivity. }
  destruct ((97 <=? c) && (c <=? 102)) eqn:E3; cbn [orb]; [|reflexivity].
  replace (c <=? 57) with false by lia. replace (c <=? 70) with false by lia. reflexivity.
Qed.

Lemma is_hex_37 : is_hex 37 = false.
Proof. reflexivity. Qed.

(* the scanner copies a '%'-free stretch *)
Lemma scan_free p t : free 37 p = true -> spec_unquote (p ++ t) = p ++ spec_unquote t.
Proof.
  induction p as [|c p IH]; intros Hf; [reflexivity|].
  cbn [free forallb] in Hf. apply andb_true_iff in Hf as [Hc Hp]. fold (free 37 p) in Hp.
  cbn [app spec_unquote]. destruct (c =? 37) eqn:E; [discriminate|].
  rewrite (IH Hp). reflexivity.
Qed.

(* ... and treats "%item" exactly like unq_item, when item is '%'-free and is followed by
   the end of the string or by another '%' *)
Lemma scan_item item t : free 37 item = true -> (t = [] \/ exists t', t = 37 :: t') ->
  spec_unquote (37 :: item ++ t) = unq_item item ++ spec_unquote t.
Proof.
  intros Hf Ht.
  destruct item as [|a [|b tl]].
  - (* "%" then end or "%" *)
    cbn [app unq_item]. cbn [spec_unquote]. cbn [N.eqb Pos.eqb].
    destruct Ht as [-> | [t' ->]]; [reflexivity|].
    destruct t' as [|b rest]; [reflexivity|].
    rewrite is_hex_37. reflexivity.
  - (* "%a" then end or "%" *)
    cbn [free forallb] in Hf. rewrite andb_true_r in Hf.
    cbn [app unq_item].
    destruct Ht as [-> | [t' ->]].
    + cbn [spec_unquote]. cbn [N.eqb Pos.eqb]. destruct (a =? 37); [discriminate|]. reflexivity.
    + change (spec_unquote (37 :: a :: 37 :: t')) with
        (if is_hex a && is_hex 37 then (16 * hex_value a + hex_value 37) :: spec_unquote t'
         else 37 :: spec_unquote (a :: 37 :: t')).
      rewrite is_hex_37, andb_false_r.
      change (spec_unquote (a :: 37 :: t')) with
        (if a =? 37 then match 37 :: t' with
                         | x :: y :: rest => if is_hex x && is_hex y
                                             then (16 * hex_value x + hex_value y) :: spec_unquote rest
                                             else 37 :: spec_unquote (37 :: t')
                         | _ => 37 :: spec_unquote (37 :: t') end
         else a :: spec_unquote (37 :: t')).
      destruct (a =? 37); [discriminate|]. reflexivity.
  - cbn [free forallb] in Hf. apply andb_true_iff in Hf as [Ha Hf]. apply andb_true_iff in Hf as [Hb Hf].
    fold (free 37 tl) in Hf.
    cbn [app unq_item].
    change (spec_unquote (37 :: a :: b :: tl ++ t)) with
      (if is_hex a && is_hex b then (16 * hex_value a + hex_value b) :: spec_unquote (tl ++ t)
       else 37 :: spec_unquote (a :: b :: tl ++ t)).
    rewrite !hexval_spec.
    destruct (is_hex a) eqn:Ea; destruct (is_hex b) eqn:Eb; cbn [andb].
    + rewrite (scan_free tl t Hf). reflexivity.
    + change (a :: b :: tl ++ t) with ((a :: b :: tl) ++ t). rewrite scan_free; [reflexivity|].
      cbn [free forallb]. rewrite Ha, Hb. exact Hf.
    + change (a :: b :: tl ++ t) with ((a :: b :: tl) ++ t). rewrite scan_free; [reflexivity|].
      cbn [free forallb]. rewrite Ha, Hb. exact Hf.
    + change (a :: b :: tl ++ t) with ((a :: b :: tl) ++ t). rewrite scan_free; [reflexivity|].
      cbn [free forallb]. rewrite Ha, Hb. exact Hf.
Qed.

Lemma scan_items rest : forallb (free 37) rest = true ->
  spec_unquote (concat (map (cons 37) rest)) = concat (map unq_item rest).
Proof.
  induction rest as [|it rest IH]; intros Hf; [reflexivity|].
  cbn [forallb] in Hf. apply andb_true_iff in Hf as [Hi Hr].
  cbn [map concat]. change ((37 :: it) ++ concat (map (cons 37) rest)) with (37 :: it ++ concat (map (cons 37) rest)).
  rewrite scan_item; [rewrite (IH Hr); reflexivity|exact Hi|].
  destruct rest as [|it2 rest]; [left; reflexivity|right]. cbn [map concat]. eexists. reflexivity.
Qed.

Lemma fold_unq rest : forall r0,
  fold_left (fun acc item => acc ++ unq_item item) rest r0 = r0 ++ concat (map unq_item rest).
Proof.
  induction rest as [|it rest IH]; intros r0; cbn [fold_left map concat].
  - rewrite app_nil_r. reflexivity.
  - rewrite IH, app_assoc. reflexivity.
Qed.

Theorem unquote_spec s : unquote s = spec_unquote s.
Proof.
  destruct s as [|c s]; [reflexivity|].
  remember (c :: s) as s0 eqn:Hs0.
  assert (Hu : unquote s0 = match split_c 37 s0 with
                            | r0 :: ((_ :: _) as rest) => fold_left (fun acc item => acc ++ unq_item item) rest r0
                            | _ => s0 end) by (subst s0; reflexivity).
  rewrite Hu. clear Hu Hs0 c s.
  destruct (split_c_spec 37 s0) as [Hj Hf].
  destruct (split_c 37 s0) as [|r0 rest] eqn:Es; [exfalso; exact (split_c_ne _ _ Es)|].
  cbn [forallb] in Hf. apply andb_true_iff in Hf as [H0 Hr].
  rewrite <- Hj. rewrite join_tail, scan_free by exact H0. rewrite scan_items by exact Hr.
  destruct rest as [|r1 rest].
  - cbn [map concat]. reflexivity.
  - apply fold_unq.
Qed.

(* ------------------------------------------------------------------ parse_qsl_text = the reference decoder *)
Lemma split_by_ne sep s : split_by sep s <> [].
Proof.
  destruct s as [|c s]; cbn [split_by]; [discriminate|].
  destruct (split_by sep s); [discriminate|]. destruct (sep c); discriminate.
Qed.

Lemma split_c_cons sep c s : split_c sep (c :: s) =
  if c =? sep then [] :: split_c sep s
  else match split_c sep s with f :: fs => (c :: f) :: fs | [] => [[c]] end.
Proof. reflexivity. Qed.

(* two nested one-character splits = one split at either separator *)
Lemma nested_split s :
  flat_map (split_c 59) (split_c 38 s) = split_by is_pair_sep s.
Proof.
  induction s as [|c s IH]; [reflexivity|].
  cbn [split_by]. rewrite <- IH. clear IH. rewrite split_c_cons.
  destruct (split_c 38 s) as [|f fs] eqn:Es; [exfalso; exact (split_c_ne _ _ Es)|].
  unfold is_pair_sep.
  destruct (c =? 38) eqn:E38.
  - cbn [flat_map orb]. cbn [split_c app].
    destruct (split_c 59 f ++ flat_map (split_c 59) fs) eqn:Ex; [|reflexivity].
    exfalso. destruct (split_c 59 f) eqn:Ef; [exact (split_c_ne _ _ Ef)|discriminate].
  - cbn [flat_map orb]. rewrite split_c_cons.
    destruct (split_c 59 f) as [|g gs] eqn:Ef; [exfalso; exact (split_c_ne _ _ Ef)|].
    destruct (c =? 59); reflexivity.
Qed.

Lemma plus_to_space_map s : plus_to_space s = map plus_space s.
Proof.
  unfold plus_to_space. induction s as [|c s IH]; [reflexivity|].
  cbn [replace_c map]. unfold plus_space at 1. destruct (c =? 43); rewrite IH; reflexivity.
Qed.

Lemma split_by_map sep f s : (forall c, sep (f c) = sep c) ->
  split_by sep (map f s) = map (map f) (split_by sep s).
Proof.
  intros Hsep. induction s as [|c s IH]; [reflexivity|].
  cbn [map split_by]. rewrite IH, Hsep.
  destruct (split_by sep s) as [|g gs]; [reflexivity|].
  cbn [map]. destruct (sep c); reflexivity.
Qed.

Lemma sep_plus_space c : is_pair_sep (plus_space c) = is_pair_sep c.
Proof. unfold is_pair_sep, plus_space. destruct (c =? 43) eqn:E; [|reflexivity]. lia. Qed.

Definition nonempty_s (f : str) : bool := negb (match f with [] => true | _ => false end).

Lemma nonempty_eq f : nonempty f = nonempty_s f.
Proof. destruct f; reflexivity. Qed.

Lemma filter_nonempty_map (f : N -> N) l :
  filter nonempty (map (map f) l) = map (map f) (filter nonempty_s l).
Proof.
  induction l as [|x l IH]; [reflexivity|].
  cbn [map filter]. rewrite IH. destruct x; reflexivity.
Qed.

Lemma qs_pairs_spec qs :
  qs_pairs (plus_to_space qs) = map (map plus_space) (filter nonempty_s (split_by is_pair_sep qs)).
Proof.
  unfold qs_pairs. rewrite nested_split, plus_to_space_map, split_by_map by exact sep_plus_space.
  apply filter_nonempty_map.
Qed.

Lemma partition_cut s :
  partition_c 61 (map plus_space s) =
  (map plus_space (fst (cut_eq s)), existsb (fun c => c =? 61) s, map plus_space (snd (cut_eq s))).
Proof.
  induction s as [|c s IH]; [reflexivity|].
  cbn [map partition_c cut_eq existsb].
  assert (Hc : (plus_space c =? 61) = (c =? 61)) by (unfold plus_space; destruct (c =? 43) eqn:E; lia).
  rewrite Hc. destruct (c =? 61); [reflexivity|].
  rewrite IH. destruct (cut_eq s) as [a b]. reflexivity.
Qed.

Lemma parse_pair_spec f : parse_pair utf8_decode (map plus_space f) = spec_field f.
Proof.
  unfold parse_pair, spec_field, spec_component. rewrite partition_cut.
  destruct (cut_eq f) as [n v]. cbn [fst snd]. rewrite !unquote_spec.
  destruct (utf8_decode (spec_unquote (map plus_space n))); [|reflexivity].
  destruct (utf8_decode (spec_unquote (map plus_space v))); reflexivity.
Qed.

Lemma parse_pairs_spec l :
  parse_pairs utf8_decode (map (map plus_space) l) = all_some (map spec_field l).
Proof.
  induction l as [|f l IH]; [reflexivity|].
  cbn [map parse_pairs all_some]. rewrite parse_pair_spec, IH.
  destruct (spec_field f); reflexivity.
Qed.

Theorem decode_spec qs : forallb is_octet qs = true ->
  parse_utf8 qs = match spec_decode qs with Some l => Ok l | None => UnicodeDecodeError end.
Proof.
  intros Ho. unfold parse_utf8, parse_qsl_text, spec_decode. rewrite Ho, qs_pairs_spec, parse_pairs_spec.
  reflexivity.
Qed.

(* the only way a WSGI query string (latin-1 native string) can fail is a Unicode *decoding* error *)
Theorem only_unicode_error qs : forallb is_octet qs = true ->
  (exists l, parse_utf8 qs = Ok l) \/ parse_utf8 qs = UnicodeDecodeError.
Proof.
  intros Ho. rewrite (decode_spec qs Ho). destruct (spec_decode qs) as [l|]; [left; eexists; reflexivity|right; reflexivity].
Qed.

(* ------------------------------------------------------------------ write-back: parse (urlencode items) = items *)
Definition valid_items (l : items) : bool :=
  forallb (fun kv => valid_text (fst kv) && valid_text (snd kv)) l.

(* characters urlencode may put inside one quoted component *)
Definition clean (c : N) : bool := is_octet c && negb (is_pair_sep c) && negb (c =? 61).

Lemma hex_upper_ok x : x < 16 ->
  is_hex (hex_upper x) = true /\ hex_value (hex_upper x) = x /\
  plus_space (hex_upper x) = hex_upper x /\ clean (hex_upper x) = true.
Proof.
  intros Hx. unfold is_hex, hex_value, plus_space, clean, is_octet, is_pair_sep, hex_upper.
  destruct (x <? 10) eqn:E.
  - replace (48 + x <=? 57) with true by lia. replace (48 + x =? 43) with false by lia.
    repeat split; lia.
  - replace (55 + x <=? 57) with false by lia. replace (55 + x <=? 70) with true by lia.
    replace (55 + x =? 43) with false by lia.
    repeat split; lia.
Qed.

Lemma quote_byte_unquote c t : is_octet c = true ->
  spec_unquote (map plus_space (quote_plus_byte c) ++ t) = c :: spec_unquote t.
Proof.
  intros Ho. unfold is_octet in Ho. unfold quote_plus_byte.
  destruct (always_safe c) eqn:Es.
  - unfold always_safe in Es. cbn [map app]. unfold plus_space.
    replace (c =? 43) with false by lia. cbn [spec_unquote]. replace (c =? 37) with false by lia. reflexivity.
  - destruct (c =? 32) eqn:E32.
    + apply N.eqb_eq in E32. subst c. reflexivity.
    + pose proof (N.div_mod' c 16) as D1. pose proof (N.mod_lt c 16 ltac:(lia)) as D2.
      set (q := c / 16) in *. set (r := c mod 16) in *. clearbody q r.
      destruct (hex_upper_ok q ltac:(lia)) as (Hq1 & Hq2 & Hq3 & _).
      destruct (hex_upper_ok r ltac:(lia)) as (Hr1 & Hr2 & Hr3 & _).
      cbn [map app]. rewrite Hq3, Hr3.
      change (plus_space 37) with 37.
      change (spec_unquote (37 :: hex_upper q :: hex_upper r :: t)) with
        (if is_hex (hex_upper q) && is_hex (hex_upper r)
         then (16 * hex_value (hex_upper q) + hex_value (hex_upper r)) :: spec_unquote t
         else 37 :: spec_unquote (hex_upper q :: hex_upper r :: t)).
      rewrite Hq1, Hq2, Hr1, Hr2. cbn [andb]. f_equal. lia.
Qed.

Lemma quote_unquote b : forallb is_octet b = true ->
  spec_unquote (map plus_space (quote_plus b)) = b.
Proof.
  induction b as [|c b IH]; intros Ho; [reflexivity|].
  cbn [forallb] in Ho. apply andb_true_iff in Ho as [Hc Hb].
  cbn [quote_plus flat_map]. rewrite map_app, quote_byte_unquote by exact Hc.
  fold (quote_plus b). rewrite (IH Hb). reflexivity.
Qed.

Lemma quote_byte_clean c : is_octet c = true -> forallb clean (quote_plus_byte c) = true.
Proof.
  intros Ho. unfold is_octet in Ho. unfold quote_plus_byte.
  destruct (always_safe c) eqn:Es.
  - unfold always_safe in Es. cbn [forallb]. unfold clean, is_octet, is_pair_sep. lia.
  - destruct (c =? 32) eqn:E32; [reflexivity|].
    pose proof (N.div_mod' c 16) as D1. pose proof (N.mod_lt c 16 ltac:(lia)) as D2.
    set (q := c / 16) in *. set (r := c mod 16) in *. clearbody q r.
    destruct (hex_upper_ok q ltac:(lia)) as (_ & _ & _ & Hq).
    destruct (hex_upper_ok r ltac:(lia)) as (_ & _ & _ & Hr).
    cbn [forallb]. rewrite Hq, Hr. reflexivity.
Qed.

Lemma quote_clean b : forallb is_octet b = true -> forallb clean (quote_plus b) = true.
Proof.
  induction b as [|c b IH]; intros Ho; [reflexivity|].
  cbn [forallb] in Ho. apply andb_true_iff in Ho as [Hc Hb].
  cbn [quote_plus flat_map]. rewrite forallb_app, quote_byte_clean by exact Hc. exact (IH Hb).
Qed.

Definition sfree (sep : N -> bool) (s : str) : bool := forallb (fun c => negb (sep c)) s.

Lemma split_by_free sep a : sfree sep a = true -> split_by sep a = [a].
Proof.
  induction a as [|c a IH]; intros Hf; [reflexivity|].
  cbn [sfree forallb] in Hf. apply andb_true_iff in Hf as [Hc Ha]. fold (sfree sep a) in Ha.
  cbn [split_by]. rewrite (IH Ha). destruct (sep c); [discriminate|reflexivity].
Qed.

Lemma split_by_free_app sep s0 a b : sep s0 = true -> sfree sep a = true ->
  split_by sep (a ++ s0 :: b) = a :: split_by sep b.
Proof.
  intros Hs0. induction a as [|c a IH]; intros Hf.
  - cbn [app split_by]. rewrite Hs0. destruct (split_by sep b) eqn:Eb; [exfalso; exact (split_by_ne _ _ Eb)|reflexivity].
  - cbn [sfree forallb] in Hf. apply andb_true_iff in Hf as [Hc Ha]. fold (sfree sep a) in Ha.
    cbn [app split_by]. rewrite (IH Ha). destruct (sep c); [discriminate|reflexivity].
Qed.

Lemma split_by_join sep s0 l : sep s0 = true -> l <> [] -> forallb (sfree sep) l = true ->
  split_by sep (join [s0] l) = l.
Proof.
  intros Hs0. induction l as [|r0 l IH]; intros Hne Hf; [congruence|].
  cbn [forallb] in Hf. apply andb_true_iff in Hf as [H0 Hl].
  destruct l as [|r1 l].
  - cbn [join]. apply split_by_free; exact H0.
  - change (join [s0] (r0 :: r1 :: l)) with (r0 ++ s0 :: join [s0] (r1 :: l)).
    rewrite split_by_free_app by assumption. rewrite IH; [reflexivity|discriminate|exact Hl].
Qed.

Lemma cut_eq_app a b : free 61 a = true -> cut_eq (a ++ 61 :: b) = (a, b).
Proof.
  induction a as [|c a IH]; intros Hf; [reflexivity|].
  cbn [free forallb] in Hf. apply andb_true_iff in Hf as [Hc Ha]. fold (free 61 a) in Ha.
  cbn [app cut_eq]. destruct (c =? 61); [discriminate|]. rewrite (IH Ha). reflexivity.
Qed.

Lemma clean_sfree s : forallb clean s = true -> sfree is_pair_sep s = true.
Proof.
  unfold sfree. induction s as [|c s IH]; [reflexivity|]. cbn [forallb]. intros H.
  apply andb_true_iff in H as [Hc Hs]. rewrite (IH Hs). unfold clean in Hc.
  destruct (is_pair_sep c); [|reflexivity]. rewrite andb_false_r in Hc. discriminate.
Qed.

Lemma clean_free61 s : forallb clean s = true -> free 61 s = true.
Proof.
  unfold free. induction s as [|c s IH]; [reflexivity|]. cbn [forallb]. intros H.
  apply andb_true_iff in H as [Hc Hs]. rewrite (IH Hs). unfold clean in Hc.
  destruct (c =? 61); [|reflexivity]. rewrite andb_false_r in Hc. discriminate.
Qed.

Definition piece (kv : str * str) : str :=
  quote_plus (utf8_encode (fst kv)) ++ [61] ++ quote_plus (utf8_encode (snd kv)).

Lemma on_change_pieces l : on_change l = join [38] (map piece l).
Proof. unfold on_change, urlencode_b. rewrite map_map. reflexivity. Qed.

Lemma spec_component_quote s : valid_text s = true ->
  spec_component (quote_plus (utf8_encode s)) = Some s.
Proof.
  intros Hv. unfold spec_component. rewrite quote_unquote by (apply utf8_encode_octets; exact Hv).
  apply utf8_roundtrip; exact Hv.
Qed.

Lemma spec_field_piece k v : valid_text k = true -> valid_text v = true ->
  spec_field (piece (k, v)) = Some (k, v).
Proof.
  intros Hk Hv. unfold spec_field, piece. cbn [fst snd].
  change (quote_plus (utf8_encode k) ++ [61] ++ quote_plus (utf8_encode v))
    with (quote_plus (utf8_encode k) ++ 61 :: quote_plus (utf8_encode v)).
  rewrite cut_eq_app by (apply clean_free61, quote_clean, utf8_encode_octets; exact Hk).
  rewrite !spec_component_quote by assumption. reflexivity.
Qed.

Lemma piece_sfree kv : valid_text (fst kv) && valid_text (snd kv) = true ->
  sfree is_pair_sep (piece kv) = true /\ nonempty_s (piece kv) = true.
Proof.
  intros H. apply andb_true_iff in H as [Hk Hv]. split.
  - unfold piece, sfree. rewrite !forallb_app.
    fold (sfree is_pair_sep (quote_plus (utf8_encode (fst kv)))).
    fold (sfree is_pair_sep (quote_plus (utf8_encode (snd kv)))).
    rewrite !clean_sfree by (apply quote_clean, utf8_encode_octets; assumption). reflexivity.
  - unfold piece. destruct (quote_plus (utf8_encode (fst kv))); reflexivity.
Qed.

Lemma spec_decode_on_change l : valid_items l = true -> spec_decode (on_change l) = Some l.
Proof.
  intros Hv. rewrite on_change_pieces. unfold spec_decode.
  destruct l as [|kv0 l0]; [reflexivity|]. remember (kv0 :: l0) as l eqn:Hl.
  assert (Hne : map piece l <> []) by (subst l; discriminate). clear Hl kv0 l0.
  rewrite (split_by_join is_pair_sep 38); [|reflexivity|exact Hne|].
  2:{ clear Hne. induction l as [|kv l IH]; [reflexivity|]. cbn [valid_items forallb] in Hv.
      apply andb_true_iff in Hv as [H1 H2]. cbn [map forallb].
      rewrite (proj1 (piece_sfree kv H1)). exact (IH H2). }
  clear Hne. induction l as [|[k v] l IH]; [reflexivity|].
  cbn [valid_items forallb] in Hv. apply andb_true_iff in Hv as [H1 H2].
  cbn [map filter]. fold (nonempty_s (piece (k, v))). rewrite (proj2 (piece_sfree (k, v) H1)).
  cbn [map all_some]. cbn [fst snd] in H1. apply andb_true_iff in H1 as [Hk Hvv].
  rewrite (spec_field_piece k v Hk Hvv).
  fold (valid_items l) in H2. rewrite (IH H2). reflexivity.
Qed.

Lemma on_change_octets l : valid_items l = true -> forallb is_octet (on_change l) = true.
Proof.
  intros Hv. rewrite on_change_pieces.
  assert (Hp : forall kv, valid_text (fst kv) && valid_text (snd kv) = true ->
                          forallb is_octet (piece kv) = true).
  { intros kv H. apply andb_true_iff in H as [Hk Hvv]. unfold piece. rewrite !forallb_app.
    assert (Hc : forall s, forallb clean s = true -> forallb is_octet s = true).
    { induction s as [|c s IHs]; [reflexivity|]. cbn [forallb]. intros H. apply andb_true_iff in H as [Hc Hs].
      rewrite (IHs Hs). unfold clean in Hc. destruct (is_octet c); [reflexivity|discriminate]. }
    rewrite (Hc _ (quote_clean _ (utf8_encode_octets _ Hk))), (Hc _ (quote_clean _ (utf8_encode_octets _ Hvv))). reflexivity. }
  induction l as [|kv l IH]; [reflexivity|].
  cbn [valid_items forallb] in Hv. apply andb_true_iff in Hv as [H1 H2]. fold (valid_items l) in H2.
  destruct l as [|kv2 l].
  - cbn [map join]. exact (Hp kv H1).
  - change (join [38] (map piece (kv :: kv2 :: l))) with (piece kv ++ [38] ++ join [38] (map piece (kv2 :: l))).
    rewrite !forallb_app, (Hp kv H1), (IH H2). reflexivity.
Qed.

(* GetDict.on_change / urlencode followed by a fresh parse gives the same ordered pairs *)
Theorem writeback l : valid_items l = true -> parse_utf8 (on_change l) = Ok l.
Proof.
  intros Hv. rewrite decode_spec by (apply on_change_octets; exact Hv).
  rewrite spec_decode_on_change by exact Hv. reflexivity.
Qed.

(* what the decoder returns is text (scalar values only), so it can be written back *)
Lemma spec_decode_valid qs l : spec_decode qs = Some l -> valid_items l = true.
Proof.
  unfold spec_decode. generalize (filter (fun f => negb (match f with [] => true | _ => false end))
                                         (split_by is_pair_sep qs)).
  intros fs. revert l. induction fs as [|f fs IH]; intros l H.
  - cbn in H. injection H as <-. reflexivity.
  - cbn [map all_some] in H. destruct (spec_field f) as [[n v]|] eqn:Ef; [|discriminate].
    destruct (all_some (map spec_field fs)) as [l'|] eqn:El; [|discriminate].
    cbn in H. injection H as <-. cbn [valid_items forallb fst snd].
    fold (valid_items l'). rewrite (IH l' eq_refl), andb_true_r.
    unfold spec_field in Ef. destruct (cut_eq f) as [a b]. unfold spec_component in Ef.
    destruct (utf8_decode (spec_unquote (map plus_space a))) as [n'|] eqn:En; [|discriminate].
    destruct (utf8_decode (spec_unquote (map plus_space b))) as [v'|] eqn:Ev; [|discriminate].
    injection Ef as <- <-.
    rewrite (utf8_decode_scalar _ _ En), (utf8_decode_scalar _ _ Ev). reflexivity.
Qed.

Theorem parse_valid qs l : parse_utf8 qs = Ok l -> valid_items l = true.
Proof.
  intros H. unfold parse_utf8, parse_qsl_text in H.
  destruct (forallb is_octet qs) eqn:Ho; [|discriminate].
  assert (H2 := decode_spec qs Ho). unfold parse_utf8, parse_qsl_text in H2. rewrite Ho in H2.
  rewrite H2 in H. destruct (spec_decode qs) as [l'|] eqn:Es; [|discriminate].
  injection H as <-. exact (spec_decode_valid qs l' Es).
Qed.
