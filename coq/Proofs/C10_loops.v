(* C10 — the heap, reads through the three kinds of body_file handle, and the copy_body loop. *)
From Coq Require Import ZArith NArith List Bool Arith Lia.
Require Import Webob.Lib.Val Webob.Model.C10_BodyStream Webob.Proofs.C10_stream.
Import ListNotations.

Ltac splits := repeat match goal with |- _ /\ _ => split end.

(* ------------------------------------------------------------------ heap *)
Lemma upd_same : forall h i f, cells (upd h i f) i = f.
Proof. intros; unfold upd; cbn. now rewrite Nat.eqb_refl. Qed.

Lemma upd_other : forall h i f j, j <> i -> cells (upd h i f) j = cells h j.
Proof. intros h i f j H; unfold upd; cbn. apply Nat.eqb_neq in H. now rewrite H. Qed.

Lemma upd_next : forall h i f, next (upd h i f) = next h.
Proof. reflexivity. Qed.

Lemma alloc_spec : forall h f h' i, alloc h f = (h', i) ->
  i = next h /\ next h' = S (next h) /\ cells h' i = f /\ (forall j, j <> i -> cells h' j = cells h j).
Proof.
  intros h f h' i H; unfold alloc in H; injection H as <- <-; cbn.
  rewrite Nat.eqb_refl. splits; auto.
  intros j Hj. apply Nat.eqb_neq in Hj. now rewrite Hj.
Qed.

(* [h'] differs from [h] at most in cell [i] *)
Definition only (i : nat) (h h' : heap) : Prop :=
  next h' = next h /\ forall j, j <> i -> cells h' j = cells h j.

Lemma only_refl : forall i h, only i h h.
Proof. split; auto. Qed.

Lemma only_upd : forall i h f, only i h (upd h i f).
Proof. intros; split; [reflexivity|]. intros; now apply upd_other. Qed.

Lemma only_trans : forall i h1 h2 h3, only i h1 h2 -> only i h2 h3 -> only i h1 h3.
Proof.
  intros i h1 h2 h3 [N1 A1] [N2 A2]; split; [congruence|].
  intros j Hj. rewrite A2, A1; auto.
Qed.

(* ------------------------------------------------------------------ reading the file itself *)
Lemma hread_raw : forall k adv h r x adv' h' r',
  fwf (cells h (inp r)) ->
  hread HRaw k adv h r = (x, adv', h', r') ->
  let f := cells h (inp r) in let f' := cells h' (inp r) in
  r' = r /\ adv' = adv /\ only (inp r) h h' /\ fdata f' = fdata f /\ fkd f' = fkd f /\ fwf f' /\
  exists d, x = Ok d /\ fpos f' = fpos f + length d /\ d = seg (fdata f) (fpos f) (fpos f') /\
    match k with
    | Some k => length d = Nat.min k (length (fdata f) - fpos f)
    | None => fpos f' = length (fdata f)
    end.
Proof.
  intros k adv h r x adv' h' r' Hwf H; cbn [hread] in H.
  destruct (fread k (cells h (inp r))) as [d f1] eqn:Er.
  injection H as <- <- <- <-.
  destruct (fread_spec _ _ _ _ Hwf Er) as (Hd & Hk & Hwf1 & Hp & Hseg & Hlen).
  cbn zeta. rewrite upd_same.
  splits; auto using only_upd.
  exists d. splits; auto.
Qed.

(* ------------------------------------------------------------------ reading through the wrapper *)
Lemma hread_wrap : forall k adv h r w c x adv' h' r',
  wrap r = Some w -> wraw w = inp r ->
  fwf (cells h (inp r)) -> c <= fpos (cells h (inp r)) ->
  wbuf w = seg (fdata (cells h (inp r))) c (fpos (cells h (inp r))) ->
  hread HWrap k adv h r = (x, adv', h', r') ->
  let f := cells h (inp r) in let f' := cells h' (inp r) in
  exists w', r' = set_wrap r (Some w') /\ wraw w' = inp r /\ only (inp r) h h' /\
    fdata f' = fdata f /\ fkd f' = fkd f /\ fwf f' /\ fpos f <= fpos f' /\
    fpos f' + wrem w' = fpos f + wrem w /\
    match x with
    | Ok d => d = seg (fdata f) c (c + length d) /\ c + length d <= fpos f' /\
              wbuf w' = seg (fdata f) (c + length d) (fpos f') /\
              match k with
              | Some k => length d = k \/ (length d < k /\ wrem w' = 0 /\ wbuf w' = [] /\ c + length d = fpos f')
              | None => wrem w' = 0 /\ wbuf w' = [] /\ c + length d = fpos f'
              end
    | Disc => wbuf w' = [] /\ fpos f' = length (fdata f) /\ 0 < wrem w'
    | Fuel => False
    end.
Proof.
  intros k adv h r w c x adv' h' r' Hw Hraw Hwf Hc Hb H; cbn [hread] in H.
  rewrite Hw, Hraw in H.
  destruct (br_read k adv w (cells h (inp r))) as [[[y adv1] w1] f1] eqn:Eb.
  injection H as <- <- <- <-.
  destruct (br_read_spec _ _ _ _ _ _ _ _ _ Hwf Hc Hb Eb) as (Hd & Hk & Hwf1 & Hr & Hle & Hcons & Hy).
  cbn zeta. rewrite upd_same.
  exists w1. splits; auto using only_upd; try congruence.
Qed.

(* ------------------------------------------------------------------ copy_body loop on the file itself *)
Lemma cb_loop_raw : forall fuel chunk (hascl : bool) todo acc sp lim adv h r x adv' h' r',
  1 <= chunk -> fwf (cells h (inp r)) ->
  (if hascl then todo else length (fdata (cells h (inp r))) - fpos (cells h (inp r))) < fuel ->
  (hascl = false -> 1 <= todo) ->
  cb_loop fuel chunk hascl todo acc sp lim HRaw adv h r = (x, adv', h', r') ->
  let f := cells h (inp r) in let f' := cells h' (inp r) in
  r' = r /\ only (inp r) h h' /\ fdata f' = fdata f /\ fkd f' = fkd f /\ fwf f' /\ fpos f <= fpos f' /\
  match x with
  | Ok (acc', _) => acc' = acc ++ seg (fdata f) (fpos f) (fpos f') /\
                    (if hascl then fpos f' = fpos f + todo else fpos f' = length (fdata f))
  | Disc => hascl = true /\ fpos f' = length (fdata f) /\ length (fdata f) - fpos f < todo
  | Fuel => False
  end.
Proof.
  induction fuel as [|fuel IH]; intros chunk hascl todo acc sp lim adv h r x adv' h' r' Hch Hwf Hfu Htd H.
  - lia.
  - cbn [cb_loop] in H.
    destruct (Nat.eqb todo 0) eqn:E0.
    { apply Nat.eqb_eq in E0. injection H as <- <- <- <-. cbn zeta.
      destruct hascl; [|specialize (Htd eq_refl); lia].
      splits; auto using only_refl. rewrite seg_same, app_nil_r; auto. lia. }
    apply Nat.eqb_neq in E0.
    destruct (hread HRaw (Some (Nat.min todo chunk)) adv h r) as [[[y adv1] h1] r1] eqn:Eh.
    destruct (hread_raw _ _ _ _ _ _ _ _ Hwf Eh) as (Hr1 & Hadv & Ho & Hd & Hk & Hwf1 & d & Hy & Hp & Hseg & Hlen).
    subst y r1 adv1.
    destruct d as [|b d'] eqn:Ed.
    + (* nothing came: end of file *)
      cbn [length] in *.
      assert (Hend : fpos (cells h (inp r)) = length (fdata (cells h (inp r)))) by (unfold fwf in Hwf; lia).
      assert (Hp' : fpos (cells h1 (inp r)) = fpos (cells h (inp r))) by lia.
      destruct hascl; injection H as <- <- <- <-; cbn zeta.
      * splits; auto; lia.
      * rewrite Hp', seg_same, app_nil_r. splits; auto; lia.
    + rewrite <- Ed in *. assert (Hlen1 : 1 <= length d) by (subst d; cbn; lia). clear Ed.
      eapply IH in H; auto.
      * destruct H as (Hr' & Ho' & Hd' & Hk' & Hwf' & Hle' & Hx). cbn zeta.
        splits; auto; try congruence; try lia.
        { eapply only_trans; eauto. }
        rewrite Hd in *.
        destruct x as [[acc' sp']| |].
        -- destruct Hx as [Hx1 Hx2]. split.
           ++ rewrite Hx1, <- app_assoc. f_equal.
              rewrite <- (seg_app _ (fpos (cells h (inp r))) (fpos (cells h1 (inp r))) (fpos (cells h' (inp r)))) by lia.
              f_equal. exact Hseg.
           ++ destruct hascl; lia.
        -- destruct Hx as (Hx1 & Hx2 & Hx3). destruct hascl; [|discriminate].
           splits; auto. unfold fwf in Hwf1. lia.
        -- contradiction.
      * rewrite Hd. destruct hascl; lia.
      * intros ->. auto.
Qed.

(* ------------------------------------------------------------------ copy_body loop through the wrapper *)
Lemma cb_loop_wrap : forall fuel chunk todo acc sp lim adv h r w c x adv' h' r',
  1 <= chunk -> todo < fuel ->
  wrap r = Some w -> wraw w = inp r ->
  fwf (cells h (inp r)) -> c <= fpos (cells h (inp r)) ->
  wbuf w = seg (fdata (cells h (inp r))) c (fpos (cells h (inp r))) ->
  cb_loop fuel chunk true todo acc sp lim HWrap adv h r = (x, adv', h', r') ->
  let f := cells h (inp r) in let f' := cells h' (inp r) in
  exists w', r' = set_wrap r (Some w') /\ wraw w' = inp r /\ only (inp r) h h' /\
    fdata f' = fdata f /\ fkd f' = fkd f /\ fwf f' /\ fpos f <= fpos f' /\
    fpos f' + wrem w' = fpos f + wrem w /\
    match x with
    | Ok (acc', _) => acc' = acc ++ seg (fdata f) c (c + todo) /\ c + todo <= fpos f' /\
                      wbuf w' = seg (fdata f) (c + todo) (fpos f')
    | Disc => wbuf w' = [] /\
              ((fpos f' = length (fdata f) /\ 0 < wrem w') \/ (wrem w' = 0 /\ fpos f' - c < todo))
    | Fuel => False
    end.
Proof.
  induction fuel as [|fuel IH]; intros chunk todo acc sp lim adv h r w c x adv' h' r' Hch Hfu Hw Hraw Hwf Hc Hb H.
  - lia.
  - cbn [cb_loop] in H.
    destruct (Nat.eqb todo 0) eqn:E0.
    { apply Nat.eqb_eq in E0. injection H as <- <- <- <-. cbn zeta. subst todo.
      exists w. splits; auto using only_refl.
      - destruct r; cbn in *; now rewrite Hw.
      - rewrite Nat.add_0_r, seg_same, app_nil_r; auto.
      - lia.
      - now rewrite Nat.add_0_r. }
    apply Nat.eqb_neq in E0.
    destruct (hread HWrap (Some (Nat.min todo chunk)) adv h r) as [[[y adv1] h1] r1] eqn:Eh.
    destruct (hread_wrap _ _ _ _ _ _ _ _ _ _ Hw Hraw Hwf Hc Hb Eh)
      as (w1 & Hr1 & Hraw1 & Ho & Hd & Hk & Hwf1 & Hle & Hcons & Hy).
    destruct y as [d| |].
    + destruct Hy as (Hseg & Hcd & Hbuf1 & Hfull).
      destruct d as [|b d'] eqn:Ed.
      * (* EOF of the limited file *)
        cbn [length] in *.
        destruct Hfull as [Hfull|(Hlt & Hw0 & Hb0 & Hcp)]; [lia|].
        injection H as <- <- <- <-. cbn zeta.
        exists w1. splits; auto. right. split; auto. lia.
      * rewrite <- Ed in *. assert (Hlen1 : 1 <= length d) by (subst d; cbn; lia). clear Ed.
        assert (Hdk : length d <= todo).
        { destruct Hfull as [Hfull|(Hlt & _)]; lia. }
        assert (Hin1 : inp r1 = inp r) by (subst r1; destruct r; reflexivity).
        assert (Hw1 : wrap r1 = Some w1) by (subst r1; destruct r; reflexivity).
        eapply (IH chunk (todo - length d) _ _ _ _ h1 r1 w1 (c + length d)) in H; auto; try lia;
          rewrite ?Hin1; auto; try (rewrite Hd; exact Hbuf1).
        destruct H as (w2 & Hr2 & Hraw2 & Ho2 & Hd2 & Hk2 & Hwf2 & Hle2 & Hcons2 & Hx).
        rewrite Hin1 in *. cbn zeta.
        exists w2. splits; auto; try congruence; try lia.
        { subst r1 r'. destruct r; reflexivity. }
        { eapply only_trans; eauto. }
        rewrite Hd in *.
        destruct x as [[acc' sp']| |].
        -- destruct Hx as (Hx1 & Hx2 & Hx3).
           replace (c + length d + (todo - length d)) with (c + todo) in * by lia.
           splits; auto.
           rewrite Hx1, <- app_assoc. f_equal.
           rewrite <- (seg_app _ c (c + length d) (c + todo)) by lia. f_equal. exact Hseg.
        -- destruct Hx as (Hx1 & Hx2). split; auto.
           destruct Hx2 as [Hx2|[Hx2 Hx3]]; [left; auto|right; split; auto; lia].
        -- contradiction.
    + injection H as <- <- <- <-. cbn zeta.
      destruct Hy as (Hy1 & Hy2 & Hy3). exists w1. splits; auto.
    + contradiction.
Qed.
