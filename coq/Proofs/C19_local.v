(* C19 — the element scanners of the three simple families are "comma-local": what follows a comma never
   influences what was scanned before it.  Consequence, for ALL strings a b (no validity needed):
       scan (a ++ ", " ++ b) = scan a ++ scan b
   which is what makes `+` compose element lists. *)
From Coq Require Import ZArith NArith List Bool Lia.
Require Import Webob.Lib.Val Webob.Lib.PyStr Webob.Lib.Rx Webob.Gen.C03_regexes Webob.Model.C03_scan
               Webob.Proofs.C03_scan Webob.Model.C19_acceptstr.
Import ListNotations.
Local Open Scope N_scope.

Ltac split_N c := destruct c as [|c]; [|do 7 (try destruct c as [c|c|])].

(* ---------- span / span_upto ---------- *)
Lemma span_split p s : s = fst (span p s) ++ snd (span p s).
Proof.
  induction s as [|c s IH]; [reflexivity|]. cbn [span]. destruct (p c); [|reflexivity].
  destruct (span p s) as [a b]. cbn [fst snd] in *. cbn [app]. f_equal. exact IH.
Qed.
Lemma span_forall p s : Forall (fun c => p c = true) (fst (span p s)).
Proof.
  induction s as [|c s IH]; [constructor|]. cbn [span]. destruct (p c) eqn:E; [|constructor].
  destruct (span p s) as [a b]. cbn [fst] in *. constructor; assumption.
Qed.
Lemma span_local p a c t : p c = false ->
  span p (a ++ c :: t) = (fst (span p a), snd (span p a) ++ c :: t).
Proof.
  intros H. induction a as [|d a IH]; cbn [app span].
  - rewrite H. reflexivity.
  - destruct (p d); [|reflexivity]. rewrite IH. destruct (span p a); reflexivity.
Qed.
Lemma span_upto_split n p : forall s, s = fst (span_upto n p s) ++ snd (span_upto n p s).
Proof.
  induction n as [|n IH]; intros s; [reflexivity|]. destruct s as [|c s]; [reflexivity|].
  cbn [span_upto]. destruct (p c); [|reflexivity]. specialize (IH s).
  destruct (span_upto n p s) as [a b]. cbn [fst snd] in *. cbn [app]. f_equal. exact IH.
Qed.
Lemma span_upto_forall n p : forall s, Forall (fun c => p c = true) (fst (span_upto n p s)) /\
                                        (length (fst (span_upto n p s)) <= n)%nat.
Proof.
  induction n as [|n IH]; intros s; [split; [constructor|cbn; lia]|]. destruct s as [|c s]; [split; [constructor|cbn; lia]|].
  cbn [span_upto]. destruct (p c) eqn:E; [|split; [constructor|cbn; lia]].
  destruct (IH s) as [H1 H2]. destruct (span_upto n p s) as [a b]. cbn [fst] in *.
  split; [constructor; assumption|cbn; lia].
Qed.
Lemma span_upto_local n p c t : p c = false -> forall a,
  span_upto n p (a ++ c :: t) = (fst (span_upto n p a), snd (span_upto n p a) ++ c :: t).
Proof.
  intros H. induction n as [|n IH]; intros a; [reflexivity|].
  destruct a as [|d a]; cbn [app span_upto].
  - rewrite H. reflexivity.
  - destruct (p d); [|reflexivity]. rewrite IH. destruct (span_upto n p a); reflexivity.
Qed.

Lemma skip_ows_local a t : skip_ows (a ++ 44 :: t) = skip_ows a ++ 44 :: t.
Proof. unfold skip_ows. rewrite span_local by reflexivity. reflexivity. Qed.
Lemma skip_ows_len s : (length (skip_ows s) <= length s)%nat.
Proof.
  unfold skip_ows. rewrite (span_split is_ows s) at 2. rewrite app_length. lia.
Qed.

(* ---------- token ---------- *)
Lemma take_token_local a t :
  take_token (a ++ 44 :: t) = match take_token a with Some (it, r) => Some (it, r ++ 44 :: t) | None => None end.
Proof.
  unfold take_token. rewrite span_local by reflexivity. destruct (span is_tchar a) as [x y]. cbn [fst snd].
  destruct x; reflexivity.
Qed.
Lemma take_token_split s it r : take_token s = Some (it, r) -> s = it ++ r /\ token_ok it.
Proof.
  unfold take_token. pose proof (span_split is_tchar s) as Hs. pose proof (span_forall is_tchar s) as Hf.
  destruct (span is_tchar s) as [x y]. cbn [fst snd] in *. destruct x as [|c x]; [discriminate|].
  intros E. injection E as <- <-. split; [exact Hs|]. split; [discriminate|exact Hf].
Qed.
Lemma take_token_cons s it r : take_token s = Some (it, r) -> (length r < length s)%nat.
Proof.
  intros H. apply take_token_split in H as [-> [Hne _]]. rewrite app_length. destruct it; [contradiction|cbn; lia].
Qed.

(* ---------- qvalue / weight ---------- *)
Lemma take_qvalue_other c X : c <> 48 -> c <> 49 -> take_qvalue (c :: X) = None.
Proof. intros H1 H2. split_N c; try reflexivity; try (contradiction H1; reflexivity); contradiction H2; reflexivity. Qed.
Lemma take_qvalue_0_other c X : c <> 46 -> take_qvalue (48 :: c :: X) = Some ([48], c :: X).
Proof. intros H. split_N c; try reflexivity. contradiction H; reflexivity. Qed.
Lemma take_qvalue_1_other c X : c <> 46 -> take_qvalue (49 :: c :: X) = Some ([49], c :: X).
Proof. intros H. split_N c; try reflexivity. contradiction H; reflexivity. Qed.

Lemma take_qvalue_local a t :
  take_qvalue (a ++ 44 :: t) = match take_qvalue a with Some (q, r) => Some (q, r ++ 44 :: t) | None => None end.
Proof.
  destruct a as [|c0 a]; [reflexivity|].
  destruct (N.eq_dec c0 48) as [->|H48].
  - destruct a as [|c1 a]; [reflexivity|]. destruct (N.eq_dec c1 46) as [->|H46].
    + cbn [app take_qvalue]. rewrite span_upto_local by reflexivity.
      destruct (span_upto 3 is_digit a); reflexivity.
    + cbn [app]. rewrite !take_qvalue_0_other by exact H46. reflexivity.
  - destruct (N.eq_dec c0 49) as [->|H49].
    + destruct a as [|c1 a]; [reflexivity|]. destruct (N.eq_dec c1 46) as [->|H46].
      * cbn [app take_qvalue]. rewrite span_upto_local by reflexivity.
        destruct (span_upto 3 (fun c => c =? 48) a); reflexivity.
      * cbn [app]. rewrite !take_qvalue_1_other by exact H46. reflexivity.
    + cbn [app]. rewrite !take_qvalue_other by assumption. reflexivity.
Qed.

Lemma take_qvalue_split s q r : take_qvalue s = Some (q, r) -> s = q ++ r /\ qtext_ok q.
Proof.
  destruct s as [|c0 s]; [discriminate|].
  destruct (N.eq_dec c0 48) as [->|H48].
  - destruct s as [|c1 s]; [intros E; injection E as <- <-; split; [reflexivity|left; reflexivity]|].
    destruct (N.eq_dec c1 46) as [->|H46].
    + cbn [take_qvalue]. pose proof (span_upto_split 3 is_digit s) as Hs.
      destruct (span_upto_forall 3 is_digit s) as [Hf Hl].
      destruct (span_upto 3 is_digit s) as [ds r']. cbn [fst snd] in *.
      intros E; injection E as <- <-. split; [cbn [app]; do 2 f_equal; exact Hs|].
      right; right; left. exists ds. auto.
    + rewrite take_qvalue_0_other by exact H46. intros E; injection E as <- <-. split; [reflexivity|left; reflexivity].
  - destruct (N.eq_dec c0 49) as [->|H49].
    + destruct s as [|c1 s]; [intros E; injection E as <- <-; split; [reflexivity|right; left; reflexivity]|].
      destruct (N.eq_dec c1 46) as [->|H46].
      * cbn [take_qvalue]. pose proof (span_upto_split 3 (fun c => c =? 48) s) as Hs.
        destruct (span_upto_forall 3 (fun c => c =? 48) s) as [Hf Hl].
        destruct (span_upto 3 (fun c => c =? 48) s) as [ds r']. cbn [fst snd] in *.
        intros E; injection E as <- <-. split; [cbn [app]; do 2 f_equal; exact Hs|].
        right; right; right. exists ds. repeat split; auto.
        eapply Forall_impl; [|exact Hf]. intros c Hc. apply N.eqb_eq in Hc. exact Hc.
      * rewrite take_qvalue_1_other by exact H46. intros E; injection E as <- <-.
        split; [reflexivity|right; left; reflexivity].
    + rewrite take_qvalue_other by assumption. discriminate.
Qed.

Lemma take_weight_local a t :
  take_weight (a ++ 44 :: t) = match take_weight a with Some (q, r) => Some (q, r ++ 44 :: t) | None => None end.
Proof.
  unfold take_weight. rewrite skip_ows_local. destruct (skip_ows a) as [|c X]; [reflexivity|].
  destruct (N.eq_dec c 59) as [->|Hc]; [|split_N c; try reflexivity; contradiction Hc; reflexivity].
  cbn [app]. rewrite skip_ows_local. destruct (skip_ows X) as [|q Y].
  - cbn [app]. destruct t as [|c2 t']; [reflexivity|].
    destruct (N.eq_dec c2 61) as [->|H61]; [reflexivity|split_N c2; try reflexivity; contradiction H61; reflexivity].
  - destruct Y as [|c2 Y']; [reflexivity|].
    destruct (N.eq_dec c2 61) as [->|H61]; [|split_N c2; try reflexivity; contradiction H61; reflexivity].
    cbn [app]. destruct (is_qQ q); [apply take_qvalue_local|reflexivity].
Qed.

(* a weight, when found, is followed by a suffix of the input and has a legal qvalue text *)
Lemma take_weight_split s q r : take_weight s = Some (q, r) -> (length r <= length s)%nat /\ qtext_ok q.
Proof.
  unfold take_weight. pose proof (skip_ows_len s) as L1. destruct (skip_ows s) as [|c X]; [discriminate|].
  destruct (N.eq_dec c 59) as [->|Hc]; [|split_N c; try discriminate; contradiction Hc; reflexivity].
  pose proof (skip_ows_len X) as L2. destruct (skip_ows X) as [|q0 Y]; [discriminate|].
  destruct Y as [|c2 Y']; [discriminate|].
  destruct (N.eq_dec c2 61) as [->|H61]; [|split_N c2; try discriminate; contradiction H61; reflexivity].
  destruct (is_qQ q0); [|discriminate]. intros E. apply take_qvalue_split in E as [E Hq].
  split; [|exact Hq]. cbn [length] in *. assert (length Y' = length q + length r)%nat by (rewrite E, app_length; reflexivity). lia.
Qed.

(* ---------- the generic finditer loop ---------- *)
Section Local.
  Variable take_item : str -> option (str * str).
  Hypothesis Hloc : forall a t, take_item (a ++ 44 :: t) =
    match take_item a with Some (it, r) => Some (it, r ++ 44 :: t) | None => None end.
  Hypothesis Hcons : forall s it r, take_item s = Some (it, r) -> (length r < length s)%nat.
  Hypothesis Hsp : forall r, take_item (32 :: r) = None.

  Lemma take_item_nil : take_item [] = None.
  Proof. destruct (take_item []) as [[it r]|] eqn:E; [apply Hcons in E; cbn in E; lia|reflexivity]. Qed.
  Lemma take_item_comma t : take_item (44 :: t) = None.
  Proof. pose proof (Hloc [] t) as H. cbn [app] in H. rewrite take_item_nil in H. exact H. Qed.

  Lemma scan_fuel : forall n s f1 f2, (length s <= n)%nat -> (length s < f1)%nat -> (length s < f2)%nat ->
    scan_simple take_item f1 s = scan_simple take_item f2 s.
  Proof.
    induction n as [|n IH]; intros s f1 f2 Hn H1 H2.
    - destruct s; [|cbn in Hn; lia]. destruct f1, f2; reflexivity.
    - destruct f1 as [|f1]; [lia|]. destruct f2 as [|f2]; [lia|]. destruct s as [|c s']; [reflexivity|].
      cbn [scan_simple]. destruct (take_item (c :: s')) as [[it r]|] eqn:Ei.
      + apply Hcons in Ei. destruct (take_weight r) as [[q r']|] eqn:Ew.
        * apply take_weight_split in Ew as [Ew _]. f_equal. apply IH; cbn [length] in *; lia.
        * f_equal. apply IH; cbn [length] in *; lia.
      + apply IH; cbn [length] in *; lia.
  Qed.

  Definition scanF (s : str) := scan_simple take_item (S (length s)) s.

  Lemma scan_step f c s : scan_simple take_item (S f) (c :: s) =
    match take_item (c :: s) with
    | Some (it, r) =>
        match take_weight r with
        | Some (q, r') => (it, thousandths q) :: scan_simple take_item f r'
        | None => (it, 1000) :: scan_simple take_item f r
        end
    | None => scan_simple take_item f s
    end.
  Proof. reflexivity. Qed.

  Lemma scanF_nil : scanF [] = [].
  Proof. reflexivity. Qed.

  Lemma scan_comma : forall n a t f, (length a <= n)%nat -> (length a + length t + 1 < f)%nat ->
    scan_simple take_item f (a ++ 44 :: t) = scanF a ++ scanF t.
  Proof.
    induction n as [|n IH]; intros a t f Hn Hf.
    - destruct a; [|cbn in Hn; lia]. cbn [app]. destruct f as [|f]; [lia|]. rewrite scan_step.
      rewrite take_item_comma. rewrite scanF_nil. cbn [app]. unfold scanF.
      apply scan_fuel with (n := length t); cbn [length] in *; lia.
    - destruct a as [|c a'].
      + cbn [app]. destruct f as [|f]; [lia|]. rewrite scan_step.
        rewrite take_item_comma. rewrite scanF_nil. cbn [app]. unfold scanF.
        apply scan_fuel with (n := length t); cbn [length] in *; lia.
      + destruct f as [|f]; [lia|]. cbn [app]. rewrite scan_step.
        change (c :: a' ++ 44 :: t) with ((c :: a') ++ 44 :: t). rewrite Hloc.
        unfold scanF at 1. change (length (c :: a')) with (S (length a')). rewrite scan_step.
        destruct (take_item (c :: a')) as [[it r]|] eqn:Ei.
        * rewrite take_weight_local. pose proof (Hcons _ _ _ Ei) as Hr.
          destruct (take_weight r) as [[q r']|] eqn:Ew.
          -- apply take_weight_split in Ew as [Ew _]. cbn [length] in *. cbn [app]. f_equal.
             rewrite IH by lia. f_equal. unfold scanF.
             apply scan_fuel with (n := length r'); lia.
          -- cbn [length] in *. cbn [app]. f_equal.
             rewrite IH by lia. f_equal. unfold scanF.
             apply scan_fuel with (n := length r); lia.
        * cbn [length] in *. rewrite IH by lia. reflexivity.
  Qed.

  Theorem scan_join a b : scanF (a ++ comma_sp ++ b) = scanF a ++ scanF b.
  Proof.
    unfold comma_sp. cbn [app]. unfold scanF at 1.
    rewrite scan_comma with (n := length a); [|lia|rewrite app_length; cbn [length]; lia].
    f_equal. unfold scanF. change (length (32 :: b)) with (S (length b)). rewrite scan_step. rewrite Hsp.
    apply scan_fuel with (n := length b); lia.
  Qed.

  (* every element found has a legal quality *)
  Lemma scan_q_bound : forall f s, Forall (fun e => snd e <= 1000) (scan_simple take_item f s).
  Proof.
    clear Hloc Hcons Hsp. induction f as [|f IH]; intros s; [constructor|]. destruct s as [|c s']; [constructor|].
    cbn [scan_simple]. destruct (take_item (c :: s')) as [[it r]|]; [|apply IH].
    destruct (take_weight r) as [[q r']|] eqn:Ew.
    - apply take_weight_split in Ew as [_ Hq]. constructor; [apply thousandths_bound, Hq|apply IH].
    - constructor; [cbn; lia|apply IH].
  Qed.

  Variable item_ok : str -> Prop.
  Hypothesis Hitem_ok : forall s it r, take_item s = Some (it, r) -> item_ok it.
  Lemma scan_items_ok : forall f s, Forall (fun e => item_ok (fst e)) (scan_simple take_item f s).
  Proof.
    induction f as [|f IH]; intros s; [constructor|]. destruct s as [|c s']; [constructor|].
    cbn [scan_simple]. destruct (take_item (c :: s')) as [[it r]|] eqn:Ei; [|apply IH].
    apply Hitem_ok in Ei. destruct (take_weight r) as [[q r']|]; (constructor; [exact Ei|apply IH]).
  Qed.
End Local.

(* ---------- instance: token items ---------- *)
Theorem scan_token_join a b :
  scanF take_token (a ++ comma_sp ++ b) = scanF take_token a ++ scanF take_token b.
Proof.
  apply scan_join.
  - exact take_token_local.
  - exact take_token_cons.
  - intros r. apply take_token_junk. reflexivity.
Qed.

(* ---------- instance: language ranges ---------- *)
Lemma take_subtags_split : forall f s, s = fst (take_subtags f s) ++ snd (take_subtags f s).
Proof.
  induction f as [|f IH]; intros s; [reflexivity|]. destruct s as [|c r]; [reflexivity|].
  cbn [take_subtags]. destruct (c =? 45) eqn:E; [|reflexivity]. apply N.eqb_eq in E as ->.
  pose proof (span_upto_split 8 is_alnum r) as Hs. destruct (span_upto 8 is_alnum r) as [x y]. cbn [fst snd] in Hs.
  destruct x as [|x0 x]; [reflexivity|]. specialize (IH y). destruct (take_subtags f y) as [more r''].
  cbn [fst snd] in *. rewrite Hs at 1. rewrite IH at 1. cbn [app]. rewrite <- !app_assoc. reflexivity.
Qed.

Lemma take_subtags_local : forall f a t,
  take_subtags f (a ++ 44 :: t) = (fst (take_subtags f a), snd (take_subtags f a) ++ 44 :: t).
Proof.
  induction f as [|f IH]; intros a t; [reflexivity|]. destruct a as [|c r]; [reflexivity|].
  cbn [app take_subtags]. destruct (c =? 45); [|reflexivity].
  rewrite span_upto_local by reflexivity. destruct (span_upto 8 is_alnum r) as [x y]. cbn [fst snd].
  destruct x as [|x0 x]; [reflexivity|]. rewrite IH. destruct (take_subtags f y); reflexivity.
Qed.

Lemma take_subtags_fuel : forall n s f1 f2, (length s <= n)%nat -> (length s <= f1)%nat -> (length s <= f2)%nat ->
  take_subtags f1 s = take_subtags f2 s.
Proof.
  induction n as [|n IH]; intros s f1 f2 Hn H1 H2.
  - destruct s; [|cbn in Hn; lia]. destruct f1, f2; reflexivity.
  - destruct s as [|c r]; [destruct f1, f2; reflexivity|].
    destruct f1 as [|f1]; [cbn in H1; lia|]. destruct f2 as [|f2]; [cbn in H2; lia|].
    cbn [take_subtags]. destruct (c =? 45); [|reflexivity].
    pose proof (span_upto_split 8 is_alnum r) as Hs. destruct (span_upto 8 is_alnum r) as [x y]. cbn [fst snd] in Hs.
    destruct x as [|x0 x]; [reflexivity|].
    assert (length r = S (length x) + length y)%nat by (rewrite Hs, app_length; reflexivity).
    rewrite (IH y f1 f2); [reflexivity| | |]; cbn [length] in *; lia.
Qed.

Lemma take_lang_local a t :
  take_lang_range (a ++ 44 :: t) =
  match take_lang_range a with Some (it, r) => Some (it, r ++ 44 :: t) | None => None end.
Proof.
  destruct a as [|c r]; [reflexivity|]. cbn [app]. unfold take_lang_range.
  destruct (c =? 42); [reflexivity|].
  change (c :: r ++ 44 :: t) with ((c :: r) ++ 44 :: t). rewrite span_upto_local by reflexivity.
  pose proof (span_upto_split 8 is_alpha (c :: r)) as Hs.
  destruct (span_upto 8 is_alpha (c :: r)) as [x y]. cbn [fst snd] in *.
  destruct x as [|x0 x]; [reflexivity|].
  rewrite take_subtags_local.
  rewrite (take_subtags_fuel (length y) y (length (y ++ 44 :: t)) (length y)); [| lia | rewrite app_length; lia | lia].
  destruct (take_subtags (length y) y); reflexivity.
Qed.

Lemma take_lang_cons s it r : take_lang_range s = Some (it, r) -> (length r < length s)%nat.
Proof.
  destruct s as [|c s']; [discriminate|]. unfold take_lang_range.
  destruct (c =? 42); [intros E; injection E as <- <-; cbn; lia|].
  pose proof (span_upto_split 8 is_alpha (c :: s')) as Hs.
  destruct (span_upto 8 is_alpha (c :: s')) as [x y]. cbn [fst snd] in *.
  destruct x as [|x0 x]; [discriminate|].
  pose proof (take_subtags_split (length y) y) as Ht. destruct (take_subtags (length y) y) as [more r'].
  cbn [fst snd] in *. intros E; injection E as <- <-.
  assert (L : length y = (length more + length r')%nat) by (rewrite <- app_length, <- Ht; reflexivity).
  rewrite Hs, app_length. cbn [length]. lia.
Qed.

Theorem scan_lang_join a b :
  scanF take_lang_range (a ++ comma_sp ++ b) = scanF take_lang_range a ++ scanF take_lang_range b.
Proof.
  apply scan_join.
  - exact take_lang_local.
  - exact take_lang_cons.
  - intros r. apply take_lang_junk. reflexivity.
Qed.

(* ---------- what the scanners produce is well formed ---------- *)
Lemma take_token_ok s it r : take_token s = Some (it, r) -> token_ok it.
Proof. intros H. apply take_token_split in H as [_ H]. exact H. Qed.

Lemma take_subtags_ok : forall f s, exists subs, fst (take_subtags f s) = subs_text subs /\ Forall subtag_ok subs.
Proof.
  induction f as [|f IH]; intros s; [exists []; split; [reflexivity|constructor]|].
  destruct s as [|c r]; [exists []; split; [reflexivity|constructor]|].
  cbn [take_subtags]. destruct (c =? 45) eqn:E; [|exists []; split; [reflexivity|constructor]].
  destruct (span_upto_forall 8 is_alnum r) as [Hf Hl]. destruct (span_upto 8 is_alnum r) as [x y]. cbn [fst] in *.
  destruct x as [|x0 x]; [exists []; split; [reflexivity|constructor]|].
  destruct (IH y) as (subs & E1 & E2). destruct (take_subtags f y) as [more r'']. cbn [fst] in *.
  exists ((x0 :: x) :: subs). split.
  - unfold subs_text. cbn [flat_map]. fold (subs_text subs). rewrite E1. reflexivity.
  - constructor; [|exact E2]. split; [cbn [length] in *; lia|exact Hf].
Qed.

Lemma take_lang_ok s it r : take_lang_range s = Some (it, r) -> lang_ok it.
Proof.
  destruct s as [|c s']; [discriminate|]. unfold take_lang_range.
  destruct (c =? 42); [intros E; injection E as <- <-; left; reflexivity|].
  destruct (span_upto_forall 8 is_alpha (c :: s')) as [Hf Hl].
  destruct (span_upto 8 is_alpha (c :: s')) as [x y]. cbn [fst] in *.
  destruct x as [|x0 x]; [discriminate|].
  destruct (take_subtags_ok (length y) y) as (subs & E1 & E2).
  destruct (take_subtags (length y) y) as [more r']. cbn [fst] in *.
  intros E; injection E as <- <-. right. exists (x0 :: x), subs. rewrite E1.
  repeat split; try assumption. cbn [length]. lia.
Qed.
