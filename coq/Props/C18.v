(* C18 — error responses escape all caller/request text and follow Accept.
   Property theorems only; each closed by [exact] of a lemma from Proofs/, followed by Print Assumptions.
   [classes], [cfg], [status_map_live] are REGENERATED from the live webob.exc module (Gen/C18_exctable.v),
   so every theorem that mentions them is re-decided against the current source on every run. *)
From Coq Require Import NArith List Bool String.
Require Import Webob.Lib.Val Webob.Lib.PyStr Webob.Model.C18_ExcBody Webob.Spec.C18_HtmlTok Webob.Spec.C18_Flat
               Webob.Gen.C18_exctable
               Webob.Proofs.C18_escape Webob.Proofs.C18_skeleton Webob.Proofs.C18_choice Webob.Proofs.C18_json
               Webob.Proofs.C18_history.
Import ListNotations.
Local Open Scope N_scope.

(* ------------------------------------------------------------------ the escaper *)
(* html_escape never emits  <  >  double quote  single quote  nor a non-ASCII character, for any input *)
Theorem C18_escape_safe : forall s,
  Forall (fun c => c < 128 /\ c <> 60 /\ c <> 62 /\ c <> 34 /\ c <> 39) (html_escape s).
Proof. exact html_escape_out. Qed.
Print Assumptions C18_escape_safe.

(* ... and an ampersand only ever starts an entity: the output is a concatenation of plain characters,
   the five entities and decimal character references *)
Theorem C18_escape_entities : forall s,
  html_escape s = List.concat (map esc_char s) /\ Forall chunk_ok (map esc_char s).
Proof. exact html_escape_chunks. Qed.
Print Assumptions C18_escape_entities.

(* ------------------------------------------------------------------ the HTML form *)
(* the HTML body is the class's document (outer html template + body template, regenerated) with its slots
   filled; caller / request text occurs nowhere else *)
Theorem C18_html_body_is_template_with_slots : forall cfg cl i,
  html_body cfg cl i = option_map (fun l => fsubst l (hval cl i)) (flat cfg cl (shape cl i)).
Proof. exact html_body_flat. Qed.
Print Assumptions C18_html_body_is_template_with_slots.

(* every slot receives text free of  <  >  and both quotes, whatever detail / comment / header / environ say *)
Theorem C18_slots_escaped : forall cl i t id,
  In (FS id) (flat_inner (shape cl i) (tmpl_parse t)) -> safe (hval cl i id) = true.
Proof. exact hval_safe. Qed.
Print Assumptions C18_slots_escaped.

(* for ANY template whose slots stand in character data, quoted attribute values or comments, the whole
   tokenizer run - every element / attribute / comment boundary and the final state - is independent of the
   (safe) slot contents *)
Theorem C18_no_boundary_from_slots : forall its st f g,
  wf st its = true ->
  (forall id, In (FS id) its -> safe (f id) = true) ->
  (forall id, In (FS id) its -> safe (g id) = true) ->
  run st (fsubst its f) = run st (fsubst its g).
Proof. exact wf_run. Qed.
Print Assumptions C18_no_boundary_from_slots.

(* hence: two requests of the same shape (html_comment generated or not) get HTML bodies with the same
   skeleton - for every class and every custom body_template whose document is well formed *)
Theorem C18_skeleton_invariant : forall cfg cl i i' h h',
  wf_html cfg cl (shape cl i) = true ->
  shape cl i = shape cl i' ->
  html_body cfg cl i = Some h -> html_body cfg cl i' = Some h' ->
  skeleton h = skeleton h'.
Proof. exact skeleton_invariant. Qed.
Print Assumptions C18_skeleton_invariant.

(* every class of webob.exc has a well-formed document, in both shapes (sweep over the regenerated table) *)
Theorem C18_class_templates_wellformed : forall cl sh, In cl classes -> wf_html cfg cl sh = true.
Proof. exact classes_wf. Qed.
Print Assumptions C18_class_templates_wellformed.

Theorem C18_class_html_body_defined : forall cl i sh,
  wf_html cfg cl sh = true -> shape cl i = sh -> exists h, html_body cfg cl i = Some h.
Proof. exact (html_body_some cfg). Qed.
Print Assumptions C18_class_html_body_defined.

(* the hypotheses are satisfiable and not vacuous: a custom template with data, quoted-attribute and
   comment slots is well formed; one with a slot in an unquoted attribute position is not, and there the
   skeleton does change *)
Definition ex_cls (t : string) : excls :=
  mkCls (A "X") 404 (A "Not Found") (A "e") (A t) true false true false true.
Example C18_custom_template_wf :
  wf_html cfg (ex_cls "<p title=""${HTTP_X}"">${detail}</p><!-- ${comment} -->${html_comment}<i class='$x_hdr'>.</i>") true = true.
Proof. vm_compute. reflexivity. Qed.
Example C18_unquoted_attribute_rejected :
  wf_html cfg (ex_cls "<a href=${HTTP_X}>x</a>") false = false.
Proof. vm_compute. reflexivity. Qed.
Example C18_unquoted_attribute_breaks :
  let cl := ex_cls "<a href=${HTTP_X}>x</a>" in
  let i1 := mkInp [] [] [] [(A "HTTP_X", A "u")] in
  let i2 := mkInp [] [] [] [(A "HTTP_X", A "u onclick=x")] in
  option_map skeleton (html_body cfg cl i1) <> option_map skeleton (html_body cfg cl i2).
Proof. vm_compute. discriminate. Qed.
Example C18_shapes_differ :
  shape (ex_cls "${html_comment}") (mkInp [] (A "c") [] []) = true /\
  shape (ex_cls "${html_comment}") (mkInp [] [] [] []) = false.
Proof. split; reflexivity. Qed.

(* ------------------------------------------------------------------ Accept: which form *)
(* the quality of an offer is that of the most specific matching range, the first among equally specific *)
Theorem C18_quality_governing : forall oty osub rs,
  match offer_entry oty osub rs with
  | None => (forall r, In r rs -> specificity oty osub r = None) /\ quality oty osub rs = 0
  | Some (q, sp) =>
    quality oty osub rs = q /\
    exists p1 r p2, rs = p1 ++ r :: p2 /\ specificity oty osub r = Some sp /\ r_q r = q /\
      (forall r' sp', In r' p1 -> specificity oty osub r' = Some sp' -> sp' < sp) /\
      (forall r' sp', In r' p2 -> specificity oty osub r' = Some sp' -> sp' <= sp)
  end.
Proof. exact quality_governing. Qed.
Print Assumptions C18_quality_governing.

Theorem C18_specificity_cases : forall oty osub r sp,
  specificity oty osub r = Some sp ->
  let p := split_slash (r_ts r) in
  (sp = 3 /\ fst p = oty /\ snd p = osub /\ r_params r = false) \/
  (sp = 2 /\ fst p = oty /\ snd p = A "*") \/
  (sp = 1 /\ r_ts r = A "*/*").
Proof. exact specificity_cases. Qed.
Print Assumptions C18_specificity_cases.

(* HTML iff acceptable and at least as good as JSON; JSON iff acceptable and strictly better; else plain *)
Theorem C18_format_choice : forall rs,
  (choose (AValid rs) = FHtml <-> 0 < q_html rs /\ q_json rs <= q_html rs) /\
  (choose (AValid rs) = FJson <-> 0 < q_json rs /\ q_html rs < q_json rs) /\
  (choose (AValid rs) = FPlain <-> q_html rs = 0 /\ q_json rs = 0).
Proof. exact format_choice. Qed.
Print Assumptions C18_format_choice.

Example C18_equal_quality_prefers_html :
  choose (AValid [mkRange (A "application/json") 500 false; mkRange (A "text/html") 500 false]) = FHtml.
Proof. reflexivity. Qed.

(* Content-Type and status of a generated response *)
Theorem C18_generated_content_type : forall cfg cl i a,
  rs_ctype (generate cfg cl i a) = Some (ctype_of (choose a)) /\
  rs_status (generate cfg cl i a) = status_of cl.
Proof. exact generate_ctype. Qed.
Print Assumptions C18_generated_content_type.

(* ... and its body: which document, per form (JSON: json.dumps of exactly this three-key dict) *)
Theorem C18_generated_body : forall cfg cl i a,
  rs_body (generate cfg cl i a) =
  match choose a with
  | FHtml => option_map utf8 (html_body cfg cl i)
  | FJson => Some (utf8 (json_dumps [(A "message", make_body no_escape cl i);
                                     (A "code", status_of cl); (A "title", c_title cl)]))
  | FPlain => option_map utf8 (plain_body cfg cl i)
  end.
Proof. exact generate_body. Qed.
Print Assumptions C18_generated_body.

(* ------------------------------------------------------------------ HEAD, body-less classes, explicit body *)
Theorem C18_head_empty_body : forall cfg cl i a ex, rs_body (call cfg cl i a true ex) = Some [].
Proof. exact call_head. Qed.
Print Assumptions C18_head_empty_body.

(* a body-less class answers with an empty body (unless the application assigned a body to the instance
   after construction: that is an explicitly supplied body, next theorem) *)
Theorem C18_bodyless_class_empty_body : forall cfg cl i a hd ex,
  c_empty cl = true -> (ex = None \/ ex = Some []) -> rs_body (call cfg cl i a hd ex) = Some [].
Proof. exact call_bodyless. Qed.
Print Assumptions C18_bodyless_class_empty_body.

(* the body-less classes are exactly those with code 204, 205, 304 (sweep) *)
Theorem C18_bodyless_classes : forall cl, In cl classes ->
  (c_empty cl = true <-> c_code cl = 204 \/ c_code cl = 205 \/ c_code cl = 304).
Proof. exact bodyless_classes. Qed.
Print Assumptions C18_bodyless_classes.

(* a body the application supplied - empty or not - is sent as is *)
Theorem C18_explicit_body_as_is : forall cfg cl i a b, rs_body (call cfg cl i a false (Some b)) = Some b.
Proof. exact call_explicit. Qed.
Print Assumptions C18_explicit_body_as_is.

Theorem C18_otherwise_generated : forall cfg cl i a,
  c_empty cl = false -> call cfg cl i a false None = generate cfg cl i a.
Proof. exact call_generated. Qed.
Print Assumptions C18_otherwise_generated.

(* ------------------------------------------------------------------ one instance, many requests *)
(* the responses of any history of calls on ONE exception instance (whose header list loses Content-Length
   whenever a body is generated, and which carries the location resolved for a request only while serving it) are exactly those of fresh, identically constructed instances: the response
   is a function of the class data, the constructor arguments and the request only *)
Theorem C18_history_stateless : forall cfg cl d c ex hs rs,
  history cfg cl d c ex hs rs =
  map (fun r => call cfg cl (mkInp d c (with_location hs (q_location r)) (q_environ r))
                     (q_accept r) (q_head r) ex) rs.
Proof. exact history_stateless. Qed.
Print Assumptions C18_history_stateless.

(* ------------------------------------------------------------------ status line, status_map *)
Theorem C18_status_line : forall cfg cl i a hd ex,
  rs_status (call cfg cl i a hd ex) = dec (c_code cl) ++ 32 :: c_title cl.
Proof. exact call_status. Qed.
Print Assumptions C18_status_line.

(* the construction loop, run on the regenerated class table, yields the live dict *)
Theorem C18_status_map_construction : build_status_map classes = status_map_live.
Proof. exact status_map_built. Qed.
Print Assumptions C18_status_map_construction.

(* every class that belongs in status_map is found under its own code ... *)
Theorem C18_status_map_classes : forall cl, In cl classes -> in_status_map cl = true ->
  map_get (c_code cl) status_map_live = Some (c_name cl).
Proof. exact status_map_classes. Qed.
Print Assumptions C18_status_map_classes.

(* ... every entry is a class with that code ... *)
Theorem C18_status_map_entries : forall k nm, In (k, nm) status_map_live ->
  exists cl, In cl classes /\ c_name cl = nm /\ c_code cl = k /\ in_status_map cl = true.
Proof. exact status_map_entries. Qed.
Print Assumptions C18_status_map_entries.

(* ... and no two such classes share a code *)
Theorem C18_status_map_codes_unique : forall c1 c2, In c1 classes -> In c2 classes ->
  in_status_map c1 = true -> in_status_map c2 = true -> c_code c1 = c_code c2 -> c_name c1 = c_name c2.
Proof. exact status_map_codes_unique. Qed.
Print Assumptions C18_status_map_codes_unique.

(* ------------------------------------------------------------------ JSON and plain text *)
(* the JSON text is accepted by the reference decoder and decodes to exactly the dict it was made from
   (texts of Unicode scalar values); it is printable ASCII *)
Theorem C18_json_roundtrip : forall l, l <> [] -> forallb pair_scalar l = true ->
  jobject (json_dumps l) = Some l.
Proof. exact json_roundtrip. Qed.
Print Assumptions C18_json_roundtrip.

Example C18_json_roundtrip_nontrivial :
  forallb pair_scalar [(A "message", [60; 34; 92; 10; 233; 8364; 128512]); (A "code", A "404 Not Found")] = true.
Proof. reflexivity. Qed.

Theorem C18_json_string_ascii : forall s, Forall (fun d => 32 <= d <= 126) (jstr s).
Proof. exact jstr_printable. Qed.
Print Assumptions C18_json_string_ascii.

(* the plain-text stripper cannot be tricked: no  <  is followed anywhere later by  >  *)
Theorem C18_strip_tags_no_tag : forall v, no_tag (strip_tags v) = true.
Proof. exact strip_tags_no_tag. Qed.
Print Assumptions C18_strip_tags_no_tag.

Theorem C18_no_tag_meaning : forall t, no_tag t = true -> forall a b, t = a ++ 60 :: b -> has_gt b = false.
Proof. exact no_tag_spec. Qed.
Print Assumptions C18_no_tag_meaning.
