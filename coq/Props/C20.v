(* C20 — HTTP wire forms round-trip; sub-requests return exactly what the app sent.
   Property theorems only: each is closed by [exact] of a lemma proved in Proofs/, followed by
   Print Assumptions.  The vocabulary (wf_request, body_consistent, good_status, good_headers,
   declared_length, cl_last, events_lost, ...) is defined in Spec/C20_spec.v; the functions are the
   executable models in Model/C20_wire.v and Model/C20_callapp.v. *)
From Coq Require Import ZArith NArith List Bool Lia.
Require Import Webob.Lib.Val Webob.Lib.PyStr Webob.Model.C20_wire Webob.Model.C20_callapp
               Webob.Spec.C20_spec Webob.Proofs.C20_lib Webob.Proofs.C20_request
               Webob.Proofs.C20_response Webob.Proofs.C20_callapp Webob.Proofs.C20_keys.
From Coq Require String.
Import String.StringSyntax.
Import ListNotations.
Local Open Scope string_scope.
Local Open Scope list_scope.
Local Open Scope N_scope.

(* ======================================================================= requests *)

(* Request.from_bytes (req.as_bytes ()) — for EVERY well-formed request (any method token, any
   script/path octets, any query string, any set of header entries with tight ASCII values, any
   body octets): the serialisation is head [+ CRLF CRLF body]; parsing it back succeeds, consumes
   all of it, and yields the same method, URL, HTTP version, the same header items (sorted, with a
   "Content-Length: 0" added only when there was none) and the same body. *)
Theorem C20_request_roundtrip : forall e,
  wf_request e -> body_consistent e ->
  exists b e1,
    as_bytes SkipNo e = Ok (b, e1) /\
    (e1 = e \/ e1 = set_body e (body_of e)) /\
    b = request_head e1 ++ match body_of e with [] => [] | _ => CRLF ++ CRLF ++ body_of e end /\
    exists e',
      from_bytes b = Ok e' /\
      e_method e' = e_method e /\ url e' = url e /\ e_proto e' = e_proto e /\
      hdr_items (e_hdrs e') = reparsed_items e1 /\
      acquire e' = Ok (e', body_of e).
Proof. exact request_roundtrip_full. Qed.
Print Assumptions C20_request_roundtrip.

(* reading the body leaves a well-formed request whose Content-Length is truthful *)
Theorem C20_request_body_state : forall e, body_consistent e ->
  exists e1, acquire e = Ok (e1, body_of e) /\ settled e1 (body_of e) /\
             (e1 = e \/ e1 = set_body e (body_of e)).
Proof. exact acquire_consistent. Qed.
Print Assumptions C20_request_body_state.

Theorem C20_request_wf_preserved : forall e e1 body,
  wf_request e -> acquire e = Ok (e1, body) -> wf_request e1.
Proof. exact wf_request_acquire. Qed.
Print Assumptions C20_request_wf_preserved.

(* from_file consumes exactly the serialised bytes: whatever follows a non-empty body stays in
   the file, and from_bytes reports it as an error *)
Theorem C20_request_consumed_exactly : forall e e1 body extra,
  acquire e = Ok (e1, body) -> wf_request e1 -> settled e1 body -> body <> [] ->
  exists b,
    as_bytes SkipNo e = Ok (b, e1) /\
    req_from_file false conv_id one_byte (b ++ extra) = Ok (reparsed e1 body, extra) /\
    (extra <> [] -> from_bytes (b ++ extra) = Er e_Value).
Proof. exact request_consumed_exactly. Qed.
Print Assumptions C20_request_consumed_exactly.

(* what the re-parsed request shows *)
Theorem C20_request_reparsed_observations : forall e1 body,
  wf_request e1 -> settled e1 body ->
  e_method (reparsed e1 body) = e_method e1 /\
  url (reparsed e1 body) = url e1 /\
  e_proto (reparsed e1 body) = e_proto e1 /\
  hdr_items (e_hdrs (reparsed e1 body)) = reparsed_items e1 /\
  acquire (reparsed e1 body) = Ok (reparsed e1 body, body).
Proof. exact reparsed_observations. Qed.
Print Assumptions C20_request_reparsed_observations.

(* text file objects: the same head followed by the body as text t whose encoding (cw c bytes per
   character, e.g. utf8_width) is exactly the body — followed by anything: the Content-Length is
   honoured in BYTES, so a text file is consumed exactly too *)
Theorem C20_request_text_roundtrip : forall conv cw e1 body t extra,
  wf_request e1 -> settled e1 body -> body <> [] -> conv t = Ok body ->
  sane_widths cw t -> text_width cw t = length body ->
  req_from_file true conv cw (request_head e1 ++ CRLF ++ CRLF ++ t ++ extra) = Ok (reparsed e1 body, extra).
Proof. exact request_text_roundtrip. Qed.
Print Assumptions C20_request_text_roundtrip.

Theorem C20_request_text_roundtrip_nobody : forall conv cw e1,
  wf_request e1 -> settled e1 [] -> conv [] = Ok [] ->
  req_from_file true conv cw (request_head e1) = Ok (reparsed e1 [], []).
Proof. exact request_text_roundtrip_nobody. Qed.
Print Assumptions C20_request_text_roundtrip_nobody.

(* as_bytes(skip_body=True) omits only the body; as_bytes(skip_body=k) keeps a body of <= k bytes *)
Theorem C20_skip_body_omits_only_body : forall e, as_bytes SkipAll e = Ok (request_head e, e).
Proof. exact skip_body_head. Qed.
Print Assumptions C20_skip_body_omits_only_body.

Theorem C20_skip_body_threshold : forall e e1 body k,
  acquire e = Ok (e1, body) -> (length body <= k)%nat ->
  as_bytes (SkipOver k) e = as_bytes SkipNo e.
Proof. exact skip_body_threshold. Qed.
Print Assumptions C20_skip_body_threshold.

(* one Request object serialised again: the same bytes, and no further change of the request
   (as_bytes(skip_body=True) never changes it: C20_skip_body_omits_only_body) *)
Theorem C20_as_bytes_repeatable : forall e b e1,
  as_bytes SkipNo e = Ok (b, e1) -> as_bytes SkipNo e1 = Ok (b, e1).
Proof. exact as_bytes_repeatable. Qed.
Print Assumptions C20_as_bytes_repeatable.

Theorem C20_body_rereadable : forall e e1 body, acquire e = Ok (e1, body) -> acquire e1 = Ok (e1, body).
Proof. exact acquire_idempotent. Qed.
Print Assumptions C20_body_rereadable.

(* the header-entry hypothesis holds for every key a WSGI server builds (HTTP_ + [A-Z0-9_]+,
   CONTENT_TYPE, CONTENT_LENGTH) with any tight ASCII value *)
Theorem C20_cgi_keys_are_wf : forall k v, cgi_header_key k -> good_hvalue v -> wf_entry (k, v).
Proof. exact cgi_key_wf_entry. Qed.
Print Assumptions C20_cgi_keys_are_wf.

(* the two codecs the round trip rests on *)
Theorem C20_unquote_quote : forall bs, Forall (fun c => c < 256) bs -> url_unquote (url_quote bs) = bs.
Proof. exact unquote_quote. Qed.
Print Assumptions C20_unquote_quote.

Theorem C20_int_of_str : forall n, py_int (dec n) = Some (Z.of_N n).
Proof. exact py_int_dec. Qed.
Print Assumptions C20_int_of_str.

(* ======================================================================= responses *)

(* Response.from_file applied to the wire form of ANY response with a declared length — any
   "NNN reason" status, any header list (repeated names, latin-1 values, colons/commas/semicolons/
   inner blanks), any body octets (CRLFCRLF, invalid UTF-8) — followed by anything: the same
   status, the same header list with Content-Length moved last, the same body, and exactly the
   trailing data left in the file.  Holds for binary files (text = false) and, the stream being
   a list of code points, for the latin-1 text view of the same bytes (text = true). *)
Theorem C20_response_roundtrip : forall text r trailing,
  good_status (r_status r) -> good_headers (r_headers r) -> declared_length r ->
  resp_from_file text conv_id one_byte (resp_wire r ++ trailing) = Ok (cl_last r, trailing).
Proof. exact response_wire_roundtrip. Qed.
Print Assumptions C20_response_roundtrip.

(* text file objects: head, then the body as text t whose encoding is the body, then anything *)
Theorem C20_response_roundtrip_text : forall conv cw r t trailing,
  good_status (r_status r) -> good_headers (r_headers r) -> declared_length r ->
  conv t = Ok (r_body r) -> sane_widths cw t -> text_width cw t = length (r_body r) ->
  resp_from_file true conv cw (wire_head r ++ t ++ trailing) = Ok (cl_last r, trailing).
Proof. exact response_wire_roundtrip_text. Qed.
Print Assumptions C20_response_roundtrip_text.

(* Response.__str__ : str(resp) read back from a text file, or from a binary file when the
   status is ASCII *)
Theorem C20_response_str_roundtrip : forall text conv cw r t,
  good_status (r_status r) -> good_headers (r_headers r) -> declared_length r ->
  (text = false -> ascii_only (r_status r) = true) ->
  conv t = Ok (r_body r) -> conv [] = Ok [] -> sane_widths cw t -> text_width cw t = length (r_body r) ->
  resp_from_file text conv cw (resp_str r t) = Ok (cl_last r, []).
Proof. exact response_str_roundtrip. Qed.
Print Assumptions C20_response_str_roundtrip.

(* the contract of util.read_text_body, modelled loop for loop (read max(1, missing // 4) more
   characters while bytes are missing): from a file holding t ++ u, asked for the number of bytes
   t encodes to, it returns exactly t and leaves u — for every text whose characters take 1..4
   bytes; the chunk never reaches into u BECAUSE no character is wider than the divisor *)
Theorem C20_read_text_body_exact : forall cw t u,
  sane_widths cw t -> read_text cw (text_width cw t) (t ++ u) = (t, u).
Proof. exact read_text_exact. Qed.
Print Assumptions C20_read_text_body_exact.

(* ... and the bound is sharp: with characters of 5 bytes the same loop over-reads (so does a
   divisor of 3 with 4-byte characters in the implementation) *)
Example C20_read_text_body_needs_the_bound :
  read_text (fun _ => 5%nat) 20 ([1; 2; 3; 4] ++ [9]) = ([1; 2; 3; 4; 9], []).
Proof. vm_compute. reflexivity. Qed.

(* utf-8, the encoding of Request text files, has sane widths *)
Theorem C20_utf8_widths : forall t, sane_widths utf8_width t.
Proof. exact utf8_width_sane. Qed.
Print Assumptions C20_utf8_widths.

(* ======================================================================= sub-requests *)

(* For EVERY application script (any interleaving of start_response / write / yield, any shape of
   iterable) outside the known-finding region, with no raising event: call_application returns the
   status, headers and exc_info of the last start_response and exactly the bytes written and
   yielded, in order; it has closed the iterable iff it consumed it, and otherwise hands the
   application's own iterable back. *)
Theorem C20_call_application : forall catch a st h exc,
  events_lost a = false ->
  first_raise catch (all_events a) = None ->
  last_start (all_events a) None = Some (st, h, exc) ->
  exists chunks,
    call_application catch a =
      Returned st h chunks exc (webob_consumes a && a_close a) (negb (webob_consumes a)) None
    /\ concat chunks = spec_body (all_events a).
Proof. exact call_application_returns. Qed.
Print Assumptions C20_call_application.

Theorem C20_get_response : forall catch a st h exc,
  events_lost a = false ->
  first_raise catch (all_events a) = None ->
  last_start (all_events a) None = Some (st, h, exc) ->
  send catch a = Sent st h (spec_body (all_events a)) (a_close a).
Proof. exact send_returns. Qed.
Print Assumptions C20_get_response.

(* exceptions: raised by the application, or passed as exc_info without catch_exc_info — the
   application's own exception propagates; the iterable is closed if webob was consuming it *)
Theorem C20_call_application_raise_in_call : forall catch a x,
  first_raise catch (map IEv (a_call a)) = Some x ->
  call_application catch a = Raised x false.
Proof. exact call_application_raise_in_call. Qed.
Print Assumptions C20_call_application_raise_in_call.

Theorem C20_call_application_raise_in_iter : forall catch a x,
  first_raise catch (map IEv (a_call a)) = None ->
  webob_consumes a = true ->
  first_raise catch (a_items a) = Some x ->
  call_application catch a = Raised x (a_close a).
Proof. exact call_application_raise_in_iter. Qed.
Print Assumptions C20_call_application_raise_in_iter.

Theorem C20_call_application_raise_in_own_iter : forall catch a st h exc,
  first_raise catch (map IEv (a_call a)) = None ->
  webob_consumes a = false ->
  forallb quiet (a_items a) = true ->
  last_start (map IEv (a_call a)) None = Some (st, h, exc) ->
  call_application catch a =
    Returned st h (fst (yields_before_raise (a_items a))) exc false true
             (snd (yields_before_raise (a_items a))).
Proof. exact call_application_raise_in_own_iter. Qed.
Print Assumptions C20_call_application_raise_in_own_iter.

(* with catch_exc_info an exc_info is captured, never raised *)
Theorem C20_catch_exc_info_captures : forall its,
  (forall x, ~ In (IEv (ERaise x)) its) -> first_raise true its = None.
Proof. exact catch_never_raises_exc_info. Qed.
Print Assumptions C20_catch_exc_info_captures.

Theorem C20_call_application_no_start_response : forall catch a,
  first_raise catch (all_events a) = None ->
  last_start (all_events a) None = None ->
  call_application catch a = Failed (A "IndexError") (a_close a).
Proof. exact call_application_no_start. Qed.
Print Assumptions C20_call_application_no_start_response.

(* the excluded region is a genuine loss (KNOWN finding): start_response eagerly, write() only
   from inside the iterable — the written byte never reaches the caller *)
Theorem C20_call_application_lazy_write_refuted :
  events_lost lazy_writer = true /\
  first_raise false (all_events lazy_writer) = None /\
  spec_body (all_events lazy_writer) = [97; 98] /\
  call_application false lazy_writer = Returned (A "200 OK") [] [[98]] None false true None /\
  send false lazy_writer = Sent (A "200 OK") [] [98] false.
Proof. exact call_application_lazy_write_refuted. Qed.
Print Assumptions C20_call_application_lazy_write_refuted.

(* ======================================================================= the hypotheses are satisfiable *)
Ltac chars := apply Forall_forall; intros c Hc; cbn in Hc;
              repeat (destruct Hc as [<-|Hc]; [unfold vis; lia|]); contradiction.
Ltac notin := intros Hin; cbn in Hin;
              repeat (destruct Hin as [Hin|Hin]; [vm_compute in Hin; discriminate|]); contradiction.

(* Post /app/%C3%A9?q=1&r=%20x HTTP/1.1 (a method is a case-sensitive token) with a body made of CRLFCRLF and bytes that are not UTF-8 *)
Definition ex_env : env :=
  mkEnv (A "Post") (A "/app") [47; 195; 169] (A "q=1&r=%20x") (A "HTTP/1.1") (A "http") (A "localhost") (A "80")
        [(A "HTTP_HOST", A "example.com:8080"); (A "CONTENT_LENGTH", A "6");
         (A "HTTP_X_FOO", A "a: b, c; d  e"); (A "CONTENT_TYPE", A "text/plain; charset=utf-8")]
        [13; 10; 13; 10; 255; 58] true false.

Example C20_request_hypotheses_hold : wf_request ex_env /\ body_consistent ex_env.
Proof.
  split; [|vm_compute; reflexivity].
  constructor; cbn [ex_env e_method e_proto e_scheme e_hdrs e_script e_path e_qs].
  - split; [discriminate|chars].
  - split; [discriminate|chars].
  - reflexivity.
  - eexists. vm_compute. reflexivity.
  - split; [eexists; reflexivity|chars].
  - chars.
  - split.
    + unfold keys. cbn [map fst]. repeat (constructor; [notin|]). constructor.
    + repeat constructor;
        (eexists; cbn [fst snd]; split; [vm_compute; reflexivity|];
         split; [split; [discriminate|chars]|];
         split; [vm_compute; reflexivity|];
         split; [chars|vm_compute; reflexivity]).
Qed.

(* and on it the model computes the expected serialisation (sorted headers, CRLF framing) *)
Example C20_request_example_bytes :
  option_map fst (match as_bytes SkipNo ex_env with Ok p => Some p | Er _ => None end) =
  Some (A "Post /app/%C3%A9?q=1&r=%20x HTTP/1.1" ++ CRLF ++ A "Content-Length: 6" ++ CRLF ++
        A "Content-Type: text/plain; charset=utf-8" ++ CRLF ++ A "Host: example.com:8080" ++ CRLF ++
        A "X-Foo: a: b, c; d  e" ++ CRLF ++ CRLF ++ [13; 10; 13; 10; 255; 58]).
Proof. vm_compute. reflexivity. Qed.

(* the two recorded findings about the URL, as computations on the model: the wire form carries
   neither the scheme nor — when the request has no Host header — the host *)
Definition ex_env_https : env :=
  mkEnv (A "GET") [] (A "/x") [] (A "HTTP/1.0") (A "https") (A "example.com") (A "443")
        [(A "HTTP_HOST", A "example.com:443")] [] true false.
Definition ex_env_nohost : env :=
  mkEnv (A "GET") [] (A "/x") [] (A "HTTP/1.0") (A "http") (A "example.com") (A "8080") [] [] true false.

Definition url_after_roundtrip (e : env) : option str :=
  match as_bytes SkipNo e with
  | Ok (b, _) => match from_bytes b with Ok e' => Some (url e') | Er _ => None end
  | Er _ => None
  end.

Theorem C20_request_url_scheme_and_host_not_carried_refuted :
  url ex_env_https = A "https://example.com/x" /\ url_after_roundtrip ex_env_https = Some (A "http://example.com:443/x") /\
  url ex_env_nohost = A "http://example.com:8080/x" /\ url_after_roundtrip ex_env_nohost = Some (A "http://localhost/x").
Proof. repeat split; vm_compute; reflexivity. Qed.
Print Assumptions C20_request_url_scheme_and_host_not_carried_refuted.

(* a request with an empty path is written with the target "/" and comes back with it *)
Example C20_empty_path_example :
  let e := mkEnv (A "GET") [] [] [] (A "HTTP/1.0") (A "http") (A "localhost") (A "80")
                 [(A "HTTP_HOST", A "localhost:80")] [] true false in
  url e = A "http://localhost" /\ url_after_roundtrip e = Some (A "http://localhost/").
Proof. split; vm_compute; reflexivity. Qed.

(* a response with a repeated name, a latin-1 value ending in NBSP, a lower-case content-length in
   the middle and a body of CRLFCRLF + invalid UTF-8 *)
Definition ex_resp : resp :=
  mkResp (A "404 Not  Found")
         [(A "Set-Cookie", A "a=1; Path=/"); (A "content-length", A "6");
          (A "Set-Cookie", A "b=2, c: d"); (A "X-L", [99; 97; 102; 233; 160])]
         [13; 10; 13; 10; 255; 0].

Example C20_response_hypotheses_hold :
  good_status (r_status ex_resp) /\ good_headers (r_headers ex_resp) /\ declared_length ex_resp.
Proof.
  split; [|split; [|vm_compute; reflexivity]].
  - exists (A "404"), (A "Not  Found"). split; [reflexivity|]. split; [discriminate|].
    split; [repeat constructor|]. split; [discriminate|]. split; [|reflexivity].
    apply Forall_forall; intros c Hc; cbn in Hc; repeat (destruct Hc as [<-|Hc]; [discriminate|]); contradiction.
  - repeat constructor; cbn [fst snd]; try discriminate; try reflexivity;
      try (apply Forall_forall; intros c Hc; cbn in Hc;
           repeat (destruct Hc as [<-|Hc]; [try split; discriminate|]); contradiction).
Qed.

(* an application that writes eagerly and yields lazily, with close(): inside the theorem *)
Definition ex_app : app :=
  mkApp [EStart (A "200 OK") [(A "X-A", A "1")] None; EWrite [119]]
        [IYield [121]; IEv (EWrite [118]); IYield []] true.

Example C20_call_application_hypotheses_hold :
  events_lost ex_app = false /\ first_raise false (all_events ex_app) = None /\
  last_start (all_events ex_app) None = Some (A "200 OK", [(A "X-A", A "1")], None) /\
  spec_body (all_events ex_app) = [119; 121; 118].
Proof. repeat split; reflexivity. Qed.
