From Coq Require Import ZArith NArith List Bool.
Require Import Webob.Lib.Val Webob.Lib.PyStr Webob.Model.C05_AcceptLang.
Import ListNotations.
Theorem C05_placeholder : basic_filtering_nohdr [] = [].
Proof. exact eq_refl. Qed.
Print Assumptions C05_placeholder.
