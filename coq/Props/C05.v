(* C05 — Accept-Language basic filtering and lookup implement RFC 4647.
   Property theorems only; each is closed by [exact] of a lemma proved in Proofs/, followed by
   Print Assumptions.  Model: Model/C05_AcceptLang.v (tied to webob by the correspondence check);
   vocabulary of the statements: Spec/C05_Rfc4647.v. *)
From Coq Require Import ZArith NArith List Bool Sorted Permutation String.
Require Import Webob.Lib.Val Webob.Lib.PyStr Webob.Model.C05_AcceptLang Webob.Spec.C05_Rfc4647
               Webob.Proofs.C05_sort Webob.Proofs.C05_lookup Webob.Proofs.C05_filtering.
Import ListNotations.
Local Open Scope N_scope.

(* ===================================================================== basic filtering *)
(* For every parsed header and every offered list, the result is the list of rows (offer index,
   quality, header position) such that
   - exactly the offers governed by the header appear (each offer position at most once): an offer
     is governed with (q, pos) iff no q=0 range matches it under RFC 4647 3.3.1 and (q, pos) belong
     to its best non-zero matching range, or to '*' when no other range matches it;
   - rows are ordered by quality descending, then header position, then offer position;
   - each row is returned as (the offered tag in its original spelling, quality). *)
Theorem C05_basic_filtering_spec : forall p tags,
  exists rows : list tag_row,
    basic_filtering p tags = map (fun x => (nth (tr_idx x) tags [], tr_q x)) rows /\
    NoDup (map tr_idx rows) /\
    (forall i q pos, In (i, q, pos) rows <-> exists t, nth_error tags i = Some t /\ governs p t q pos) /\
    StronglySorted row_before rows.
Proof. exact basic_filtering_spec. Qed.
Print Assumptions C05_basic_filtering_spec.

Theorem C05_basic_filtering_sound : forall p tags t q,
  In (t, q) (basic_filtering p tags) -> exists i pos, nth_error tags i = Some t /\ governs p t q pos.
Proof. exact basic_filtering_sound. Qed.
Print Assumptions C05_basic_filtering_sound.

Theorem C05_basic_filtering_complete : forall p tags i t q pos,
  nth_error tags i = Some t -> governs p t q pos -> In (t, q) (basic_filtering p tags).
Proof. exact basic_filtering_complete. Qed.
Print Assumptions C05_basic_filtering_complete.

(* the quality and position an offer carries are determined by the header *)
Theorem C05_governs_functional : forall p t q pos q' pos',
  governs p t q pos -> governs p t q' pos' -> q = q' /\ pos = pos'.
Proof. exact governs_functional. Qed.
Print Assumptions C05_governs_functional.

(* a range has one first occurrence: "the" quality and position of a range are well defined *)
Theorem C05_first_occurrence_unique : forall p pos r0 q pos' r0' q',
  first_occurrence p pos r0 q -> first_occurrence p pos' r0' q' -> lower r0 = lower r0' ->
  pos = pos' /\ q = q' /\ r0 = r0'.
Proof. exact first_occurrence_unique. Qed.
Print Assumptions C05_first_occurrence_unique.

(* the implementation's match(tag, range_) on lower-cased text is RFC 4647 3.3.1 matching *)
Theorem C05_match_is_rfc4647_331 : forall r t, bf_match (lower t) (lower r) = true <-> matches331 r t.
Proof. exact bf_match_spec. Qed.
Print Assumptions C05_match_is_rfc4647_331.

Example C05_basic_filtering_example :
  basic_filtering [(txt "a-B", 0); (txt "A", 500); (txt "*", 200); (txt "c", 500); (txt "a", 900)]
                  [txt "a-b-c"; txt "C-x"; txt "zz"; txt "A-c"; txt "a"] =
  [(txt "A-c", 500); (txt "a", 500); (txt "C-x", 500); (txt "zz", 200)].
Proof. vm_compute. reflexivity. Qed.

(* ===================================================================== lookup *)
(* lookup is: argument errors; else the first hit over the header's candidates (ranges in
   descending quality, each followed by its RFC 4647 3.4 truncations; within one candidate the
   offers in offered order; an offer hits when its lower-cased text equals the candidate and is not
   listed with q=0); else, unless '*;q=0' is present, the same search over default_range's
   truncations, then default_tag unless listed with q=0; else default.  Out-of-fuel cannot happen. *)
Theorem C05_lookup_spec : forall p tags default_range default_tag dflt_none,
  lookup p tags default_range default_tag dflt_none =
  lookup_spec p tags default_range default_tag dflt_none.
Proof. exact lookup_is_spec. Qed.
Print Assumptions C05_lookup_spec.

Theorem C05_lookup_never_out_of_fuel : forall p tags dr dt dn, lookup p tags dr dt dn <> LFuel.
Proof. exact lookup_never_fuel. Qed.
Print Assumptions C05_lookup_never_out_of_fuel.

(* what "first hit" means: lexicographic order (candidate position, offered position) *)
Theorem C05_first_hit_order : forall zero cands tags t,
  first_hit zero cands tags = Some t ->
  exists k i c, nth_error cands k = Some c /\ nth_error tags i = Some t /\ hits zero c t /\
    (forall i' t', (i' < i)%nat -> nth_error tags i' = Some t' -> ~ hits zero c t') /\
    (forall k' c' t', (k' < k)%nat -> nth_error cands k' = Some c' -> In t' tags -> ~ hits zero c' t').
Proof. exact first_hit_some. Qed.
Print Assumptions C05_first_hit_order.

Theorem C05_first_hit_none : forall zero cands tags,
  first_hit zero cands tags = None <-> forall c t, In c cands -> In t tags -> ~ hits zero c t.
Proof. exact first_hit_none. Qed.
Print Assumptions C05_first_hit_none.

Theorem C05_first_hit_unique : forall zero cands tags k i c t k2 i2 c2 t2,
  nth_error cands k = Some c -> nth_error tags i = Some t -> hits zero c t ->
  (forall i' t', (i' < i)%nat -> nth_error tags i' = Some t' -> ~ hits zero c t') ->
  (forall k' c' t', (k' < k)%nat -> nth_error cands k' = Some c' -> In t' tags -> ~ hits zero c' t') ->
  nth_error cands k2 = Some c2 -> nth_error tags i2 = Some t2 -> hits zero c2 t2 ->
  (forall i' t', (i' < i2)%nat -> nth_error tags i' = Some t' -> ~ hits zero c2 t') ->
  (forall k' c' t', (k' < k2)%nat -> nth_error cands k' = Some c' -> In t' tags -> ~ hits zero c' t') ->
  t = t2.
Proof. exact first_hit_unique. Qed.
Print Assumptions C05_first_hit_unique.

(* the range priority: the non-'*', non-zero ranges, by descending quality, ties in header order *)
Theorem C05_priority_order : forall p,
  Permutation (priority p) (nonzero_ranges p) /\
  StronglySorted (fun x y : str * N => snd y <= snd x) (priority p) /\
  (forall q, filter (fun e : str * N => snd e =? q) (priority p) =
             filter (fun e => snd e =? q) (nonzero_ranges p)).
Proof. exact (fun p => conj (priority_perm p) (conj (priority_sorted p) (priority_stable p))). Qed.
Print Assumptions C05_priority_order.

(* the truncation loop of best_match tries exactly the RFC 4647 3.4 truncations of the range, in
   order, and stops at the first hit (for every range text, tag list and q=0 list) *)
Theorem C05_best_match_truncations : forall zero tags r,
  best_match zero tags (map lower tags) r = res_of (first_hit zero (truncations r) tags).
Proof. exact best_match_spec. Qed.
Print Assumptions C05_best_match_truncations.

(* RFC 4647 3.4 truncation, subtag by subtag: the last subtag is dropped, and a single letter or
   digit subtag in front of it is dropped with it; an emptied range ends the search *)
Theorem C05_truncation_singleton : forall pre b l,
  truncation_seqs [] = [] /\
  truncation_seqs [l] = [[l]] /\
  truncation_seqs (pre ++ [b; l]) =
    (pre ++ [b; l]) :: (if singleton b then truncation_seqs pre else truncation_seqs (pre ++ [b])).
Proof.
  exact (fun pre b l => conj truncation_seqs_nil (conj (truncation_seqs_one l) (truncation_seqs_step pre b l))).
Qed.
Print Assumptions C05_truncation_singleton.

Theorem C05_truncations_start_with_range : forall r, exists rest, truncations r = r :: rest.
Proof. exact truncations_head. Qed.
Print Assumptions C05_truncations_start_with_range.

Example C05_truncation_rfc_example :
  truncations (txt "zh-hant-cn-x-private1-private2") =
  [txt "zh-hant-cn-x-private1-private2"; txt "zh-hant-cn-x-private1"; txt "zh-hant-cn"; txt "zh-hant"; txt "zh"].
Proof. vm_compute. reflexivity. Qed.

Example C05_truncation_singleton_first : truncations (txt "x-private") = [txt "x-private"].
Proof. vm_compute. reflexivity. Qed.

(* a returned str is an offered tag (original spelling) or default_tag, and is never listed with
   q=0 (in any spelling) *)
Theorem C05_lookup_result_sound : forall p tags dr dt dn t,
  lookup p tags dr dt dn = LTag t -> (In t tags \/ dt = Some t) /\ ~ In (lower t) (zero_ranges p).
Proof. exact lookup_tag_sound. Qed.
Print Assumptions C05_lookup_result_sound.

Theorem C05_zero_ranges : forall p z,
  In z (zero_ranges p) <-> exists r, In (r, 0) p /\ r <> star /\ lower r = z.
Proof. exact zero_ranges_In. Qed.
Print Assumptions C05_zero_ranges.

(* '*;q=0' suppresses default_range and default_tag *)
Theorem C05_star_q0_suppresses_defaults : forall p tags dr dt dn,
  star_q0 p = true -> first_hit (zero_ranges p) (header_candidates p) tags = None ->
  lookup p tags dr dt dn = LDefault \/ lookup p tags dr dt dn = LTypeError \/
  lookup p tags dr dt dn = LValueError.
Proof. exact lookup_star_q0. Qed.
Print Assumptions C05_star_q0_suppresses_defaults.

Theorem C05_lookup_argument_errors : forall p tags dr dt dn,
  (lookup p tags dr dt dn = LTypeError <-> (dt = None /\ dn = true)) /\
  (lookup p tags dr dt dn = LValueError <-> (~ (dt = None /\ dn = true) /\ dr = Some star)).
Proof. exact lookup_errors. Qed.
Print Assumptions C05_lookup_argument_errors.

Example C05_lookup_example_header :
  lookup [(txt "de", 500); (txt "EN-gb-x-a", 800); (txt "en-GB", 0); (txt "*", 900)]
         [txt "De"; txt "en-gb"; txt "EN"] None (Some (txt "fallback")) false = LTag (txt "EN").
Proof. vm_compute. reflexivity. Qed.

Example C05_lookup_example_default_range :
  lookup [(txt "en-gb", 0)] [txt "en-GB"; txt "En"] (Some (txt "en-gb-oed")) (Some (txt "en-gb")) false
  = LTag (txt "En").
Proof. vm_compute. reflexivity. Qed.

Example C05_lookup_example_star_q0 :
  lookup [(txt "fr", 1000); (txt "*", 0)] [txt "en"] (Some (txt "en")) (Some (txt "en")) false = LDefault.
Proof. vm_compute. reflexivity. Qed.

(* ===================================================================== histories on one object *)
(* In the model a header object's state is its parsed list and no method writes it: the i-th answer of
   any history of basic_filtering / lookup calls on one object is the answer of that call alone, and
   `.parsed` reads the same after every call.  (That the real methods leave the object alone is what the
   `history` correspondence and the history oracle check on every run.) *)
Theorem C05_history_pure : forall p ops i o,
  nth_error ops i = Some o ->
  nth_error (run_history p ops) i = Some (VList [hop_answer p o; parsed_val p]).
Proof. exact run_history_nth. Qed.
Print Assumptions C05_history_pure.

(* ===================================================================== invalid / missing header *)
Theorem C05_invalid_header : forall (tags : list str) dt dn,
  basic_filtering_nohdr tags = [] /\
  lookup_nohdr dt dn = match dt with
                       | Some t => LTag t
                       | None => if dn then LTypeError else LDefault
                       end.
Proof. exact nohdr_spec. Qed.
Print Assumptions C05_invalid_header.
