(* C14 — A scheme-less Location is always resolved to the request's own origin.
   Property theorems only: each is closed by [exact] of a lemma proved in Proofs/, followed by
   Print Assumptions.  The model is of the REPAIRED code (fixes/C14-*.patch).

   Reading guide (Spec/C14_origin.v):
     env_ok e          wsgi.url_scheme is http/https; the request host (HTTP_HOST, else
                       SERVER_NAME:SERVER_PORT) is printable ASCII without / ? # \ [ ] and not empty
                       once the default port is dropped; SCRIPT_NAME / PATH_INFO are empty or start
                       with '/' (PATH_INFO may start with '//')
     same_origin e r   r = scheme "://" host[:port] followed by nothing or by one of / ? #
     has_alpha_scheme  the value starts with <ASCII letter>+ ':'  (what SCHEME_RE tests, see below) *)
From Coq Require Import NArith List Bool.
Require Import Webob.Lib.Val Webob.Lib.PyStr Webob.Lib.Rx
               Webob.Model.C14_urlsplit Webob.Model.C14_location Webob.Spec.C14_origin
               Webob.Gen.C14_regexes
               Webob.Proofs.C14_urljoin Webob.Proofs.C14_location Webob.Proofs.C14_regex Webob.Proofs.C14_origin
               Webob.Proofs.C14_move Webob.Proofs.C14_total.
Import ListNotations.
Local Open Scope N_scope.

(* ---- Response._make_location_absolute: ANY value without an <alpha>+: scheme — leading '//',
   backslashes, leading whitespace or controls, TAB/CR/LF anywhere, dot segments, colons, any
   mixture, any length — comes out as scheme://request-host followed by / ? # or nothing *)
Theorem C14_same_origin : forall e v, env_ok e -> has_alpha_scheme v = false ->
  exists r, make_location_absolute e v = JOk r /\ same_origin e r.
Proof. exact make_abs_same_origin. Qed.
Print Assumptions C14_same_origin.

Example C14_env_ok_example : env_ok env_example.
Proof. exact env_example_ok. Qed.

(* ... and an independent WHATWG-style splitter (strip C0/space, drop TAB CR LF, backslash = slash)
   reads exactly the request's scheme and host[:port] out of it *)
Theorem C14_same_origin_whatwg : forall e v, env_ok e -> has_alpha_scheme v = false ->
  exists r, make_location_absolute e v = JOk r /\ origin_of r = Some (e_scheme e, req_netloc e).
Proof. exact make_abs_origin_of. Qed.
Print Assumptions C14_same_origin_whatwg.

(* ---- a value with an <alpha>+: scheme (in particular scheme://authority...) is sent unchanged *)
Theorem C14_absolute_unchanged : forall e v, has_alpha_scheme v = true -> make_location_absolute e v = JOk v.
Proof. exact make_abs_unchanged. Qed.
Print Assumptions C14_absolute_unchanged.

(* ---- Response.__call__: the header list given to start_response is the response's header list
   with every Location header (any case) treated as above and nothing else touched *)
Theorem C14_headerlist : forall e hl, env_ok e ->
  exists hl', plain_headerlist e hl = HOk hl' /\ Forall2 (header_rel e) hl hl'.
Proof. exact abs_headerlist_spec. Qed.
Print Assumptions C14_headerlist.

(* ---- conditional_response_app: whichever start_response call it ends in (304, 416, 206, plain),
   the Location values are those of the plain path *)
Theorem C14_conditional_locations : forall b e hl h, abs_headerlist e hl = HOk h ->
  exists h', cond_headerlist b e hl = HOk h' /\ locations h' = locations h.
Proof. exact cond_locations. Qed.
Print Assumptions C14_conditional_locations.

(* ---- the redirect classes (_HTTPMove and its subclasses), location= argument.
   Whatever reaches start_response has the request's origin; an exception emits nothing. *)
Theorem C14_move_same_origin : forall e v r, env_ok e -> v <> [] -> has_alpha_scheme v = false ->
  move_emit e (Some v) false = JOk r -> same_origin e r.
Proof. exact move_same_origin. Qed.
Print Assumptions C14_move_same_origin.

Theorem C14_move_absolute_unchanged : forall e v, has_alpha_scheme v = true -> mem_n 10 v || mem_n 13 v = false ->
  move_emit e (Some v) false = JOk v.
Proof. exact move_absolute_emitted. Qed.
Print Assumptions C14_move_absolute_unchanged.

(* ... and every location that passes the CR/LF check IS emitted, resolved as above (no exception path) *)
Theorem C14_move_total : forall e v, env_ok e -> v <> [] -> mem_n 10 v || mem_n 13 v = false ->
  exists r, move_emit e (Some v) false = JOk r /\
            (has_alpha_scheme v = true -> r = v) /\ (has_alpha_scheme v = false -> same_origin e r).
Proof. exact move_total. Qed.
Print Assumptions C14_move_total.

(* the same for a Location that reaches the redirect instance by another door than location=
   (headers=[("Location", v)], exc.headers, a later assignment): resolved on every call, CR/LF included *)
Theorem C14_move_any_door : forall e v, env_ok e -> v <> [] -> has_alpha_scheme v = false ->
  exists r, move_call e (Some v) false = JOk r /\ same_origin e r.
Proof. exact move_call_any_door. Qed.
Print Assumptions C14_move_any_door.

Theorem C14_move_rejects_crlf : forall v a, In 10 v \/ In 13 v -> move_init (Some v) a = IValueError.
Proof. exact move_rejects_crlf. Qed.
Print Assumptions C14_move_rejects_crlf.

(* ---- add_slash=True, and a redirect constructed without location: the request's own URL *)
Theorem C14_move_add_slash : forall e r, env_ok_move e ->
  move_emit e None true = JOk r -> same_origin e r.
Proof. exact move_add_slash_same_origin. Qed.
Print Assumptions C14_move_add_slash.

Theorem C14_move_no_location : forall e l r, env_ok_move e -> l = None \/ l = Some [] ->
  move_emit e l false = JOk r -> same_origin e r.
Proof. exact move_no_location_same_origin. Qed.
Print Assumptions C14_move_no_location.

(* ---- the three regular expressions of the code, regenerated from the source on every run, denote
   the functions used above, for every Python string (code points up to U+10FFFF) *)
Theorem C14_scheme_re_spec :
  gen_scheme_re_anchored = true /\
  forall v, has_alpha_scheme v = true <-> prefix_match gen_scheme_re v.
Proof. exact scheme_re_spec. Qed.
Print Assumptions C14_scheme_re_spec.

Theorem C14_colon_re_spec :
  forall v, code_points v -> (colon_in_first_segment v = true <-> prefix_match gen_colon_first_segment v).
Proof. exact colon_re_spec. Qed.
Print Assumptions C14_colon_re_spec.

Theorem C14_ctl_class_spec : forall c, in_ranges gen_ctl_or_space c = (c <=? 32).
Proof. exact ctl_class_spec. Qed.
Print Assumptions C14_ctl_class_spec.

(* ---- why the repair was needed: the code as it was (only a literal leading '//' neutralised)
   sends each of these scheme-less values to evil.com; the repaired code keeps them at home *)
Theorem C14_unrepaired_code_refuted :
  forall v, In v [ [47; 9; 47] ++ Ex.evil; [9; 47; 47] ++ Ex.evil; [32; 47; 47] ++ Ex.evil; [1; 47; 47] ++ Ex.evil;
                   9 :: Ex.http_evil; Ex.evil_port ] ->
  has_alpha_scheme v = false /\
  exists r, make_location_absolute_old env_example v = JOk r /\ ~ same_origin env_example r.
Proof. exact old_code_refuted. Qed.
Print Assumptions C14_unrepaired_code_refuted.

Example C14_repaired_examples :
  map (make_location_absolute env_example)
      [ [47; 9; 47] ++ Ex.evil; [9; 47; 47] ++ Ex.evil; 9 :: Ex.http_evil; Ex.evil_port; Ex.slashes_evil ]
  = map JOk Ex.outs.
Proof. exact new_code_examples. Qed.

Example C14_env_ok_move_example : env_ok_move env_example.
Proof. exact env_example_move_ok. Qed.

(* the redirect classes do emit those same values (the conditional theorems above are not vacuous) *)
Example C14_move_examples :
  map (fun v => move_emit env_example (Some v) false)
      [ [47; 9; 47] ++ Ex.evil; [9; 47; 47] ++ Ex.evil; 9 :: Ex.http_evil; Ex.evil_port; Ex.slashes_evil ]
  = map JOk Ex.outs
  /\ move_emit env_example None true = JOk (path_url env_example ++ [47])
  /\ move_emit env_example None false = JOk (path_url env_example).
Proof. exact move_examples. Qed.
