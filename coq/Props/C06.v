(* C06 — property theorems only.  Each is closed by [exact] of a lemma proved in Proofs/,
   followed by Print Assumptions.  Models: Model/C06_AppIterRange.v, C06_ByteRange.v,
   C06_CondResp.v (the code as repaired by fixes/C06-*.patch); reference: Spec/C06_Rfc.v. *)
From Coq Require Import ZArith NArith List Bool Lia.
Require Import Webob.Lib.Val Webob.Lib.PyStr
               Webob.Model.C06_ByteRange Webob.Model.C06_AppIterRange Webob.Model.C06_CondResp
               Webob.Spec.C06_Rfc
               Webob.Lib.C06_MiniPy Webob.Gen.C06_byterange
               Webob.Proofs.C06_air Webob.Proofs.C06_range Webob.Proofs.C06_text Webob.Proofs.C06_decision
               Webob.Proofs.C06_gen Webob.Proofs.C06_examples.
Import ListNotations.
Local Open Scope Z_scope.

(* AppIterRange yields body[start:stop] byte for byte, for EVERY chunking of the app_iter
   (empty chunks included), with no bound on sizes and without assuming stop <= total *)
Theorem C06_slice_exact : forall chunks start stop, (start < stop)%nat ->
  concat (air chunks start stop) = firstn (stop - start) (skipn start (concat chunks)).
Proof. exact air_slice_exact. Qed.
Print Assumptions C06_slice_exact.

Example C06_slice_exact_ex :
  air [[1; 2]; []; [3; 4; 5]; [6]]%N 1 4 = [[2]; []; [3; 4]]%N /\ (1 < 4)%nat.
Proof. split; [reflexivity | repeat constructor]. Qed.

(* FileIter.app_iter_range (seek / limit / block loop) likewise, for every block size > 0 *)
Theorem C06_fileiter_slice : forall data start stop bs, (0 < bs)%nat -> (start < stop)%nat ->
  concat (file_iter_range data start (Some stop) bs) = firstn (stop - start) (skipn start data).
Proof. exact fileiter_slice_exact. Qed.
Print Assumptions C06_fileiter_slice.

Theorem C06_fileiter_full : forall data bs, (0 < bs)%nat -> concat (file_iter_range data 0 None bs) = data.
Proof. exact fileiter_full. Qed.
Print Assumptions C06_fileiter_full.

(* Range.parse produces exactly the half-open representation of the byte-range-spec the header
   text denotes (None for anything that is not a single well-formed range), and that spec is
   well formed *)
Theorem C06_range_parse : forall h,
  range_parse h = option_map range_of_spec (header_spec (Some h)).
Proof. exact range_parse_spec. Qed.
Print Assumptions C06_range_parse.

Theorem C06_range_parse_wf : forall h sp, header_spec h = Some sp -> wf_spec sp.
Proof. exact header_spec_wf. Qed.
Print Assumptions C06_range_parse_wf.

(* first-last, first-, -suffix against a length L: satisfiable iff RFC 7233 says so, and the
   ContentRange built is (first, last + 1, L).  PARTIAL on the unchanged code: a suffix longer than
   a non-empty body is excluded ([suffix_within]) — see C06_suffix_longer_refuted *)
Theorem C06_range_arith_partial : forall sp L,
  wf_spec sp -> 0 <= L -> suffix_within sp L ->
  range_content_range (range_of_spec sp) (Some L) = Some (option_map (cr_of L) (rfc_selected sp L)).
Proof. exact range_arith. Qed.
Print Assumptions C06_range_arith_partial.

Example C06_range_arith_ex :
  wf_spec (FirstLast 2 100) /\ suffix_within (FirstLast 2 100) 10 /\ rfc_selected (FirstLast 2 100) 10 = Some (2, 9)
  /\ wf_spec (Suffix 3) /\ suffix_within (Suffix 3) 10 /\ rfc_selected (Suffix 3) 10 = Some (7, 9).
Proof. cbn. repeat split; try lia; try discriminate; left; discriminate. Qed.

(* the known finding range:suffix-longer-than-body-416, as a witness on the faithful model:
   `Range: bytes=-20` on a 10-byte body is "not satisfiable" although RFC 7233 selects bytes 0-9 *)
Theorem C06_suffix_longer_refuted :
  exists n L, 0 < n /\ 0 < L /\
    range_content_range (range_of_spec (Suffix n)) (Some L) = Some None /\
    rfc_selected (Suffix n) L = Some (0, L - 1).
Proof. exact suffix_longer_refuted. Qed.
Print Assumptions C06_suffix_longer_refuted.

Theorem C06_selected_in_body : forall sp L f l,
  wf_spec sp -> rfc_selected sp L = Some (f, l) -> 0 <= f <= l /\ l < L.
Proof. exact rfc_selected_bounds. Qed.
Print Assumptions C06_selected_in_body.

(* Content-Range text of a 206 is `bytes first-last/L` *)
Theorem C06_content_range_text : forall f l L,
  content_range_str (cr_of L (f, l)) = S_bytes_sp ++ int_str f ++ [45%N] ++ int_str l ++ [47%N] ++ int_str L.
Proof. exact content_range_text. Qed.
Print Assumptions C06_content_range_text.

(* the decision tree of conditional_response_app computes the RFC 7232/7233 outcome formula:
   304 iff safe method and (If-None-Match lists the ETag or is "*", or — no If-None-Match/ETag pair
   applying — Last-Modified <= If-Modified-Since); otherwise 206 / 416 exactly for a single
   satisfiable / unsatisfiable range on a 200 response of known length without Content-Range whose
   If-Range is absent or matches by strong tag or by date; otherwise the full response.
   PARTIAL only through [suffix_within_i] (the known finding above). *)
Theorem C06_decision_partial : forall i,
  (forall L, r_clen i = Some L -> 0 <= L) ->
  suffix_within_i i ->
  outcome_of (decide i) = Some (rfc_outcome i).
Proof. exact decision_rfc. Qed.
Print Assumptions C06_decision_partial.

(* the hypotheses hold, and every outcome occurs, on concrete requests (Proofs/C06_examples.v):
   bytes=2-5 with a matching strong If-Range; bytes=10- on 10 bytes; a listed ETag; a multi-range;
   POST with If-None-Match: *; bytes=-3 served by FileIter with block size 4 *)
Example C06_decision_ex :
  (forall L, r_clen ex_206 = Some L -> 0 <= L) /\ suffix_within_i ex_206 /\ suffix_within_i ex_file
  /\ decide ex_206 = D206 2 6 10 /\ rfc_outcome ex_206 = O206 2 5 10
  /\ rfc_outcome ex_416 = O416 10 /\ rfc_outcome ex_304 = O304 /\ rfc_outcome ex_full = OFull
  /\ rfc_outcome ex_post = OFull /\ rfc_outcome ex_file = O206 7 9 10
  /\ option_map (fun r => concat (snd r)) (cond_resp_app ex_206) = Some [50; 51; 52; 53]%N
  /\ option_map (fun r => concat (snd r)) (cond_resp_app ex_206_head) = Some []
  /\ option_map (fun r => concat (snd r)) (cond_resp_app ex_file) = Some [55; 56; 57]%N.
Proof.
  split; [intros L HL; injection HL as <-; lia|].
  split; [exact I|]. split; [left; vm_compute; discriminate|].
  repeat split; vm_compute; reflexivity.
Qed.

Theorem C06_never_raises : forall i, decide i <> DRaise.
Proof. exact decide_never_raises. Qed.
Print Assumptions C06_never_raises.

Theorem C06_other_methods_never_304 : forall i, is_safe (q_method i) = false -> rfc_outcome i <> O304.
Proof. exact unsafe_never_304. Qed.
Print Assumptions C06_other_methods_never_304.

Theorem C06_inm_not_overridden_by_ims : forall i tags t w,
  q_inm i = InmTags tags -> r_etag i = Some (t, w) -> mem_str t tags = false -> rfc_outcome i <> O304.
Proof. exact nonmatching_inm_not_overridden. Qed.
Print Assumptions C06_inm_not_overridden_by_ims.

Theorem C06_inm_star_304 : forall i, is_safe (q_method i) = true -> q_inm i = InmStar -> rfc_outcome i = O304.
Proof. exact star_304. Qed.
Print Assumptions C06_inm_star_304.

(* what is sent for each decision *)
Theorem C06_304_headers : forall i, decide i = D304 ->
  cond_resp_app i = Some (S_304, filter_headers (r_headers i) [S_cl; S_ct], []).
Proof. exact resp_304. Qed.
Print Assumptions C06_304_headers.

Theorem C06_filter_headers : forall hl remove k v,
  In (k, v) (filter_headers hl remove) <-> In (k, v) hl /\ mem_str (lower k) remove = false.
Proof. exact filter_headers_spec. Qed.
Print Assumptions C06_filter_headers.

Theorem C06_206_exact : forall i s e L, decide i = D206 s e L -> app_ok (r_app i) -> serves_ranges (r_app i) ->
  exists chunks,
    cond_resp_app i =
      Some (S_206,
            (S_CL, int_str (e - s))
              :: (S_CR, S_bytes_sp ++ int_str s ++ [45%N] ++ int_str (e - 1) ++ [47%N] ++ int_str L)
              :: filter_headers (r_headers i) [S_cl],
            chunks)
    /\ concat chunks = sent_body i (slice (body_of (r_app i)) (Z.to_nat s) (Z.to_nat e)).
Proof. exact resp_206. Qed.
Print Assumptions C06_206_exact.

Theorem C06_206_declined : forall i s e L cs, decide i = D206 s e L -> r_app i = ANoRange cs ->
  cond_resp_app i = Some (r_status i, r_headers i, if is_head (q_method i) then [] else cs).
Proof. exact resp_206_declined. Qed.
Print Assumptions C06_206_declined.

Theorem C06_206_bounds : forall i s e L,
  decide i = D206 s e L -> r_clen i = Some L /\ 0 <= s /\ s < e /\ e <= L.
Proof. exact decide_206_bounds. Qed.
Print Assumptions C06_206_bounds.

Theorem C06_206_length : forall i s e L, decide i = D206 s e L ->
  L = Z.of_nat (length (body_of (r_app i))) ->
  Z.of_nat (length (slice (body_of (r_app i)) (Z.to_nat s) (Z.to_nat e))) = e - s.
Proof. exact resp_206_length. Qed.
Print Assumptions C06_206_length.

Theorem C06_416_headers : forall i rg L, decide i = D416 rg L -> 0 <= L ->
  exists cl body,
    cond_resp_app i =
      Some (S_416,
            (S_CL, cl) :: (S_CR, S_bytes_sp ++ [42%N; 47%N] ++ int_str L) :: (S_CT, S_text_plain)
              :: filter_headers (r_headers i) [S_cl; S_ct],
            body)
    /\ (is_head (q_method i) = true -> body = []).
Proof. exact resp_416. Qed.
Print Assumptions C06_416_headers.

Theorem C06_full_unmodified : forall i, decide i = DFull -> app_ok (r_app i) ->
  exists chunks,
    cond_resp_app i = Some (r_status i, r_headers i, chunks)
    /\ concat chunks = sent_body i (body_of (r_app i)).
Proof. exact resp_full. Qed.
Print Assumptions C06_full_unmodified.

(* header text level: Range.parse reads the canonical RFC 7233 spelling of every well-formed
   byte-range-spec back as that spec (decimal printing and reading are inverse) ... *)
Theorem C06_parse_render : forall sp, wf_spec sp -> header_spec (Some (render_spec sp)) = Some sp.
Proof. exact header_spec_render. Qed.
Print Assumptions C06_parse_render.

(* ... so from the header text to the (start, stop, length) served, in one statement *)
Theorem C06_text_to_range_partial : forall sp L,
  wf_spec sp -> 0 <= L -> suffix_within sp L ->
  exists r, range_parse (render_spec sp) = Some r /\
            range_content_range r (Some L) = Some (option_map (cr_of L) (rfc_selected sp L)).
Proof. exact render_parse_arith. Qed.
Print Assumptions C06_text_to_range_partial.

(* the numbers printed into Content-Range / Content-Length read back as themselves *)
Theorem C06_int_str_roundtrip : forall n, 0 <= n -> dec_val (int_str n) = n.
Proof. exact int_str_roundtrip. Qed.
Print Assumptions C06_int_str_roundtrip.

(* the arithmetic AS WRITTEN IN THE SOURCE TREE NOW (Gen/C06_byterange.v: the ASTs of
   `_is_content_range_valid` and `Range.range_for_length`, dumped on every run and interpreted by
   Lib/C06_MiniPy.v) is the model's, for all arguments *)
Theorem C06_source_valid_is_model : forall s e l r,
  src_valid [py_oz s; py_oz e; py_oz l; PBool r] = PBool (is_cr_valid s e l r).
Proof. exact gen_valid_eq. Qed.
Print Assumptions C06_source_valid_is_model.

Theorem C06_source_range_for_length_is_model : forall start e l,
  snd (exec call_tbl (rfl_env start e l) src_rfl_body)
  = Some (pv_of_range (range_for_length (Range start e) l)).
Proof. exact gen_rfl_eq. Qed.
Print Assumptions C06_source_range_for_length_is_model.

(* ====================================================================================================
   Content-Range TEXT layer (Model/C06_ContentRangeText.v): _rx_content_range, ContentRange.parse,
   descriptors.parse_content_range, str(ContentRange), descriptors.serialize_content_range. *)
Require Import Webob.Lib.Rx Webob.Model.C06_ContentRangeText Webob.Gen.C06_crx
               Webob.Proofs.C06_crtext Webob.Proofs.C06_crrx.

(* the pattern AS COMPILED IN THE SOURCE TREE NOW (Gen/C06_crx.v) is the one the scanner was written for *)
Theorem C06_cr_rx_source_is_spec : cr_rx = cr_rx_spec /\ cr_rx_groups = 3%N.
Proof. exact gen_rx_is_spec. Qed.
Print Assumptions C06_cr_rx_source_is_spec.

(* `_rx_content_range.match(h)` succeeds exactly when the scanner does, for every text h *)
Theorem C06_cr_scan_iff_rx : forall h,
  match_content_range h <> None <-> exists p t, h = p ++ t /\ matches cr_rx p.
Proof. exact scan_iff_rx. Qed.
Print Assumptions C06_cr_scan_iff_rx.

(* ... and the groups it returns spell the matched prefix: "bytes " (s "-" e | "*") "/" (l | "*") *)
Theorem C06_cr_scan_groups : forall h se l, match_content_range h = Some (se, l) ->
  exists t, h = groups_text se l ++ t /\ matches cr_rx (groups_text se l).
Proof. exact scan_groups_rx. Qed.
Print Assumptions C06_cr_scan_groups.

(* ContentRange.parse(str(cr)) = cr for EVERY (start, stop, length) valid for a response (None combinations
   included), numbers within CPython's int-from-text digit limit *)
Theorem C06_cr_parse_str_roundtrip : forall s e l,
  is_cr_valid s e l true = true -> fits_cr s e l ->
  cr_parse (content_range_str (CR s e l)) = PSome (CR s e l)
  /\ parse_content_range (Some (content_range_str (CR s e l))) = Some (CR s e l).
Proof. intros s e l Hv Hf. split; [exact (cr_roundtrip s e l Hv Hf) | exact (header_roundtrip s e l Hv Hf)]. Qed.
Print Assumptions C06_cr_parse_str_roundtrip.

Example C06_cr_parse_str_roundtrip_ex :
  is_cr_valid (Some 0) (Some 50) (Some 100) true = true /\ fits_cr (Some 0) (Some 50) (Some 100).
Proof. split; [exact (proj1 cr_roundtrip_ex) | exact (proj1 (proj2 cr_roundtrip_ex))]. Qed.

(* the round trip does NOT extend to everything ContentRange.__init__ accepts: with stop > length the
   constructor succeeds, str() prints it, and parse refuses that text (response=True) *)
Theorem C06_cr_roundtrip_ctor_gap : forall s e l,
  is_cr_valid (Some s) (Some e) (Some l) false = true -> l < e -> fits s -> fits (e - 1) -> fits l ->
  cr_parse (content_range_str (CR (Some s) (Some e) (Some l))) = PNone.
Proof. exact cr_roundtrip_gap. Qed.
Print Assumptions C06_cr_roundtrip_ctor_gap.

Example C06_cr_roundtrip_ctor_gap_ex :
  mk_content_range (Some 0) (Some 50) (Some 10) = Some (CR (Some 0) (Some 50) (Some 10))
  /\ cr_parse (content_range_str (CR (Some 0) (Some 50) (Some 10))) = PNone.
Proof. exact cr_roundtrip_gap_ex. Qed.

(* for EVERY text: what the parser returns is valid — both None, or 0 <= start < stop (<= length when known) *)
Theorem C06_cr_parse_sound : forall h s e l, cr_parse h = PSome (CR s e l) ->
  is_cr_valid s e l true = true /\ cr_wf s e l.
Proof. exact cr_parse_sound. Qed.
Print Assumptions C06_cr_parse_sound.

Theorem C06_parse_content_range_sound : forall v s e l,
  parse_content_range v = Some (CR s e l) -> cr_wf s e l.
Proof. exact parse_content_range_sound. Qed.
Print Assumptions C06_parse_content_range_sound.

(* the constructor call inside ContentRange.parse never raises *)
Theorem C06_cr_parse_ctor_never_raises : forall h, cr_parse h <> PCtorErr.
Proof. exact cr_parse_ctor_never_raises. Qed.
Print Assumptions C06_cr_parse_ctor_never_raises.

(* serialize_content_range on a tuple/list: refused exactly when the length is not 2 or 3 or the constructor refuses *)
Theorem C06_serialize_seq_refused : forall items,
  serialize_content_range (ASeq items) = SErr <->
  match items with
  | [b; e] => is_cr_valid b e None false = false
  | [b; e; l] => is_cr_valid b e l false = false
  | _ => True
  end.
Proof. exact serialize_seq_refused. Qed.
Print Assumptions C06_serialize_seq_refused.

(* the Content-Range header of the modelled 206 parses back to exactly the slice served (composition with
   C06_206_exact), and the one of the 416 to (None, None, length) *)
Theorem C06_206_content_range_parses_back : forall i s e L,
  decide i = D206 s e L -> app_ok (r_app i) -> serves_ranges (r_app i) ->
  fits s -> fits (e - 1) -> fits L ->
  exists cl v rest chunks,
    cond_resp_app i = Some (S_206, cl :: (S_CR, v) :: rest, chunks)
    /\ parse_content_range (Some v) = Some (CR (Some s) (Some e) (Some L))
    /\ concat chunks = sent_body i (slice (body_of (r_app i)) (Z.to_nat s) (Z.to_nat e)).
Proof. exact resp_206_cr_parses. Qed.
Print Assumptions C06_206_content_range_parses_back.

Theorem C06_416_content_range_parses_back : forall i rg L, decide i = D416 rg L -> 0 <= L -> fits L ->
  exists cl v rest body,
    cond_resp_app i = Some (S_416, cl :: (S_CR, v) :: rest, body)
    /\ parse_content_range (Some v) = Some (CR None None (Some L)).
Proof. exact resp_416_cr_parses. Qed.
Print Assumptions C06_416_content_range_parses_back.
