(* C19 — Accept-* header objects: canonical text round-trips and `+` composes element lists.
   Property theorems only (proofs in Proofs/C19_*.v).  Model: Model/C19_acceptstr.v on top of the C03 parsers.
   `parse_*` are the models of the four `parse` class methods with the validator regexes REGENERATED from the
   source on every run, so each theorem is re-checked against what the code says now. *)
From Coq Require Import ZArith NArith List Bool String.
Require Import Webob.Lib.Val Webob.Lib.PyStr Webob.Lib.Rx Webob.Gen.C03_regexes Webob.Spec.C03_abnf
               Webob.Model.C03_scan Webob.Proofs.C03_scan Webob.Proofs.C03_accept_scan
               Webob.Model.C19_acceptstr Webob.Spec.C19_spec Webob.Proofs.C19_quote Webob.Proofs.C19_valid Webob.Proofs.C19_simple
               Webob.Proofs.C19_add Webob.Proofs.C19_families Webob.Proofs.C19_accept_scan Webob.Proofs.C19_accept Webob.Proofs.C19_top.
Import ListNotations.
Local Open Scope N_scope.

(* ===== 1. the quoting pair ===== *)
(* _process_quoted_string_token undoes _escape_and_quote_parameter_value for EVERY string (no alphabet restriction) *)
Theorem C19_quote_inverse : forall s, unquote_value (escape_and_quote s) = s.
Proof. exact quote_inverse. Qed.
Print Assumptions C19_quote_inverse.

(* for values over HTAB / SP / VCHAR / obs-text the written form is a token or quoted-string of RFC 7230 ... *)
Theorem C19_quote_in_grammar : forall s,
  Forall (fun c => is_qpair_char c = true) s -> matches value (escape_and_quote s).
Proof. exact quote_in_grammar. Qed.
Print Assumptions C19_quote_in_grammar.

(* ... which the element scanner reads back as exactly one parameter value, whatever legally follows it *)
Theorem C19_quote_scanned : forall s rest,
  Forall (fun c => is_qpair_char c = true) s -> stop_ok rest ->
  take_value (escape_and_quote s ++ rest) = Some (escape_and_quote s, rest).
Proof. exact take_value_quote. Qed.
Print Assumptions C19_quote_scanned.

Example C19_quote_example :   (* the value: a, backslash, double quote, b, space, c *)
  let v := [97; 92; 34; 98; 32; 99] in
  Forall (fun c => is_qpair_char c = true) v /\
  escape_and_quote v = [34; 97; 92; 92; 92; 34; 98; 32; 99; 34] /\ unquote_value (escape_and_quote v) = v.
Proof. cbv zeta. split; [repeat constructor|split; vm_compute; reflexivity]. Qed.

(* ===== 2. str(header): valid, same elements, fixed point — for EVERY valid header ===== *)
Theorem C19_str_roundtrip_accept : forall w p, parse_accept w = Some p ->
  rmatch gen_accept (str_accept p) = true /\ parse_accept (str_accept p) = Some p.
Proof. exact accept_roundtrip. Qed.
Print Assumptions C19_str_roundtrip_accept.

Theorem C19_str_roundtrip_charset : forall w p, parse_accept_charset w = Some p ->
  rmatch gen_accept_charset (str_simple p) = true /\ parse_accept_charset (str_simple p) = Some p.
Proof. exact charset_roundtrip. Qed.
Print Assumptions C19_str_roundtrip_charset.

Theorem C19_str_roundtrip_encoding : forall w p, parse_accept_encoding w = Some p ->
  rmatch gen_accept_encoding (str_simple p) = true /\ parse_accept_encoding (str_simple p) = Some p.
Proof. exact encoding_roundtrip. Qed.
Print Assumptions C19_str_roundtrip_encoding.

Theorem C19_str_roundtrip_language : forall w p, parse_accept_language w = Some p ->
  rmatch gen_accept_language (str_simple p) = true /\ parse_accept_language (str_simple p) = Some p.
Proof. exact language_roundtrip. Qed.
Print Assumptions C19_str_roundtrip_language.

(* re-serialising the re-parsed canonical text gives the same text *)
Theorem C19_str_fixpoint_accept : forall w p, parse_accept w = Some p ->
  exists p', parse_accept (str_accept p) = Some p' /\ str_accept p' = str_accept p.
Proof. exact accept_fixpoint. Qed.
Print Assumptions C19_str_fixpoint_accept.

Theorem C19_str_fixpoint_simple : forall w p,
  (parse_accept_charset w = Some p -> exists p', parse_accept_charset (str_simple p) = Some p' /\ str_simple p' = str_simple p) /\
  (parse_accept_encoding w = Some p -> exists p', parse_accept_encoding (str_simple p) = Some p' /\ str_simple p' = str_simple p) /\
  (parse_accept_language w = Some p -> exists p', parse_accept_language (str_simple p) = Some p' /\ str_simple p' = str_simple p).
Proof. exact simple_fixpoint. Qed.
Print Assumptions C19_str_fixpoint_simple.

(* the canonical text is in the RFC ABNF language itself (not only accepted by webob's validator) *)
Theorem C19_str_in_abnf : forall w,
  (forall p, parse_accept w = Some p -> matches abnf_accept (str_accept p)) /\
  (forall p, parse_accept_charset w = Some p -> matches abnf_accept_charset (str_simple p)) /\
  (forall p, parse_accept_encoding w = Some p -> matches abnf_accept_encoding (str_simple p)) /\
  (forall p, parse_accept_language w = Some p -> matches abnf_accept_language (str_simple p)).
Proof. exact str_in_abnf. Qed.
Print Assumptions C19_str_in_abnf.

Example C19_str_example :   (* [,<TAB>en-GB ;Q=0.50,, *;q=1.000] is printed as [en-GB;q=0.5, *] *)
  parse_accept_language (H "2c09656e2d4742203b513d302e35302c2c202a3b713d312e303030"%string)
    = Some [(H "656e2d4742"%string, 500); (H "2a"%string, 1000)] /\
  str_simple [(H "656e2d4742"%string, 500); (H "2a"%string, 1000)] = H "656e2d47423b713d302e352c202a"%string.
Proof. split; vm_compute; reflexivity. Qed.

(* ===== 3. parsing distributes over ", " ===== *)
(* Accept-Charset / Accept-Encoding / Accept-Language: for ALL non-empty valid texts, any spelling *)
Theorem C19_join_charset : forall a b pa pb,
  parse_accept_charset a = Some pa -> parse_accept_charset b = Some pb -> a <> [] -> b <> [] ->
  parse_accept_charset (a ++ comma_sp ++ b) = Some (pa ++ pb).
Proof. exact charset_parse_join. Qed.
Print Assumptions C19_join_charset.
Theorem C19_join_encoding : forall a b pa pb,
  parse_accept_encoding a = Some pa -> parse_accept_encoding b = Some pb -> a <> [] -> b <> [] ->
  parse_accept_encoding (a ++ comma_sp ++ b) = Some (pa ++ pb).
Proof. exact encoding_parse_join. Qed.
Print Assumptions C19_join_encoding.
Theorem C19_join_language : forall a b pa pb,
  parse_accept_language a = Some pa -> parse_accept_language b = Some pb -> a <> [] -> b <> [] ->
  parse_accept_language (a ++ comma_sp ++ b) = Some (pa ++ pb).
Proof. exact language_parse_join. Qed.
Print Assumptions C19_join_language.

(* the four languages are closed under joining two non-empty members with ", " (decided by the verified
   regex-equivalence checker on the ABNF; the empty text is the one member of #element that must not be joined) *)
Theorem C19_join_valid : forall a b, a <> [] -> b <> [] ->
  (rmatch gen_accept a = true -> rmatch gen_accept b = true -> rmatch gen_accept (a ++ comma_sp ++ b) = true) /\
  (rmatch gen_accept_charset a = true -> rmatch gen_accept_charset b = true -> rmatch gen_accept_charset (a ++ comma_sp ++ b) = true) /\
  (rmatch gen_accept_encoding a = true -> rmatch gen_accept_encoding b = true -> rmatch gen_accept_encoding (a ++ comma_sp ++ b) = true) /\
  (rmatch gen_accept_language a = true -> rmatch gen_accept_language b = true -> rmatch gen_accept_language (a ++ comma_sp ++ b) = true).
Proof. exact join_valid_all. Qed.
Print Assumptions C19_join_valid.

(* Accept: the same, for ALL valid non-empty texts.  A quoted-string may contain commas, so the Accept scanner is not
   comma-local on arbitrary strings; the proof goes through "comma-stable" texts [ok_accept] (Spec/C19_spec.v) and C03's
   completeness theorem (every accepted Accept value is a decorated rendering, Proofs/C03_accept_complete.v). *)
Theorem C19_join_accept : forall a b pa pb,
  parse_accept a = Some pa -> parse_accept b = Some pb -> a <> [] -> b <> [] ->
  parse_accept (a ++ comma_sp ++ b) = Some (pa ++ pb).
Proof. exact accept_join_full. Qed.
Print Assumptions C19_join_accept.

(* every valid Accept text is comma-stable; so are the canonical text of every header object and every C03 rendering
   (the last two do not depend on the completeness theorem) *)
Theorem C19_accept_valid_stable : forall w, rmatch gen_accept w = true -> ok_accept w.
Proof. exact valid_ok_accept. Qed.
Print Assumptions C19_accept_valid_stable.

Theorem C19_accept_canonical_stable : forall w p, parse_accept w = Some p ->
  ok_accept (str_accept p) /\ wf_hdr fam_accept ok_accept (Valid (str_accept p) p).
Proof. exact accept_canonical_stable. Qed.
Print Assumptions C19_accept_canonical_stable.

Theorem C19_accept_rendered_stable : forall j0 els, all_junk j0 -> rels_ok els ->
  ok_accept (arender j0 els) /\
  (rmatch gen_accept (arender j0 els) = true ->
   wf_hdr fam_accept ok_accept (Valid (arender j0 els) (map (fun ej => canon_rel (fst ej)) els))).
Proof. exact accept_rendered_stable. Qed.
Print Assumptions C19_accept_rendered_stable.

(* ===== 4. `+` : never raises, elements = left ++ right, falsy / invalid / no-header operands contribute nothing ===== *)
(* [wf_hdr F ok h]: h is a header object as the classes build it (its parsed list IS the parse of its text);
   [contrib F v]: [] for None and for the empty str / list / tuple / dict, and for a value whose text is not a valid header, else its elements;
   [right = true] is the reflected operation  v + self. *)
Theorem C19_add_value_charset : forall self v right, wf_hdr fam_charset all_ok self ->
  exists h, add_val fam_charset self v right = Ret h /\ wf_hdr fam_charset all_ok h /\
            elements h = if right then contrib fam_charset v ++ elements self else elements self ++ contrib fam_charset v.
Proof. exact charset_add_val. Qed.
Print Assumptions C19_add_value_charset.
Theorem C19_add_value_encoding : forall self v right, wf_hdr fam_encoding all_ok self ->
  exists h, add_val fam_encoding self v right = Ret h /\ wf_hdr fam_encoding all_ok h /\
            elements h = if right then contrib fam_encoding v ++ elements self else elements self ++ contrib fam_encoding v.
Proof. exact encoding_add_val. Qed.
Print Assumptions C19_add_value_encoding.
Theorem C19_add_value_language : forall self v right, wf_hdr fam_language all_ok self ->
  exists h, add_val fam_language self v right = Ret h /\ wf_hdr fam_language all_ok h /\
            elements h = if right then contrib fam_language v ++ elements self else elements self ++ contrib fam_language v.
Proof. exact language_add_val. Qed.
Print Assumptions C19_add_value_language.

Theorem C19_add_header_charset : forall self other, wf_hdr fam_charset all_ok self -> wf_hdr fam_charset all_ok other ->
  exists h, add_hdr fam_charset self other = Ret h /\ wf_hdr fam_charset all_ok h /\ elements h = elements self ++ elements other.
Proof. exact charset_add_hdr. Qed.
Print Assumptions C19_add_header_charset.
Theorem C19_add_header_encoding : forall self other, wf_hdr fam_encoding all_ok self -> wf_hdr fam_encoding all_ok other ->
  exists h, add_hdr fam_encoding self other = Ret h /\ wf_hdr fam_encoding all_ok h /\ elements h = elements self ++ elements other.
Proof. exact encoding_add_hdr. Qed.
Print Assumptions C19_add_header_encoding.
Theorem C19_add_header_language : forall self other, wf_hdr fam_language all_ok self -> wf_hdr fam_language all_ok other ->
  exists h, add_hdr fam_language self other = Ret h /\ wf_hdr fam_language all_ok h /\ elements h = elements self ++ elements other.
Proof. exact language_add_hdr. Qed.
Print Assumptions C19_add_header_language.

(* every header object built from text by these three families satisfies the hypothesis above *)
Theorem C19_created_wf_simple : forall h,
  wf_hdr fam_charset all_ok (create parse_accept_charset h) /\
  wf_hdr fam_encoding all_ok (create parse_accept_encoding h) /\
  wf_hdr fam_language all_ok (create parse_accept_language h).
Proof. exact created_wf_simple. Qed.
Print Assumptions C19_created_wf_simple.

(* Accept: the same statements, no side condition (invalid operand texts need none: they contribute nothing) *)
Theorem C19_add_value_accept : forall self v right, wf_hdr fam_accept all_ok self ->
  exists h, add_val fam_accept self v right = Ret h /\ wf_hdr fam_accept all_ok h /\
            elements h = if right then contrib fam_accept v ++ elements self else elements self ++ contrib fam_accept v.
Proof. exact accept_add_val_full. Qed.
Print Assumptions C19_add_value_accept.
Theorem C19_add_header_accept : forall self other, wf_hdr fam_accept all_ok self -> wf_hdr fam_accept all_ok other ->
  exists h, add_hdr fam_accept self other = Ret h /\ wf_hdr fam_accept all_ok h /\ elements h = elements self ++ elements other.
Proof. exact accept_add_hdr_full. Qed.
Print Assumptions C19_add_header_accept.
Theorem C19_created_wf_accept : forall h, wf_hdr fam_accept all_ok (create parse_accept h).
Proof. exact accept_create_wf. Qed.
Print Assumptions C19_created_wf_accept.

(* the hypotheses are satisfiable, and a chain of additions composes: the header utf-8;q=0.5 plus the list
   [iso-8859-5, (star, 0)], then the reflected addition of the dict {a: 0.25, b: 1} on the left of that *)
Example C19_add_example :
  let h0 := create parse_accept_charset (Some (H "7574662d383b713d302e35"%string)) in
  let v1 : pyval sitem qnum := PSeq [SStr (H "69736f2d383835392d35"%string); SPair (H "2a"%string) (QI 0)] in
  let v2 : pyval sitem qnum := PDict [(H "61"%string, QF 250); (H "62"%string, QI 1)] in
  wf_hdr fam_charset all_ok h0 /\
  exists h1 h2, add_val fam_charset h0 v1 false = Ret h1 /\ add_val fam_charset h1 v2 true = Ret h2 /\
    elements h2 = [(H "62"%string, 1000); (H "61"%string, 250); (H "7574662d38"%string, 500); (H "69736f2d383835392d35"%string, 1000); (H "2a"%string, 0)].
Proof.
  cbv zeta. split; [vm_compute; split; [reflexivity|exact I]|].
  eexists. eexists. split; [vm_compute; reflexivity|]. split; vm_compute; reflexivity.
Qed.

Example C19_add_accept_example :
  (* the empty valid header plus the str operand  a/b;p=<quoted x y>;q=0.5;e : the empty header contributes nothing *)
  exists h, add_val fam_accept (Valid [] []) (PStr (H "612f623b703d22782079223b713d302e353b65"%string)) false = Ret h /\
            elements h = [mkEl (H "612f623b703d2278207922"%string) 500 [(H "70"%string, H "782079"%string)] [(H "65"%string, None)]].
Proof. eexists. split; vm_compute; reflexivity. Qed.

(* ===== 5. request.accept* = value / None / del, and copy() — all four families (F arbitrary) ===== *)
Theorem C19_property_header_object : forall A I D (F : family A I D) h,
  fget F (fset F (OH h)) = create (f_parse F) h.
Proof. exact @fget_fset_hdr. Qed.
Print Assumptions C19_property_header_object.

Theorem C19_property_value : forall A I D (F : family A I D) v, is_none v = false ->
  fset F (OV v) = Some (f_text F v) /\ fget F (fset F (OV v)) = create (f_parse F) (Some (f_text F v)).
Proof. exact @fget_fset_val. Qed.
Print Assumptions C19_property_value.

Theorem C19_property_none_removes : forall A I D (F : family A I D),
  fset F (OV PNone) = None /\ fset F (OH None) = None /\ fget F None = NoHeader.
Proof. exact @property_none. Qed.
Print Assumptions C19_property_none_removes.

Theorem C19_copy : forall A I D (F : family A I D) (ok : str -> Prop) h, wf_hdr F ok h -> copy_hdr F h = Ret h.
Proof. exact @copy_spec. Qed.
Print Assumptions C19_copy.
