(* C15 — Cookie jar edits (request.cookies, Set-Cookie list) leave other cookies intact.
   Property theorems only: each is closed by [exact] of a lemma proved in Proofs/, followed by Print Assumptions.

   The model (Model/C15_Scan.v, Model/C15_CookieJar.v) is the REPAIRED code (fixes/C15-1, -2, -3); it is tied to the tree
   under check by the correspondence of harness/props/c15.py.  The utf-8 codec is CPython's: the theorems quantify over
   any [enc]/[dec] with the laws stated as premises. *)
From Coq Require Import String.
From Coq Require Import ZArith NArith List Bool.
Require Import Webob.Lib.Val Webob.Lib.PyStr Webob.Lib.C15_Utf8 Webob.Gen.C15_tables Webob.Model.C15_Scan
               Webob.Model.C15_CookieJar Webob.Spec.C15_JarSpec
               Webob.Proofs.C15_scan Webob.Proofs.C15_request Webob.Proofs.C15_response Webob.Proofs.C15_openquote.
Import ListNotations.
Local Open Scope N_scope.

(* ====================================================================== request side *)

(* On every well-formed header (Spec/C15_JarSpec.v: pairs with odd spacing, quoted values that may contain "; a=1",
   $Version-style attributes, separated by ANY '='-free text that starts with ';' — flags, doubled separators, stray
   quotes …) webob's scanner finds exactly the pairs, with exactly these spans. *)
Theorem C15_scan_wf : forall ps tail, wf_ps ps tail = true ->
  scan (render ps tail) = (entries_of ps, tail).
Proof. exact scan_wf. Qed.
Print Assumptions C15_scan_wf.

(* the class is decidable by running the scanner: [wf_headerb] is the test the oracle applies to every header it meets
   to decide whether the dict-model comparison is owed *)
Theorem C15_wf_header_decided : forall h, wf_headerb h = true <-> wf_header h.
Proof. exact wf_headerb_iff. Qed.
Print Assumptions C15_wf_header_decided.

(* One RequestCookies operation (assignment, deletion, clear, request.cookies = {...}) on a well-formed jar leaves a
   well-formed jar whose cookie pairs are the reference operation's, and returns / raises what the reference says:
   TypeError/IndexError for invalid names, ValueError for non-text values, KeyError iff the name is absent. *)
Theorem C15_request_step : forall enc : text -> option str,
  (forall t b, enc t = Some b -> is_latin1 b = true) ->
  forall st o, wf_jar st -> op_ok enc o = true ->
  wf_jar (fst (rstep enc st o)) /\
  (cookie_pairs (fst (rstep enc st o)), snd (rstep enc st o)) = ref_rstep enc (cookie_pairs st) o.
Proof. exact rstep_refines. Qed.
Print Assumptions C15_request_step.

(* … hence after ANY sequence of operations the pairs read back from the header are the reference model's: pairs of
   names that were not touched keep their exact values and their order (pairs_set / pairs_del only touch one name). *)
Theorem C15_request_jar : forall enc : text -> option str,
  (forall t b, enc t = Some b -> is_latin1 b = true) ->
  forall ops st, wf_jar st -> forallb (op_ok enc) ops = true ->
  wf_jar (rrun enc ops st) /\ cookie_pairs (rrun enc ops st) = ref_rrun enc ops (cookie_pairs st).
Proof. exact rrun_refines. Qed.
Print Assumptions C15_request_jar.

Theorem C15_others_intact_set : forall n b l, filter (not_named n) (pairs_set n b l) = filter (not_named n) l.
Proof. exact others_intact_set. Qed.
Print Assumptions C15_others_intact_set.

Theorem C15_others_intact_del : forall n l, filter (not_named n) (pairs_del n l) = filter (not_named n) l.
Proof. exact others_intact_del. Qed.
Print Assumptions C15_others_intact_del.

(* what a reader sees for one name (the last pair wins) after the reference operations *)
Theorem C15_lookup_after_set : forall k k2 v l,
  lookup k2 (pairs_set k v l) = if str_eqb k k2 then Some v else lookup k2 l.
Proof. exact lookup_pairs_set. Qed.
Print Assumptions C15_lookup_after_set.

Theorem C15_lookup_after_del : forall k k2 l,
  lookup k2 (pairs_del k l) = if str_eqb k k2 then None else lookup k2 l.
Proof. exact lookup_pairs_del. Qed.
Print Assumptions C15_lookup_after_del.

(* the value written is the value read: _unquote inverts _value_quote on every octet string *)
Theorem C15_value_roundtrip : forall b, is_latin1 b = true -> unquote (value_quote b) = b.
Proof. exact unquote_value_quote. Qed.
Print Assumptions C15_value_roundtrip.

(* dict(req.cookies)[k], for a fresh or the same Request (it is a function of HTTP_COOKIE alone), is the decoded value
   of the last pair named k *)
Theorem C15_request_text : forall dec : str -> option text,
  (forall k, is_ascii k = true -> dec k = Some k) ->
  forall st d, wf_jar st -> request_cookies dec st = Ok d ->
  forall k, dict_get k d = match lookup k (cookie_pairs st) with Some bv => dec bv | None => None end.
Proof. exact request_cookies_lookup. Qed.
Print Assumptions C15_request_text.

Theorem C15_read_after_set : forall (enc : text -> option str) (dec : str -> option text),
  (forall t b, enc t = Some b -> is_latin1 b = true) ->
  (forall t b, enc t = Some b -> dec b = Some t) ->
  (forall k, is_ascii k = true -> dec k = Some k) ->
  forall st name n v b d, wf_jar st -> check_name name = Ok n ->
  enc v = Some b -> plain_ok b = true ->
  request_cookies dec (fst (jar_set enc st name (Some v))) = Ok d ->
  snd (jar_set enc st name (Some v)) = Ok tt /\
  dict_get n d = Some v /\
  forall k, k <> n -> dict_get k d = match lookup k (cookie_pairs st) with Some bv => dec bv | None => None end.
Proof. exact read_after_set. Qed.
Print Assumptions C15_read_after_set.

Theorem C15_invalid_name_rejected : forall (enc : text -> option str) st name value e, check_name name = Raise e ->
  jar_set enc st name value = (st, Raise e) /\ jar_del enc st name = (st, Raise e).
Proof. exact invalid_name_rejected. Qed.
Print Assumptions C15_invalid_name_rejected.

Theorem C15_delete_keyerror_iff : forall (enc : text -> option str) st name n, wf_jar st -> check_name name = Ok n ->
  (has_key n (cookie_pairs st) = false ->
     snd (jar_del enc st name) = Raise KeyError /\ cookie_pairs (fst (jar_del enc st name)) = cookie_pairs st) /\
  (has_key n (cookie_pairs st) = true ->
     snd (jar_del enc st name) = Ok tt /\ cookie_pairs (fst (jar_del enc st name)) = pairs_del n (cookie_pairs st)).
Proof. exact delete_keyerror_iff. Qed.
Print Assumptions C15_delete_keyerror_iff.

(* the restriction to well-formed headers is needed: with a quote that opens a value and is never closed, assigning
   ANOTHER name swallows a pair (header  a=Qx; b=2 , cookies[c] = q r) *)
Theorem C15_outside_class_refuted :
  let h := H "613d22783b20623d32"%string in
  let ops := [RSet (Some (H "63"%string)) (Some (H "712072"%string))] in
  cookie_pairs (rrun utf8_encode ops (Some h)) <> ref_rrun utf8_encode ops (cookie_pairs (Some h)).
Proof. exact outside_class_witness. Qed.
Print Assumptions C15_outside_class_refuted.

(* The same, where the pre-existing header ENDS inside the quoted string (header  x=Q ; cookies[A] = "a b" gives the
   header  x=Q; A=Qa bQ ): every premise of C15_request_jar but [wf_jar] holds, the assignment is accepted, and afterwards
   the cookie just assigned is not in the jar while the untouched x reads "; A=" instead of "".  Replayed on the
   implementation this is the finding  request-jar:unbalanced-quote-in-existing-header  (harness class 'Q'). *)
Theorem C15_open_quote_refuted :
  exists st ops, forallb (op_ok utf8_encode) ops = true /\
    cookie_pairs (rrun utf8_encode ops st) <> ref_rrun utf8_encode ops (cookie_pairs st) /\
    (exists k v, ops = [RSet (Some k) (Some v)] /\ has_key k (cookie_pairs (rrun utf8_encode ops st)) = false) /\
    (exists k, has_key k (cookie_pairs st) = true /\
               lookup k (cookie_pairs (rrun utf8_encode ops st)) <> lookup k (cookie_pairs st) /\
               lookup k (ref_rrun utf8_encode ops (cookie_pairs st)) = lookup k (cookie_pairs st)).
Proof. exact open_quote_refutes. Qed.
Print Assumptions C15_open_quote_refuted.

(* the witness spelled out: header, header after the assignment, pairs and text read back, reference pairs *)
Theorem C15_open_quote_witness :
  forallb (op_ok utf8_encode) oq_ops = true /\
  cookie_pairs (Some oq_header) = [(H "78"%string, [])] /\
  rrun utf8_encode oq_ops (Some oq_header) = Some (H "783d223b20413d2261206222"%string) /\
  cookie_pairs (rrun utf8_encode oq_ops (Some oq_header)) = [(H "78"%string, H "3b20413d"%string)] /\
  has_key (H "41"%string) (cookie_pairs (rrun utf8_encode oq_ops (Some oq_header))) = false /\
  ref_rrun utf8_encode oq_ops (cookie_pairs (Some oq_header)) = [(H "78"%string, []); (H "41"%string, H "612062"%string)] /\
  request_cookies utf8_decode (rrun utf8_encode oq_ops (Some oq_header)) = Ok [(H "78"%string, H "3b20413d"%string)].
Proof. exact open_quote_witness. Qed.
Print Assumptions C15_open_quote_witness.

(* … and where it ends inside a backslash escape (header  x=\ ; cookies[A] = 1  gives  x=\; A=1 ): A is stored, the
   untouched x reads ";" instead of "" *)
Theorem C15_dangling_escape_refuted :
  forallb (op_ok utf8_encode) de_ops = true /\
  cookie_pairs (Some de_header) = [(H "78"%string, [])] /\
  rrun utf8_encode de_ops (Some de_header) = Some (H "783d5c3b20413d31"%string) /\
  cookie_pairs (rrun utf8_encode de_ops (Some de_header)) = [(H "78"%string, H "3b"%string); (H "41"%string, H "31"%string)] /\
  ref_rrun utf8_encode de_ops (cookie_pairs (Some de_header)) = [(H "78"%string, []); (H "41"%string, H "31"%string)].
Proof. exact dangling_escape_witness. Qed.
Print Assumptions C15_dangling_escape_refuted.

(* ====================================================================== response side *)

(* the cookie a Set-Cookie line produced by make_cookie sets, as unset_cookie reads it, is the requested name *)
Theorem C15_line_name_of_made_cookie : forall a value line, make_cookie a value = Ok line ->
  line_name line = Some (a_name a).
Proof. exact make_cookie_line_name. Qed.
Print Assumptions C15_line_name_of_made_cookie.

(* unset_cookie removes exactly the headers whose cookie is the named one — every other header, Set-Cookie or not,
   stays where it is with its exact text (value and all attributes) — and raises KeyError iff (strict and) none *)
Theorem C15_unset_only_named : forall (enc : text -> option str) hl name strict bname, enc name = Some bname ->
  fst (unset_cookie enc hl name strict) = drop_named bname hl /\
  snd (unset_cookie enc hl name strict) =
    (if keyed_has bname (keyed_of hl) then Ok tt else if strict then Raise KeyError else Ok tt).
Proof. exact unset_cookie_spec. Qed.
Print Assumptions C15_unset_only_named.

Theorem C15_unset_keyed : forall (enc : text -> option str) hl name strict bname, enc name = Some bname ->
  keyed_of (fst (unset_cookie enc hl name strict)) = keyed_unset bname (keyed_of hl) /\
  other_headers (fst (unset_cookie enc hl name strict)) = other_headers hl.
Proof. exact unset_cookie_keyed. Qed.
Print Assumptions C15_unset_keyed.

(* set_cookie appends one line that sets the requested name; overwrite=True first removes that name only *)
Theorem C15_overwrite_only_named : forall enc : text -> option str,
  (forall t, is_ascii t = true -> enc t = Some t) ->
  forall hl a ov hl', set_cookie enc hl a ov = (hl', Ok tt) ->
  exists line,
    keyed_of hl' = (if ov then keyed_unset (a_name a) (keyed_of hl) else keyed_of hl) ++ [(Some (a_name a), line)] /\
    other_headers hl' = other_headers hl.
Proof. exact set_cookie_keyed. Qed.
Print Assumptions C15_overwrite_only_named.

Theorem C15_set_cookie_refused_keeps_others : forall enc : text -> option str,
  (forall t, is_ascii t = true -> enc t = Some t) ->
  forall hl a ov hl' e, set_cookie enc hl a ov = (hl', Raise e) -> hl' = hl.
Proof. exact set_cookie_refused. Qed.
Print Assumptions C15_set_cookie_refused_keeps_others.

(* delete_cookie appends  name=; [Domain=…; ]Max-Age=0; [Path=…; ]expires=Wed, 31-Dec-97 23:59:59 GMT *)
Theorem C15_delete_cookie_shape : forall (enc : text -> option str) hl name path domain hl',
  delete_cookie enc hl name path domain = (hl', Ok tt) ->
  exists pth dom, latin1_opt path = Ok pth /\ latin1_opt domain = Ok dom /\
    hl' = hl ++ [(set_cookie_key,
                  name ++ [61] ++ attr_part s_domain dom ++ s_maxage0 ++ attr_part s_path pth ++ s_expired)].
Proof. exact delete_cookie_shape. Qed.
Print Assumptions C15_delete_cookie_shape.

Theorem C15_merge_appends : forall self other, last_cookie_line self <> Some [] ->
  cookie_lines (merge_cookies self other) = cookie_lines other ++ cookie_lines self /\
  other_headers (merge_cookies self other) = other_headers other.
Proof. exact merge_cookies_spec. Qed.
Print Assumptions C15_merge_appends.

(* merge_cookies onto a plain WSGI application: every answer = the application's own headers, then this response's
   Set-Cookie headers, once.  (The answer is a pure function of the application's headers; that the application's
   own list OBJECT is left alone, call after call, is checked on the implementation by the merge-app correspondence
   and oracle.) *)
Theorem C15_merge_app_appends : forall self apph, last_cookie_line self <> Some [] ->
  cookie_lines (wrapped_answer (merge_app_headers self) apph) = cookie_lines apph ++ cookie_lines self /\
  other_headers (wrapped_answer (merge_app_headers self) apph) = other_headers apph /\
  exists extra, wrapped_answer (merge_app_headers self) apph = apph ++ extra.
Proof. exact merge_app_spec. Qed.
Print Assumptions C15_merge_app_appends.

(* ====================================================================== the hypotheses are satisfiable *)
(* $Version=1; a = Qx; b=2Q;; secure; b=2;   (Q = double quote) is a well-formed header *)
Example C15_wf_header_example :
  wf_header (H "2456657273696f6e3d313b2061203d2022783b20623d32223b3b207365637572653b20623d323b"%string).
Proof.
  exists [ ([], mkItem (H "2456657273696f6e"%string) [] [] (VU [49]));
           (H "3b20"%string, mkItem [97] [32] [32] (VQ (H "783b20623d32"%string)));
           (H "3b3b207365637572653b20"%string, mkItem [98] [] [] (VU [50])) ], [59].
  split; vm_compute; reflexivity.
Qed.

(* an ASCII-only codec (Proofs/C15_request.v) satisfies the codec laws (CPython's utf-8 codec does too: Proofs/C07_utf8.v) *)
Example C15_codec_laws_example :
  (forall t b, ascii_enc t = Some b -> is_latin1 b = true) /\
  (forall t b, ascii_enc t = Some b -> ascii_dec b = Some t) /\
  (forall k, is_ascii k = true -> ascii_dec k = Some k) /\
  (forall t, is_ascii t = true -> ascii_enc t = Some t).
Proof. exact ascii_codec_laws. Qed.

(* values webob emits bare and reads back whole; and one (all allowed characters, not all legal) it does not on a tree
   where '[' is allowed but not legal — there [plain_ok] is the premise that keeps C07's finding out of C15 *)
Example C15_plain_ok_example : plain_ok (H "783d792b7a"%string) = true /\ plain_ok (H "7820793b"%string) = true.
Proof. split; vm_compute; reflexivity. Qed.
