(* C07 — Cookie serialisation is injection-safe and values round-trip.
   Property theorems only: each is closed by [exact] of a lemma proved in Proofs/, followed by
   Print Assumptions.  Model: Model/C07_CookieCodec.v over the tables regenerated from webob/cookies.py
   (Gen/C07_tables.v); vocabulary of the statement: Spec/C07_CookieSpec.v, Spec/C07_Requested.v. *)
From Coq Require Import String.
From Coq Require Import ZArith NArith List Bool.
Require Import Webob.Lib.Val Webob.Lib.PyStr Webob.Lib.C07_Utf8 Webob.Gen.C07_tables Webob.Model.C07_CookieCodec
               Webob.Spec.C07_CookieSpec Webob.Spec.C07_Requested
               Webob.Proofs.C07_utf8 Webob.Proofs.C07_tables Webob.Proofs.C07_output Webob.Proofs.C07_input
               Webob.Proofs.C07_serialize Webob.Proofs.C07_reparse.
Import ListNotations.
Local Open Scope N_scope.

(* ------------------------------------------------------------------ output alphabet *)
(* For every byte string, what _value_quote emits is escaped text or escaped text between double quotes,
   and what _path_quote (= _domain_quote) emits is escaped text: printable non-delimiters and \ooo only,
   SP only between the quotes.  No ';' ',' control, double quote or backslash is exposed. *)
Theorem C07_out_alphabet : forall v, octets v ->
  safe_value (value_quote v) /\ escaped false (path_quote v).
Proof. exact (fun v Ho => conj (value_quote_safe v Ho) (path_quote_safe v Ho)). Qed.
Print Assumptions C07_out_alphabet.

Theorem C07_out_printable : forall v, octets v ->
  forallb (fun c => printable c && negb (c =? 59) && negb (c =? 44)) (value_quote v) = true.
Proof. exact (fun v Ho => safe_value_wire _ (value_quote_safe v Ho)). Qed.
Print Assumptions C07_out_printable.

Example C07_octets_example : octets (H "785b795d3b20c3a9"%string).
Proof. repeat constructor. Qed.

(* ------------------------------------------------------------------ escaping is inverted exactly *)
(* the 256-entry sweep, one octet at a time ... *)
Theorem C07_escape_inverse_octet : forall c, c < 256 ->
  unq_scan (escape_char c) = [c] /\ unq_scan (path_escape_char c) = [c].
Proof. exact unquote_escape_octet. Qed.
Print Assumptions C07_escape_inverse_octet.

(* ... lifted to every byte string, for webob's own _unquote and for the reference decoder *)
Theorem C07_escape_inverse : forall v, octets v ->
  unquote (value_quote v) = v /\ unquote (path_quote v) = v
  /\ denote_value (value_quote v) = v /\ denote_value (path_quote v) = v.
Proof.
  exact (fun v Ho => conj (unquote_value_quote v Ho) (conj (unquote_path_quote v Ho)
                      (conj (denote_value_quote v Ho) (denote_path_quote v Ho)))).
Qed.
Print Assumptions C07_escape_inverse.

(* ------------------------------------------------------------------ the three alphabets agree *)
(* every octet written unquoted is accepted unquoted by the parser; every name character is a key character *)
Theorem C07_octets_in_out : forall c, is_allowed c = true -> is_legal c = true.
Proof. exact allowed_legal. Qed.
Print Assumptions C07_octets_in_out.

Theorem C07_name_octets_in : forall c, is_token c = true ->
  is_legal c = true /\ c <> 61 /\ is_ws c = false /\ tchar c = true /\ c < 128.
Proof. exact token_props. Qed.
Print Assumptions C07_name_octets_in.

(* _valid_token_bytes is exactly the RFC token alphabet *)
Theorem C07_token_alphabet : forall c, is_token c = true <-> tchar c = true.
Proof. exact (fun c => conj (is_token_tchar c) (tchar_is_token c)). Qed.
Print Assumptions C07_token_alphabet.

(* ------------------------------------------------------------------ the pair comes back among other cookies *)
(* Any list of name=value pairs, every value quoted by _value_quote, joined by "; " as a client sends them:
   parse_cookie returns exactly the pairs. *)
Theorem C07_pair_roundtrip : forall ps, Forall good_pair ps -> parse_cookie (render ps) = ps.
Proof. exact parse_cookie_render. Qed.
Print Assumptions C07_pair_roundtrip.

Example C07_good_pair_example :
  Forall good_pair [(H "61"%string, H "31"%string); (H "6e"%string, H "785b795d3b20c3a9"%string)].
Proof. repeat constructor. Qed.

(* request.cookies: the text set under [name] is read back, whatever well-formed cookies surround it
   (a later cookie of the same name would win, so there is none to the right) *)
Theorem C07_request_cookies_roundtrip : forall l r name t b,
  Forall text_pair l -> Forall text_pair r ->
  valid_cookie_name name = true -> utf8_encode t = Some b ->
  ~ In name (map fst r) ->
  exists d, request_cookies (render (l ++ (name, b) :: r)) = Ok d /\ dict_get name d = Some t.
Proof. exact request_cookies_roundtrip. Qed.
Print Assumptions C07_request_cookies_roundtrip.

Example C07_request_cookies_example :
  request_cookies (render [(H "61"%string, H "31"%string); (H "6e"%string, H "c3a93b20f09f9880"%string); (H "62"%string, H "32"%string)])
  = Ok [(H "61"%string, H "31"%string); (H "6e"%string, W "0000e900003b00002001f600"%string); (H "62"%string, H "32"%string)].
Proof. vm_compute. reflexivity. Qed.

(* KNOWN FINDING (request-cookies:non-utf8-value): the hypothesis "the value is the utf-8 encoding of a text" cannot be
   dropped.  A byte value that is not UTF-8 comes back exactly from parse_cookie, but request.cookies raises
   UnicodeDecodeError - for every cookie of that header. *)
Theorem C07_request_cookies_bytes_refuted :
  exists b, octets b /\ good_pair (H "6e"%string, b)
    /\ parse_cookie (render [(H "61"%string, H "31"%string); (H "6e"%string, b); (H "63"%string, H "33"%string)])
       = [(H "61"%string, H "31"%string); (H "6e"%string, b); (H "63"%string, H "33"%string)]
    /\ request_cookies (render [(H "61"%string, H "31"%string); (H "6e"%string, b); (H "63"%string, H "33"%string)])
       = Raise UnicodeDecodeError.
Proof. exact request_cookies_non_utf8_refuted. Qed.
Print Assumptions C07_request_cookies_bytes_refuted.

(* ------------------------------------------------------------------ one cookie, exactly the attributes requested *)
(* Whenever make_cookie emits a line, the line is printable ASCII and the reference Set-Cookie splitter
   recovers the name, the value octets and exactly the requested attributes (nothing can be injected through
   value, path, domain or comment).  [r_date] is the rendered expires date (abstract). *)
Theorem C07_one_cookie_exact_attrs : forall validate r line,
  req_octets r -> plain (r_date r) = true ->
  make_cookie validate r = Ok line ->
  forallb printable line = true
  /\ ref_parse line = Some (r_name r, value_octets r, requested r).
Proof. exact one_cookie_exact_attrs_any. Qed.
Print Assumptions C07_one_cookie_exact_attrs.

(* no hypothesis on SameSite is needed: with SAMESITE_VALIDATION on it is one of the three words, with the flag off
   it must still be a token, so whatever is emitted needs no escaping and cannot end the attribute *)
Theorem C07_emitted_samesite_is_plain : forall validate r line, make_cookie validate r = Ok line -> samesite_plain r.
Proof. exact emitted_samesite_plain. Qed.
Print Assumptions C07_emitted_samesite_is_plain.

(* Response.set_cookie with any Unicode text: the line carries exactly its utf-8 octets *)
Theorem C07_set_cookie_text_exact : forall validate r t b line,
  r_value r = CText t -> utf8_encode t = Some b ->
  opt_octets (r_path r) -> opt_octets (r_domain r) -> opt_octets (r_comment r) ->
  plain (r_date r) = true ->
  set_cookie validate r = Ok line ->
  forallb printable line = true /\ ref_parse line = Some (r_name r, b, requested (with_value r (CBytes b))).
Proof. exact set_cookie_text_exact_any. Qed.
Print Assumptions C07_set_cookie_text_exact.

Definition example_request : request :=
  {| r_name := H "736964"%string; r_value := CBytes (H "61203b62"%string); r_max_age := MaDelta 1 1;
     r_path := Some (H "2f3b2078"%string); r_domain := Some (H "652c76"%string); r_secure := true; r_httponly := true;
     r_comment := Some (H "22712220"%string); r_samesite := Some (H "4e6f6e65"%string);
     r_date := H "5468752c2030312d4f63742d323032362031393a30303a303120474d54"%string |}.

Example C07_one_cookie_example :
  req_octets example_request /\ plain (r_date example_request) = true
  /\ (exists line, make_cookie true example_request = Ok line /\ forallb printable line = true)
  /\ requested example_request =
     [(A_Comment, Some (H "22712220"%string)); (A_Domain, Some (H "652c76"%string)); (A_MaxAge, Some (H "3836343031"%string));
      (A_Path, Some (H "2f3b2078"%string)); (A_expires, Some (r_date example_request));
      (A_secure, None); (A_HttpOnly, None); (A_SameSite, Some (H "4e6f6e65"%string))].
Proof.
  split; [repeat constructor|]. split; [vm_compute; reflexivity|]. split; [|vm_compute; reflexivity].
  eexists. split; vm_compute; reflexivity.
Qed.

(* webob's own reading of the line it emitted (the scanner model of _rx_cookie.findall, then _unquote):
   the name/value pair followed by exactly the requested valued attributes - the flags have no '=' and are
   not seen by it.  Hence parse_cookie(line) is the single pair and Cookie(line) holds exactly one cookie:
   nothing put into value, path, domain or comment is read as another cookie. *)
Theorem C07_webob_reads_own_line : forall validate r line,
  req_octets r -> plain (r_date r) = true -> cookie_date (r_date r) = true ->
  make_cookie validate r = Ok line ->
  parse_cookie_raw line = (r_name r, value_octets r) :: valued_attrs (requested r)
  /\ parse_cookie line = [(r_name r, value_octets r)]
  /\ exists m, cookie_load line = [(r_name r, m)] /\ pm_name m = r_name r /\ pm_value m = value_octets r.
Proof. exact webob_reads_own_line_any. Qed.
Print Assumptions C07_webob_reads_own_line.

Theorem C07_emitted_samesite_is_scannable : forall validate r line, make_cookie validate r = Ok line -> samesite_scannable r.
Proof. exact emitted_samesite_scannable. Qed.
Print Assumptions C07_emitted_samesite_is_scannable.

Example C07_reads_own_line_example :
  cookie_date (r_date example_request) = true /\ cookie_date delete_expires = true
  /\ parse_cookie_raw (match make_cookie true example_request with Ok l => l | Raise _ => [] end)
     = (H "736964"%string, H "61203b62"%string) :: valued_attrs (requested example_request).
Proof. vm_compute. repeat split; reflexivity. Qed.

(* ------------------------------------------------------------------ what must raise, raises *)
Theorem C07_rejects : forall validate r,
  rfc_token (r_name r) = false
  \/ (exists s, r_samesite r = Some s /\ validate = true /\ samesite_legal s = false)
  \/ (exists s, r_samesite r = Some s /\ is_none s = true /\ r_secure r = false) ->
  (exists e, make_cookie validate r = Raise e) /\ (exists e, set_cookie validate r = Raise e).
Proof. exact (fun validate r Hbad => conj (make_cookie_rejects validate r Hbad) (set_cookie_rejects validate r Hbad)). Qed.
Print Assumptions C07_rejects.

(* ... and a legal request is never refused: a line is emitted *)
(* a max_age that is not a number (int() refuses it) is refused, unless the cookie is being deleted *)
Theorem C07_rejects_bad_max_age : forall validate r,
  mc_bad_max_age r = true -> make_cookie validate r = Raise ValueError.
Proof. exact rejects_bad_max_age. Qed.
Print Assumptions C07_rejects_bad_max_age.

(* with SAMESITE_VALIDATION off a SameSite value that is not a token is refused (it would be copied verbatim) *)
Theorem C07_rejects_unvalidated_non_token : forall r s,
  r_samesite r = Some s -> forallb tchar s = false -> exists e, make_cookie false r = Raise e.
Proof. exact rejects_unvalidated_non_token. Qed.
Print Assumptions C07_rejects_unvalidated_non_token.

Theorem C07_accepts : forall (validate : bool) (r : request),
  mc_bad_max_age r = false ->
  name_accepted (r_name r) = true ->
  (forall t, r_value r = CText t -> is_ascii t = true) ->
  req_octets r -> plain (r_date r) = true ->
  (forall s, r_samesite r = Some s ->
     (if validate then samesite_legal s else forallb tchar s) = true /\ (is_none s = true -> r_secure r = true)) ->
  exists line, make_cookie validate r = Ok line.
Proof. exact make_cookie_accepts. Qed.
Print Assumptions C07_accepts.

(* KNOWN FINDING (token-name-refused:dollar-or-attribute-name): the hypothesis name_accepted of C07_accepts is rfc_token
   minus a leading '$' and the attribute names, and cannot be weakened to rfc_token: "$n", "Path", "MAX-AGE" are tokens
   and are refused; they are the only ones. *)
Theorem C07_token_names_refused_refuted :
  (rfc_token (H "246e"%string) = true /\ make_cookie true (plain_request (H "246e"%string)) = Raise AssertionError)
  /\ (rfc_token (H "50617468"%string) = true /\ make_cookie true (plain_request (H "50617468"%string)) = Raise AssertionError)
  /\ (rfc_token (H "4d41582d414745"%string) = true /\ make_cookie true (plain_request (H "4d41582d414745"%string)) = Raise AssertionError).
Proof. exact token_names_refused_refuted. Qed.
Print Assumptions C07_token_names_refused_refuted.

Theorem C07_refused_tokens_only : forall k, rfc_token k = true -> name_accepted k = false ->
  (exists t, k = 36 :: t) \/ mem_str (blower k) c_keys = true.
Proof. exact refused_tokens_only. Qed.
Print Assumptions C07_refused_tokens_only.

Example C07_accepts_example : name_accepted (r_name example_request) = true.
Proof. vm_compute. reflexivity. Qed.

Example C07_rejects_example :
  rfc_token (H "612062"%string) = false /\ samesite_legal (H "666f6f"%string) = false /\ is_none (H "4e4f4e45"%string) = true.
Proof. vm_compute. repeat split; reflexivity. Qed.

(* ================================================================== the expires date is no longer abstract *)
(* Model/C07_CookieDate.v models serialize_cookie_date (as repaired by fixes/C07-5-cookie-date-year-padding.patch):
   [cd_fields] is the formatting step
   time.strftime("%%s, %d-%%s-%%04d %H:%M:%S GMT", v) % (weekdays[v[6]], months[v[1]], v[0]) over the tables regenerated from
   the source (Gen/C07_dates.v), [cd_of_ts] the datetime/int/timedelta paths from the instant utcnow()+v in seconds.
   [fields_ok]: weekday < 7, 1 <= day <= 31, 1 <= month <= 12, year <= 9999, hour < 24, minute < 60, second <= 61. *)
Require Import Webob.Gen.C07_dates Webob.Model.C07_CookieDate Webob.Proofs.C07_cookiedate.

(* for EVERY time tuple in the ranges Python produces: a text is rendered; it is printable ASCII without
   semicolon, double quote or backslash ([plain]) and it is a [cookie_date]: the expires alternative of webob's own
   scanner takes it whole *)
Theorem C07_rendered_date_hypotheses : forall w d m y hh mi ss, fields_ok w d m y hh mi ss = true ->
  exists s, cd_fields w d m y hh mi ss = Ok s /\ plain s = true /\ forallb printable s = true /\ cookie_date s = true.
Proof. exact cd_fields_hyps. Qed.
Print Assumptions C07_rendered_date_hypotheses.

(* every instant a datetime can hold, 0001-01-01T00:00:00 .. 9999-12-31T23:59:59 (whole seconds since the epoch),
   through the civil-from-days arithmetic *)
Theorem C07_rendered_instant_hypotheses : forall t, (ts_min <= t <= ts_max)%Z ->
  exists s, cd_of_ts t = Ok s /\ plain s = true /\ forallb printable s = true /\ cookie_date s = true.
Proof. exact cd_of_ts_hyps. Qed.
Print Assumptions C07_rendered_instant_hypotheses.

(* the defect repaired by fixes/C07-5: with the year through strftime's %Y (not padded by glibc) the date of a year 1..9
   (reachable: max_age=timedelta(days=-739000)) is not taken by the expires alternative of webob's own scanner *)
Theorem C07_cookie_date_unpadded_year_refuted :
  exists s, fields_ok 0 9 6 3 17 23 17 = true /\ cd_fields_unpadded 0 9 6 3 17 23 17 = Ok s /\ plain s = true /\ cookie_date s = false.
Proof. exact cookie_date_unpadded_year_refuted. Qed.
Print Assumptions C07_cookie_date_unpadded_year_refuted.

(* C07_one_cookie_exact_attrs, C07_set_cookie_text_exact and C07_webob_reads_own_line instantiated with the rendered
   date: no hypothesis about the date text is left, only that its fields are in Python's ranges *)
Theorem C07_one_cookie_exact_attrs_dated : forall validate r line w d m y hh mi ss,
  req_octets r -> fields_ok w d m y hh mi ss = true -> cd_fields w d m y hh mi ss = Ok (r_date r) ->
  make_cookie validate r = Ok line ->
  forallb printable line = true /\ ref_parse line = Some (r_name r, value_octets r, requested r).
Proof. exact one_cookie_exact_attrs_dated. Qed.
Print Assumptions C07_one_cookie_exact_attrs_dated.

Theorem C07_set_cookie_text_exact_dated : forall validate r t b line w d m y hh mi ss,
  r_value r = CText t -> utf8_encode t = Some b ->
  opt_octets (r_path r) -> opt_octets (r_domain r) -> opt_octets (r_comment r) ->
  fields_ok w d m y hh mi ss = true -> cd_fields w d m y hh mi ss = Ok (r_date r) ->
  set_cookie validate r = Ok line ->
  forallb printable line = true /\ ref_parse line = Some (r_name r, b, requested (with_value r (CBytes b))).
Proof. exact set_cookie_text_exact_dated. Qed.
Print Assumptions C07_set_cookie_text_exact_dated.

Theorem C07_webob_reads_own_line_dated : forall validate r line w d m y hh mi ss,
  req_octets r -> fields_ok w d m y hh mi ss = true -> cd_fields w d m y hh mi ss = Ok (r_date r) ->
  make_cookie validate r = Ok line ->
  parse_cookie_raw line = (r_name r, value_octets r) :: valued_attrs (requested r)
  /\ parse_cookie line = [(r_name r, value_octets r)]
  /\ exists mo, cookie_load line = [(r_name r, mo)] /\ pm_name mo = r_name r /\ pm_value mo = value_octets r.
Proof. exact webob_reads_own_line_dated. Qed.
Print Assumptions C07_webob_reads_own_line_dated.

(* the max_age path: the date is rendered from the instant utcnow()+max_age, whatever datetime can hold *)
Theorem C07_make_cookie_at_instant : forall validate r line t,
  req_octets r -> (ts_min <= t <= ts_max)%Z -> cd_of_ts t = Ok (r_date r) ->
  make_cookie validate r = Ok line ->
  (forallb printable line = true /\ ref_parse line = Some (r_name r, value_octets r, requested r))
  /\ parse_cookie line = [(r_name r, value_octets r)].
Proof. exact make_cookie_at_instant. Qed.
Print Assumptions C07_make_cookie_at_instant.

(* the hypotheses are satisfiable: the example request's date is what the model renders for Thu 2026-10-01 19:00:01,
   from its fields and from its instant; the first second of year 1 *)
Example C07_dated_example :
  fields_ok 3 1 10 2026 19 0 1 = true /\ cd_fields 3 1 10 2026 19 0 1 = Ok (r_date example_request)
  /\ (ts_min <= 1790881201 <= ts_max)%Z /\ cd_of_ts 1790881201 = Ok (r_date example_request)
  /\ cd_of_ts 0 = Ok (H "5468752c2030312d4a616e2d313937302030303a30303a303020474d54"%string)
  /\ cd_of_ts ts_min = Ok (H "4d6f6e2c2030312d4a616e2d303030312030303a30303a303020474d54"%string).
Proof. vm_compute. repeat split; try reflexivity; discriminate. Qed.

(* the regenerated name tables are the RFC ones (Mon..Sun with Monday = weekday 0; Jan..Dec at index 1..12) *)
Theorem C07_date_tables_rfc :
  map Ok weekdays = map (fun w => weekday_name w) [0; 1; 2; 3; 4; 5; 6]
  /\ weekdays = [H "4d6f6e"%string; H "547565"%string; H "576564"%string; H "546875"%string;
                 H "467269"%string; H "536174"%string; H "53756e"%string]
  /\ map month_name [1; 2; 3; 4; 5; 6; 7; 8; 9; 10; 11; 12]
     = map Ok [H "4a616e"%string; H "466562"%string; H "4d6172"%string; H "417072"%string; H "4d6179"%string; H "4a756e"%string;
               H "4a756c"%string; H "417567"%string; H "536570"%string; H "4f6374"%string; H "4e6f76"%string; H "446563"%string].
Proof. exact (conj eq_refl (conj weekdays_rfc eq_refl)). Qed.
Print Assumptions C07_date_tables_rfc.
