(* C07 — stub while the model is validated *)
Require Import Webob.Model.C07_CookieCodec Webob.Proofs.C07_utf8.
