(* C09 — property theorems only.  Each is closed by [exact] of a lemma proved in Proofs/,
   followed by Print Assumptions. *)
From Coq Require Import ZArith NArith List Bool.
Require Import Webob.Lib.Val Webob.Lib.PyStr Webob.Lib.C09_Utf8 Webob.Model.MultiDict Webob.Spec.ListModel
               Webob.Model.C09_QueryCodec Webob.Spec.C09_FormSpec
               Webob.Model.C09_Multipart Webob.Model.C09_Held
               Webob.Proofs.C09_utf8 Webob.Proofs.C09_query Webob.Proofs.C09_getdict Webob.Proofs.C09_multipart
               Webob.Proofs.C09_held.
Import ListNotations.
Local Open Scope N_scope.

(* UTF-8: decoding the encoding of any text gives the text back; the strict decoder only ever
   returns text (scalar values) *)
Theorem C09_utf8_roundtrip : forall s, valid_text s = true -> utf8_decode (utf8_encode s) = Some s.
Proof. exact utf8_roundtrip. Qed.
Print Assumptions C09_utf8_roundtrip.

Theorem C09_utf8_decode_is_text : forall b s, utf8_decode b = Some s -> valid_text s = true.
Proof. exact utf8_decode_scalar. Qed.
Print Assumptions C09_utf8_decode_is_text.

(* webob's unquote (split on '%', table lookup of item[:2]) is the reference percent-decoder on
   EVERY byte string: %XX with two hex digits is an octet, any other '%' is kept literally *)
Theorem C09_unquote_spec : forall s, unquote s = spec_unquote s.
Proof. exact unquote_spec. Qed.
Print Assumptions C09_unquote_spec.

(* parse_qsl_text (what request.GET runs) is the reference x-www-form-urlencoded decoder on every
   WSGI query string: same ordered pairs, and it fails exactly when the reference finds non-UTF-8 *)
Theorem C09_decode_spec : forall qs, forallb is_octet qs = true ->
  parse_utf8 qs = match spec_decode qs with Some l => Ok l | None => UnicodeDecodeError end.
Proof. exact decode_spec. Qed.
Print Assumptions C09_decode_spec.

Example C09_decode_spec_example :
  parse_utf8 [97;61;37;122;122;38;38;37;52;49;61;37;59;98;43;61;37;67;51;37;65;57]   (* a=%zz&&%41=%;b+=%C3%A9 *)
  = Ok [([97], [37;122;122]); ([65], [37]); ([98;32], [233])].
Proof. reflexivity. Qed.

(* no query string makes request.GET raise anything but a Unicode decoding error *)
Theorem C09_only_unicode_error : forall qs, forallb is_octet qs = true ->
  (exists l, parse_utf8 qs = Ok l) \/ parse_utf8 qs = UnicodeDecodeError.
Proof. exact only_unicode_error. Qed.
Print Assumptions C09_only_unicode_error.

(* urlencode / GetDict.on_change followed by a fresh parse gives the same ordered pairs, for every
   list of text pairs (feeds C01) *)
Theorem C09_writeback : forall l, valid_items l = true -> parse_utf8 (on_change l) = Ok l.
Proof. exact writeback. Qed.
Print Assumptions C09_writeback.

Example C09_writeback_hyp_satisfiable :
  valid_items [([38;61;59;43;37;32;233;8364;128512], [0;13;10;34;92])] = true.
Proof. reflexivity. Qed.

(* after ANY history of operations through request.GET (the C08 operation set) and of external
   assignments to environ['QUERY_STRING'], request.GET shows what a brand-new Request would parse
   from the current QUERY_STRING *)
Theorem C09_get_history : forall qs0 ops, forallb rq_op_valid ops = true ->
  let r := fold_left (fun r o => fst (rq_step r o)) ops (mkRq qs0 None) in
  fst (get_vars r) = fresh_parse (rq_qs r).
Proof. exact get_history. Qed.
Print Assumptions C09_get_history.

(* every successful mutation of request.GET rewrites QUERY_STRING; the new QUERY_STRING parses
   afresh to the list model's (C08) result of that mutation, and the op returns what the list model
   returns *)
Theorem C09_get_mutation : forall r o l, cache_ok r -> op_valid o = true ->
  fst (get_vars r) = Ok l ->
  let '(r', ret) := rq_step r (RGet o) in
  ret = snd (step_s idn l o) /\
  (is_err ret || is_copy o = false ->
     rq_qs r' = on_change (fst (step_s idn l o)) /\
     fresh_parse (rq_qs r') = Ok (fst (step_s idn l o)) /\
     fst (get_vars r') = Ok (fst (step_s idn l o))).
Proof. exact get_mutation. Qed.
Print Assumptions C09_get_mutation.

Example C09_cache_ok_initial : forall qs, cache_ok (mkRq qs None).
Proof. intros qs. exact I. Qed.

Theorem C09_cache_ok_preserved : forall ops r, cache_ok r -> forallb rq_op_valid ops = true ->
  cache_ok (fold_left (fun r o => fst (rq_step r o)) ops r).
Proof. exact rq_history_ok. Qed.
Print Assumptions C09_cache_ok_preserved.

(* params is GET followed by POST *)
Theorem C09_params_order : forall get post, params_items get post = get ++ post.
Proof. exact params_order. Qed.
Print Assumptions C09_params_order.

(* request.decode(cs): Transcoder.transcode_query rewrites a query / urlencoded body submitted in
   charset cs so that the ordinary UTF-8 parse yields exactly the pairs the cs-parse yields.  The
   codec is arbitrary; all that is assumed of it is that it returns text. *)
Theorem C09_decode_charset : forall decode : list N -> option str,
  (forall b s, decode b = Some s -> valid_text s = true) ->
  forall q l, parse_qsl_text decode q = Ok l -> mem_n 61 q = true ->
  exists q', transcode_query decode q = Ok q' /\ parse_utf8 q' = Ok l.
Proof. exact transcode_same_pairs. Qed.
Print Assumptions C09_decode_charset.

Theorem C09_decode_charset_latin1 : forall q l,
  parse_qsl_text latin1_decode q = Ok l -> mem_n 61 q = true ->
  exists q', transcode_query latin1_decode q = Ok q' /\ parse_utf8 q' = Ok l.
Proof. exact transcode_latin1. Qed.
Print Assumptions C09_decode_charset_latin1.

(* multipart/form-data.  A quoted header parameter written by webob's q() is read back exactly by the
   reference quoted-string reader, whatever follows the closing quote (any octets: quotes, backslashes,
   separators, CR/LF, NUL included) *)
Theorem C09_multipart_param_roundtrip : forall t rest,
  parse_quoted (utf8_encode (q_escape t) ++ 34 :: rest) = Some (utf8_encode t, rest).
Proof. exact param_roundtrip. Qed.
Print Assumptions C09_multipart_param_roundtrip.

(* The reference multipart splitter recovers every field list (names, values, filenames, file bytes,
   order) from the body _encode_multipart writes for it, for every boundary, provided names, filenames
   and text values are text, the guessed MIME type has no CR, and no part contains CRLF--boundary
   before its end.  (Agreement of the reference splitter with cgi.FieldStorage on these bodies is
   correspondence only; cgi additionally needs names/filenames without CR/LF.) *)
Theorem C09_multipart_frame : forall B fs,
  forallb (field_ok (delimiter (utf8_encode B))) fs = true ->
  ref_decode (utf8_encode B) (encode_multipart B fs) = Some (map dec_of fs).
Proof. exact multipart_frame. Qed.
Print Assumptions C09_multipart_frame.

Example C09_multipart_frame_hyp_satisfiable :
  forallb (field_ok (delimiter (utf8_encode [66;49])))
          [ ([97;34;59;92], MText [120;13;10;45;45;66;121;0;233]);
            ([102;92;92;34], MFile [8364;46;116;120;116] (Some [116;101;120;116;47;112;108;97;105;110]) [13;10;45;45;66;50;255;0]) ]
  = true.
Proof. reflexivity. Qed.

(* contents without any CR satisfy the framing hypothesis for every boundary *)
Theorem C09_multipart_no_cr_suffices : forall B x, free 13 x = true -> early_free (delimiter B) x = true.
Proof. exact no_cr_suffices. Qed.
Print Assumptions C09_multipart_no_cr_suffices.

(* Statefulness: ONE request whose GetDict objects are kept by the caller.  After ANY history of
   operations through request.GET, through any GetDict handed out earlier (also a stale one, after
   QUERY_STRING was edited behind its back), and of raw QUERY_STRING assignments, request.GET shows
   what a brand-new Request parses from the current QUERY_STRING. *)
Theorem C09_held_history : forall qs0 ops, forallb hq_op_valid ops = true ->
  let r := fold_left (fun r o => fst (hq_step r o)) ops (mkHq qs0 None []) in
  fst (hq_view r) = fresh_parse (hq_qs r).
Proof. exact held_history. Qed.
Print Assumptions C09_held_history.

(* a successful mutation of ANY such object rewrites QUERY_STRING to that object's new contents (the
   C08 list-model result), makes it the object request.GET shows and leaves every other GetDict
   object untouched; a failed mutation (or copy()) changes nothing at all *)
Theorem C09_held_mutation : forall r i o, hq_ok r -> (i < length (hq_heap r))%nat -> op_valid o = true ->
  let l' := fst (step_s idn (hq_dict r i) o) in
  let ret := snd (step_s idn (hq_dict r i) o) in
  let r' := fst (hq_apply r i o) in
  snd (hq_apply r i o) = ret /\
  (is_err ret || is_copy o = true -> r' = r) /\
  (is_err ret || is_copy o = false ->
     hq_qs r' = on_change l' /\ fresh_parse (hq_qs r') = Ok l' /\ fst (hq_view r') = Ok l' /\
     forall j, j <> i -> hq_dict r' j = hq_dict r j).
Proof. exact held_mutation. Qed.
Print Assumptions C09_held_mutation.

Theorem C09_held_invariant : forall ops r, hq_ok r -> forallb hq_op_valid ops = true ->
  hq_ok (fold_left (fun r o => fst (hq_step r o)) ops r).
Proof. exact hq_history_ok. Qed.
Print Assumptions C09_held_invariant.

Example C09_hq_ok_initial : forall qs, hq_ok (mkHq qs None []).
Proof. intros qs. split; [reflexivity|exact I]. Qed.

(* Transcoder(charset, errors).transcode_query decodes strictly whatever `errors` is (the model has no such
   parameter); its hypothesis "the codec returns text" holds of the ascii codec the correspondence uses *)
Theorem C09_decode_charset_ascii : forall q l,
  parse_qsl_text ascii_decode_strict q = Ok l -> mem_n 61 q = true ->
  exists q', transcode_query ascii_decode_strict q = Ok q' /\ parse_utf8 q' = Ok l.
Proof. exact (transcode_same_pairs ascii_decode_strict ascii_decoder_text). Qed.
Print Assumptions C09_decode_charset_ascii.

(* request.decode(cs) on a query / urlencoded body WITHOUT any '=' (bare names): the names are transcoded and the
   bare form is kept; the result parses, as UTF-8, to the same pairs.  The codec must return text, decode the empty
   octet string to the empty text, and no name may decode to '' (a bare empty name cannot be written without '=';
   only a codec that decodes non-empty octets to nothing, e.g. a lone UTF-16 BOM, could produce one). *)
Theorem C09_decode_charset_bare_names : forall decode : list N -> option str,
  (forall b s, decode b = Some s -> valid_text s = true) -> decode [] = Some [] ->
  forall q l, parse_qsl_text decode q = Ok l -> mem_n 61 q = false -> names_nonempty l = true ->
  exists q', transcode_query decode q = Ok q' /\ parse_utf8 q' = Ok l.
Proof. exact transcode_bare_names. Qed.
Print Assumptions C09_decode_charset_bare_names.

Example C09_bare_names_example :
  transcode_query latin1_decode [107;37;69;57;38;120;43;121]                    (* k%E9&x+y *)
  = Ok [107;37;67;51;37;65;57;38;120;43;121].                                 (* k%C3%A9&x+y *)
Proof. reflexivity. Qed.
