(* C10 — Request body: exactly CONTENT_LENGTH bytes, no over-read, repeatable reads.
   Property theorems only; each is closed by [exact] of a lemma proved in Proofs/C10_*.v.

   Reading guide.  [outputs chunk s c sk tm lg lim hist] is what the model of webob.request
   (Model/C10_BodyStream.v) answers along the history [hist] of access paths
   (index of the request, operation, sizes of the raw reads io.BufferedReader issues = adversary)
   on a request whose wsgi.input holds [s], with CONTENT_LENGTH [c] (parsed), webob.is_body_seekable
   [sk], wsgi.input_terminated [tm], webob.is_body_readable [lg], request_body_tempfile_limit [lim],
   copying in steps of [chunk] bytes (65535 in the source; any step >= 1 is covered).
   [srun]/[srun_ok] is the buffer-free specification of Spec/C10_BodySpec.v: a body with a cursor. *)
From Coq Require Import ZArith NArith List Bool Arith.
Require Import Webob.Lib.Val Webob.Model.C10_BodyStream Webob.Spec.C10_BodySpec
               Webob.Proofs.C10_refine Webob.Proofs.C10_world Webob.Proofs.C10_body Webob.Proofs.C10_two.
Import ListNotations.

(* ---- exact_prefix: every history of access paths on the original request and on all its copies,
   under every buffering, for every stream (short ones included), is a history of the
   specification ... *)
Theorem C10_refines_spec : forall chunk s c sk tm lg lim hist,
  1 <= chunk -> consistent s c sk ->
  exists ss', srun_ok [sinit s c sk tm lg] hist (outputs chunk s c sk tm lg lim hist) ss'.
Proof. exact refines. Qed.
Print Assumptions C10_refines_spec.

(* ... and when the stream holds at least the declared number of bytes the answers are exactly the
   specification's (which knows neither buffers, nor the 65535 loop, nor the temp-file limit) *)
Theorem C10_exact : forall chunk s c sk tm lg lim hist,
  1 <= chunk -> consistent s c sk -> long_enough s c sk ->
  outputs chunk s c sk tm lg lim hist = fst (srun [sinit s c sk tm lg] hist).
Proof. exact exact. Qed.
Print Assumptions C10_exact.

Example C10_hyp_consistent : consistent [1%N; 2%N] (Some 2%Z) true /\ long_enough [1%N; 2%N] (Some 2%Z) false.
Proof. split; [intros _; reflexivity|intros _ z E; injection E as <-; cbn; discriminate]. Qed.

(* .body, .body_file.read(), .body_file_seekable.read(), .copy().body, .POST, and an application called
   after .body: each yields exactly the first CONTENT_LENGTH bytes *)
Theorem C10_exact_prefix : forall chunk s z tm lg lim adv p,
  1 <= chunk -> (0 < z)%Z -> (z <= Z.of_nat (length s))%Z -> In p (fresh_paths adv) ->
  last_out (outputs chunk s (Some z) false tm lg lim p) = OBytes (firstn (Z.to_nat z) s).
Proof. exact fresh_body_exact. Qed.
Print Assumptions C10_exact_prefix.

(* body_file.read(k1); .read(k2); ... with any sizes and any buffering hands out, in total, a prefix
   of the body — also on a stream that ends early *)
Theorem C10_reads_prefix : forall chunk s c tm lg lim hist,
  1 <= chunk -> only_reads hist ->
  is_prefix (delivered (outputs chunk s c false tm lg lim hist)) (sbody (sinit s c false tm lg)).
Proof. exact reads_prefix. Qed.
Print Assumptions C10_reads_prefix.

(* ---- no_overread: after any history the server's stream (file 0) has been consumed at most up to
   CONTENT_LENGTH (nothing at all for a zero/negative length) ... *)
Theorem C10_no_overread : forall chunk s z tm lg lim hist,
  1 <= chunk ->
  fpos (cells (wheap (final chunk s (Some z) false tm lg lim hist)) 0) <= Z.to_nat z.
Proof. exact no_overread_cl. Qed.
Print Assumptions C10_no_overread.

(* ---- no_cl: ... without CONTENT_LENGTH and without the terminated flag nothing is ever read and
   the body is empty; with the flag it is the whole input *)
Theorem C10_no_cl_reads_nothing : forall chunk s tm lg lim hist,
  1 <= chunk -> flag0 tm lg = false ->
  fpos (cells (wheap (final chunk s None false tm lg lim hist)) 0) = 0.
Proof. exact no_read_without_cl. Qed.
Print Assumptions C10_no_cl_reads_nothing.

Theorem C10_no_cl_empty : forall chunk s tm lg lim adv p,
  1 <= chunk -> flag0 tm lg = false -> In p (fresh_paths5 adv) ->
  last_out (outputs chunk s None false tm lg lim p) = OBytes [].
Proof. exact fresh_no_cl_empty. Qed.
Print Assumptions C10_no_cl_empty.

Theorem C10_no_cl_terminated : forall chunk s tm lg lim adv p,
  1 <= chunk -> flag0 tm lg = true -> In p (fresh_paths adv) ->
  last_out (outputs chunk s None false tm lg lim p) = OBytes s.
Proof. exact fresh_no_cl_terminated. Qed.
Print Assumptions C10_no_cl_terminated.

(* a zero or negative CONTENT_LENGTH is an empty body (repaired: fixes/C10-1) *)
Theorem C10_nonpositive_cl_empty : forall chunk s z tm lg lim adv p,
  1 <= chunk -> (z <= 0)%Z -> In p (fresh_paths5 adv) ->
  last_out (outputs chunk s (Some z) false tm lg lim p) = OBytes [].
Proof. exact fresh_zero_or_negative_cl_empty. Qed.
Print Assumptions C10_nonpositive_cl_empty.

(* ---- disconnect: on a stream shorter than CONTENT_LENGTH every whole-body path raises
   DisconnectionError (and nothing is returned) ... *)
Theorem C10_disconnect : forall chunk s z tm lg lim adv p,
  1 <= chunk -> (Z.of_nat (length s) < z)%Z -> In p (fresh_paths adv) ->
  hd OSkip (outputs chunk s (Some z) false tm lg lim p) = ODisc /\
  Forall (fun x => x = ODisc \/ x = OSkip) (outputs chunk s (Some z) false tm lg lim p).
Proof. exact fresh_short_disconnects. Qed.
Print Assumptions C10_disconnect.

(* ... and, anywhere in any history (C10_refines_spec), a request in that state answers a sized
   read with exactly k correct bytes or with the error, never with fewer bytes *)
Theorem C10_disconnect_never_short : forall o s x s' new,
  smode s = MShort -> sstep_ok o s x s' new ->
  (smode s' = MShort \/ exists b, o = SetBody b) /\
  match o with
  | Body | SeekRead _ | Copy | FileRead None => x = ODisc
  | Post => x = ODisc \/ x = OCached
  | FileRead (Some k) =>
      x = ODisc \/ (x = OBytes (firstn k (skipn (scur s) (sbody s))) /\ scur s + k <= length (sbody s))
  | CallApp => x = OSkip
  | CopyGet => x = ONew true
  | SetBody _ => x = OBytes []
  end.
Proof. exact short_answers. Qed.
Print Assumptions C10_disconnect_never_short.

(* an input flagged seekable that holds fewer bytes than declared: .body raises too
   (repaired: fixes/C10-2); one that holds more: exactly the declared bytes *)
Theorem C10_body_seekable_any_length : forall chunk s z tm lg lim adv,
  (0 < z)%Z ->
  outputs chunk s (Some z) true tm lg lim [(0, Body, adv)] =
  [if (Z.of_nat (length s) <? z)%Z then ODisc else OBytes (firstn (Z.to_nat z) s)].
Proof. exact body_seekable_any. Qed.
Print Assumptions C10_body_seekable_any_length.

(* ---- idempotent: after any history, on any request: if .body returns b then .body again returns b
   and the body can then still be read from body_file; and the answers do not depend on the temp-file
   limit nor on the copy step *)
Theorem C10_idempotent : forall chunk s c sk tm lg lim hist i a1 a2 a3 b,
  1 <= chunk -> consistent s c sk -> long_enough s c sk ->
  let xs := outputs chunk s c sk tm lg lim (hist ++ [(i, Body, a1); (i, Body, a2); (i, FileRead None, a3)]) in
  nth_error xs (length hist) = Some (OBytes b) ->
  nth_error xs (S (length hist)) = Some (OBytes b) /\
  nth_error xs (S (S (length hist))) = Some (OBytes b).
Proof. exact idempotent. Qed.
Print Assumptions C10_idempotent.

Theorem C10_limit_irrelevant : forall chunk chunk' s c sk tm lg lim lim' hist,
  1 <= chunk -> 1 <= chunk' -> consistent s c sk -> long_enough s c sk ->
  outputs chunk s c sk tm lg lim hist = outputs chunk' s c sk tm lg lim' hist.
Proof. exact limit_irrelevant. Qed.
Print Assumptions C10_limit_irrelevant.

(* ---- setter_cl: req.body = b (req.text / req.json: b = the encoded text) sets CONTENT_LENGTH to
   len(b) on any request after any history, and .body then returns b *)
Theorem C10_setter_cl : forall chunk s c sk tm lg lim hist i b adv r,
  nth_error (wreqs (final chunk s c sk tm lg lim hist)) i <> None ->
  nth_error (wreqs (final chunk s c sk tm lg lim (hist ++ [(i, SetBody b, adv)]))) i = Some r ->
  cl r = Some (Z.of_nat (length b)) /\ seekable r = true.
Proof. exact setter_cl. Qed.
Print Assumptions C10_setter_cl.

Theorem C10_setter_then_body : forall chunk s c sk tm lg lim hist i b a1 a2,
  1 <= chunk -> consistent s c sk -> long_enough s c sk ->
  nth_error (snd (srun [sinit s c sk tm lg] hist)) i <> None ->
  last_out (outputs chunk s c sk tm lg lim (hist ++ [(i, SetBody b, a1); (i, Body, a2)])) = OBytes b.
Proof. exact setter_then_body. Qed.
Print Assumptions C10_setter_then_body.

(* ---- copy_independent: whatever is done (reads, setters, further copies ...) to the OTHER requests
   — the original, or any copy — request i's .body is what it was *)
Theorem C10_copy_independent : forall chunk s c sk tm lg lim hist1 hist2 i a a',
  1 <= chunk -> consistent s c sk -> long_enough s c sk ->
  nth_error (snd (srun [sinit s c sk tm lg] hist1)) i <> None ->
  avoids i hist2 ->
  last_out (outputs chunk s c sk tm lg lim (hist1 ++ hist2 ++ [(i, Body, a')])) =
  last_out (outputs chunk s c sk tm lg lim (hist1 ++ [(i, Body, a)])).
Proof. exact copy_independent. Qed.
Print Assumptions C10_copy_independent.

(* ---- no hidden state.  The model keeps ALL state in the environ records and in the files they point to (there is no
   per-wrapper, per-class or per-module component to begin with), so "the same Request object used again" and "a
   brand-new Request over the same environ" are the same thing in the model; that this is true of the code is what the
   correspondence and the oracle check with several wrappers over one environ.  What is a theorem: a long-lived request
   answers each of its own steps as the specification's request does on those steps alone, whatever is done to its
   copies in between ... *)
Theorem C10_long_lived_alone : forall chunk s c sk tm lg lim hist,
  1 <= chunk -> consistent s c sk -> long_enough s c sk ->
  answers_for 0 hist (outputs chunk s c sk tm lg lim hist) = alone (sinit s c sk tm lg) (only_for 0 hist).
Proof. exact long_lived_alone. Qed.
Print Assumptions C10_long_lived_alone.

(* ... and two independent requests alive at the same time (two environs, two server streams, one heap, any
   interleaving of their histories and of those of all their copies) each answer as if they were alone *)
Theorem C10_two_live_refines_spec : forall chunk s1 c1 sk1 tm1 lg1 lim1 s2 c2 sk2 tm2 lg2 lim2 hist,
  1 <= chunk -> consistent s1 c1 sk1 -> consistent s2 c2 sk2 ->
  exists ss', srun_ok [sinit s1 c1 sk1 tm1 lg1; sinit s2 c2 sk2 tm2 lg2] hist
                      (outputs2 chunk s1 c1 sk1 tm1 lg1 lim1 s2 c2 sk2 tm2 lg2 lim2 hist) ss'.
Proof. exact refines2. Qed.
Print Assumptions C10_two_live_refines_spec.

Theorem C10_two_live_independent : forall chunk s1 c1 sk1 tm1 lg1 lim1 s2 c2 sk2 tm2 lg2 lim2 hist,
  1 <= chunk -> consistent s1 c1 sk1 -> consistent s2 c2 sk2 ->
  long_enough s1 c1 sk1 -> long_enough s2 c2 sk2 ->
  let xs := outputs2 chunk s1 c1 sk1 tm1 lg1 lim1 s2 c2 sk2 tm2 lg2 lim2 hist in
  answers_for 0 hist xs = alone (sinit s1 c1 sk1 tm1 lg1) (only_for 0 hist) /\
  answers_for 1 hist xs = alone (sinit s2 c2 sk2 tm2 lg2) (only_for 1 hist).
Proof. exact two_live_independent. Qed.
Print Assumptions C10_two_live_independent.

(* ---- known deviations from the property text (KNOWN_FINDINGS.txt), as witnesses on the faithful model.
   The positive theorems above hold because the specification machine carries the same behaviour
   ([sconv]: a partly consumed non-seekable body cannot be captured) resp. because of the hypothesis
   [consistent] (an input flagged seekable holds exactly CONTENT_LENGTH bytes); these witnesses say what
   is excluded. *)

(* body_file.read(2) then .body on a COMPLETE non-seekable stream: DisconnectionError *)
Theorem C10_partial_read_then_body_refuted :
  outputs 65535 [97%N; 98%N; 99%N; 100%N; 101%N; 102%N; 88%N; 89%N; 90%N] (Some 6%Z) false None false 10240%Z
          [(0, FileRead (Some 2), []); (0, Body, [])]
  = [OBytes [97%N; 98%N]; ODisc].
Proof. vm_compute. reflexivity. Qed.
Print Assumptions C10_partial_read_then_body_refuted.

(* the same on a terminated input without CONTENT_LENGTH: .body silently returns only the remainder *)
Theorem C10_partial_read_then_body_terminated_refuted :
  outputs 65535 [97%N; 98%N; 99%N; 100%N] None false (Some true) false 10240%Z
          [(0, FileRead (Some 1), []); (0, Body, [])]
  = [OBytes [97%N]; OBytes [98%N; 99%N; 100%N]].
Proof. vm_compute. reflexivity. Qed.
Print Assumptions C10_partial_read_then_body_terminated_refuted.

(* an input flagged seekable that holds more than CONTENT_LENGTH: body_file.read() hands out all of it *)
Theorem C10_seekable_body_file_unlimited_refuted :
  outputs 65535 [97%N; 98%N; 99%N; 100%N; 101%N; 102%N; 88%N; 89%N; 90%N] (Some 6%Z) true None false 10240%Z
          [(0, FileRead None, [])]
  = [OBytes [97%N; 98%N; 99%N; 100%N; 101%N; 102%N; 88%N; 89%N; 90%N]].
Proof. vm_compute. reflexivity. Qed.
Print Assumptions C10_seekable_body_file_unlimited_refuted.

(* the copy exists, shares nothing, and changing it leaves the original's body alone: a concrete run *)
Example C10_copy_example :
  outputs 65535 [97%N; 98%N; 99%N; 100%N] (Some 3%Z) false None false 1%Z
          [(0, Copy, []); (1, SetBody [120%N], []); (1, Body, []); (0, Body, []); (0, FileRead None, [])]
  = [ONew true; OBytes []; OBytes [120%N]; OBytes [97%N; 98%N; 99%N]; OBytes [97%N; 98%N; 99%N]].
Proof. vm_compute. reflexivity. Qed.

(* ==================================================================================================
   The TEXT layer.  Everything above takes the parsed CONTENT_LENGTH [c : option Z].  Below, the request
   is built over an environ whose CONTENT_LENGTH is a TEXT [t : option str] (None: the key is absent):
   [content_length t] is webob.descriptors.parse_int_safe on it (Model/C10_ContentLength.v: None / "" ->
   None, else int(text), ValueError -> None; int() = CPython's, C12's [py_int]), and
   [outputs_text chunk s t ...] = [outputs chunk s (content_length t) ...].
   Domain: texts whose code points are < 256 (WSGI native strings). *)
Require Import Webob.Lib.PyStr Webob.Model.C10_ContentLength Webob.Proofs.C10_text.
Require Webob.Lib.C12_PyInt Webob.Proofs.C12_pyint.

(* ---- what parse_int_safe does, for ALL texts of each shape *)

(* whatever content_length returns was int() of a non-empty text *)
Theorem C10_content_length_is_int : forall t z,
  content_length t = Some z -> exists s, t = Some s /\ s <> [] /\ py_int s = Some z.
Proof. exact content_length_some_inv. Qed.
Print Assumptions C10_content_length_is_int.

(* parse_int raises ValueError exactly where parse_int_safe answers None for a non-empty text *)
Theorem C10_parse_int_safe_swallows : forall t,
  match parse_int t with
  | PInt z => parse_int_safe t = Some z
  | PNone => parse_int_safe t = None /\ (t = None \/ t = Some [])
  | PValueError => parse_int_safe t = None /\ exists s, t = Some s /\ s <> [] /\ py_int s = None
  end.
Proof. exact parse_int_safe_of_parse_int. Qed.
Print Assumptions C10_parse_int_safe_swallows.

(* digit strings of EVERY length up to 4300, leading zeros and surrounding whitespace included: the decimal value *)
Theorem C10_parse_digits : forall l d r,
  all_ws l -> all_ws r -> Forall (fun c => C12_PyInt.is_digit c = true) d -> d <> [] -> (length d <= 4300)%nat ->
  content_length (Some (l ++ d ++ r)) = Some (digits_value d).
Proof. exact parse_padded_digits. Qed.
Print Assumptions C10_parse_digits.

(* ... with a sign *)
Theorem C10_parse_signed : forall l (neg : bool) d r,
  all_ws l -> all_ws r -> Forall (fun c => C12_PyInt.is_digit c = true) d -> d <> [] -> (length d <= 4300)%nat ->
  content_length (Some (l ++ ((if neg then 45%N else 43%N) :: d) ++ r)) =
  Some (if neg then (- digits_value d)%Z else digits_value d).
Proof. exact parse_padded_signed. Qed.
Print Assumptions C10_parse_signed.

(* every digit string longer than 4300 characters: int() refuses it, content_length is None *)
Theorem C10_parse_too_many_digits : forall l d r,
  all_ws l -> all_ws r -> Forall (fun c => C12_PyInt.is_digit c = true) d -> (4300 < length d)%nat ->
  content_length (Some (l ++ d ++ r)) = None.
Proof. exact parse_too_many_digits. Qed.
Print Assumptions C10_parse_too_many_digits.

(* a character other than a digit, int()'s whitespace, '+', '-', '_' anywhere in the text: None *)
Theorem C10_parse_bad_char : forall s c,
  In c s -> int_char c = false -> content_length (Some s) = None.
Proof. exact parse_bad_char. Qed.
Print Assumptions C10_parse_bad_char.

Example C10_parse_hyps :
  all_ws [32%N; 9%N; 160%N] /\ Forall (fun c => C12_PyInt.is_digit c = true) [48%N; 52%N; 50%N] /\
  digits_value [48%N; 52%N; 50%N] = 42%Z /\ int_char 46%N = false /\ int_char 120%N = false.
Proof. repeat split; repeat constructor. Qed.

Module C10_parse_boundaries_literals.
Import String.
Local Open Scope string_scope.
(* the boundary texts: "0" "00" "+5" " 5 " "5_0" "-1" "-0" "" | "5_" "_5" "5__0" "+-5" "- 5" "+" " " "5.0" "0x10" "1e2" "12a"
   | NBSP 5 NEL, FS 5 (FS is str.isspace but not int() whitespace), superscript two *)
Example C10_parse_boundaries :
  map content_length
      [Some (H "30"); Some (H "3030"); Some (H "2b35"); Some (H "203520"); Some (H "355f30"); Some (H "2d31"); Some (H "2d30");
       Some []; None;
       Some (H "355f"); Some (H "5f35"); Some (H "355f5f30"); Some (H "2b2d35"); Some (H "2d2035"); Some (H "2b"); Some (H "20");
       Some (H "352e30"); Some (H "30783130"); Some (H "316532"); Some (H "313261");
       Some (H "a03585"); Some (H "1c35"); Some (H "b2")]
  = [Some 0%Z; Some 0%Z; Some 5%Z; Some 5%Z; Some 50%Z; Some (-1)%Z; Some 0%Z;
     None; None;
     None; None; None; None; None; None; None;
     None; None; None; None;
     Some 5%Z; None; None].
Proof. vm_compute. reflexivity. Qed.
End C10_parse_boundaries_literals.

(* 4299 zeros and a 5 (4300 digits) is 5; one more zero and int() raises: the header counts as absent *)
Example C10_parse_long :
  content_length (Some (repeat 48%N 4299 ++ [53%N])) = Some 5%Z /\
  content_length (Some (repeat 48%N 4300 ++ [53%N])) = None.
Proof. split; vm_compute; reflexivity. Qed.

(* ---- the body, from the text *)

(* ALL texts, all streams: a fresh request read through .body, .body_file.read(), .body_file_seekable.read(),
   .copy().body or .POST yields the body the text announces: the first n bytes if the text parses to
   0 < n <= len(stream); DisconnectionError if n exceeds the stream; nothing if it parses to n <= 0 ("0", "00",
   "-1"); and if it does not parse at all (absent, "", malformed, more than 4300 digits) nothing — unless the
   environ marks the input as terminated, then the whole input *)
Theorem C10_text_fresh_body : forall chunk s t tm lg lim adv p,
  1 <= chunk -> In p (fresh_paths5 adv) ->
  let xs := outputs_text chunk s t false tm lg lim p in
  match announced_body s t tm lg with
  | ABytes b => last_out xs = OBytes b
  | ADisconnect => hd OSkip xs = ODisc /\ Forall (fun x => x = ODisc \/ x = OSkip) xs
  end.
Proof. exact text_fresh_body. Qed.
Print Assumptions C10_text_fresh_body.

(* if the text parses to n then the guarantee of C10_exact_prefix holds with n *)
Theorem C10_text_exact_prefix : forall chunk s t z tm lg lim adv p,
  1 <= chunk -> content_length (Some t) = Some z -> (0 < z)%Z -> (z <= Z.of_nat (length s))%Z ->
  In p (fresh_paths adv) ->
  last_out (outputs_text chunk s (Some t) false tm lg lim p) = OBytes (firstn (Z.to_nat z) s).
Proof. exact text_exact_prefix. Qed.
Print Assumptions C10_text_exact_prefix.

(* no over-read from the text, after ANY history under any buffering: at most n bytes when the text parses to n
   (none for n <= 0), none when it does not parse and the input is not marked terminated *)
Theorem C10_text_no_overread : forall chunk s t tm lg lim hist,
  1 <= chunk ->
  let pos := fpos (cells (wheap (final_text chunk s t false tm lg lim hist)) 0) in
  match content_length t with
  | Some z => pos <= Z.to_nat z /\ ((z <= 0)%Z -> pos = 0)
  | None => flag0 tm lg = false -> pos = 0
  end.
Proof. exact text_no_overread. Qed.
Print Assumptions C10_text_no_overread.

(* a text that does not parse IS an absent header, for every history on the original and all copies *)
Theorem C10_text_unparsable_as_absent : forall chunk s t sk tm lg lim hist,
  content_length t = None ->
  outputs_text chunk s t sk tm lg lim hist = outputs chunk s None sk tm lg lim hist /\
  final_text chunk s t sk tm lg lim hist = final chunk s None sk tm lg lim hist.
Proof. exact text_unparsable_as_absent. Qed.
Print Assumptions C10_text_unparsable_as_absent.

(* is_body_readable from the text *)
Theorem C10_text_readable : forall t tm lg,
  readable_text t tm lg = match content_length t with Some z => (0 <? z)%Z | None => flag0 tm lg end.
Proof. exact text_readable. Qed.
Print Assumptions C10_text_readable.

(* refinement, exactness and repeatable reads for every history, from the text *)
Theorem C10_text_refines_spec : forall chunk s t sk tm lg lim hist,
  1 <= chunk -> consistent s (content_length t) sk ->
  exists ss', srun_ok [sinit s (content_length t) sk tm lg] hist (outputs_text chunk s t sk tm lg lim hist) ss'.
Proof. exact text_refines_spec. Qed.
Print Assumptions C10_text_refines_spec.

Theorem C10_text_exact : forall chunk s t sk tm lg lim hist,
  1 <= chunk -> consistent s (content_length t) sk -> long_enough s (content_length t) sk ->
  outputs_text chunk s t sk tm lg lim hist = fst (srun [sinit s (content_length t) sk tm lg] hist).
Proof. exact text_exact. Qed.
Print Assumptions C10_text_exact.

Theorem C10_text_idempotent : forall chunk s t sk tm lg lim hist i a1 a2 a3 b,
  1 <= chunk -> consistent s (content_length t) sk -> long_enough s (content_length t) sk ->
  let xs := outputs_text chunk s t sk tm lg lim (hist ++ [(i, Body, a1); (i, Body, a2); (i, FileRead None, a3)]) in
  nth_error xs (length hist) = Some (OBytes b) ->
  nth_error xs (S (length hist)) = Some (OBytes b) /\
  nth_error xs (S (S (length hist))) = Some (OBytes b).
Proof. exact text_idempotent. Qed.
Print Assumptions C10_text_idempotent.

(* the hypotheses are satisfiable from a text: a non-seekable request whose text announces no more than the stream holds *)
Example C10_text_hyps : forall s t,
  (forall z, content_length t = Some z -> (z <= Z.of_nat (length s))%Z) ->
  consistent s (content_length t) false /\ long_enough s (content_length t) false.
Proof. exact text_hyps_nonseekable. Qed.

Module C10_text_announced_literals.
Import String.
Local Open Scope string_scope.
(* stream "abcdefXYZ": " +0_6 " announces "abcdef"; "-1", "00", "6.0" and a 4301-digit text announce nothing;
   "10" announces more than there is *)
Example C10_text_announced :
  map (fun t => announced_body (H "61626364656658595a") t None false)
      [Some (H "202b305f3620"); Some (H "2d31"); Some (H "3030"); Some (H "362e30"); Some (app (repeat 48%N 4300) [54%N]); None;
       Some (H "3130")]
  = [ABytes (H "616263646566"); ABytes []; ABytes []; ABytes []; ABytes []; ABytes []; ADisconnect].
Proof. vm_compute. reflexivity. Qed.
End C10_text_announced_literals.

Module C10_text_run_literals.
Import String.
Local Open Scope string_scope.
Example C10_text_run :
  outputs_text 65535 (H "61626364656658595a") (Some (H "202b305f3620")) false None false 10240%Z
               [(0, Body, []); (0, Body, []); (0, FileRead None, [])]
  = [OBytes (H "616263646566"); OBytes (H "616263646566"); OBytes (H "616263646566")].
Proof. vm_compute. reflexivity. Qed.
End C10_text_run_literals.
