(* C01 — Request is a coherent, state-free view of the WSGI environ.  Property theorems only: each is
   closed by [exact] of a lemma proved in Proofs/C01_*.v; Print Assumptions follows the section.

   The model (Model/C01_EnvView.v) is parametric in the string-level functions; they are the
   Section variables below.  The only law assumed about them is the query-string round trip
   [qs_roundtrip] (what GetDict.on_change writes parses back to the view's items), which is
   C09's theorem for the concrete codec; Example [C01_hypotheses_satisfiable] gives an instance. *)
From Coq Require Import ZArith NArith List Bool String.
Require Import Webob.Lib.Val Webob.Lib.PyStr Webob.Lib.C01_Str Webob.Model.MultiDict Webob.Model.C01_EnvView
               Webob.Spec.C01_View Webob.Proofs.C01_env Webob.Proofs.C01_inv Webob.Proofs.C01_coherent
               Webob.Proofs.C01_names Webob.Proofs.C01_hdrkey Webob.Proofs.C01_listed Webob.Proofs.C01_instance
               Webob.Model.C01_Converter Webob.Proofs.C01_converter.
Import ListNotations.
Local Open Scope list_scope.

Section C01.
  Variable P : Type.                                   (* CacheControl.properties *)
  Variable CCOP : Type.                                (* a mutation through the CacheControl API *)
  Variable parse_qs : str -> items + str.              (* parse_qsl_text *)
  Variable urlencode : items -> str.                   (* GetDict.on_change's url_encode *)
  Variable parse_cookie : str -> list (str * str).
  Variable valid_name : str -> bool.
  Variable cookie_edit : str -> str -> option str -> str * bool.
  Variable parse_cc : str -> P.
  Variable ser_cc : P -> str.
  Variable cc_empty : P -> bool.
  Variable cc_apply : CCOP -> P -> option P * val.
  Variable cc_obs : P -> val.
  Variable detect_charset : str -> str.
  Hypothesis qs_roundtrip : forall l, parse_qs (urlencode l) = inl l.
  Hypothesis qs_empty : parse_qs [] = inl [].

  Notation Inv := (Inv P parse_qs parse_cookie parse_cc).
  Notation spec_val := (spec_val P parse_qs parse_cookie parse_cc cc_obs detect_charset).
  Notation obsA := (obsA P parse_qs parse_cookie parse_cc ser_cc cc_empty cc_obs detect_charset repaired).
  Notation obsF := (obsF P parse_qs parse_cookie parse_cc ser_cc cc_empty cc_obs detect_charset repaired).
  Notation rd := (rd P parse_qs parse_cookie parse_cc ser_cc cc_empty cc_obs detect_charset repaired).
  Notation step := (step P CCOP parse_qs urlencode parse_cookie valid_name cookie_edit parse_cc ser_cc cc_empty
                         cc_apply cc_obs detect_charset repaired).
  Notation run := (run P CCOP parse_qs urlencode parse_cookie valid_name cookie_edit parse_cc ser_cc cc_empty
                       cc_apply cc_obs detect_charset repaired).

  (* every cache tuple in the environ holds the parse of the text it is keyed by, the handles the caller holds are
     live objects — after ANY history of writes through attributes, the headers mapping, fresh or held GET /
     cache_control views, cookies, raw edits of non-cache keys, and reads *)
  Theorem C01_cache_inv : forall ops s, Forall (wf_op P CCOP) ops -> Inv s -> Inv (run ops s).
  Proof. exact (run_inv P CCOP parse_qs urlencode parse_cookie valid_name cookie_edit parse_cc ser_cc cc_empty
                        cc_apply cc_obs detect_charset qs_roundtrip qs_empty). Qed.

  (* a blank or server-style environ (no webob._* keys) starts a history *)
  Theorem C01_initial : forall e, (forall k, is_cache_key k = true -> env_get k e = None) -> Inv (init P e).
  Proof. exact (Inv_init P parse_qs parse_cookie parse_cc). Qed.

  (* THE STATEMENT: after every history (hence after every prefix), each getter read through long-lived wrapper w
     equals the same getter of a brand-new Request over the environ stripped of the cache keys *)
  Theorem C01_coherent : forall ops s0 g w,
    Inv s0 -> Forall (wf_op P CCOP) ops -> wf_getter g -> g <> GCharset ->
    obsA g w (run ops s0) = obsF g (run ops s0).
  Proof. exact (coherent P CCOP parse_qs urlencode parse_cookie valid_name cookie_edit parse_cc ser_cc cc_empty
                         cc_apply cc_obs detect_charset qs_roundtrip qs_empty). Qed.

  (* ... because both are one function of the non-cache part of the environ alone *)
  Theorem C01_view_is_function_of_environ : forall g w s,
    Inv s -> wf_getter g -> g <> GCharset -> obsA g w s = spec_val g (strip_env (env s)).
  Proof. exact (view_is_function_of_environ P parse_qs parse_cookie parse_cc ser_cc cc_empty cc_obs detect_charset). Qed.

  Theorem C01_fresh_is_function_of_environ : forall g s,
    Inv s -> wf_getter g -> obsF g s = spec_val g (strip_env (env s)).
  Proof. exact (fresh_is_function_of_environ P parse_qs parse_cookie parse_cc ser_cc cc_empty cc_obs detect_charset). Qed.

  (* the documented per-object memory: once used, the charset of a wrapper never changes, whatever is written *)
  Theorem C01_charset_sticky : forall ops, Forall (fun o => o <> OCopyEnv P CCOP) ops -> forall s w cs,
    nth w (wcs s) None = Some cs ->
    nth w (wcs (run ops s)) None = Some cs /\ obsA GCharset w (run ops s) = VStr cs.
  Proof. exact (charset_sticky P CCOP parse_qs urlencode parse_cookie valid_name cookie_edit parse_cc ser_cc cc_empty
                               cc_apply cc_obs detect_charset). Qed.

  Theorem C01_charset_first_use : forall w s,
    nth w (wcs s) None = None -> (w < List.length (wcs s))%nat ->
    obsA GCharset w s = VStr (detect_charset (src K_CT (env s))) /\
    nth w (wcs (snd (rd GCharset w s))) None = Some (detect_charset (src K_CT (env s))).
  Proof. exact (charset_first_use P parse_qs parse_cookie parse_cc ser_cc cc_empty cc_obs detect_charset). Qed.

  (* ... and it is the ONLY memory: a wrapper that has not used its charset agrees with a brand-new Request on it too *)
  Theorem C01_charset_unprimed_coherent : forall w s,
    nth w (wcs s) None = None -> obsA GCharset w s = obsF GCharset s.
  Proof. exact (charset_unprimed_coherent P parse_qs parse_cookie parse_cc ser_cc cc_empty cc_obs detect_charset). Qed.

  (* writes land under the standard key and nowhere else *)
  Theorem C01_write_lands_attribute : forall s k v,
    env_get k (env (snd (step s (OGetterSet P CCOP k (Some v))))) = Some (EStr v) /\
    env_get k (env (snd (step s (OGetterSet P CCOP k None)))) = None /\
    forall k', str_eqb k k' = false ->
      env_get k' (env (snd (step s (OGetterSet P CCOP k (Some v))))) = env_get k' (env s) /\
      env_get k' (env (snd (step s (OGetterSet P CCOP k None)))) = env_get k' (env s).
  Proof. exact (getter_set_lands P CCOP parse_qs urlencode parse_cookie valid_name cookie_edit parse_cc ser_cc cc_empty
                                 cc_apply cc_obs detect_charset). Qed.

  Theorem C01_write_lands_header : forall s n v,
    env_get (trans_name n) (env (snd (step s (OHdrSet P CCOP n v)))) = Some (EStr v) /\
    (forall k', str_eqb (trans_name n) k' = false ->
       env_get k' (env (snd (step s (OHdrSet P CCOP n v)))) = env_get k' (env s)) /\
    obsA (GHdr n) 0 (snd (step s (OHdrSet P CCOP n v))) = VStr v.
  Proof. exact (header_set_lands P CCOP parse_qs urlencode parse_cookie valid_name cookie_edit parse_cc ser_cc cc_empty
                                 cc_apply cc_obs detect_charset). Qed.

  Theorem C01_write_lands_header_del : forall s n,
    env_has (trans_name n) (env s) = true ->
    env_get (trans_name n) (env (snd (step s (OHdrDel P CCOP n)))) = None.
  Proof. exact (header_del_lands P CCOP parse_qs urlencode parse_cookie valid_name cookie_edit parse_cc ser_cc cc_empty
                                 cc_apply cc_obs detect_charset). Qed.

  (* a successful mutation through ANY GetDict handle, current or stale, is written back to QUERY_STRING, and a
     brand-new Request then reports exactly the items of that view (a lost write-back would break this) *)
  Theorem C01_write_lands_GET : forall s id m,
    Inv s ->
    let r := get_mut P urlencode id m s in
    is_verr (fst r) = false -> (id < List.length (gets s))%nat ->
    exists its', nth_error (gets (snd r)) id = Some its' /\
                 env_get K_QS (env (snd r)) = Some (EStr (urlencode its')) /\
                 obsF GGET (snd r) = vitems its'.
  Proof. exact (get_mut_lands P parse_qs urlencode parse_cookie parse_cc ser_cc cc_empty cc_obs detect_charset
                              qs_roundtrip qs_empty). Qed.

  Theorem C01_write_lands_cookie : forall s n v,
    valid_name n = true ->
    let header := match env_get K_COOKIE (env s) with Some (EStr h) => h | _ => [] end in
    fst (cookie_edit header n (Some v)) <> [] ->
    env_get K_COOKIE (env (snd (step s (OCookieSet P CCOP n v)))) = Some (EStr (fst (cookie_edit header n (Some v)))).
  Proof. exact (cookie_set_lands P CCOP parse_qs urlencode parse_cookie valid_name cookie_edit parse_cc ser_cc cc_empty
                                 cc_apply cc_obs detect_charset). Qed.

  (* a write through any CacheControl handle lands in HTTP_CACHE_CONTROL, and the cached object is dropped *)
  Theorem C01_write_lands_cache_control : forall s id m o p' ret,
    Inv s -> nth_error (ccs s) id = Some o -> cc_bound P o = true -> cc_apply m (cc_props P o) = (Some p', ret) ->
    let s' := snd (cc_mut P CCOP ser_cc cc_apply repaired id m s) in
    env_get K_CC (env s') = Some (EStr (ser_cc p')) /\
    env_get K_CCCACHE (env s') = Some (ECCCache None) /\
    obsF GCC s' = cc_obs (parse_cc (ser_cc p')).
  Proof. exact (cc_mut_lands P CCOP parse_qs parse_cookie parse_cc ser_cc cc_empty cc_apply cc_obs detect_charset). Qed.
  (* a further wrapper over a COPY of the environ (Request(dict(environ)), copy(), copy_get()): [OCopyEnv] is one of the
     operations of a history, so C01_cache_inv and C01_coherent hold across it; and the view fetched over the copy is
     bound to the copy whatever the copied cache tuple says -- a write through it lands in the copy's own environ *)
  Theorem C01_copy_independent : forall s m, Inv s ->
    let s1 := copy_env P s in
    let id := fst (get_CC P parse_cc ser_cc cc_empty repaired s1) in
    let s2 := snd (get_CC P parse_cc ser_cc cc_empty repaired s1) in
    exists o, nth_error (ccs s2) id = Some o /\ cc_bound P o = true /\
              cc_props P o = parse_cc (src K_CC (env s)) /\
              forall p' ret, cc_apply m (cc_props P o) = (Some p', ret) ->
                env_get K_CC (env (snd (cc_mut P CCOP ser_cc cc_apply repaired id m s2))) = Some (EStr (ser_cc p')).
  Proof. exact (copy_independent P CCOP parse_qs parse_cookie parse_cc ser_cc cc_empty cc_apply cc_obs detect_charset). Qed.

  (* a typed write (descriptors.converter.fset: request.range, request.if_range, ...) of a value that is NOT None but has
     no header text -- its serializer answers None: "", (), [], NoETag, the IfRange of a request without the header --
     lands after ANY history: the key leaves the environ, nothing else changes, the headers mapping of every long-lived
     wrapper and of a brand-new Request shows the header absent, every getter stays coherent, and the resulting state
     is the one assigning None gives *)
  Theorem C01_write_lands_empty_typed : forall (V : Type) ops s0 (serialize : V -> option str) k v,
    Inv s0 -> Forall (wf_op P CCOP) ops -> is_cache_key k = false -> serialize v = None ->
    let s := run ops s0 in
    let s' := snd (step s (conv_fset P CCOP V serialize k (Some v))) in
    env_get k (env s') = None /\
    (forall k', str_eqb k k' = false -> env_get k' (env s') = env_get k' (env s)) /\
    (forall n w, trans_name n = k -> obsA (GHdr n) w s' = VNone /\ obsF (GHdr n) s' = VNone) /\
    (forall g w, wf_getter g -> g <> GCharset -> obsA g w s' = obsF g s') /\
    s' = snd (step s (conv_fset P CCOP V serialize k None)).
  Proof. exact (fun V => empty_typed_write_lands P CCOP V parse_qs urlencode parse_cookie valid_name cookie_edit parse_cc
                           ser_cc cc_empty cc_apply cc_obs detect_charset qs_roundtrip qs_empty). Qed.
End C01.

(* header names are case-insensitive — for all strings, not only latin-1 *)
Theorem C01_header_name_ci : forall n1 n2, lower n1 = lower n2 -> trans_name n1 = trans_name n2.
Proof. exact header_name_ci. Qed.

(* ... and the name comes back from request.headers in title case: for an ASCII header name without "_", the key
   it is stored under is listed as the title-cased name ("x-forwarded-for" -> HTTP_X_FORWARDED_FOR -> "X-Forwarded-For") *)
Theorem C01_header_key_roundtrip : forall n,
  Forall (fun c => (c < 128)%N) n -> mem_n 95 n = false -> trans_key (trans_name n) = Some (py_title n).
Proof. exact header_key_roundtrip. Qed.

Example C01_header_key_roundtrip_ex : trans_key (trans_name (lit "x-forwarded-for")) = Some (lit "X-Forwarded-For").
Proof. exact header_key_roundtrip_ex. Qed.

(* enumeration: the name request.headers lists for a header key leads back to exactly that key (the two meta-variables,
   their HTTP_ look-alikes Content_Type / Content_Length, and HTTP_ + upper-case letters, digits, "_"), so reading or
   deleting a listed name addresses the key it was listed for, and no name is listed for two keys *)
Theorem C01_listed_key_roundtrip : forall k n,
  header_cgi_key k -> trans_key k = Some n -> trans_name n = k.
Proof. exact listed_key_roundtrip. Qed.

Theorem C01_listed_names_unique : forall k1 k2 n,
  header_cgi_key k1 -> header_cgi_key k2 -> trans_key k1 = Some n -> trans_key k2 = Some n -> k1 = k2.
Proof. exact listed_names_unique. Qed.

Example C01_listed_lookalikes :
  trans_key (lit "HTTP_CONTENT_TYPE") = Some (lit "Content_Type") /\ trans_name (lit "Content_Type") = lit "HTTP_CONTENT_TYPE" /\
  trans_key (lit "HTTP_CONTENT_LENGTH") = Some (lit "Content_Length") /\ trans_name (lit "Content_Length") = lit "HTTP_CONTENT_LENGTH" /\
  trans_key (lit "CONTENT_TYPE") = Some (lit "Content-Type") /\ trans_name (lit "Content-Type") = lit "CONTENT_TYPE".
Proof. exact listed_lookalikes. Qed.

(* the faithful model of the PINNED request.py:1115-1140 refutes coherence (two histories, replayed on the
   implementation by the harness; repaired by fixes/C01-*.patch) *)
Theorem C01_pinned_stale_after_update_refuted :
  exists ops, Forall (wf_op str str) ops /\
    i_obsA pinned GCC 0 (i_run pinned ops (init str blank_env)) <> i_obsF pinned GCC (i_run pinned ops (init str blank_env)).
Proof. exact pinned_refuted_1. Qed.

Theorem C01_pinned_assigned_object_refuted :
  exists ops, Forall (wf_op str str) ops /\
    i_obsA pinned GCC 0 (i_run pinned ops (init str blank_env)) <> i_obsF pinned GCC (i_run pinned ops (init str blank_env)).
Proof. exact pinned_refuted_2. Qed.

(* /repo before fixes/C01-4: the view fetched over a copied environ is the original's object (history replayed on the
   implementation by the harness) *)
Theorem C01_copied_environ_reuses_object_refuted :
  exists ops, Forall (wf_op str str) ops /\
    i_obsA before_copy_fix GCC 0 (i_run before_copy_fix ops (init str blank_env))
    <> i_obsF before_copy_fix GCC (i_run before_copy_fix ops (init str blank_env)).
Proof. exact before_copy_fix_refuted. Qed.

(* the hypotheses are satisfiable: a query codec with a proved round trip, and an initial environ *)
Example C01_hypotheses_satisfiable :
  (forall l, i_parse_qs (enc l) = inl l) /\ i_parse_qs [] = inl [] /\
  Inv str i_parse_qs i_parse_cookie (fun s => s) (init str blank_env).
Proof. split; [exact i_roundtrip|split; [exact i_empty|]]. apply Inv_init. exact blank_env_no_caches. Qed.

Example C01_wf_history : Forall (wf_op str str) stale_after_update /\ wf_getter GCC /\ GCC <> GCharset.
Proof. split; [repeat constructor|split; [exact I|discriminate]]. Qed.

(* the hypotheses of C01_write_lands_empty_typed hold for request.if_range = "" over a request carrying If-Range *)
Example C01_empty_typed_ex :
  is_cache_key (lit "HTTP_IF_RANGE") = false /\ trans_name (lit "If-Range") = lit "HTTP_IF_RANGE" /\
  ser_nonempty (fun s : str => s) [] = None /\ ser_falsy_none (fun l : list Z => match l with [] => true | _ => false end) (fun _ => lit "bytes=0-4") [] = None.
Proof. repeat split; vm_compute; reflexivity. Qed.

Print Assumptions C01_cache_inv.
Print Assumptions C01_initial.
Print Assumptions C01_coherent.
Print Assumptions C01_view_is_function_of_environ.
Print Assumptions C01_fresh_is_function_of_environ.
Print Assumptions C01_charset_sticky.
Print Assumptions C01_charset_first_use.
Print Assumptions C01_charset_unprimed_coherent.
Print Assumptions C01_write_lands_attribute.
Print Assumptions C01_write_lands_header.
Print Assumptions C01_write_lands_header_del.
Print Assumptions C01_write_lands_GET.
Print Assumptions C01_write_lands_cookie.
Print Assumptions C01_write_lands_cache_control.
Print Assumptions C01_header_name_ci.
Print Assumptions C01_header_key_roundtrip.
Print Assumptions C01_pinned_stale_after_update_refuted.
Print Assumptions C01_pinned_assigned_object_refuted.
Print Assumptions C01_copy_independent.
Print Assumptions C01_copied_environ_reuses_object_refuted.
Print Assumptions C01_listed_key_roundtrip.
Print Assumptions C01_listed_names_unique.
Print Assumptions C01_write_lands_empty_typed.
