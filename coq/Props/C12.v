(* C12 — typed header attributes are total on input and round-trip on output.
   Property theorems only: each is closed by [exact] of a lemma proved in Proofs/, followed by
   Print Assumptions.  Models: Model/C12_*.v (tied to /repo by the correspondences of
   harness/props/c12.py).  [res] = Ok value | Raise exception-class. *)
From Coq Require Import ZArith NArith List Bool Arith.
Require Import Webob.Lib.Val Webob.Lib.PyStr Webob.Lib.C12_PyInt Webob.Lib.C12_Civil
               Webob.Model.C12_Headers Webob.Model.C12_ByteRange Webob.Model.C12_Dates Webob.Model.C12_CacheControl
               Webob.Model.C12_AuthCT Webob.Model.C12_Attrs
               Webob.Proofs.C12_pyint Webob.Proofs.C12_headers Webob.Proofs.C12_byterange
               Webob.Proofs.C12_civil Webob.Proofs.C12_dates Webob.Proofs.C12_cachecontrol Webob.Proofs.C12_authct
               Webob.Proofs.C12_attrs Webob.Gen.C12_ParamClasses Webob.Proofs.C12_paramclasses.
Import ListNotations.

(* ===================================================================== group 1: machinery, integers, lists *)

(* int(str(z)) = z for every integer str() can print *)
Theorem C12_int_str_inverse : forall z, (ndigits z <= max_str_digits)%nat -> py_int (str_of_Z z) = Some z.
Proof. exact py_int_str_of_Z. Qed.
Print Assumptions C12_int_str_inverse.

(* every attribute of the Response table: whatever the header list holds, reading does not raise *)
Theorem C12_total_response_table : forall g a hl,
  is_raise (resp_get (rattr_conv g a) (rattr_header a) hl) = false.
Proof. exact response_table_total. Qed.
Print Assumptions C12_total_response_table.

(* every attribute of the Request table, whatever the environ holds (SERVER_PORT, which WSGI requires,
   must be present: its environ_getter has no default) *)
Theorem C12_total_request_table : forall g a env,
  (qattr_dflt a = false -> env_get (qattr_key a) env <> None) ->
  is_raise (req_get (qattr_conv g a) (qattr_dflt a) (qattr_key a) env) = false.
Proof. exact request_table_total. Qed.
Print Assumptions C12_total_request_table.

(* why the integer attributes must not be built on parse_int: it lets ValueError escape *)
Theorem C12_total_parse_int_refuted : exists v, c_parse conv_int_unsafe v = Raise ValueError.
Proof. exact parse_int_not_total. Qed.
Print Assumptions C12_total_parse_int_refuted.

(* integer attributes: set z, the stored header is str(z), reading gives z back *)
Theorem C12_roundtrip_int : forall header z hl, (ndigits z <= max_str_digits)%nat ->
  let '(hl', e) := resp_set conv_int header (PInt z) hl in
  e = None /\ hg_get (lower header) hl' = Some (str_of_Z z) /\ resp_get conv_int header hl' = Ok (VInt z).
Proof. exact roundtrip_int_resp. Qed.
Print Assumptions C12_roundtrip_int.

Theorem C12_roundtrip_int_request : forall dflt key z env, (ndigits z <= max_str_digits)%nat ->
  let '(env', e) := req_set conv_int key (PInt z) env in
  e = None /\ env_get key env' = Some (str_of_Z z) /\ req_get conv_int dflt key env' = Ok (VInt z).
Proof. exact roundtrip_int_req. Qed.
Print Assumptions C12_roundtrip_int_request.

Example C12_roundtrip_int_hyp : (ndigits 1234567890123456789012345678901234567890 <= max_str_digits)%nat.
Proof. apply Nat.leb_le. vm_compute. reflexivity. Qed.

(* wire syntax 1*DIGIT for non-negative integers *)
Theorem C12_int_wire : forall z, (0 <= z)%Z -> all_digits (str_of_Z z) /\ str_of_Z z <> [].
Proof. exact str_of_Z_wire. Qed.
Print Assumptions C12_int_wire.

(* comma lists: a list (possibly empty) of clean elements (non-empty, no comma, no white space) is stored as
   ", ".join and read back as the same tuple *)
Theorem C12_roundtrip_list : forall header l hl, Forall clean l ->
  let '(hl', e) := resp_set conv_list header (PStrs l) hl in
  e = None /\ hg_get (lower header) hl' = Some (join comma_sp l) /\
  resp_get conv_list header hl' = Ok (VList (map VStr l)).
Proof. exact roundtrip_list_resp. Qed.
Print Assumptions C12_roundtrip_list.

Example C12_roundtrip_list_hyp : Forall clean [[71; 69; 84]; [80; 79; 83; 84]]%N.
Proof. repeat constructor; discriminate. Qed.

(* whatever converter an attribute uses: after an accepted assignment every line stored under the
   header is free of CR and LF ... *)
Theorem C12_single_line : forall c header v hl hl',
  resp_set c header v hl = (hl', None) ->
  forall k x, In (k, x) hl' -> str_eqb (lower k) (lower header) = true -> has_crlf x = false.
Proof. exact resp_set_single_line. Qed.
Print Assumptions C12_single_line.

(* ... there is exactly one such line ... *)
Theorem C12_single_header : forall header s hl, has_crlf s = false ->
  filter (fun kv => str_eqb (lower (fst kv)) (lower header)) (fst (hg_set header (Some s) hl)) = [(header, s)].
Proof. exact hg_set_one_pair. Qed.
Print Assumptions C12_single_header.

(* ... and a value whose serialisation contains CR or LF is refused with ValueError and the header list is left
   exactly as it was (the value is checked before the old line is removed) *)
Theorem C12_crlf_refused : forall c header v t hl,
  c_serialize c v = Ok (Some t) -> v <> PNone -> has_crlf t = true ->
  resp_set c header v hl = (hl, Some ValueError).
Proof. exact resp_set_crlf. Qed.
Print Assumptions C12_crlf_refused.

Example C12_crlf_refused_hyp : c_serialize conv_str (PStr [97; 13; 10; 98]%N) = Ok (Some [97; 13; 10; 98]%N)
                               /\ has_crlf [97; 13; 10; 98]%N = true.
Proof. split; reflexivity. Qed.

(* None and del remove the header and nothing else *)
Theorem C12_none_del_removes : forall c header hl,
  fst (resp_set c header PNone hl) = resp_del header hl /\
  hg_get (lower header) (resp_del header hl) = None /\
  (forall k, k <> lower header -> hg_get k (resp_del header hl) = hg_get k hl).
Proof. exact resp_removed. Qed.
Print Assumptions C12_none_del_removes.

Theorem C12_none_del_removes_request : forall c key env v,
  env_get key env = Some v ->
  fst (req_set c key PNone env) = fst (eg_del true key env) /\
  snd (eg_del true key env) = None /\
  env_get key (fst (eg_del true key env)) = None /\
  (forall k, k <> key -> env_get k (fst (eg_del true key env)) = env_get k env).
Proof. exact req_removed. Qed.
Print Assumptions C12_none_del_removes_request.

(* ===================================================================== group 2: Range, Content-Range *)
(* [anch], [zn]: the two variants of Range.parse found in this tree's history (regex anchored or not,
   "bytes=-0" unparsable or not); every theorem holds for all four combinations.
   [printable z]: str(z) has at most 4300 digits (str() itself raises beyond). *)

(* (totality of req.range and resp.content_range is part of the two table theorems above) *)

(* without the `except ValueError` of fixes/C12-03 the getters are not total: a number of 4301 digits *)
Theorem C12_total_range_unguarded_refuted : forall anch zn,
  exists v, parse_range_unguarded anch zn v = Raise ValueError.
Proof. intros anch zn. eexists. exact (parse_range_unguarded_raises anch zn). Qed.
Print Assumptions C12_total_range_unguarded_refuted.

Theorem C12_total_content_range_unguarded_refuted :
  exists v, parse_content_range_unguarded v = Raise ValueError.
Proof. eexists. exact parse_content_range_unguarded_raises. Qed.
Print Assumptions C12_total_content_range_unguarded_refuted.

(* Range: every valid value — (start >= 0, stop > start), (start >= 0, None), (suffix < 0, None) —
   assigned as a Range object or as a tuple, is stored as str(Range) and read back identically *)
Theorem C12_roundtrip_range : forall anch zn dflt key r env, range_ok r ->
  let '(env', e) := req_set (conv_range anch zn) key (PRange (fst r) (snd r)) env in
  e = None /\ env_get key env' = Some (range_str r) /\
  req_get (conv_range anch zn) dflt key env' = Ok (range_val (Some r)).
Proof. exact roundtrip_range_obj. Qed.
Print Assumptions C12_roundtrip_range.

Theorem C12_roundtrip_range_tuple : forall anch zn dflt key s e env, range_ok (s, e) -> (0 <= s)%Z ->
  let '(env', x) := req_set (conv_range anch zn) key (PInts [Some s; e]) env in
  x = None /\ env_get key env' = Some (range_str (s, e)) /\
  req_get (conv_range anch zn) dflt key env' = Ok (range_val (Some (s, e))).
Proof. exact roundtrip_range_tuple. Qed.
Print Assumptions C12_roundtrip_range_tuple.

Example C12_range_ok_hyp : range_ok (0%Z, Some 500%Z) /\ range_ok ((-500)%Z, None) /\ range_ok (9500%Z, None).
Proof. repeat split; try (apply Nat.leb_le; vm_compute; reflexivity); reflexivity. Qed.

(* half-open in Python, inclusive on the wire, both directions *)
Theorem C12_range_wire : forall anch zn a b, (0 <= a <= b)%Z -> printable a -> printable b ->
  range_parse anch zn (s_bytes_eq ++ str_of_Z a ++ [45%N] ++ str_of_Z b) = Ok (Some (a, Some (b + 1)%Z)).
Proof. exact range_wire_inclusive. Qed.
Print Assumptions C12_range_wire.

Theorem C12_range_wire_out : forall s e,
  range_str (s, Some e) = s_bytes_eq ++ str_of_Z s ++ [45%N] ++ str_of_Z (e - 1).
Proof. reflexivity. Qed.
Print Assumptions C12_range_wire_out.

(* Content-Range: every triple valid for a response (0 <= start < stop <= length, length or the range
   possibly unknown) round-trips; the header is one line in wire syntax *)
Theorem C12_roundtrip_content_range : forall header s e l hl, crange_ok (s, e, l) ->
  let '(hl', x) := resp_set conv_content_range header (PInts [s; e; l]) hl in
  x = None /\ hg_get (lower header) hl' = Some (crange_str (s, e, l)) /\
  resp_get conv_content_range header hl' = Ok (crange_val (Some (s, e, l))).
Proof. exact roundtrip_content_range. Qed.
Print Assumptions C12_roundtrip_content_range.

Example C12_crange_ok_hyp : crange_ok (Some 0%Z, Some 500%Z, Some 1234%Z) /\ crange_ok (None, None, Some 7%Z)
                            /\ crange_ok (Some 3%Z, Some 4%Z, None).
Proof. repeat split; try (apply Nat.leb_le; vm_compute; reflexivity); try reflexivity; discriminate. Qed.

Theorem C12_content_range_wire : forall a b l, (0 <= a <= b)%Z -> (b < l)%Z ->
  printable a -> printable b -> printable l ->
  crange_parse (s_bytes_sp ++ str_of_Z a ++ [45%N] ++ str_of_Z b ++ [47%N] ++ str_of_Z l)
  = Ok (Some (Some a, Some (b + 1)%Z, Some l)).
Proof. exact content_range_wire_inclusive. Qed.
Print Assumptions C12_content_range_wire.

(* ===================================================================== group 3: HTTP dates, delta-seconds *)
(* [pd] = email.utils.parsedate_tz and [mk] = time.mktime are ARBITRARY functions in the totality
   theorems (a tuple or None / a number or an exception): the only place the process time zone can enter
   is [mk], and no result below depends on it.  [parse_imf] is parsedate_tz on the canonical form. *)

(* parse_date / parse_date_delta never raise, whatever parsedate_tz extracts from the text *)
Theorem C12_total_date : forall pd mk v, is_raise (parse_date pd mk v) = false.
Proof. exact parse_date_total. Qed.
Print Assumptions C12_total_date.

Theorem C12_total_date_delta : forall now_utc pd mk v, is_raise (parse_date_delta now_utc pd mk v) = false.
Proof. exact parse_date_delta_total. Qed.
Print Assumptions C12_total_date_delta.

(* ... but only because of the try/except of fixes/C12-04 and C12-05 *)
Theorem C12_total_date_unguarded_refuted : forall mk,
  exists pd v, parse_date_unguarded pd mk v = Raise ValueError.
Proof. intros mk. eexists. eexists. exact (parse_date_unguarded_raises mk). Qed.
Print Assumptions C12_total_date_unguarded_refuted.

Theorem C12_total_date_delta_unguarded_refuted : forall pd mk,
  exists now_utc v, parse_date_delta_unguarded now_utc pd mk v = Raise OverflowError.
Proof. intros pd mk. eexists. eexists. exact (parse_date_delta_unguarded_raises pd mk). Qed.
Print Assumptions C12_total_date_delta_unguarded_refuted.

(* calendar arithmetic, for ALL days / all valid dates *)
Theorem C12_civil_inverse_1 : forall z, let '(y, m, d) := civil_from_days z in days_from_civil y m d = z.
Proof. exact days_from_civil_of_days. Qed.
Print Assumptions C12_civil_inverse_1.

Theorem C12_civil_inverse_2 : forall y m d, valid_date y m d = true ->
  civil_from_days (days_from_civil y m d) = (y, m, d).
Proof. exact civil_from_days_of_civil. Qed.
Print Assumptions C12_civil_inverse_2.

(* every second from 0100-01-01T00:00:00Z to 9999-12-31T23:59:59Z (so all of 1970-9999): the text
   formatdate produces is one line of 29 characters and parse_date reads it back as that very second,
   in UTC, whatever time.mktime (the process zone) would do *)
Theorem C12_date_roundtrip : forall mk t, in_range t ->
  exists text, format_date t = Ok text /\
               parse_date parse_imf mk (Some text) = Ok (dt_val (fields_of_ts t) (Some 0%Z)) /\
               has_crlf text = false /\ length text = 29%nat.
Proof. exact parse_format_date. Qed.
Print Assumptions C12_date_roundtrip.

Example C12_date_roundtrip_hyp : in_range 0%Z /\ in_range 253402300799%Z /\ in_range 1600000000%Z.
Proof. unfold in_range, ts_y100, ts_max. repeat split; discriminate. Qed.

(* a naive datetime's own fields come back (it is taken to be UTC) *)
Theorem C12_date_naive_fields : forall y m d hh mi ss t,
  valid_date y m d = true -> (0 <= hh <= 23)%Z -> (0 <= mi <= 59)%Z -> (0 <= ss <= 59)%Z ->
  timegm (y, m, d, hh, mi, ss) = Ok t -> fields_of_ts t = (y, m, d, hh, mi, ss).
Proof. exact fields_of_timegm. Qed.
Print Assumptions C12_date_naive_fields.

(* any date value - naive or aware datetime, date, timestamp, timedelta - assigned to a date attribute:
   the header is formatdate of the instant the value denotes and the value read back is that instant as
   an aware UTC datetime.  [now] (used by timedelta only) and [mk] are arbitrary *)
Theorem C12_date_set_get : forall now mk header v t hl,
  v <> PNone -> (forall s, v <> PStr s) -> instant now v = Ok t -> in_range t ->
  let '(hl', e) := resp_set (conv_date now parse_imf mk) header v hl in
  e = None /\
  (exists text, hg_get (lower header) hl' = Some text /\ format_date t = Ok text /\ length text = 29%nat) /\
  resp_get (conv_date now parse_imf mk) header hl' = Ok (dt_val (fields_of_ts t) (Some 0%Z)).
Proof. exact roundtrip_date. Qed.
Print Assumptions C12_date_set_get.

Theorem C12_date_set_get_request : forall now mk dflt key v t env,
  v <> PNone -> (forall s, v <> PStr s) -> instant now v = Ok t -> in_range t ->
  let '(env', e) := req_set (conv_date now parse_imf mk) key v env in
  e = None /\
  (exists text, env_get key env' = Some text /\ format_date t = Ok text /\ length text = 29%nat) /\
  req_get (conv_date now parse_imf mk) dflt key env' = Ok (dt_val (fields_of_ts t) (Some 0%Z)).
Proof. exact roundtrip_date_request. Qed.
Print Assumptions C12_date_set_get_request.

(* an aware datetime 2020-01-01T12:00:00+05:00 denotes 07:00:00Z *)
Example C12_date_aware_instant :
  instant 0%Z (PDateTime 2020 1 1 12 0 0 (Some 18000%Z)) = Ok 1577862000%Z
  /\ fields_of_ts 1577862000%Z = (2020, 1, 1, 7, 0, 0)%Z.
Proof. split; vm_compute; reflexivity. Qed.

(* ===================================================================== group 4: Cache-Control *)
(* [agree p h]: the directives p the object holds and the header text h denote each other — p is the
   parse of h, or h is the serialisation (str) of p. *)

(* request-only / response-only directives: setting them on the other side raises AttributeError,
   and nothing else ever raises *)
Theorem C12_cc_sides : forall a sd v p, wrong_side a sd = true -> attr_set a sd v p = Raise AttributeError.
Proof. exact attr_set_wrong_side. Qed.
Print Assumptions C12_cc_sides.

Theorem C12_cc_sides_only : forall a sd v p, wrong_side a sd = false -> is_raise (attr_set a sd v p) = false.
Proof. exact attr_set_right_side. Qed.
Print Assumptions C12_cc_sides_only.

Example C12_cc_sides_table :
  map (fun a => wrong_side a Response) [A_max_stale; A_min_fresh; A_only_if_cached; A_no_cache; A_max_age; A_public] =
    [true; true; true; false; false; false] /\
  map (fun a => wrong_side a Request) [A_public; A_private; A_must_revalidate; A_proxy_revalidate; A_s_maxage;
                                       A_stale_while_revalidate; A_stale_if_error; A_no_store; A_max_stale] =
    [true; true; true; true; true; true; true; false; false].
Proof. split; reflexivity. Qed.

(* live in both directions, in EVERY state a Response can reach: after any sequence of reads, directive
   assignments and deletions, direct mutations of .properties, header writes and removals, assignments of
   text / dict / None to the attribute and del — what resp.cache_control shows and the Cache-Control header
   denote each other, before and after the read *)
Theorem C12_cc_live : forall init ops,
  let st := fold_left (fun s o => fst (rcc_step s o)) ops (mkR init None) in
  let '(st', p) := resp_cc_get st in
  agree p (hdr_text (r_hl st)) /\ agree p (hdr_text (r_hl st')).
Proof. exact cc_live. Qed.
Print Assumptions C12_cc_live.

(* changing a directive rewrites the header: it IS str(cache_control) afterwards, absent when empty *)
Theorem C12_cc_mutation_written : forall f st, inv st ->
  let st' := resp_cc_mutate f st in
  exists p, r_obj st' = Some (p, serialize_cc p) /\ hdr_text (r_hl st') = serialize_cc p /\
            (serialize_cc p = [] -> hg_get_last cc_key (r_hl st') = None).
Proof. exact cc_mutation_written. Qed.
Print Assumptions C12_cc_mutation_written.

(* changing the header is seen by the object: the next read shows the parse of the new text *)
Theorem C12_cc_header_seen : forall st p hv, r_obj st = Some (p, hv) -> hv <> hdr_text (r_hl st) ->
  snd (resp_cc_get st) = parse_cc (hdr_text (r_hl st)).
Proof. exact cc_header_seen. Qed.
Print Assumptions C12_cc_header_seen.

Theorem C12_cc_first_read : forall init, snd (resp_cc_get (mkR init None)) = parse_cc (hdr_text init).
Proof. exact cc_first_read. Qed.
Print Assumptions C12_cc_first_read.

(* None and del remove the header *)
Theorem C12_cc_none_del_removes : forall st, inv st ->
  hg_get_last cc_key (r_hl (resp_cc_assign ANone st)) = None /\
  hg_get_last cc_key (r_hl (resp_cc_assign (ADict []) st)) = None.
Proof. exact cc_none_removes. Qed.
Print Assumptions C12_cc_none_del_removes.

(* ===================================================================== group 5: credentials, Content-Type *)
(* (totality of req.authorization and resp.www_authenticate is part of the two table theorems; the
   scanners for the parameter form, for CHARSET_RE and for _PARAM_RE, and the charset / content_type /
   content_type_params machines are executable models tied by correspondence and covered by the oracle;
   no theorem beyond totality-by-construction is claimed for them) *)

(* credentials given as (scheme, text) round-trip for schemes whose parameters are not parsed, and for
   Basic with a quote-free token (the (scheme, dict) form: C12_roundtrip_auth below) *)
Theorem C12_roundtrip_auth_text : forall header scheme params hl,
  ~ In 32%N scheme -> has_crlf (scheme ++ [32%N] ++ params) = false ->
  (existsb (str_eqb scheme) known_schemes = false \/
   (scheme = s_Basic /\ existsb is_dq params = false)) ->
  let '(hl', e) := resp_set conv_auth header (PAuthS scheme params) hl in
  e = None /\ hg_get (lower header) hl' = Some (scheme ++ [32%N] ++ params) /\
  resp_get conv_auth header hl' = Ok (VList [VStr auth_tag; VStr scheme; VStr params]).
Proof. exact roundtrip_auth_text. Qed.
Print Assumptions C12_roundtrip_auth_text.

From Coq Require Import String Lia.     (* string literals for the Examples below; nothing below uses [length] *)

(* credentials given as (scheme, dict).  Domain: [dict_scheme] = one of the schemes whose parameters webob parses
   (Digest, WSSE, HMACDigest, GoogleLogin, Cookie, OpenID; not Basic); [ok_aparam] = parameter name of one or more
   lower-case ASCII letters, value free of double quote, CR and LF (anything else, incl. commas, spaces, "=",
   backslashes, the empty text); names distinct.  The header is  scheme SP name="value", name="value" ...  and reads
   back as the same scheme and the same dict, in the same order *)
Theorem C12_roundtrip_auth : forall header scheme l hl,
  dict_scheme scheme -> Forall ok_aparam l -> NoDup (map fst l) ->
  let '(hl', e) := resp_set conv_auth header (PAuth scheme l) hl in
  e = None /\ hg_get (lower header) hl' = Some (scheme ++ [32%N] ++ ser_params l) /\
  resp_get conv_auth header hl' = Ok (VList [VStr auth_tag; VStr scheme; dict_val l]).
Proof. exact roundtrip_auth_dict. Qed.
Print Assumptions C12_roundtrip_auth.

Theorem C12_roundtrip_auth_request : forall dflt key scheme l env,
  dict_scheme scheme -> Forall ok_aparam l -> NoDup (map fst l) ->
  let '(env', e) := req_set conv_auth key (PAuth scheme l) env in
  e = None /\ env_get key env' = Some (scheme ++ [32%N] ++ ser_params l) /\
  req_get conv_auth dflt key env' = Ok (VList [VStr auth_tag; VStr scheme; dict_val l]).
Proof. exact roundtrip_auth_dict_request. Qed.
Print Assumptions C12_roundtrip_auth_request.

Example C12_roundtrip_auth_hyp :
  dict_scheme (s_ "Digest") /\ Forall ok_aparam [(s_ "realm", s_ "a, b=c"); (s_ "nonce", s_ "")].
Proof. split; [split; reflexivity|]. repeat constructor; cbn; try discriminate; intros c; lia. Qed.

(* ===================================================================== group 4b: Cache-Control, request side and text *)
(* request.py as repaired (setter stores text only; _update_cache_control drops the cached tuple).  Objects live in a
   heap, because a caller may keep and later change an object the request no longer caches.  After ANY history
   (reads; directive assignments / deletions through request.cache_control or through a kept object; direct changes
   of .properties; changes of the environ key; assignments of text / dict / None; del), what request.cache_control
   shows and HTTP_CACHE_CONTROL denote each other, before and after the read *)
Theorem C12_cc_live_request : forall init ops,
  let sth := fold_left (fun s o => fst (qcc_step true s o)) ops (mkQ init [] None, None) in
  let '(st', i) := req_cc_get true (fst sth) in
  let p := nth i (q_heap st') [] in
  agree p (qenv_text (fst sth)) /\ agree p (qenv_text st').
Proof. exact req_cc_live. Qed.
Print Assumptions C12_cc_live_request.

Theorem C12_cc_mutation_written_request : forall i f st,
  qenv_text (req_cc_mutate true i f st) = serialize_cc (f (nth i (q_heap st) [])).
Proof. exact req_cc_mutation_written. Qed.
Print Assumptions C12_cc_mutation_written_request.

(* parse (serialise p) = p, in the order the serialiser emits (sorted by name).  Domain [okd]: directive name of the
   token_re shape (ASCII letter, then letters, "_", "-"), distinct; value absent, an integer str() can print, or a
   non-empty text without double quote that int() does not accept (such a text would come back as an int) *)
Theorem C12_cc_parse_serialize : forall p,
  let L := sort_props p in
  NoDup (map fst L) -> Forall okd L -> parse_cc (serialize_cc p) = L.
Proof. exact parse_serialize_cc. Qed.
Print Assumptions C12_cc_parse_serialize.

Example C12_cc_parse_serialize_hyp :
  Forall okd [(s_ "max-age", CInt 0); (s_ "no-cache", CNone); (s_ "private", CStr (s_ "set-cookie, x y"))]
  /\ sort_props [(s_ "private", CNone); (s_ "max-age", CInt 5)] = [(s_ "max-age", CInt 5); (s_ "private", CNone)].
Proof.
  split; [|reflexivity]. repeat constructor; cbn; try discriminate;
    try (eexists; eexists; split; [reflexivity|split; [reflexivity|repeat constructor]]);
    try (apply Nat.leb_le; reflexivity).
Qed.

(* ===================================================================== group 5b: Content-Type attributes *)
(* [no_semi s]: s contains no ";" *)

(* Response.charset = cs on a Content-Type whose remaining parameters hold no further charset (stated as: what is left
   after removing the old charset has no semicolon, i.e. "type/subtype" or "type/subtype; charset=old"): the header
   becomes "<rest>; charset=cs", charset reads back cs, content_type is unchanged *)
Theorem C12_roundtrip_charset : forall hl h cs,
  ct_get hl = Some h -> no_semi (strip_charset h) -> no_semi cs ->
  let '(hl', e) := rcharset_set (PStr cs) hl in
  e = None /\ ct_get hl' = Some (strip_charset h ++ s_semi_charset ++ cs) /\
  rcharset_get hl' = VStr cs /\ rct_get hl' = VStr (strip_charset h).
Proof. exact rcharset_roundtrip. Qed.
Print Assumptions C12_roundtrip_charset.

Example C12_roundtrip_charset_hyp :
  strip_charset (s_ "text/html; charset=latin-1") = s_ "text/html" /\ no_semi (s_ "text/html") /\ no_semi (s_ "utf-8").
Proof. split; [reflexivity|]. split; apply Forall_forall; intros c Hc; cbn in Hc; repeat (destruct Hc as [<-|Hc]; [reflexivity|]); contradiction. Qed.

(* Response.content_type = a media type (non-empty, no semicolon) reads back as itself, whatever the class's
   default_charset is (any text, or none) and whether or not the setter appends it; None / del drop the header line *)
Theorem C12_roundtrip_content_type : forall default_charset ct hl, ct <> [] -> no_semi ct ->
  let '(hl', e) := rct_set default_charset (PStr ct) hl in e = None /\ rct_get hl' = VStr ct.
Proof. exact rct_roundtrip. Qed.
Print Assumptions C12_roundtrip_content_type.

(* Response.content_type_params = d (non-empty).  L = the parameters in the order the setter emits them (sorted by
   name).  Domain [okp]: name = an RFC 7230 token, value free of double quote, backslash and LF; names distinct.  Reading gives
   exactly L and the media type is kept *)
Theorem C12_roundtrip_content_type_params : forall d hl,
  let L := fold_right insert_kv [] d in
  d <> [] -> NoDup (map fst L) -> Forall okp L ->
  let '(hl', e) := rparams_set (PAuth [] d) hl in
  e = None /\ rparams_get hl' = dict_val L /\
  rct_get hl' = match before_semi (match fst (ct_pop hl) with Some x => x | None => [] end) with
                | [] => VStr [] | b => VStr b end.
Proof. exact rparams_roundtrip. Qed.
Print Assumptions C12_roundtrip_content_type_params.

(* Request.content_type: the value assigned reads back up to its first semicolon; parameters already present are
   kept when the value brings none; None removes the key *)
Theorem C12_roundtrip_request_content_type : forall value env,
  qct_get (qct_set (Some value) env) = VStr (before_semi value).
Proof. exact qct_roundtrip. Qed.
Print Assumptions C12_roundtrip_request_content_type.

Theorem C12_request_content_type_keeps_params : forall value env p,
  existsb (fun c => (c =? 59)%N) value = false ->
  after_semi (match env with Some t => t | None => [] end) = Some p ->
  qct_set (Some value) env = Some (value ++ [59%N] ++ p).
Proof. exact qct_keeps_params. Qed.
Print Assumptions C12_request_content_type_keeps_params.

(* ===================================================================== group 5c: the two parameter regexes, regenerated *)
(* [setter_unquoted], [getter_unquoted], [getter_name]: read off the live compiled _OK_PARAM_RE / _PARAM_RE on every run
   (coq/Gen/C12_ParamClasses.v).  What the content_type_params setter writes without quotes is within what the
   getter reads without quotes ... *)
Theorem C12_param_setter_subset_getter : forallb (fun c => mem_n c getter_unquoted) setter_unquoted = true.
Proof. exact setter_subset_getter. Qed.
Print Assumptions C12_param_setter_subset_getter.

(* ... and the classes the model (hence C12_roundtrip_content_type_params) uses are exactly the source's, octet by octet *)
Theorem C12_param_classes_model :
  forallb (fun c => Bool.eqb (is_pvalue c) (mem_n c getter_unquoted)
                    && Bool.eqb (ok_param [c]) (mem_n c setter_unquoted)
                    && Bool.eqb (is_pkey c) (mem_n c getter_name)) octets = true.
Proof. exact model_classes_are_source_classes. Qed.
Print Assumptions C12_param_classes_model.

(* ===================================================================== group 2b: invalid ranges are refused *)
(* a range with a stop that does not satisfy 0 <= start < stop (its str() would not be a byte-range-spec, e.g.
   "bytes=0--1") is refused with ValueError, given as tuple / list or as Range object: nothing outside the field's wire
   syntax is stored through the typed attribute *)
Theorem C12_range_invalid_refused : forall s e, ~ (0 <= s < e)%Z -> (0 <= e)%Z ->
  serialize_range (PInts [Some s; Some e]) = Raise ValueError /\ serialize_range (PRange s (Some e)) = Raise ValueError.
Proof. exact range_invalid_refused. Qed.
Print Assumptions C12_range_invalid_refused.
