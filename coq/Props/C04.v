(* C04 — property theorems only.  Each is closed by [exact] of a lemma proved in Proofs/,
   followed by Print Assumptions.

   Model/C04_negotiation.v mirrors webob/acceptparse.py (the dict loop of
   AcceptValidHeader.acceptable_offers, the header scans of the charset / encoding classes, the
   sorts); Spec/C04_negotiation.v is the statement of the property.  [rs] ranges over ALL lists of
   (lower-cased) header elements and [offers] over ALL offer sequences. *)
From Coq Require Import ZArith NArith List Bool Permutation Sorted String.
Require Import Webob.Lib.Rx Webob.Gen.C03_regexes Webob.Model.C03_scan Webob.Proofs.C03_scan
               Webob.Proofs.C03_accept_scan Webob.Proofs.C19_quote.
Require Import Webob.Lib.Val Webob.Lib.PyStr Webob.Lib.C04_Sort Webob.Model.C04_negotiation
               Webob.Spec.C04_negotiation Webob.Proofs.C04_sort Webob.Proofs.C04_accept
               Webob.Proofs.C04_simple Webob.Proofs.C04_facts Webob.Proofs.C04_parse
               Webob.Gen.C04_tables Webob.Proofs.C04_tables Webob.Proofs.C04_offer_full.
Import ListNotations.

(* AcceptValidHeader.acceptable_offers = the offers that parse as concrete media types, first
   occurrence of each, whose governing range (first of maximal specificity) has q <> 0, ranked by
   q descending with ties in the order offered *)
Theorem C04_accept_offers : forall rs offers, accept_offers rs offers = spec_accept rs offers.
Proof. exact accept_offers_spec. Qed.
Print Assumptions C04_accept_offers.

Theorem C04_charset_offers : forall parsed offers,
  charset_offers parsed offers = spec_simple false parsed offers.
Proof. exact (simple_offers_spec false). Qed.
Print Assumptions C04_charset_offers.

Theorem C04_encoding_offers : forall parsed offers,
  encoding_offers parsed offers = spec_simple true parsed offers.
Proof. exact (simple_offers_spec true). Qed.
Print Assumptions C04_encoding_offers.

(* what "governing" means: a range of the header, of maximal specificity, matching, and every
   earlier range is strictly less specific *)
Theorem C04_governing_max : forall po rs r, governing rs po = Some r ->
  In r rs /\ specificity r po = max_spec rs po /\ specificity r po <> 0 /\
  (forall r', In r' rs -> specificity r' po <= specificity r po).
Proof. exact governing_spec. Qed.
Print Assumptions C04_governing_max.

Theorem C04_governing_first : forall po rs r, governing rs po = Some r ->
  exists pre post, rs = pre ++ r :: post /\ forall r', In r' pre -> specificity r' po < specificity r po.
Proof. exact governing_first. Qed.
Print Assumptions C04_governing_first.

Theorem C04_governing_none : forall po rs, governing rs po = None <-> max_spec rs po = 0.
Proof. exact governing_none. Qed.
Print Assumptions C04_governing_none.

(* the four levels: identical type/subtype and parameters > type/subtype without parameters >
   type/STAR > STAR/STAR *)
Theorem C04_specificity_table : forall r po,
  (specificity r po = 4 <-> same_type r po /\ r_ps r <> [] /\ snd po = r_ps r) /\
  (specificity r po = 3 <-> same_type r po /\ r_ps r = []) /\
  (specificity r po = 2 <-> ~ same_type r po /\ r_st r = star /\ fst (fst po) = r_ty r) /\
  (specificity r po = 1 <-> ~ same_type r po /\ ~ (r_st r = star /\ fst (fst po) = r_ty r) /\ r_ts r = star_star) /\
  specificity r po <= 4.
Proof. exact specificity_table. Qed.
Print Assumptions C04_specificity_table.

(* exactly the offers whose governing element has non-zero quality, each paired with that quality *)
Theorem C04_accept_exact : forall rs offers o q,
  In (o, q) (accept_offers rs offers) <->
  In o offers /\ exists po r, parse_offer o = Some po /\ governing rs po = Some r /\ r_q r = q /\ q <> 0%N.
Proof. exact accept_offers_exact. Qed.
Print Assumptions C04_accept_exact.

Theorem C04_simple_exact : forall enc parsed offers o q,
  In (o, q) (simple_offers enc parsed offers) <->
  In o offers /\ governing_q enc parsed o = Some q /\ q <> 0%N.
Proof. exact simple_offers_exact. Qed.
Print Assumptions C04_simple_exact.

(* the output is THE permutation of the acceptable set sorted by (q descending, offer index ascending) *)
Theorem C04_sorted_perm : forall rs offers,
  exists l, accept_offers rs offers = map (fun x => (x_key x, x_q x)) l /\
            Permutation l (acceptable rs offers) /\ StronglySorted prefers l /\
            forall l', Permutation l' (acceptable rs offers) -> StronglySorted prefers l' -> l' = l.
Proof. exact accept_sorted_perm. Qed.
Print Assumptions C04_sorted_perm.

Theorem C04_simple_sorted_perm : forall enc parsed offers,
  let acc := flat_map (verdict_q enc parsed) (enum_from 0 offers) in
  exists l, simple_offers enc parsed offers = map (fun x => (x_key x, x_q x)) l /\
            Permutation l acc /\ StronglySorted prefers l /\
            forall l', Permutation l' acc -> StronglySorted prefers l' -> l' = l.
Proof. exact simple_sorted_perm. Qed.
Print Assumptions C04_simple_sorted_perm.

Theorem C04_accept_html_iff : forall rs,
  accept_html rs = true <->
  exists o po r, In o html_offers /\ parse_offer o = Some po /\ governing rs po = Some r /\ r_q r <> 0%N.
Proof. exact accept_html_iff. Qed.
Print Assumptions C04_accept_html_iff.

(* identity: quality 1 when neither an explicit entry nor a wildcard speaks about it ... *)
Theorem C04_identity_rule : forall parsed o, lower o = identity ->
  explicit parsed o = None -> wildcard parsed = None ->
  encoding_offers parsed [o] = [(o, 1000%N)].
Proof. exact identity_default. Qed.
Print Assumptions C04_identity_rule.

(* ... excluded exactly by identity;q=0, or by STAR;q=0 without an explicit identity entry ... *)
Theorem C04_identity_excluded_iff : forall parsed o, lower o = identity ->
  (encoding_offers parsed [o] = [] <->
   explicit parsed o = Some 0%N \/ (explicit parsed o = None /\ wildcard parsed = Some 0%N)).
Proof. exact identity_excluded_iff. Qed.
Print Assumptions C04_identity_excluded_iff.

(* ... and otherwise governed like any other coding *)
Theorem C04_identity_governed : forall parsed o q, lower o = identity ->
  (explicit parsed o = Some q \/ (explicit parsed o = None /\ wildcard parsed = Some q)) -> q <> 0%N ->
  encoding_offers parsed [o] = [(o, q)].
Proof. exact identity_governed. Qed.
Print Assumptions C04_identity_governed.

(* regenerated obligations: the scanner's character classes are those of tchar_re, OWS_re, qdtext_re
   and quoted_pair_re as CPython's re evaluates them (code points < 1024), and the HTML offer list
   is the literal list in both accept_html methods of the source *)
Theorem C04_char_classes : forall c, (c < 1024)%N ->
  is_tchar c = mem_n c gen_tchar /\ is_ows c = mem_n c gen_ows /\
  is_qdtext c = mem_n c gen_qdtext /\ is_qpchar c = mem_n c gen_qpchar.
Proof. exact char_classes. Qed.
Print Assumptions C04_char_classes.

Theorem C04_html_offers_source :
  html_offers = map OStr gen_html_offers /\ gen_html_offers_nohdr = gen_html_offers.
Proof. exact html_offers_source. Qed.
Print Assumptions C04_html_offers_source.

(* Accept.parse_offer (on a str): what it returns is a concrete media type in normal form ... *)
Theorem C04_parse_offer_normal : forall s t st ps, parse_offer_str s = Some (t, st, ps) ->
  t <> star /\ st <> star /\ lower t = t /\ lower st = st /\
  Forall (fun p : str * str => lower (fst p) = fst p) ps.
Proof. exact parse_offer_str_normal. Qed.
Print Assumptions C04_parse_offer_normal.

(* ---- parse_offer is exact.  Rendered syntax (C03): an offer text is
        type "/" subtype *( OWS ";" OWS name "=" ( token / quoted-string ) )
   with [offer_ok]: type, subtype, names are tokens, no name is q/Q, OWS is any run of SP/HTAB, a quoted
   value is DQUOTE *( qdtext / quoted-pair ) DQUOTE (so commas, semicolons, escaped quotes inside). ---- *)

(* on EVERY such text parse_offer returns the lower-cased type/subtype, the lower-cased parameter names and
   the unquoted, otherwise unchanged, values, in order - unless type or subtype is the wildcard *)
Theorem C04_parse_render : forall ty sub ps, offer_ok ty sub ps ->
  parse_offer_str (offer_text ty sub ps) =
  if str_eqb ty star || str_eqb sub star then None else Some (offer_norm ty sub ps).
Proof. exact parse_offer_rendered. Qed.
Print Assumptions C04_parse_render.

(* and it succeeds on nothing else *)
Theorem C04_parse_offer_exact : forall s r,
  parse_offer_str s = Some r <->
  exists ty sub ps, offer_ok ty sub ps /\ s = offer_text ty sub ps /\
                    ty <> star /\ sub <> star /\ r = offer_norm ty sub ps.
Proof. exact parse_offer_exact. Qed.
Print Assumptions C04_parse_offer_exact.

(* the texts in question are exactly those of the REGENERATED media_type_compiled_re, for every string
   (C03's verified language equality with the RFC 7231 ABNF + no class of the pattern contains LF) *)
Theorem C04_media_type_regex_exact : forall s,
  rmatch gen_media_type s = true <-> exists ty sub ps, offer_ok ty sub ps /\ s = offer_text ty sub ps.
Proof. exact media_type_regex_exact. Qed.
Print Assumptions C04_media_type_regex_exact.

Theorem C04_parse_offer_accepts : forall s, rmatch gen_media_type s = true ->
  exists ty sub ps, offer_ok ty sub ps /\ s = offer_text ty sub ps /\
    parse_offer_str s = if str_eqb ty star || str_eqb sub star then None else Some (offer_norm ty sub ps).
Proof. exact parse_offer_accepts. Qed.
Print Assumptions C04_parse_offer_accepts.

Theorem C04_parse_offer_rejects : forall s, rmatch gen_media_type s = false -> parse_offer_str s = None.
Proof. exact parse_offer_rejects. Qed.
Print Assumptions C04_parse_offer_rejects.

(* type, subtype and parameter names are case-insensitive; parameter values are compared exactly (after
   unquoting): two offers parse alike IFF these agree *)
Theorem C04_offer_case_insensitive : forall ty sub ps ty' sub' ps',
  offer_ok ty sub ps -> offer_ok ty' sub' ps' -> ty <> star -> sub <> star -> ty' <> star -> sub' <> star ->
  (parse_offer_str (offer_text ty sub ps) = parse_offer_str (offer_text ty' sub' ps') <->
   lower ty = lower ty' /\ lower sub = lower sub' /\
   map (fun p => (lower (p_name p), unquote_value (p_val p))) ps =
   map (fun p => (lower (p_name p), unquote_value (p_val p))) ps').
Proof. exact offer_case_insensitive. Qed.
Print Assumptions C04_offer_case_insensitive.

(* AcceptOffer instances (with fixes/C04-2-...): a pre-parsed offer whose components are tokens is treated exactly
   as the media type text it stands for, str(offer) - hence lower-cased, wildcards refused, parameters compared
   after lower-casing the names.  (Values restricted to HTAB / SP / VCHAR / obs-text: only those have a text form.) *)
Theorem C04_accept_offer_as_text : forall ty st (ps : params),
  is_token ty = true -> is_token st = true ->
  forallb (fun p => is_token (fst p)) ps = true -> existsb (fun p => is_q_name (fst p)) ps = false ->
  Forall (fun nv => qchar_ok (snd nv)) ps ->
  parse_offer (OObj ty st ps) = parse_offer_str (form_media_range (ty ++ 47%N :: st) ps).
Proof. exact accept_offer_as_text. Qed.
Print Assumptions C04_accept_offer_as_text.

(* the unquoting step of _parse_media_type_params is C03's unquote_value, which inverts webob's own quoting
   (C19_quote_inverse) for every string *)
Theorem C04_unquote_param : forall nv, unquote_param nv = (fst nv, unquote_value (snd nv)).
Proof. exact unquote_param_eq. Qed.
Print Assumptions C04_unquote_param.

Theorem C04_unquote_inverts_quote : forall n v, unquote_param (n, escape_and_quote v) = (n, v).
Proof. intros n v. rewrite unquote_param_eq. cbn [fst snd]. now rewrite quote_inverse. Qed.
Print Assumptions C04_unquote_inverts_quote.

Local Open Scope string_scope.

(* the hypotheses are satisfiable:  TEXT/Html ; Level=DQUOTE a BACKSLASH DQUOTE b DQUOTE  (OWS around the semicolon,
   a quoted-pair in the value) *)
Example C04_parse_render_ex :
  let ty := H "54455854" in let sub := H "48746d6c" in
  let ps := [mkP (H "20") (H "20") (H "4c6576656c") (H "22615c226222")] in
  offer_ok ty sub ps /\ ty <> star /\ sub <> star /\
  parse_offer_str (offer_text ty sub ps) = Some (H "74657874", H "68746d6c", [(H "6c6576656c", H "612262")]).
Proof.
  cbv zeta. split; [|split; [discriminate|split; [discriminate|vm_compute; reflexivity]]].
  split; [split; [discriminate|repeat constructor]|]. split; [split; [discriminate|repeat constructor]|].
  constructor; [|constructor]. split; [repeat constructor|]. split; [repeat constructor|].
  split; [split; [discriminate|repeat constructor]|]. split; [exact I|].
  right. eexists. split; [reflexivity|].
  apply qb_text; [reflexivity|]. apply qb_pair; [reflexivity|]. apply qb_text; [reflexivity|]. apply qb_end.
Qed.

(* the hypotheses are satisfiable: "gzip;q=0.5" and "IDENTITY" / "*;q=0" *)
Example C04_identity_rule_ex :
  let parsed := [(H "677a6970", 500%N)] in let o := H "4944454e54495459" in
  lower o = identity /\ explicit parsed o = None /\ wildcard parsed = None /\
  encoding_offers parsed [o] = [(o, 1000%N)].
Proof. vm_compute. repeat split. Qed.

Example C04_identity_excluded_ex :
  let parsed := [(H "677a6970", 500%N); (H "2a", 0%N)] in let o := identity in
  lower o = identity /\ explicit parsed o = None /\ wildcard parsed = Some 0%N /\ encoding_offers parsed [o] = [].
Proof. vm_compute. repeat split. Qed.

(* "text/html;level=1, text/html;q=0.5, text/*;q=0, */*;q=0.1" against four offers *)
Example C04_accept_ex :
  c04_accept [(H "746578742f68746d6c3b6c6576656c3d31", 1000%N, [(H "6c6576656c", H "31")]);
              (H "746578742f68746d6c", 500%N, []); (H "746578742f2a", 0%N, []); (H "2a2f2a", 100%N, [])]
             [OStr (H "696d6167652f706e67"); OStr (H "746578742f706c61696e"); OStr (H "746578742f68746d6c");
              OStr (H "544558542f48544d4c3b4c6576656c3d31")]
  = VList [VList [S_ "544558542f48544d4c3b4c6576656c3d31"; VInt 1000]; VList [S_ "746578742f68746d6c"; VInt 500];
           VList [S_ "696d6167652f706e67"; VInt 100]].
Proof. vm_compute. reflexivity. Qed.
