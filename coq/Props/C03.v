(* C03 — property theorems only. *)
From Coq Require Import NArith List Bool Lia.
Require Import Webob.Lib.Val Webob.Lib.Rx Webob.Gen.C03_regexes Webob.Spec.C03_abnf Webob.Proofs.C03_lang.
Import ListNotations.
Local Open Scope N_scope.

(* For every LF-free string, webob's validator (the regex REGENERATED from the source on this run) accepts it
   exactly when it is in the language of the RFC 7231 / RFC 4647 ABNF.  Decided by the verified derivative
   equivalence checker, for all strings over all code points. *)
Theorem C03_accept_grammar : forall w, no_LF w -> (rmatch gen_accept w = true <-> matches abnf_accept w).
Proof. exact accept_eq. Qed.
Print Assumptions C03_accept_grammar.

Theorem C03_accept_charset_grammar : forall w, no_LF w ->
  (rmatch gen_accept_charset w = true <-> matches abnf_accept_charset w).
Proof. exact accept_charset_eq. Qed.
Print Assumptions C03_accept_charset_grammar.

Theorem C03_accept_encoding_grammar : forall w, no_LF w ->
  (rmatch gen_accept_encoding w = true <-> matches abnf_accept_encoding w).
Proof. exact accept_encoding_eq. Qed.
Print Assumptions C03_accept_encoding_grammar.

Theorem C03_accept_language_grammar : forall w, no_LF w ->
  (rmatch gen_accept_language w = true <-> matches abnf_accept_language w).
Proof. exact accept_language_eq. Qed.
Print Assumptions C03_accept_language_grammar.

Theorem C03_token_grammar : forall w, no_LF w -> (rmatch gen_token w = true <-> matches abnf_token w).
Proof. exact token_eq. Qed.
Print Assumptions C03_token_grammar.

Theorem C03_media_type_grammar : forall w, no_LF w -> (rmatch gen_media_type w = true <-> matches abnf_media_type w).
Proof. exact media_type_eq. Qed.
Print Assumptions C03_media_type_grammar.

(* ---- elements: for an accepted value, parse yields the elements left to right with the exact item text and
   the numeric quality, whatever the decoration: any junk (commas / OWS, i.e. empty list elements) before, between
   and after elements, any OWS around ";", "q" or "Q", any legal qvalue spelling. *)
Require Import Webob.Lib.PyStr Webob.Model.C03_scan Webob.Proofs.C03_scan.

Theorem C03_charset_elements : forall j0 els,
  all_junk j0 -> els_ok token_ok els -> rmatch gen_accept_charset (render j0 els) = true ->
  parse_accept_charset (render j0 els) = Some (map (fun ej => canon (fst ej)) els).
Proof. exact parse_charset_render. Qed.
Print Assumptions C03_charset_elements.

Theorem C03_encoding_elements : forall j0 els,
  all_junk j0 -> els_ok token_ok els -> rmatch gen_accept_encoding (render j0 els) = true ->
  parse_accept_encoding (render j0 els) = Some (map (fun ej => canon (fst ej)) els).
Proof. exact parse_encoding_render. Qed.
Print Assumptions C03_encoding_elements.

Theorem C03_language_elements : forall j0 els,
  all_junk j0 -> els_ok lang_ok els -> rmatch gen_accept_language (render j0 els) = true ->
  parse_accept_language (render j0 els) = Some (map (fun ej => canon (fst ej)) els).
Proof. exact parse_language_render. Qed.
Print Assumptions C03_language_elements.

(* the hypotheses are satisfiable by a non-trivial header:  ", en-GB ;\tQ=0.50 ,, *" *)
Example C03_elements_nonvacuous :
  let w := mkWt [32] [9] 81 [48;46;53;48] in
  let els := [(([101;110;45;71;66], Some w), [32;44;44;32]); (([42], None), [])] in
  all_junk [44;32] /\ els_ok lang_ok els /\ rmatch gen_accept_language (render [44;32] els) = true /\
  parse_accept_language (render [44;32] els) = Some [([101;110;45;71;66], 500); ([42], 1000)].
Proof.
  cbv zeta. split; [repeat constructor|]. split.
  - split; [split|split; [repeat constructor|split; [discriminate|]]].
    + unfold lang_ok; cbn [fst]. right. exists [101;110], [[71;66]]. repeat split; cbn; try lia; repeat constructor; cbn; lia.
    + unfold wt_ok; cbn [snd w_ows1 w_ows2 w_q w_text].
      split; [repeat constructor|]. split; [repeat constructor|]. split; [reflexivity|].
      right. right. left. exists [53;48]. repeat split; cbn; try lia; repeat constructor.
    + split; [split; [unfold lang_ok; cbn [fst]; left; reflexivity|exact I]|]. split; [constructor|]. split; [intros H; exfalso; apply H; reflexivity|exact I].
  - split; vm_compute; reflexivity.
Qed.

Theorem C03_quality_range : forall t, qtext_ok t -> thousandths t <= 1000.
Proof. exact thousandths_bound. Qed.
Print Assumptions C03_quality_range.

(* a rejected value has no parsed form; building the header object is a total three-way case split *)
Theorem C03_invalid_no_elements : forall validator take_item s,
  rmatch validator s = false -> parse_simple validator take_item s = None.
Proof. exact parse_invalid. Qed.
Print Assumptions C03_invalid_no_elements.

Theorem C03_create_total : forall (A : Type) (parse : str -> option (list A)) h,
  (h = None /\ create parse h = NoHeader) \/
  (exists v p, h = Some v /\ parse v = Some p /\ create parse h = Valid v p) \/
  (exists v, h = Some v /\ parse v = None /\ create parse h = Invalid v).
Proof. exact @create_cases. Qed.
Print Assumptions C03_create_total.

(* ---- Accept: media range text, media type parameters (values unquoted), weight and extension parameters *)
Require Import Webob.Proofs.C03_accept_scan.
From Coq Require Import String.

Theorem C03_accept_elements : forall j0 els,
  all_junk j0 -> rels_ok els -> rmatch gen_accept (arender j0 els) = true ->
  parse_accept (arender j0 els) = Some (map (fun ej => canon_rel (fst ej)) els).
Proof. exact parse_accept_render. Qed.
Print Assumptions C03_accept_elements.

(* the header:  text/html ;level=QUOTED(a, backslash-quote, b) ; Q=0.5;x;y=QUOTED(1 2), then star/star *)
Example C03_accept_elements_nonvacuous :
  let p := mkP [32] [] [108;101;118;101;108] [34;97;92;34;98;34] in
  let w := mkWt [32] [32] 81 [48;46;53] in
  let x1 := mkX [] [] [120] None in
  let x2 := mkX [] [] [121] (Some [34;49;32;50;34]) in
  let e1 := mkR [116;101;120;116] [104;116;109;108] [p] (Some (w, [x1; x2])) in
  let e2 := mkR [42] [42] [] None in
  let els := [(e1, [44;32]); (e2, [])] in
  all_junk [] /\ rels_ok els /\ rmatch gen_accept (arender [] els) = true /\
  parse_accept (arender [] els) =
    Some [ mkEl (H "746578742f68746d6c3b6c6576656c3d22615c226222"%string) 500
                [([108;101;118;101;108], [97;34;98])]
                [([120], None); ([121], Some [49;32;50])];
           mkEl [42;47;42] 1000 [] [] ].
Proof.
  cbv zeta. split; [constructor|]. split.
  - split.
    + split; [split; [discriminate|repeat constructor]|]. split; [split; [discriminate|repeat constructor]|].
      split.
      * constructor; [|constructor]. unfold param_ok; cbn.
        split; [repeat constructor|]. split; [constructor|]. split; [split; [discriminate|repeat constructor]|].
        split; [exact I|]. right. eexists. split; [reflexivity|].
        apply qb_text; [reflexivity|]. apply qb_pair; [reflexivity|]. apply qb_text; [reflexivity|]. apply qb_end.
      * cbn. split.
        -- unfold wt_ok; cbn. split; [repeat constructor|]. split; [repeat constructor|]. split; [reflexivity|].
           right. right. left. exists [53]. repeat split; cbn; try lia; repeat constructor.
        -- constructor; [|constructor; [|constructor]]; unfold ext_ok; cbn.
           ++ split; [constructor|]. split; [constructor|]. split; [split; [discriminate|repeat constructor]|exact I].
           ++ split; [constructor|]. split; [constructor|]. split; [split; [discriminate|repeat constructor]|].
              right. eexists. split; [reflexivity|].
              apply qb_text; [reflexivity|]. apply qb_text; [reflexivity|]. apply qb_text; [reflexivity|]. apply qb_end.
    + split; [repeat constructor|]. split; [discriminate|].
      split.
      * split; [split; [discriminate|repeat constructor]|].
        split; [split; [discriminate|repeat constructor]|]. split; [constructor|exact I].
      * split; [constructor|]. split; [intros H0; exfalso; apply H0; reflexivity|exact I].
  - split; vm_compute; reflexivity.
Qed.

(* ---- unconditional form for Accept-Charset and Accept-Encoding: EVERY accepted (LF-free) value is a rendering
   of some element list under some decoration, and parse returns exactly those elements, left to right *)
Require Import Webob.Proofs.C03_complete.

Theorem C03_charset_every_accepted_value : forall w, no_LF w -> rmatch gen_accept_charset w = true ->
  exists j0 els, all_junk j0 /\ els_ok token_ok els /\ w = render j0 els /\
                 parse_accept_charset w = Some (map (fun ej => canon (fst ej)) els).
Proof. exact charset_accepted_elements. Qed.
Print Assumptions C03_charset_every_accepted_value.

Theorem C03_encoding_every_accepted_value : forall w, no_LF w -> rmatch gen_accept_encoding w = true ->
  exists j0 els, all_junk j0 /\ els_ok token_ok els /\ w = render j0 els /\
                 parse_accept_encoding w = Some (map (fun ej => canon (fst ej)) els).
Proof. exact encoding_accepted_elements. Qed.
Print Assumptions C03_encoding_every_accepted_value.

Theorem C03_language_every_accepted_value : forall w, no_LF w -> rmatch gen_accept_language w = true ->
  exists j0 els, all_junk j0 /\ els_ok lang_ok els /\ w = render j0 els /\
                 parse_accept_language w = Some (map (fun ej => canon (fst ej)) els).
Proof. exact language_accepted_elements. Qed.
Print Assumptions C03_language_every_accepted_value.

(* ... and for Accept itself: every accepted value is a rendering of media ranges with parameters (token or
   quoted-string values, commas allowed inside quotes), weight and extension parameters, and parse returns exactly
   those elements with unquoted values *)
Require Import Webob.Proofs.C03_accept_complete.

Theorem C03_accept_every_accepted_value : forall w, no_LF w -> rmatch gen_accept w = true ->
  exists j0 els, all_junk j0 /\ rels_ok els /\ w = arender j0 els /\
                 parse_accept w = Some (map (fun ej => canon_rel (fst ej)) els).
Proof. exact accept_accepted_elements. Qed.
Print Assumptions C03_accept_every_accepted_value.
