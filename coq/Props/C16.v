(* C16 — Signed cookies cannot be forged or altered.  Property theorems only: each is closed by
   [exact] of a lemma of Proofs/C16_signed.v and followed by Print Assumptions.

   External functions are universally quantified and constrained only by the stated laws:
     mac   : key -> message -> tag      hmac.new(key, msg, digestmod).digest()
     dsize : digest size                length (mac k m) = dsize
     ser / deser                        serializer.dumps / .loads, deser (ser v) = Ok v
   base64 is concrete (b64enc / b64dec model CPython's urlsafe_b64encode / urlsafe_b64decode).
   "decoded t" is what a token means to loads: b64dec of t after the padding repair.
   Unforgeability of HMAC is NOT proved: the theorems say that accepting anything else than the
   signed value REQUIRES a token carrying a full-length valid tag over a message never signed. *)
From Coq Require Import ZArith NArith List Bool.
Require Import Webob.Lib.Val Webob.Lib.PyStr Webob.Model.C16_signed Webob.Proofs.C16_signed
               Webob.Proofs.C16_b64alter Webob.Proofs.C16_examples.
Import ListNotations.

(* --- base64 layer: urlsafe_b64decode (urlsafe_b64encode bs) = bs for all octet strings --- *)
Theorem C16_b64_roundtrip : forall bs, bytesP bs -> b64dec (b64enc bs) = Some bs.
Proof. exact b64dec_enc. Qed.
Print Assumptions C16_b64_roundtrip.

(* --- SignedSerializer.loads(dumps(v)) == v for every value, key, mac and digest size --- *)
Theorem C16_roundtrip :
  forall (V : Type) (mac : bytes -> bytes -> bytes) (dsize : nat) (ser : V -> bytes)
         (deser : bytes -> res V) (key : bytes),
    (forall k m, length (mac k m) = dsize) ->
    (forall v, deser (ser v) = Ok v) ->
    (forall k m, bytesP (mac k m)) ->
    (forall v, bytesP (ser v)) ->
    forall v, signed_loads V mac dsize deser key (signed_dumps V mac ser key v) = Ok v.
Proof. exact roundtrip. Qed.
Print Assumptions C16_roundtrip.

Example C16_roundtrip_hyps_satisfiable :
  (forall k m, length (toy_mac k m) = 1%nat) /\ (forall v, toy_deser (toy_ser v) = Ok v) /\
  (forall k m, bytesP (toy_mac k m)) /\ (forall v, bytesP (toy_ser v)).
Proof. split; [exact toy_mac_len | split; [exact toy_deser_ser | split; [exact toy_mac_bytes | exact toy_ser_bytes]]]. Qed.

(* --- every accepted token carries a correct FULL-LENGTH tag, under the loader's key, over exactly
       the octets that are deserialised (no assumption on mac, ser, deser at all) --- *)
Theorem C16_accept_implies_mac :
  forall (V : Type) (mac : bytes -> bytes -> bytes) (dsize : nat) (deser : bytes -> res V)
         (key : bytes) (t : str) (v : V),
    signed_loads V mac dsize deser key t = Ok v ->
    exists b c, latin1 t = Some b /\ decoded b = Some (mac key c ++ c) /\ deser c = Ok v.
Proof. exact loads_accept. Qed.
Print Assumptions C16_accept_implies_mac.

(* --- the "unless" clause: a token that decodes to the identical signed octets returns the value --- *)
Theorem C16_same_bytes_same_value :
  forall (V : Type) (mac : bytes -> bytes -> bytes) (dsize : nat) (ser : V -> bytes)
         (deser : bytes -> res V) (key : bytes),
    (forall k m, length (mac k m) = dsize) ->
    (forall v, deser (ser v) = Ok v) ->
    forall t v, decoded t = Some (signed_bytes V mac ser key v) ->
                signed_loads_b V mac dsize deser key t = Ok v.
Proof. exact same_bytes_same_value. Qed.
Print Assumptions C16_same_bytes_same_value.

(* --- any alteration t' of an issued token: same octets -> the original value; and a value other
       than the one signed is returned only if t' exhibits a valid tag on a message c <> ser v --- *)
Theorem C16_altered_token :
  forall (V : Type) (mac : bytes -> bytes -> bytes) (dsize : nat) (ser : V -> bytes)
         (deser : bytes -> res V) (key : bytes),
    (forall k m, length (mac k m) = dsize) ->
    (forall v, deser (ser v) = Ok v) ->
    (forall k m, bytesP (mac k m)) ->
    (forall v, bytesP (ser v)) ->
    forall v t',
      (decoded t' = decoded (signed_dumps V mac ser key v) ->
         signed_loads_b V mac dsize deser key t' = Ok v) /\
      (forall v', signed_loads_b V mac dsize deser key t' = Ok v' ->
         v' = v \/ exists c, c <> ser v /\ decoded t' = Some (mac key c ++ c) /\ deser c = Ok v').
Proof. exact altered_token. Qed.
Print Assumptions C16_altered_token.

(* --- the property text itself, with the cryptographic assumption as an explicit hypothesis:
       if t exhibits no valid tag for a message other than the signed one, then loads returns v
       exactly when t decodes to the signed octets, raises ValueError otherwise, and never
       returns another value --- *)
Theorem C16_integrity_under_unforgeability :
  forall (V : Type) (mac : bytes -> bytes -> bytes) (dsize : nat) (ser : V -> bytes)
         (deser : bytes -> res V) (key : bytes),
    (forall k m, length (mac k m) = dsize) ->
    (forall v, deser (ser v) = Ok v) ->
    forall t v,
      (forall c, c <> ser v -> decoded t <> Some (mac key c ++ c)) ->
      (decoded t = Some (signed_bytes V mac ser key v) -> signed_loads_b V mac dsize deser key t = Ok v) /\
      (decoded t <> Some (signed_bytes V mac ser key v) -> signed_loads_b V mac dsize deser key t = ValueError) /\
      (forall v', signed_loads_b V mac dsize deser key t = Ok v' -> v' = v).
Proof. exact integrity_under_unforgeability. Qed.
Print Assumptions C16_integrity_under_unforgeability.

(* --- unconditional rejections (no cryptographic assumption) --- *)
(* an alteration confined to the tag *)
Theorem C16_bad_tag_rejected :
  forall (V : Type) (mac : bytes -> bytes -> bytes) (dsize : nat) (deser : bytes -> res V)
         (key : bytes) (t e c : bytes),
    decoded t = Some (e ++ c) -> length e = dsize -> e <> mac key c ->
    signed_loads_b V mac dsize deser key t = ValueError.
Proof. exact loads_b_bad_tag. Qed.
Print Assumptions C16_bad_tag_rejected.

(* truncation below the digest size (a compared prefix is never enough) *)
Theorem C16_short_rejected :
  forall (V : Type) (mac : bytes -> bytes -> bytes) (dsize : nat) (deser : bytes -> res V) (key : bytes),
    (forall k m, length (mac k m) = dsize) ->
    forall t f, decoded t = Some f -> (length f < dsize)%nat ->
                signed_loads_b V mac dsize deser key t = ValueError.
Proof. exact loads_b_short. Qed.
Print Assumptions C16_short_rejected.

(* undecodable base64, and text that is not latin-1 *)
Theorem C16_undecodable_rejected :
  forall (V : Type) (mac : bytes -> bytes -> bytes) (dsize : nat) (deser : bytes -> res V)
         (key : bytes) (t : bytes),
    decoded t = None -> signed_loads_b V mac dsize deser key t = ValueError.
Proof. exact loads_b_undecodable. Qed.
Print Assumptions C16_undecodable_rejected.

Theorem C16_not_latin1_rejected :
  forall (V : Type) (mac : bytes -> bytes -> bytes) (dsize : nat) (deser : bytes -> res V)
         (key : bytes) (t : str),
    latin1 t = None -> signed_loads V mac dsize deser key t = ValueError.
Proof. exact loads_not_latin1. Qed.
Print Assumptions C16_not_latin1_rejected.

(* --- a token issued under another KEY / digest (for (salt, secret) PAIRS see the last section) --- *)
Theorem C16_other_config :
  forall (V : Type) (ser : V -> bytes) (deser : bytes -> res V)
         (mac1 mac2 : bytes -> bytes -> bytes) (d2 : nat) (k1 k2 : bytes),
    (forall k m, bytesP (mac1 k m)) -> (forall v, bytesP (ser v)) ->
    forall v v',
      signed_loads_b V mac2 d2 deser k2 (signed_dumps V mac1 ser k1 v) = Ok v' ->
      exists c, mac1 k1 (ser v) ++ ser v = mac2 k2 c ++ c /\ deser c = Ok v'.
Proof. exact other_config. Qed.
Print Assumptions C16_other_config.

Theorem C16_other_key_rejected :
  forall (V : Type) (ser : V -> bytes) (deser : bytes -> res V)
         (mac1 mac2 : bytes -> bytes -> bytes) (d1 d2 : nat) (k1 k2 : bytes),
    (forall k m, length (mac1 k m) = d1) ->
    (forall k m, bytesP (mac1 k m)) -> (forall v, bytesP (ser v)) ->
    forall v, d1 = d2 -> mac2 k2 (ser v) <> mac1 k1 (ser v) ->
      signed_loads_b V mac2 d2 deser k2 (signed_dumps V mac1 ser k1 v) = ValueError.
Proof. exact other_key. Qed.
Print Assumptions C16_other_key_rejected.

(* two different issued tokens never decode to the same octets *)
Theorem C16_issued_tokens_distinct :
  forall (V : Type) (mac : bytes -> bytes -> bytes) (ser : V -> bytes) (key : bytes),
    (forall k m, bytesP (mac k m)) -> (forall v, bytesP (ser v)) ->
    forall v1 v2,
      decoded (signed_dumps V mac ser key v1) = decoded (signed_dumps V mac ser key v2) ->
      signed_dumps V mac ser key v1 = signed_dumps V mac ser key v2.
Proof. exact issued_tokens_distinct. Qed.
Print Assumptions C16_issued_tokens_distinct.

(* --- Base64Serializer (the plain CookieProfile's default) --- *)
Theorem C16_b64ser_roundtrip :
  forall (V : Type) (ser : V -> bytes) (deser : bytes -> res V),
    (forall v, bytesP (ser v)) -> (forall v, deser (ser v) = Ok v) ->
    forall v, b64ser_loads V deser (b64ser_dumps V ser v) = Ok v.
Proof. exact b64ser_roundtrip. Qed.
Print Assumptions C16_b64ser_roundtrip.

(* --- CookieProfile.get_value: None for every rejected token; a value only if loads gave it --- *)
Theorem C16_get_value_none :
  forall (V : Type) (loads : str -> res V) (c : str),
    loads c = ValueError -> get_value_bound V loads (JarValue c) = None.
Proof. exact get_value_none. Qed.
Print Assumptions C16_get_value_none.

Theorem C16_get_value_only_loaded :
  forall (V : Type) (loads : str -> res V) (j : jar) (v : V),
    get_value_bound V loads j = Some v -> exists c, j = JarValue c /\ loads c = Ok v.
Proof. exact get_value_some. Qed.
Print Assumptions C16_get_value_only_loaded.

(* a bound SignedCookieProfile yields v' only from a cookie with a valid full-length tag *)
Theorem C16_profile_get_value_sound :
  forall (V : Type) (mac : bytes -> bytes -> bytes) (dsize : nat) (deser : bytes -> res V)
         (p : sprofile) (j : jar) (v' : V) (key : bytes),
    salted_secret (sp_salt p) (sp_secret p) = Some key ->
    sp_get_value V mac dsize deser (sp_bind p j) = Some (Ok (Some v')) ->
    exists t b c, j = JarValue t /\ latin1 t = Some b /\
                  decoded b = Some (mac key c ++ c) /\ deser c = Ok v'.
Proof. exact profile_get_value_sound. Qed.
Print Assumptions C16_profile_get_value_sound.

(* --- the 4093-byte limit, in terms of the serialisation's length --- *)
Theorem C16_token_length :
  forall (V : Type) (mac : bytes -> bytes -> bytes) (dsize : nat) (ser : V -> bytes) (key : bytes),
    (forall k m, length (mac k m) = dsize) ->
    forall v, length (signed_dumps V mac ser key v) = ((4 * (dsize + length (ser v)) + 2) / 3)%nat.
Proof. exact dumps_length. Qed.
Print Assumptions C16_token_length.

Theorem C16_limit :
  forall (V : Type) (mac : bytes -> bytes -> bytes) (dsize : nat) (ser : V -> bytes),
    (forall k m, length (mac k m) = dsize) ->
    forall p v key,
      salted_secret (sp_salt p) (sp_secret p) = Some key ->
      (4093 < (4 * (dsize + length (ser v)) + 2) / 3)%nat ->
      sp_get_headers V mac ser p v = Some ValueError.
Proof. exact profile_refuses_long. Qed.
Print Assumptions C16_limit.

(* --- the token alphabet, and the round trip through Set-Cookie / Cookie --- *)
Theorem C16_dumps_alphabet :
  forall (V : Type) (mac : bytes -> bytes -> bytes) (ser : V -> bytes) (key : bytes) (v : V),
    Forall (fun c => is_b64url c = true) (signed_dumps V mac ser key v).
Proof. exact dumps_alphabet. Qed.
Print Assumptions C16_dumps_alphabet.

(* echo name h: what request.cookies.get(name) yields when Set-Cookie value h comes back as a
   Cookie header.  Its law (values over the base64url alphabet travel unchanged) is C07's
   round-trip statement; it is an explicit hypothesis here and is swept on the real code. *)
Theorem C16_profile_roundtrip :
  forall (V : Type) (mac : bytes -> bytes -> bytes) (dsize : nat) (ser : V -> bytes)
         (deser : bytes -> res V),
    (forall k m, length (mac k m) = dsize) ->
    (forall k m, bytesP (mac k m)) ->
    (forall v, bytesP (ser v)) ->
    (forall v, deser (ser v) = Ok v) ->
    forall (echo : str -> str -> jar) (good_name : str -> Prop),
      (forall name dom tok, good_name name -> Forall (fun c => is_b64url c = true) tok ->
                            echo name (mk_cookie_plain name dom tok) = JarValue tok) ->
      forall p v key,
        good_name (sp_name p) ->
        salted_secret (sp_salt p) (sp_secret p) = Some key ->
        (length (signed_dumps V mac ser key v) <= 4093)%nat ->
        exists h hs,
          sp_get_headers V mac ser p v = Some (Ok (h :: hs)) /\
          forall x, In x (h :: hs) ->
            sp_get_value V mac dsize deser (sp_bind p (echo (sp_name p) x)) = Some (Ok (Some v)).
Proof. exact profile_roundtrip. Qed.
Print Assumptions C16_profile_roundtrip.

(* ===== which alterations change the signed octets (concrete base64 layer) ===== *)

(* what a token made of alphabet symbols means: undecodable when its length is 1 mod 4, otherwise the
   bit-concatenation dec6 of its symbol values (low bits of an incomplete last quad dropped) *)
Theorem C16_decoded_alphabet_token : forall t, Forall alpha t ->
  decoded t = if (length t mod 4 =? 1)%nat then None else Some (dec6 (map sext t)).
Proof. exact decoded_alpha. Qed.
Print Assumptions C16_decoded_alphabet_token.

(* substituting ANY symbol of an issued token by an octet outside the alphabet (other than '=')
   is rejected unconditionally - for every key, mac and digest size *)
Theorem C16_outside_symbol_rejected :
  forall (V : Type) (mac : bytes -> bytes -> bytes) (dsize : nat) (ser : V -> bytes)
         (deser : bytes -> res V) (key : bytes) (v : V) (i : nat) (x : N),
    (i < length (signed_dumps V mac ser key v))%nat -> a2b x = None -> (x =? PAD)%N = false ->
    signed_loads_b V mac dsize deser key (subst_at i x (signed_dumps V mac ser key v)) = ValueError.
Proof. exact issued_outside_symbol_rejected. Qed.
Print Assumptions C16_outside_symbol_rejected.

(* substituting a symbol (not the last) by an alphabet symbol of another value changes the octets:
   by C16_altered_token the result is then ValueError unless the new octets carry a forged tag.
   (A symbol of the SAME value - '+' for '-', '/' for '_' - gives the identical octets.) *)
Theorem C16_alphabet_symbol_changes_octets :
  forall (V : Type) (mac : bytes -> bytes -> bytes) (ser : V -> bytes) (key : bytes) (v : V) (i : nat) (x : N),
    (S i < length (signed_dumps V mac ser key v))%nat -> alpha x ->
    sext x <> sext (nth i (signed_dumps V mac ser key v) 0%N) ->
    decoded (subst_at i x (signed_dumps V mac ser key v)) <> decoded (signed_dumps V mac ser key v).
Proof. exact issued_alphabet_symbol_changes_octets. Qed.
Print Assumptions C16_alphabet_symbol_changes_octets.

(* the last symbol: the octets change unless only the dropped low bits differ *)
Theorem C16_last_symbol_changes_octets :
  forall (V : Type) (mac : bytes -> bytes -> bytes) (ser : V -> bytes) (key : bytes) (v : V) (x : N),
    let t := signed_dumps V mac ser key v in
    let i := (length t - 1)%nat in
    t <> [] -> alpha x -> ~ same_kept_bits (length t) (sext x) (sext (nth i t 0%N)) ->
    decoded (subst_at i x t) <> decoded t.
Proof. exact issued_last_symbol_changes_octets. Qed.
Print Assumptions C16_last_symbol_changes_octets.

(* every truncation, deletion, insertion or extension that keeps the token inside the alphabet but
   changes its length changes the octets (or makes it undecodable) *)
Theorem C16_other_length_changes_octets :
  forall (V : Type) (mac : bytes -> bytes -> bytes) (ser : V -> bytes) (key : bytes) (v : V) (t' : bytes),
    Forall alpha t' -> length t' <> length (signed_dumps V mac ser key v) ->
    decoded t' <> decoded (signed_dumps V mac ser key v).
Proof. exact issued_other_length_changes_octets. Qed.
Print Assumptions C16_other_length_changes_octets.

(* --- the hypotheses of the conditional theorems are satisfiable --- *)
(* C16_integrity_under_unforgeability: the token issued for v = 2 under the toy mac *)
Example C16_unforgeability_hyp_satisfiable :
  forall c, c <> toy_ser 2 ->
    decoded (signed_dumps nat toy_mac toy_ser [1; 2; 3]%N 2%nat) <> Some (toy_mac [1; 2; 3]%N c ++ c).
Proof. exact toy_unforgeable_instance. Qed.

(* C16_profile_roundtrip: a user agent echoing what stands between "name=" and the first ';' *)
Example C16_echo_hyp_satisfiable :
  forall name dom tok, (fun _ : str => True) name -> Forall (fun c => is_b64url c = true) tok ->
    toy_echo name (mk_cookie_plain name dom tok) = JarValue tok.
Proof. intros name dom tok _. apply toy_echo_plain. Qed.

(* C16_other_key_rejected: two keys of different length give different toy tags *)
Example C16_other_key_hyp_satisfiable : toy_mac [1]%N (toy_ser 2) <> toy_mac [1; 2]%N (toy_ser 2).
Proof. discriminate. Qed.

(* C16_limit / C16_roundtrip on concrete data *)
Example C16_concrete_roundtrip :
  signed_loads nat toy_mac 1 toy_deser [7; 7]%N (signed_dumps nat toy_mac toy_ser [7; 7]%N 5%nat) = Ok 5%nat.
Proof. vm_compute. reflexivity. Qed.

(* ===== (salt, secret) PAIRS versus KEYS =====
   C16_other_config / C16_other_key_rejected speak about another KEY OCTET STRING that gives another TAG
   (hypothesis [mac2 k2 (ser v) <> mac1 k1 (ser v)]).  They do NOT say that a token issued under a different
   (salt, secret) pair is rejected, and that pair-level statement is false for this code: the key is the plain
   concatenation of the encoded salt and secret, handed to HMAC.  The witnesses below (and the HMAC key
   normalisation covered abstractly by C16_equivalent_keys_accepted) are known findings of the real code. *)
Theorem C16_pair_level_refuted_boundary :
  exists salt1 secret1 salt2 secret2 key,
    (salt1, secret1) <> (salt2, secret2) /\
    salted_secret salt1 secret1 = Some key /\ salted_secret salt2 secret2 = Some key /\
    forall (V : Type) (mac : bytes -> bytes -> bytes) (dsize : nat) (ser : V -> bytes) (deser : bytes -> res V),
      (forall k m, length (mac k m) = dsize) -> (forall v, deser (ser v) = Ok v) ->
      (forall k m, bytesP (mac k m)) -> (forall v, bytesP (ser v)) ->
      forall v, signed_loads V mac dsize deser key (signed_dumps V mac ser key v) = Ok v.
Proof. exact pair_level_refuted_boundary. Qed.
Print Assumptions C16_pair_level_refuted_boundary.

Theorem C16_pair_level_refuted_encoding :
  exists salt1 salt2 secret key,
    salt1 <> salt2 /\
    salted_secret salt1 secret = Some key /\ salted_secret salt2 secret = Some key.
Proof. exact pair_level_refuted_encoding. Qed.
Print Assumptions C16_pair_level_refuted_encoding.

(* keys the mac cannot tell apart (HMAC: trailing NULs; a long key and its hash) are one key *)
Theorem C16_equivalent_keys_accepted :
  forall (V : Type) (mac : bytes -> bytes -> bytes) (dsize : nat) (ser : V -> bytes)
         (deser : bytes -> res V) (k1 k2 : bytes),
    (forall k m, length (mac k m) = dsize) -> (forall v, deser (ser v) = Ok v) ->
    (forall k m, bytesP (mac k m)) -> (forall v, bytesP (ser v)) ->
    (forall m, mac k1 m = mac k2 m) ->
    forall v, signed_loads V mac dsize deser k2 (signed_dumps V mac ser k1 v) = Ok v.
Proof. exact equivalent_keys_accepted. Qed.
Print Assumptions C16_equivalent_keys_accepted.

(* ===== the signed value through an ACTUAL cookie (Model/C16_transport.v over C07's cookie codec model) =====
   Set-Cookie side  : set_cookie_line = C07's make_cookie (Morsel.serialize, _value_quote, _path_quote, _valid_cookie_name)
   client           : keeps the cookie-pair (text before the first ';'), sends it among its other cookies joined by "; "
   Cookie side      : request_jar = C07's request_cookies (scanner model of _rx_cookie.findall, _unquote, utf-8 decode,
                      later pair wins) followed by dict lookup = self.request.cookies.get(cookie_name)
   The browser-leg law that C16_profile_roundtrip takes as a hypothesis is PROVED here from C07's lemmas. *)
From Coq Require Import String.
From Coq Require Import List.
Require Import Webob.Lib.C07_Utf8 Webob.Proofs.C07_input Webob.Model.C16_transport Webob.Proofs.C16_transport.

(* --- every text SignedSerializer.dumps can produce is emitted UNQUOTED and UNCHANGED by _value_quote, and _unquote
       gives it back unchanged - for every payload, key (secret/salt), mac and serializer --- *)
Theorem C16_token_unquoted :
  forall (V : Type) (mac : bytes -> bytes -> bytes) (ser : V -> bytes) (key : bytes) (v : V),
    C07_CookieCodec.value_quote (signed_dumps V mac ser key v) = signed_dumps V mac ser key v /\
    C07_CookieCodec.unquote (signed_dumps V mac ser key v) = signed_dumps V mac ser key v.
Proof.
  exact (fun V mac ser key v =>
           conj (value_quote_b64url _ (dumps_alphabet V mac ser key v)) (unquote_b64url _ (dumps_alphabet V mac ser key v))).
Qed.
Print Assumptions C16_token_unquoted.

(* --- the Set-Cookie value C07's make_cookie model emits for an issued token IS the plain line the C16 model uses --- *)
Theorem C16_set_cookie_line_is_make_cookie :
  forall (V : Type) (mac : bytes -> bytes -> bytes) (ser : V -> bytes) (key : bytes) (v : V) (name : str) (dom : option str),
    C07_CookieCodec.valid_cookie_name name = true ->
    (forall d, dom = Some d -> plain_domain d) ->
    set_cookie_line name dom (signed_dumps V mac ser key v)
    = C07_CookieCodec.Ok (mk_cookie_plain name dom (signed_dumps V mac ser key v)).
Proof.
  exact (fun V mac ser key v name dom Hn Hd => set_cookie_line_plain name dom _ Hn (dumps_alphabet V mac ser key v) Hd).
Qed.
Print Assumptions C16_set_cookie_line_is_make_cookie.

(* --- cookie_parse (cookie_render name (signed payload)) = signed payload, among arbitrary other cookies
       (l before, r after; a later cookie of the same name would win, so there is none in r) --- *)
Theorem C16_cookie_parse_render :
  forall (V : Type) (mac : bytes -> bytes -> bytes) (ser : V -> bytes) (key : bytes) (v : V)
         (l r : list (str * str)) (name : str) (dom : option str),
    Forall text_pair l -> Forall text_pair r ->
    C07_CookieCodec.valid_cookie_name name = true -> ~ In name (map fst r) ->
    echo_among l r name (mk_cookie_plain name dom (signed_dumps V mac ser key v))
    = JarValue (signed_dumps V mac ser key v).
Proof.
  exact (fun V mac ser key v l r name dom Hl Hr Hn Hr' =>
           echo_among_plain l r name dom _ Hl Hr Hn Hr' (dumps_alphabet V mac ser key v)).
Qed.
Print Assumptions C16_cookie_parse_render.

(* --- END TO END: value --dumps--> Set-Cookie value --client echo--> Cookie header among other cookies
       --request.cookies--> get_value = the original value; no hypothesis on the transport is left --- *)
Theorem C16_cookie_roundtrip :
  forall (V : Type) (mac : bytes -> bytes -> bytes) (dsize : nat) (ser : V -> bytes) (deser : bytes -> res V),
    (forall k m, length (mac k m) = dsize) ->
    (forall v, deser (ser v) = Ok v) ->
    (forall k m, bytesP (mac k m)) -> (forall v, bytesP (ser v)) ->
    forall (l r : list (str * str)) p v key,
      Forall text_pair l -> Forall text_pair r ->
      C07_CookieCodec.valid_cookie_name (sp_name p) = true -> ~ In (sp_name p) (map fst r) ->
      salted_secret (sp_salt p) (sp_secret p) = Some key ->
      (length (signed_dumps V mac ser key v) <= 4093)%nat ->
      exists h hs,
        sp_get_headers V mac ser p v = Some (Ok (h :: hs)) /\
        forall x, In x (h :: hs) ->
          sp_get_value V mac dsize deser (sp_bind p (echo_among l r (sp_name p) x)) = Some (Ok (Some v)).
Proof. exact cookie_roundtrip. Qed.
Print Assumptions C16_cookie_roundtrip.

(* --- TAMPER at the cookie level: the echoed cookie value is replaced by ANY text t' (any change that still parses:
       sent as its utf-8 octets b', quoted/escaped as needed, among the other cookies).  Under the unforgeability
       hypothesis on t' the bound profile returns the signed value exactly when t' decodes to the signed octets,
       None otherwise, and never another value --- *)
Theorem C16_cookie_altered :
  forall (V : Type) (mac : bytes -> bytes -> bytes) (dsize : nat) (ser : V -> bytes) (deser : bytes -> res V),
    (forall k m, length (mac k m) = dsize) ->
    (forall v, deser (ser v) = Ok v) ->
    forall (l r : list (str * str)) p key v (t' b' : str),
      Forall text_pair l -> Forall text_pair r ->
      C07_CookieCodec.valid_cookie_name (sp_name p) = true -> ~ In (sp_name p) (map fst r) ->
      utf8_encode t' = Some b' ->
      salted_secret (sp_salt p) (sp_secret p) = Some key ->
      (forall bb c, latin1 t' = Some bb -> c <> ser v -> decoded bb <> Some (mac key c ++ c)) ->
      let j := request_jar (cookie_header l (sp_name p ++ 61%N :: C07_CookieCodec.value_quote b') r) (sp_name p) in
      (forall v', sp_get_value V mac dsize deser (sp_bind p j) = Some (Ok (Some v')) -> v' = v) /\
      (forall bb, latin1 t' = Some bb -> decoded bb = Some (signed_bytes V mac ser key v) ->
         sp_get_value V mac dsize deser (sp_bind p j) = Some (Ok (Some v))) /\
      ((forall bb, latin1 t' = Some bb -> decoded bb <> Some (signed_bytes V mac ser key v)) ->
         sp_get_value V mac dsize deser (sp_bind p j) = Some (Ok None)).
Proof. exact cookie_altered. Qed.
Print Assumptions C16_cookie_altered.

(* --- ... and for ANY Cookie header whatsoever (well-formed or not): whatever request.cookies.get yields for it,
       get_value never returns another value, returns None when the header cannot be decoded, the cookie is missing or
       its text does not decode to the signed octets --- *)
Theorem C16_any_cookie_header_integrity :
  forall (V : Type) (mac : bytes -> bytes -> bytes) (dsize : nat) (ser : V -> bytes) (deser : bytes -> res V),
    (forall k m, length (mac k m) = dsize) ->
    (forall v, deser (ser v) = Ok v) ->
    forall p key (hdr : str) v,
      salted_secret (sp_salt p) (sp_secret p) = Some key ->
      let j := request_jar hdr (sp_name p) in
      (forall t bb c, j = JarValue t -> latin1 t = Some bb -> c <> ser v -> decoded bb <> Some (mac key c ++ c)) ->
      (forall v', sp_get_value V mac dsize deser (sp_bind p j) = Some (Ok (Some v')) -> v' = v) /\
      (forall t bb, j = JarValue t -> latin1 t = Some bb -> decoded bb = Some (signed_bytes V mac ser key v) ->
         sp_get_value V mac dsize deser (sp_bind p j) = Some (Ok (Some v))) /\
      ((j = JarRaises \/ j = JarMissing \/
        exists t, j = JarValue t /\ forall bb, latin1 t = Some bb -> decoded bb <> Some (signed_bytes V mac ser key v)) ->
         sp_get_value V mac dsize deser (sp_bind p j) = Some (Ok None)).
Proof.
  exact (fun V mac dsize ser deser ML DS p key hdr v Hk =>
           bound_integrity V mac dsize ser deser ML DS p key (request_jar hdr (sp_name p)) v Hk).
Qed.
Print Assumptions C16_any_cookie_header_integrity.

(* --- the hypotheses are satisfiable: cookie "session" between  a=1; lang=<e-acute>  and  z="y x\073" --- *)
Example C16_cookie_hyps_satisfiable :
  Forall text_pair ex_before /\ Forall text_pair ex_after /\
  C07_CookieCodec.valid_cookie_name ex_name = true /\ ~ In ex_name (map fst ex_after) /\
  plain_domain (H "6578616d706c652e636f6d"%string).
Proof.
  exact (conj (proj1 ex_text_pairs) (conj (proj2 ex_text_pairs) (conj (proj1 ex_name_ok) (conj (proj2 ex_name_ok) ex_plain_domain)))).
Qed.

(* a concrete run of the whole chain with the toy mac/serializer: token issued for 5, Set-Cookie with a Domain, echoed
   among three other cookies, read back and verified *)
Example C16_concrete_cookie_roundtrip :
  let tok := signed_dumps nat toy_mac toy_ser [7; 7]%N 5%nat in
  set_cookie_line ex_name (Some (H "6578616d706c652e636f6d"%string)) tok
    = C07_CookieCodec.Ok (mk_cookie_plain ex_name (Some (H "6578616d706c652e636f6d"%string)) tok) /\
  get_value_bound nat (signed_loads nat toy_mac 1 toy_deser [7; 7]%N)
    (echo_among ex_before ex_after ex_name (mk_cookie_plain ex_name (Some (H "6578616d706c652e636f6d"%string)) tok))
    = Some 5%nat.
Proof. vm_compute. split; reflexivity. Qed.
