(* C13 — URL reconstruction and path manipulation round-trip: property theorems only.
   Each is closed by [exact] of a lemma proved in Proofs/, followed by Print Assumptions.
   Vocabulary (Spec/C13_spec.v): [pct_encoded] = RFC 3986 path characters and %XX triplets; [host_view v6ok e h p]
   = the request's host is the reg-name / bracketed IP literal [h] with optional explicit port [p], spelled in
   HTTP_HOST or given by SERVER_NAME/SERVER_PORT; [scheme_ok] = http, https, or another letters-only scheme with
   an explicit port; [encode enc text = Ok raw] = the WSGI string [raw] is the latin-1 view of the url_encoding
   bytes of [text].  PATH_SAFE is the table regenerated from request.py (Gen/C13_tables.v). *)
From Coq Require Import NArith List Bool String.
Require Import Webob.Lib.Val Webob.Lib.PyStr Webob.Lib.C13_Utf8 Webob.Gen.C13_tables
               Webob.Model.C13_urlsplit Webob.Model.C13_urlpath Webob.Model.C13_urljoin Webob.Spec.C13_spec
               Webob.Spec.C13_rfc3986 Webob.Spec.C13_refdomain
               Webob.Proofs.C13_utf8 Webob.Proofs.C13_quote Webob.Proofs.C13_host Webob.Proofs.C13_blank
               Webob.Proofs.C13_pop Webob.Proofs.C13_refuted Webob.Proofs.C13_segs Webob.Proofs.C13_relurl
               Webob.Proofs.C13_relurl_refuted.
Import ListNotations.
Local Open Scope N_scope.

(* ---- quoting: the output is percent-encoded ASCII and decodes to the same bytes *)
Theorem C13_quote_ascii : forall bs, forallb is_octet bs = true -> pct_encoded (url_quote bs).
Proof. exact quote_pct_encoded. Qed.
Print Assumptions C13_quote_ascii.

Theorem C13_pct_encoded_is_ascii : forall s, pct_encoded s ->
  forallb path_char s = true /\ forallb is_ascii s = true.
Proof. exact pct_encoded_chars. Qed.
Print Assumptions C13_pct_encoded_is_ascii.

Theorem C13_unquote_quote : forall bs, forallb is_octet bs = true -> url_unquote (url_quote bs) = Ok bs.
Proof. exact url_unquote_quote. Qed.
Print Assumptions C13_unquote_quote.

(* ... also under the statement's own reference decoder *)
Theorem C13_quote_decodes : forall bs, forallb is_octet bs = true ->
  forall fuel, (List.length (url_quote bs) < fuel)%nat -> pct_decode fuel (url_quote bs) = Some bs.
Proof. exact pct_decode_quote. Qed.
Print Assumptions C13_quote_decodes.

(* ---- the URL forms are assembled from the same pieces *)
Theorem C13_url_forms : forall e st pt,
  encode (e_enc e) st = Ok (raw_script e) -> encode (e_enc e) pt = Ok (e_path e) ->
  application_url e = Ok (host_url e ++ url_quote (raw_script e)) /\
  path e = Ok (url_quote (raw_script e ++ e_path e)) /\
  path_url e = Ok (host_url e ++ url_quote (raw_script e ++ e_path e)) /\
  path_qs e = Ok (add_query e (url_quote (raw_script e ++ e_path e))) /\
  url e = Ok (add_query e (host_url e ++ url_quote (raw_script e ++ e_path e))).
Proof. exact url_forms. Qed.
Print Assumptions C13_url_forms.

(* ---- default port elided; host_port / domain consistent with it *)
Theorem C13_default_port : forall v6ok e h p, host_view v6ok e h p -> scheme_ok (e_scheme e) p ->
  host_url e = e_scheme e ++ s_css ++ domain e ++
               (if is_default (e_scheme e) (host_port e) then [] else 58 :: host_port e).
Proof. exact default_port_elided. Qed.
Print Assumptions C13_default_port.

Theorem C13_domain : forall v6ok e h p, host_view v6ok e h p -> domain e = hs_text h.
Proof. exact view_domain. Qed.
Print Assumptions C13_domain.

Theorem C13_host_port : forall v6ok e h p, host_view v6ok e h p ->
  host_port e = match p with Some p => p | None => if str_eqb (e_scheme e) s_https then s_443 else s_80 end.
Proof. exact view_host_port. Qed.
Print Assumptions C13_host_port.

(* ---- Request.blank(request.url) reproduces scheme, host, SCRIPT_NAME+PATH_INFO, query and has the same url
        (environ_from_url as repaired by fixes/C13-blank-ipv6-server-name-port.patch; the blank request is read
        with the url_encoding of the original) *)
Theorem C13_blank_roundtrip : forall v6ok e h p st pt,
  host_view v6ok e h p -> scheme_ok (e_scheme e) p ->
  encode (e_enc e) st = Ok (raw_script e) -> encode (e_enc e) pt = Ok (e_path e) ->
  rooted (st ++ pt) -> query_ok (e_query e) ->
  exists u e', url e = Ok u /\ environ_from_url v6ok u = Ok e' /\
    e_scheme e' = e_scheme e /\ domain e' = domain e /\ host_port e' = host_port e /\
    e_server_name e' = domain e /\ e_server_port e' = host_port e /\
    e_script e' = Some [] /\ e_path e' = raw_script e ++ e_path e /\
    e_query e' = Some (query_text (e_query e)) /\
    get_script (with_enc (e_enc e) e') = Ok [] /\
    get_path (with_enc (e_enc e) e') = Ok (st ++ pt) /\
    url (with_enc (e_enc e) e') = Ok u /\
    path_qs (with_enc (e_enc e) e') = path_qs e /\
    forallb printable u = true.
Proof. exact blank_roundtrip_sec. Qed.
Print Assumptions C13_blank_roundtrip.

(* the hypotheses are satisfiable: https://[::1]:8443 with SCRIPT_NAME "/s" and PATH_INFO "/é ?" *)
Example C13_blank_example :
  let v6ok := fun _ : str => true in
  let e := mkEnv s_https (Some (H "5b3a3a315d3a38343433"%string)) (H "73"%string) s_80 (Some (H "2f73"%string)) (H "2fc3a9203f"%string)
                 (Some (H "613d31"%string)) Utf8 in
  host_view v6ok e (HV6 (H "3a3a31"%string)) (Some (H "38343433"%string)) /\ scheme_ok (e_scheme e) (Some (H "38343433"%string)) /\
  encode Utf8 (H "2f73"%string) = Ok (raw_script e) /\ encode Utf8 [47; 233; 32; 63] = Ok (e_path e) /\
  rooted ((H "2f73"%string) ++ [47; 233; 32; 63]) /\ query_ok (e_query e) /\
  url e = Ok (H "68747470733a2f2f5b3a3a315d3a383434332f732f2543332541392532302533463f613d31"%string).
Proof.
  cbv zeta. repeat split; try reflexivity.
  - discriminate.
  - left. reflexivity.
  - right. left. reflexivity.
  - right. eexists. reflexivity.
Qed.

(* outside scheme_ok the round trip fails on the model exactly as on the implementation (findings) *)
Theorem C13_blank_unknown_scheme_refuted :
  exists e u, host_view (fun _ => true) e (HName (H "68"%string)) None /\ e_scheme e = H "7773" /\
    url e = Ok u /\ environ_from_url (fun _ => true) u = Raise ETypeError.
Proof. exact blank_unknown_scheme_witness. Qed.
Print Assumptions C13_blank_unknown_scheme_refuted.

Theorem C13_blank_scheme_nonletter_refuted :
  exists e u e', host_view (fun _ => true) e (HName (H "68"%string)) (Some (H "3831"%string)) /\ e_scheme e = H "683263" /\
    url e = Ok u /\ environ_from_url (fun _ => true) u = Ok e' /\ e_scheme e' <> e_scheme e.
Proof. exact blank_scheme_nonletter_witness. Qed.
Print Assumptions C13_blank_scheme_nonletter_refuted.

(* ---- assigning text to path_info / script_name: reads back, stored as the latin-1 view of its bytes *)
Theorem C13_path_set_get : forall e text, text_ok (e_enc e) text ->
  exists raw e', set_path e text = Ok e' /\ encode (e_enc e) text = Ok raw /\
    e_path e' = raw /\ forallb is_octet raw = true /\ get_path e' = Ok text /\
    e_script e' = e_script e /\ e_enc e' = e_enc e.
Proof. exact set_get_path. Qed.
Print Assumptions C13_path_set_get.

Theorem C13_script_set_get : forall e text, text_ok (e_enc e) text ->
  exists raw e', set_script e text = Ok e' /\ encode (e_enc e) text = Ok raw /\
    e_script e' = Some raw /\ forallb is_octet raw = true /\ get_script e' = Ok text /\
    e_path e' = e_path e /\ e_enc e' = e_enc e.
Proof. exact set_get_script. Qed.
Print Assumptions C13_script_set_get.

(* "text -> url_encoding bytes" really is UTF-8 / latin-1: decoding the stored bytes gives the text *)
Theorem C13_utf8_roundtrip : forall s, valid_text s = true -> utf8_decode (utf8_encode s) = Some s.
Proof. exact utf8_roundtrip. Qed.
Print Assumptions C13_utf8_roundtrip.

Example C13_text_ok_example : text_ok Utf8 [47; 233; 8364; 128512] /\ text_ok Latin [47; 233; 255].
Proof. split; reflexivity. Qed.

(* ---- path_info_peek / path_info_pop *)
Theorem C13_peek : forall e pt, encode (e_enc e) pt = Ok (e_path e) ->
  path_info_peek e = Ok (if is_empty pt then None else Some (seg pt)).
Proof. exact peek_spec. Qed.
Print Assumptions C13_peek.

Theorem C13_pop_empty : forall e pt, encode (e_enc e) pt = Ok (e_path e) -> forall pat, pt = [] ->
  path_info_pop pat e = Ok (None, e).
Proof. exact pop_empty. Qed.
Print Assumptions C13_pop_empty.

Theorem C13_pop_nomatch : forall e pt, encode (e_enc e) pt = Ok (e_path e) -> forall pat,
  accepts pat (seg pt) = false -> path_info_pop pat e = Ok (None, e).
Proof. exact pop_nomatch. Qed.
Print Assumptions C13_pop_nomatch.

(* the popped segment is the peeked one; exactly slashes+segment move to SCRIPT_NAME; the concatenation, path and
   url do not change *)
Theorem C13_pop : forall e st pt,
  encode (e_enc e) st = Ok (raw_script e) -> encode (e_enc e) pt = Ok (e_path e) ->
  forall pat, pt <> [] -> accepts pat (seg pt) = true ->
  exists rs' rp',
    let e' := mkEnv (e_scheme e) (e_http_host e) (e_server_name e) (e_server_port e) (Some rs') rp'
                    (e_query e) (e_enc e) in
    path_info_pop pat e = Ok (Some (seg pt), e') /\
    path_info_peek e = Ok (Some (seg pt)) /\
    encode (e_enc e) (st ++ slashes pt ++ seg pt) = Ok rs' /\
    encode (e_enc e) (after pt) = Ok rp' /\
    get_script e' = Ok (st ++ slashes pt ++ seg pt) /\ get_path e' = Ok (after pt) /\
    (st ++ slashes pt ++ seg pt) ++ after pt = st ++ pt /\
    rs' ++ rp' = raw_script e ++ e_path e /\
    forallb is_slash (slashes pt) = true /\
    forallb (fun c => negb (is_slash c)) (seg pt) = true /\
    rooted (after pt) /\
    path e' = path e /\ path_qs e' = path_qs e /\ path_url e' = path_url e /\ url e' = url e.
Proof. exact pop_match. Qed.
Print Assumptions C13_pop.

Example C13_pop_example :
  let e := mkEnv s_http None (H "68"%string) s_80 (Some (H "2f73"%string)) (H "2f2f61c3a92f62"%string) None Utf8 in
  encode Utf8 (H "2f73"%string) = Ok (raw_script e) /\ encode Utf8 [47; 47; 97; 233; 47; 98] = Ok (e_path e) /\
  seg [47; 47; 97; 233; 47; 98] = [97; 233] /\
  path_info_pop None e = Ok (Some [97; 233], mkEnv s_http None (H "68"%string) s_80 (Some (H "2f732f2f61c3a9"%string)) (H "2f62"%string) None Utf8).
Proof. cbv zeta. repeat split; reflexivity. Qed.

(* ---- relative_url agrees with RFC 3986 section 5.2 resolution against path_url (application_url + "/" for
        to_application).  [rfc3986_resolve] (Spec/C13_rfc3986.v) is transcribed from the RFC: appendix B parsing,
        5.2.2 transform (strict), 5.2.3 merge, 5.2.4 remove_dot_segments as the input/output-buffer loop, 5.3
        recomposition.  [urljoin] / [relative_url] (Model/C13_urljoin.v) mirror urllib.parse and webob.
        Domain: [ref_ok other] (Spec/C13_refdomain.v, a boolean): visible ASCII, no scheme, no authority, a "?" or
        "#" is followed by something, no empty inner path segment, no ';' in the last path segment; the request:
        scheme http/https, non-empty host, and [path_shape_ok] of the base path (no empty inner segment, no ';' in
        its last segment). *)
Theorem C13_urljoin_rfc3986 : forall v6ok sch netloc P,
  sch = s_http \/ sch = s_https -> netloc <> [] ->
  forallb netloc_char netloc = true -> netloc_bad v6ok netloc = false ->
  forallb path_char P = true -> rooted P -> path_shape_ok P = true ->
  forall r, ref_ok r = true ->
  urljoin v6ok (sch ++ s_css ++ netloc ++ P) r = JOk (rfc3986_resolve (sch ++ s_css ++ netloc ++ P) r).
Proof. exact urljoin_rfc. Qed.
Print Assumptions C13_urljoin_rfc3986.

(* the base really is path_url / application_url with a trailing slash *)
Theorem C13_relative_url_base : forall v6ok e h p st pt,
  host_view v6ok e h p -> hs_text h <> [] ->
  encode (e_enc e) st = Ok (raw_script e) -> encode (e_enc e) pt = Ok (e_path e) ->
  forall to_app : bool,
  (if to_app then a <- application_url e ;; Ok (if ends_with_slash a then a else a ++ [47]) else path_url e)
  = Ok (host_url e ++ rel_base_path e to_app).
Proof. exact ru_base. Qed.
Print Assumptions C13_relative_url_base.

Theorem C13_relative_url_rfc3986 : forall v6ok e h p st pt,
  host_view v6ok e h p -> e_scheme e = s_http \/ e_scheme e = s_https -> hs_text h <> [] ->
  encode (e_enc e) st = Ok (raw_script e) -> encode (e_enc e) pt = Ok (e_path e) -> rooted (st ++ pt) ->
  forall (other : str) (to_app : bool),
  path_shape_ok (rel_base_path e to_app) = true -> ref_ok other = true ->
  relative_url v6ok e other to_app = ROk (rfc3986_resolve (host_url e ++ rel_base_path e to_app) other).
Proof. exact relative_url_rfc. Qed.
Print Assumptions C13_relative_url_rfc3986.

(* the domain contains "", "../", "./", "?q", "#f", "/abs", "g;x=1/../y", "../../g?y=/../z#s/../t", ".", "..",
   "g/", "/", "/../a./.b" *)
Example C13_ref_ok_inhabited :
  forallb ref_ok
    [ []; H "2e2e2f"%string; H "2e2f"%string; H "3f71"%string; H "2366"%string; H "2f616273"%string;
      H "673b783d312f2e2e2f79"%string; H "2e2e2f2e2e2f673f793d2f2e2e2f7a23732f2e2e2f74"%string;
      H "2e"%string; H "2e2e"%string; H "672f"%string; H "2f"%string; H "2f2e2e2f612e2f2e62"%string ] = true.
Proof. exact ref_ok_examples. Qed.

Example C13_relative_url_example :
  relative_url (fun _ => true) req_a (H "673b783d312f2e2e2f79"%string) false = ROk (H "687474703a2f2f682f79"%string) /\
  rfc3986_resolve base_a (H "673b783d312f2e2e2f79"%string) = H "687474703a2f2f682f79"%string.
Proof. exact relurl_example. Qed.

(* outside [ref_ok] the equality fails, on the model exactly as on the implementation: one witness per class of
   deviation of the stdlib (request http://h/a; the relative_url findings); the references are, in this order,
   ? , g//h , //g/a/../b , // , .;x *)
Theorem C13_relative_url_empty_component_refuted : deviates (H "3f"%string).
Proof. exact dev_empty_component. Qed.
Print Assumptions C13_relative_url_empty_component_refuted.
Theorem C13_relative_url_empty_segments_refuted : deviates (H "672f2f68"%string).
Proof. exact dev_empty_segments. Qed.
Print Assumptions C13_relative_url_empty_segments_refuted.
Theorem C13_relative_url_absolute_reference_refuted : deviates (H "2f2f672f612f2e2e2f62"%string).
Proof. exact dev_absolute_reference. Qed.
Print Assumptions C13_relative_url_absolute_reference_refuted.
Theorem C13_relative_url_empty_authority_refuted : deviates (H "2f2f"%string).
Proof. exact dev_empty_authority. Qed.
Print Assumptions C13_relative_url_empty_authority_refuted.
Theorem C13_relative_url_dot_with_params_refuted : deviates (H "2e3b78"%string).
Proof. exact dev_dot_with_params. Qed.
Print Assumptions C13_relative_url_dot_with_params_refuted.

(* ---- "Host: name:" (empty port, legal in RFC 3986 3.2.3): observationally the request with "Host: name"
        (host_port as repaired by fixes/C13-2-host-port-empty-port.patch), so every theorem above transfers *)
Theorem C13_empty_port : forall v6ok e h, hs_ok v6ok h ->
  let e1 := with_host e (hs_text h ++ [58]) in
  let e0 := with_host e (hs_text h) in
  host_port e1 = host_port e0 /\ domain e1 = domain e0 /\ host_url e1 = host_url e0 /\
  application_url e1 = application_url e0 /\ path_url e1 = path_url e0 /\ url e1 = url e0 /\
  path e1 = path e0 /\ path_qs e1 = path_qs e0.
Proof. exact empty_port_equiv. Qed.
Print Assumptions C13_empty_port.

(* ---- facets of "every query string" / "default port elided" that the code does not keep (findings):
        [query_ok] in C13_blank_roundtrip is needed *)
Theorem C13_blank_query_tab_refuted :
  exists u e', url (req_q [97; 9; 98]) = Ok u /\ environ_from_url (fun _ => true) u = Ok e' /\
    e_query e' = Some [97; 98] /\ e_query e' <> e_query (req_q [97; 9; 98]).
Proof. exact blank_query_tab_witness. Qed.
Print Assumptions C13_blank_query_tab_refuted.

Theorem C13_blank_query_hash_refuted :
  exists u, url (req_q [97; 35; 98]) = Ok u /\ environ_from_url (fun _ => true) u = Raise ETypeError.
Proof. exact blank_query_hash_witness. Qed.
Print Assumptions C13_blank_query_hash_refuted.

Theorem C13_url_query_verbatim_refuted :
  exists u1 u2, url (req_q [97; 32; 98]) = Ok u1 /\ forallb rfc_query_char (skipn 11 u1) = false /\
                url (req_q [233]) = Ok u2 /\ forallb is_ascii u2 = false.
Proof. exact url_query_verbatim_witness. Qed.
Print Assumptions C13_url_query_verbatim_refuted.

Theorem C13_default_port_leading_zero_refuted :
  let e := mkEnv s_http (Some (H "683a303830"%string)) (H "73"%string) s_80 (Some []) (H "2f61"%string) None Utf8 in
  port_value (host_port e) = port_value s_80 /\ host_url e = H "687474703a2f2f683a303830"%string /\
  host_url e <> e_scheme e ++ s_css ++ domain e.
Proof. exact default_port_leading_zero_witness. Qed.
Print Assumptions C13_default_port_leading_zero_refuted.
