(* C02 — Response emits exactly its status, headers and body; Content-Length is truthful.
   Property theorems only: each is closed by [exact] of a lemma proved in Proofs/, followed by
   Print Assumptions.  The model (Model/C02_RespBody.v) is parametric in gzip, zlib inflate, md5+base64
   and urljoin; every theorem holds for ALL instances (the two gzip theorems for all instances that
   satisfy the stated gzip law), all subclass configurations [c], all constructor arguments, all
   operation histories, all byte strings, texts and chunkings. *)
From Coq Require Import String.
From Coq Require Import ZArith NArith List Bool.
Require Import Webob.Lib.Val Webob.Lib.PyStr Webob.Lib.C02_Base Webob.Lib.C02_Utf8 Webob.Gen.C02_status
               Webob.Model.C02_RespBody Webob.Proofs.C02_base Webob.Proofs.C02_resp Webob.Proofs.C02_wire.
Import ListNotations.
Local Open Scope N_scope.

(* ---------------------------------------------------------------- Content-Length is truthful *)
(* [cl_inv r]: every Content-Length header present in r is str(number of bytes r will yield), and a
   response whose body is an unconsumed iterator has none.  It holds after the constructor (when the
   caller's own header list has no Content-Length: [wf_args]) and after EVERY sequence (without a
   hand-written r.content_length = n: [raw_edit], see C02_cl_inv_after_reset for those) of body, text,
   write, app_iter, body_file, encode_content (lazy or eager), decode_content, md5_etag, copy (followed on
   either side), charset, content_type, status, Location mutations and WSGI calls. *)
Theorem C02_cl_inv : forall gz gunzip inflate md5b64 uj c a ops r,
  wf_args a -> mk c a = Ok r -> Forall (fun o => ~ raw_edit o) ops ->
  cl_inv (run_ops gz gunzip inflate md5b64 uj c ops r).
Proof. exact cl_inv_history. Qed.
Print Assumptions C02_cl_inv.

Example C02_wf_args_satisfiable :
  wf_args (mkArgs (Some (BBytes [104; 105])) None (Some [(s2l "X-A", s2l "1")]) None None None ChMarker).
Proof. reflexivity. Qed.

(* each single step preserves it, from ANY state that satisfies it (so also for histories that start
   from a response obtained otherwise) *)
Theorem C02_cl_inv_step : forall gz gunzip inflate md5b64 uj c r o,
  ~ raw_edit o -> cl_inv r -> cl_inv (fst (step gz gunzip inflate md5b64 uj c r o)).
Proof. exact step_inv. Qed.
Print Assumptions C02_cl_inv_step.

(* A Content-Length written by hand ([raw_edit]: r.content_length = n, the constructor's content_length=,
   or one inside the caller's header list) may be wrong -- but the next body mutation that replaces the
   body (body / del body / app_iter / body_file / del app_iter: [resetting]) makes it right again:
   from ANY state r0 whatsoever, list, tuple or iterator body, with any Content-Length headers *)
Theorem C02_cl_inv_after_reset : forall gz gunzip inflate md5b64 uj c r0 o ops,
  resetting o -> Forall (fun o => ~ raw_edit o) ops ->
  cl_inv (run_ops gz gunzip inflate md5b64 uj c ops (fst (step gz gunzip inflate md5b64 uj c r0 o))).
Proof. exact run_inv_after_reset. Qed.
Print Assumptions C02_cl_inv_after_reset.

Example C02_resetting_satisfiable :
  resetting (OSetAppIter (AIter true [[97]; []; [98; 99]])) /\ raw_edit (OSetContentLength (Some 7)) /\
  Forall (fun o => ~ raw_edit o) [OWrite [100]; OEncode true true; OCopy true; OSetContentLength None; OCall false].
Proof. split; [exact I|]. split; [exact I|]. repeat constructor; intros []. Qed.

(* likewise a gzip encode that really encodes, and a text assignment that succeeds *)
Theorem C02_encode_resets : forall gz gunzip inflate l r, not_gzip r ->
  cl_inv (fst (encode_content gz gunzip inflate true l r)).
Proof. exact encode_resets. Qed.
Print Assumptions C02_encode_resets.

Theorem C02_set_text_resets : forall c t r r0, set_text c t r = (r0, None) -> cl_inv r0.
Proof. exact set_text_resets. Qed.
Print Assumptions C02_set_text_resets.

Theorem C02_wire_length_after_reset : forall gz gunzip inflate md5b64 uj c r0 o ops,
  resetting o -> Forall (fun o => ~ raw_edit o) ops ->
  let k := call uj false (run_ops gz gunzip inflate md5b64 uj c ops (fst (step gz gunzip inflate md5b64 uj c r0 o))) in
  forall st hl, In (st, hl) (sr_calls k) ->
    Forall (fun v => v = dec (blen (List.concat (yielded k)))) (clvals hl).
Proof. exact wire_after_reset. Qed.
Print Assumptions C02_wire_length_after_reset.

(* the same statement at the WSGI boundary: after any history, every Content-Length value handed to
   start_response equals the number of bytes the returned iterable yields for a GET *)
Theorem C02_wire_length : forall gz gunzip inflate md5b64 uj c a ops r,
  wf_args a -> mk c a = Ok r -> Forall (fun o => ~ raw_edit o) ops ->
  let k := call uj false (run_ops gz gunzip inflate md5b64 uj c ops r) in
  forall st hl, In (st, hl) (sr_calls k) ->
    Forall (fun v => v = dec (blen (List.concat (yielded k)))) (clvals hl).
Proof. exact wire_history. Qed.
Print Assumptions C02_wire_length.

(* the constructor with a bytes body and a status that has a body: exactly that chunk and exactly one
   Content-Length, its length, even if the caller's header list carried another one *)
Theorem C02_ctor_body : forall c a r b,
  a_app a = None -> a_body a = Some (BBytes b) -> mk c a = Ok r -> code_has_body (r_status r) = true ->
  r_app r = AList [b] /\ clv r = [dec (blen b)].
Proof. exact body_status. Qed.
Print Assumptions C02_ctor_body.

(* ---------------------------------------------------------------- __call__ *)
(* start_response is called exactly once with (status, header list); GET yields the body chunks, HEAD
   yields nothing *)
Theorem C02_call : forall uj head r,
  sr_calls (call uj head r) = [(r_status r, abs_headerlist uj (r_headers r))] /\
  yielded (call uj head r) = if head then [] else chunks (r_app r).
Proof. exact call_spec. Qed.
Print Assumptions C02_call.

Theorem C02_head_same_headers : forall uj r,
  sr_calls (call uj true r) = sr_calls (call uj false r) /\ yielded (call uj true r) = [].
Proof. exact head_same_headers. Qed.
Print Assumptions C02_head_same_headers.

(* the header list passed is the response's own, name by name; a pair differs only if it is a Location
   header, whose value went through _make_location_absolute ... *)
Theorem C02_only_location_rewritten : forall uj h,
  map fst (abs_headerlist uj h) = map fst h /\
  Forall2 (fun kv kv' => kv' = kv \/ (is_key K_LOC kv = true /\ kv' = (fst kv, abs_location uj (snd kv))))
          h (abs_headerlist uj h).
Proof. exact abs_headerlist_shape. Qed.
Print Assumptions C02_only_location_rewritten.

(* ... which leaves a value that has a URI scheme alone *)
Theorem C02_absolute_location_unchanged : forall uj v, has_scheme v = true -> abs_location uj v = v.
Proof. exact abs_location_absolute. Qed.
Print Assumptions C02_absolute_location_unchanged.

(* ---------------------------------------------------------------- read-back *)
(* under the invariant, .body returns exactly the bytes that would be yielded, and reading it changes
   neither them nor the invariant *)
Theorem C02_body_is_what_is_yielded : forall r, cl_inv r ->
  snd (get_body r) = Ok (content r) /\ content (fst (get_body r)) = content r /\ cl_inv (fst (get_body r)).
Proof. exact body_read_is_content. Qed.
Print Assumptions C02_body_is_what_is_yielded.

(* .body reads back what was last assigned, whatever reads, md5_etag, copy (either side), charset,
   content_type, status, Location changes and WSGI calls happened since *)
Theorem C02_readback_body : forall gz gunzip inflate md5b64 uj c b r ops,
  Forall keeps_body ops ->
  snd (get_body (run_ops gz gunzip inflate md5b64 uj c ops (set_body b r))) = Ok b.
Proof. exact readback_set_body. Qed.
Print Assumptions C02_readback_body.

Example C02_keeps_body_satisfiable :
  Forall keeps_body [OGetText; OMd5Etag true; OCopy true; OSetCharset (Some (s2l "latin-1")); OCall true; OCopy false].
Proof. repeat constructor. Qed.

(* write appends: after write(x) on a list-backed response holding b, .body is b ++ x *)
Theorem C02_readback_write : forall gz gunzip inflate md5b64 uj c b x r ops,
  holds b r -> Forall keeps_body ops ->
  snd (write_bytes x r) = Ok (blen x) /\
  snd (get_body (run_ops gz gunzip inflate md5b64 uj c ops (fst (write_bytes x r)))) = Ok (b ++ x).
Proof. exact readback_write. Qed.
Print Assumptions C02_readback_write.

Example C02_holds_satisfiable : forall b r, holds b (set_body b r).
Proof. exact holds_set_body. Qed.

(* app_iter assignment (list or one-shot iterator, any chunking, empty chunks included): .body is the
   concatenation of the chunks *)
Theorem C02_readback_app_iter : forall gz gunzip inflate md5b64 uj c a r ops,
  Forall keeps_body ops ->
  snd (get_body (run_ops gz gunzip inflate md5b64 uj c ops (fst (get_body (set_app_iter a r)))))
  = Ok (List.concat (chunks a)).
Proof. exact readback_app_iter. Qed.
Print Assumptions C02_readback_app_iter.

(* .text reads back the text last assigned, encoded with the Content-Type's charset or else the class's
   default_body_encoding (utf-8, latin-1 and ascii codecs are concrete in the model,
   UTF-8 proved against the strict CPython decoder), whatever operations that keep body and
   Content-Type happened since *)
Theorem C02_readback_text : forall gz gunzip inflate md5b64 uj c t r r0 ops,
  set_text c t r = (r0, None) -> Forall keeps_text ops ->
  snd (get_text c (run_ops gz gunzip inflate md5b64 uj c ops r0)) = Ok t.
Proof. exact readback_text. Qed.
Print Assumptions C02_readback_text.

Example C02_set_text_satisfiable :
  exists r0, set_text (mkCfg None None false (Some (s2l "latin-1"))) [233; 8364] (mkR (s2l "200 OK") [(N_CT, s2l "text/html; charset=UTF-8")] (AList [[]]) false)
             = (r0, None).
Proof. eexists. vm_compute. reflexivity. Qed.

(* a text body given to the CONSTRUCTOR (any content_type / charset= / headerlist / subclass-default
   combination): whenever the created response announces a charset, .text reads the text back, i.e. the
   bytes are the text in the announced charset -- not in whatever the charset= argument said
   (models the code repaired by fixes/C02-1) *)
Theorem C02_ctor_text_readback : forall c a r t,
  a_app a = None -> a_body a = Some (BText t) -> mk c a = Ok r ->
  code_has_body (r_status r) = true -> truthy (charset_of (r_headers r)) = true ->
  get_text c r = (r, Ok t).
Proof. exact ctor_text_readback. Qed.
Print Assumptions C02_ctor_text_readback.

Example C02_ctor_text_satisfiable :
  exists r, mk (mkCfg (Some (s2l "text/html")) (Some (s2l "UTF-8")) false (Some (s2l "UTF-8")))
               (mkArgs (Some (BText [99; 97; 102; 233])) None (Some [(N_CT, s2l "text/plain; charset=latin-1")]) None None None
                       (ChSome (s2l "utf-8"))) = Ok r
            /\ truthy (charset_of (r_headers r)) = true /\ content r = [99; 97; 102; 233].
Proof. eexists. vm_compute. repeat split. Qed.

(* ---------------------------------------------------------------- statuses without a body *)
(* created with a status line that starts with "1" or with 204 / 205 / 304: no header is added (so no
   Content-Type and no Content-Length) and the body is empty, whatever was passed as body, content_type
   or charset and whatever the subclass defaults are *)
Theorem C02_nobody_status : forall c a r,
  a_app a = None -> mk c a = Ok r -> code_has_body (r_status r) = false ->
  r_headers r = match a_headerlist a with None => [] | Some h => h end /\ r_app r = AList [[]].
Proof. exact nobody_status. Qed.
Print Assumptions C02_nobody_status.

(* for integer codes, on the status table regenerated from webob.util of the tree under check *)
Theorem C02_int_status_nobody : forall z,
  ((100 <= z < 200)%Z \/ z = 204%Z \/ z = 205%Z \/ z = 304%Z) ->
  exists st, status_of_code z = Ok st /\ code_has_body st = false.
Proof. exact int_status_nobody. Qed.
Print Assumptions C02_int_status_nobody.

Theorem C02_int_status_body : forall z,
  (200 <= z < 600)%Z -> z <> 204%Z -> z <> 205%Z -> z <> 304%Z ->
  exists st, status_of_code z = Ok st /\ code_has_body st = true.
Proof. exact int_status_body. Qed.
Print Assumptions C02_int_status_body.

(* ---------------------------------------------------------------- gzip *)
(* for every gzip implementation obeying: gunzip (joined output of gzip_app_iter cs) = joined cs *)
Theorem C02_gzip_valid : forall gz gunzip inflate,
  (forall cs, gunzip (List.concat (gz cs)) = Some (List.concat cs)) ->
  forall lazy r, not_gzip r ->
  gunzip (content (fst (encode_content gz gunzip inflate true lazy r))) = Some (content r).
Proof. exact encode_valid. Qed.
Print Assumptions C02_gzip_valid.

Theorem C02_gzip_roundtrip : forall gz gunzip inflate,
  (forall cs, gunzip (List.concat (gz cs)) = Some (List.concat cs)) ->
  forall lazy r, cl_inv r -> not_gzip r ->
  let r1 := fst (encode_content gz gunzip inflate true lazy r) in
  exists r2, decode_content gunzip inflate r1 = (r2, None) /\
             content r2 = content r /\
             clv r2 = [dec (blen (content r))] /\
             content_encoding r2 = None /\
             r_app r2 = AList [content r].
Proof. exact gzip_roundtrip. Qed.
Print Assumptions C02_gzip_roundtrip.

(* the law is satisfiable (by the symbolic gzip the correspondence runs the model with) *)
Example C02_gzip_law_satisfiable : forall cs, fake_gunzip (List.concat (fake_gz cs)) = Some (List.concat cs).
Proof. exact fake_gz_law. Qed.
