(* C08 — property theorems only.  Each is closed by [exact] of a lemma proved in
   Proofs/, followed by Print Assumptions. *)
From Coq Require Import ZArith NArith List Bool.
Require Import Webob.Lib.Val Webob.Lib.PyStr Webob.Model.MultiDict Webob.Spec.ListModel
               Webob.Proofs.C08_multidict.
Import ListNotations.

(* every operation of the code-shaped model (MultiDict: norm = id, rh = false;
   ResponseHeaders: norm = lower, rh = true — in fact any norm) is the list-model operation,
   on the item list and on the returned value / exception *)
Theorem C08_step_refines : forall norm rh l o,
  step_i norm rh md_get_other l o = step_s norm l o.
Proof. exact step_refines. Qed.
Print Assumptions C08_step_refines.

(* ... hence after every history the item list is the list model's *)
Theorem C08_history : forall norm rh ops l,
  fold_left (fun l o => fst (step_i norm rh md_get_other l o)) ops l = run_s norm ops l.
Proof. exact items_after_history. Qed.
Print Assumptions C08_history.

(* d[k] is the last value stored under k; getall is the filtered list *)
Theorem C08_getitem_last : forall norm key l,
  getitem_i norm key l = hd_error (rev (getall_s norm key l)).
Proof. exact observe_getitem_last. Qed.
Print Assumptions C08_getitem_last.

(* case-insensitive set keeps the spelling written and leaves other pairs alone *)
Theorem C08_headers_ci_preserve_spelling : forall norm rh key v l,
  exists kept, setitem_i norm rh key v l = kept ++ [(key, v)] /\ kept = filter (miss norm key) l.
Proof. exact setitem_preserves_spelling. Qed.
Print Assumptions C08_headers_ci_preserve_spelling.

(* Response.headers and Response.headerlist show the same pairs after ANY
   interleaving of writes through the view, direct list mutation, re-assignment
   of either attribute and writes to stale list objects *)
Theorem C08_view_alias : forall ops r, view_inv r ->
  let r' := fold_left (fun r o => fst (rstep r o)) ops r in
  view_items r' = list_items r'.
Proof. exact view_alias. Qed.
Print Assumptions C08_view_alias.

Example C08_view_inv_initial : forall init, view_inv (mkResp [init] 0 None).
Proof. intros init; split; cbn; auto. Qed.

Theorem C08_view_write_lands : forall r o, view_inv r ->
  list_items (fst (rstep r (RVia o))) = fst (step_i lower true md_get_other (list_items r) o).
Proof. exact view_write_lands. Qed.
Print Assumptions C08_view_write_lands.

Theorem C08_direct_append_seen : forall r k v, view_inv r ->
  view_items (fst (rstep r (RAppend k v))) = view_items r ++ [(k, v)].
Proof. exact direct_append_seen. Qed.
Print Assumptions C08_direct_append_seen.

(* NestedMultiDict observes as the concatenation of its parts; d[k]: first part wins *)
Theorem C08_nested_getall : forall ds key,
  nested_getall ds key = getall_s (fun k => k) key (nested_items ds).
Proof. exact nested_getall_concat. Qed.
Print Assumptions C08_nested_getall.

Theorem C08_nested_len : forall ds, nested_len ds = length (nested_items ds).
Proof. exact nested_len_concat. Qed.
Print Assumptions C08_nested_len.

Theorem C08_nested_contains : forall ds key,
  nested_contains ds key = contains_s (fun k => k) key (nested_items ds).
Proof. exact nested_contains_concat. Qed.
Print Assumptions C08_nested_contains.

Theorem C08_nested_getitem_first_part_wins : forall ds key,
  nested_getitem ds key =
  match filter (fun d => contains_s (fun k => k) key d) ds with
  | [] => None
  | d :: _ => getitem_s (fun k => k) key d
  end.
Proof. exact nested_getitem_first. Qed.
Print Assumptions C08_nested_getitem_first_part_wins.

(* dict_of_lists: one entry per distinct (normalised) key in first-occurrence order with all its values;
   mixed: the same dictionary with single values shown bare — for MultiDict and ResponseHeaders *)
Require Import Webob.Proofs.C08_dicts.

Theorem C08_dict_of_lists : forall norm rh l,
  dict_of_lists_i norm rh l = dol_spec norm rh l.
Proof. exact dict_of_lists_spec. Qed.
Print Assumptions C08_dict_of_lists.

Theorem C08_mixed : forall norm rh l,
  mixed_i norm rh l =
  VList (map (fun kv => VList [VStr (fst kv); show_vals (snd kv)]) (dol_spec norm rh l)).
Proof. exact mixed_spec. Qed.
Print Assumptions C08_mixed.

(* ---- GetDict (request.GET): every reachable state keeps QUERY_STRING (as a pair list; its url-encoding is C09's
   subject) and the rollback snapshot equal to the item list; an operation that raises — a MultiDict KeyError /
   IndexError or a write refused because the value cannot be encoded — changes neither the items nor QUERY_STRING;
   a successful mutation is written back at once. *)
Require Import Webob.Model.C08_GetDict Webob.Proofs.C08_getdict.
Theorem C08_getdict_tracked : forall ops g, gd_inv g -> gd_inv (fold_left (fun g o => fst (gstep g o)) ops g).
Proof. exact getdict_tracked. Qed.
Print Assumptions C08_getdict_tracked.

Theorem C08_getdict_refused_write_changes_nothing : forall g o,
  gd_inv g -> is_err (snd (gstep g o)) = true ->
  g_items (fst (gstep g o)) = g_items g /\ g_env (fst (gstep g o)) = g_env g.
Proof. exact getdict_refused_write_changes_nothing. Qed.
Print Assumptions C08_getdict_refused_write_changes_nothing.

Theorem C08_getdict_success_written : forall g o,
  o <> OCopy -> is_err (snd (step_i (fun k => k) false md_get_other (g_items g) o)) = false ->
  g_env (fst (gstep g (GOk o))) = fst (step_i (fun k => k) false md_get_other (g_items g) o).
Proof. exact getdict_success_written. Qed.
Print Assumptions C08_getdict_success_written.

Example C08_getdict_inv_nonvacuous : gd_inv (mkGd [([97], [49])] [([97], [49])] [([97], [49])])%N.
Proof. exact getdict_inv_example. Qed.
