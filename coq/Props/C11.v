(* C11 — property theorems only.  The model (Model/C11_etag.v) is instantiated with the pattern
   parameters REGENERATED from the live webob patterns (Gen/C11_rx.v); Spec/C11_taglist.v says what
   an RFC 7232 entity-tag list is.  Each theorem is closed by [exact] of a lemma of Proofs/C11_etag.v. *)
From Coq Require Import NArith ZArith List Bool String Lia ZifyBool ZifyN.
Require Import Webob.Lib.Val Webob.Lib.Rx Webob.Gen.C11_rx Webob.Model.C11_etag Webob.Spec.C11_taglist
               Webob.Proofs.C11_etag Webob.Lib.PyStr Webob.Model.C11_str Webob.Proofs.C11_str.
Import ListNotations.
Local Open Scope N_scope.

(* the list scanner (the pattern ETagMatcher.parse runs findall with) reads back exactly the tags
   a list was rendered from: every tag text without a DQUOTE (commas, spaces, backslashes, any code
   point), every OWS-comma-OWS separator spelling incl. empty elements, any weak/strong mix, optional
   leading and trailing commas / whitespace *)
Theorem C11_scan_render : forall lead first rest trail,
  wf_list lead first rest trail ->
  findall lst_cfg (render lead first rest trail) = tags_of first rest.
Proof. exact scan_render. Qed.
Print Assumptions C11_scan_render.

(* the hypotheses are satisfiable by the inputs the pinned tree got wrong:
   DQ a backslash DQ , W/ DQ b DQ   (no whitespace after the comma, first tag ends in a backslash) *)
Example C11_wf_example :
  wf_list [] (false, [97; 92]) [([44], (true, [98])); ([32; 44; 9], (false, [44; 32]))] [44].
Proof.
  assert (Hc : ows_comma 44) by (right; right; reflexivity).
  assert (Hs : ows_comma 32) by (left; reflexivity).
  assert (Ht : ows_comma 9) by (right; left; reflexivity).
  unfold wf_list, filler, separator, tag_ok, tags_of. cbn [map snd fst].
  split; [apply Forall_nil |].
  split; [apply Forall_cons; [exact Hc | apply Forall_nil] |].
  split.
  - apply Forall_cons; [| apply Forall_cons; [| apply Forall_nil]]; cbn [fst]; split.
    + apply Forall_cons; [exact Hc | apply Forall_nil].
    + left. reflexivity.
    + repeat (apply Forall_cons; [assumption |]). apply Forall_nil.
    + right. left. reflexivity.
  - repeat (apply Forall_cons; [cbn; intros H; repeat (destruct H as [H | H]; [discriminate |]); exact H |]).
    apply Forall_nil.
Qed.

(* `tag in request.if_none_match` is true exactly for the listed tags, `tag in request.if_match`
   exactly for the listed STRONG tags *)
Theorem C11_membership : forall lead first rest trail p,
  wf_list lead first rest trail ->
  let v := Some (render lead first rest trail) in
  (contains (if_none_match v) (Some p) = true <-> In p (all_tags (tags_of first rest))) /\
  (contains (if_match v) (Some p) = true <-> In p (strong_tags (tags_of first rest))).
Proof. exact membership. Qed.
Print Assumptions C11_membership.

Theorem C11_membership_none : forall lead first rest trail,
  wf_list lead first rest trail ->
  let v := Some (render lead first rest trail) in
  contains (if_none_match v) None = false /\ contains (if_match v) None = false.
Proof. exact membership_none. Qed.
Print Assumptions C11_membership_none.

(* absent (or empty) If-Match matches everything, absent If-None-Match nothing, STAR everything *)
Theorem C11_star_absent : forall p,
  contains (if_match None) p = true /\ contains (if_match (Some [])) p = true /\
  contains (if_none_match None) p = false /\ contains (if_none_match (Some [])) p = false /\
  contains (if_match (Some STAR)) p = true /\ contains (if_none_match (Some STAR)) p = true.
Proof. exact star_absent. Qed.
Print Assumptions C11_star_absent.

(* If-Range carrying a tag: matches exactly the responses whose strong ETag equals it (a weak tag in
   If-Range matches none); for every external date parser pd *)
Theorem C11_if_range_tag : forall (pd : str -> option Z) w t etag_hdr lm_hdr, tag_ok t ->
  exists b, if_range_contains pd (if_range_parse pd (Some (render_tag (w, t)))) etag_hdr lm_hdr = Some b /\
            (b = true <-> w = false /\ get_etag_strong etag_hdr = Some t).
Proof. exact if_range_tag. Qed.
Print Assumptions C11_if_range_tag.

(* If-Range carrying a date (a value ending in SP GMT that parse_date understands): matches iff the
   response has a Last-Modified that is not later *)
Theorem C11_if_range_date : forall (pd : str -> option Z) v d etag_hdr,
  ends_with_s GMT v = true -> pd v = Some d ->
  (forall lm l, lm <> [] -> pd lm = Some l ->
     if_range_contains pd (if_range_parse pd (Some v)) etag_hdr (Some lm) = Some (Z.leb l d)) /\
  if_range_contains pd (if_range_parse pd (Some v)) etag_hdr None = Some false.
Proof. exact if_range_date. Qed.
Print Assumptions C11_if_range_date.

(* the obsolete asctime spelling of HTTP-date (RFC 7231 7.1.1.1: no zone, hence no SP GMT suffix) is a date as
   well -- exactly the asctime-date shape [is_asctime] = full match of the pattern regenerated from webob *)
Theorem C11_if_range_asctime : forall (pd : str -> option Z) v d etag_hdr,
  ends_with_s GMT v = false -> is_asctime v = true -> pd (v ++ GMT) = Some d ->
  (forall lm l, lm <> [] -> pd lm = Some l ->
     if_range_contains pd (if_range_parse pd (Some v)) etag_hdr (Some lm) = Some (Z.leb l d)) /\
  if_range_contains pd (if_range_parse pd (Some v)) etag_hdr None = Some false.
Proof. exact if_range_asctime. Qed.
Print Assumptions C11_if_range_asctime.

(* ... and nothing else without the SP GMT suffix is a date, whatever parse_date would read into it *)
Theorem C11_if_range_not_date : forall (pd : str -> option Z) v,
  ends_with_s GMT v = false -> is_asctime v = false ->
  if_range_parse pd (Some v) = IRTag (match v with [] => MAny | _ => matcher_parse true v end).
Proof. exact if_range_not_date. Qed.
Print Assumptions C11_if_range_not_date.

(* "Sun Nov  6 08:49:37 1994" has the shape; the IMF-fixdate with the zone cut off
   "Sun, 06 Nov 1994 08:49:37", lower-case names and a one-space one-digit day have not *)
Example C11_if_range_asctime_example :
  let a := H "53756e204e6f762020362030383a34393a33372031393934"%string in
  ends_with_s GMT a = false /\ is_asctime a = true /\
  is_asctime (H "53756e2c203036204e6f7620313939342030383a34393a3337"%string) = false /\
  is_asctime (H "73756e206e6f762020362030383a34393a33372031393934"%string) = false /\
  is_asctime (H "53756e204e6f7620362030383a34393a33372031393934"%string) = false.
Proof. vm_compute. repeat split; reflexivity. Qed.

Example C11_if_range_date_example : ends_with_s GMT [49; 32; 71; 77; 84] = true.
Proof. reflexivity. Qed.

Theorem C11_if_range_absent : forall (pd : str -> option Z) etag_hdr lm_hdr,
  if_range_contains pd (if_range_parse pd None) etag_hdr lm_hdr = Some true /\
  if_range_contains pd (if_range_parse pd (Some [])) etag_hdr lm_hdr = Some true.
Proof. exact if_range_absent. Qed.
Print Assumptions C11_if_range_absent.

(* Response.etag = v  /  Response.etag = (v, strong)  for any v without DQUOTE (and without CR/LF,
   which the header setter refuses): the stored header is exactly one quoted entity-tag, W/-prefixed
   iff not strong; .etag reads back v; .etag_strong is v iff strong *)
Theorem C11_etag_response_roundtrip : forall a,
  tag_ok (arg_value a) -> no_crlf (arg_value a) ->
  let h := render_tag (negb (arg_strong a), arg_value a) in
  set_etag a = Some h /\
  get_etag (Some h) = Some (arg_value a) /\
  get_etag_strong (Some h) = (if arg_strong a then Some (arg_value a) else None).
Proof. exact etag_response_roundtrip. Qed.
Print Assumptions C11_etag_response_roundtrip.

(* a value that ends in a backslash satisfies the hypotheses (the response-side pattern has the
   backslash-DQUOTE alternative and must backtrack out of it) *)
Example C11_roundtrip_example : tag_ok [97; 44; 32; 92] /\ no_crlf [97; 44; 32; 92].
Proof. unfold tag_ok, no_crlf. cbn. intuition discriminate. Qed.

Theorem C11_etag_set_refuses_crlf : forall a,
  tag_ok (arg_value a) -> (In 10 (arg_value a) \/ In 13 (arg_value a)) -> set_etag a = None.
Proof. exact etag_set_refuses_crlf. Qed.
Print Assumptions C11_etag_set_refuses_crlf.

(* the emitted header, scanned as a list, is exactly one entity-tag *)
Theorem C11_header_is_one_tag : forall a,
  tag_ok (arg_value a) ->
  findall lst_cfg (render_tag (negb (arg_strong a), arg_value a)) = [(negb (arg_strong a), arg_value a)].
Proof. exact header_is_one_tag. Qed.
Print Assumptions C11_header_is_one_tag.

(* the response's entity-tag echoed by a client anywhere inside a well-formed list: If-None-Match
   matches; If-Match matches when the ETag is strong and does not when it is only listed weak;
   echoed alone as If-Range it matches that response iff strong *)
Theorem C11_echo_matches : forall (pd : str -> option Z) a lead first rest trail lm_hdr,
  tag_ok (arg_value a) -> no_crlf (arg_value a) ->
  wf_list lead first rest trail ->
  let me := (negb (arg_strong a), arg_value a) in
  let h := Some (render_tag me) in
  In me (tags_of first rest) ->
  let v := Some (render lead first rest trail) in
  contains (if_none_match v) (get_etag h) = true /\
  (arg_strong a = true -> contains (if_match v) (get_etag h) = true) /\
  (~ In (false, arg_value a) (tags_of first rest) -> contains (if_match v) (get_etag h) = false) /\
  if_range_contains pd (if_range_parse pd h) h lm_hdr = Some (arg_strong a).
Proof. exact echo_matches. Qed.
Print Assumptions C11_echo_matches.

(* malformed values: the getters always answer with a matcher; when the scanner finds no tag, the
   whole value is the single tag *)
Theorem C11_getter_total : forall value,
  (if_match value = MAny \/ exists l, if_match value = MTags l) /\
  (if_none_match value = MNo \/ if_none_match value = MAny \/ exists l, if_none_match value = MTags l).
Proof. exact getter_total. Qed.
Print Assumptions C11_getter_total.

Theorem C11_getter_malformed : forall v,
  v <> [] -> v <> STAR -> findall lst_cfg v = [] ->
  if_match (Some v) = MTags [v] /\ if_none_match (Some v) = MTags [v].
Proof. exact getter_malformed. Qed.
Print Assumptions C11_getter_malformed.

Example C11_getter_malformed_example :
  [97; 44; 32; 98] <> [] /\ [97; 44; 32; 98] <> STAR /\ findall lst_cfg [97; 44; 32; 98] = [].
Proof. repeat split; try discriminate. Qed.

(* ====================================================================== the WRITTEN form of a matcher
   Model/C11_str.v: str(AnyETag) / str(NoETag) / ETagMatcher.__str__ / etag_property.fset.
   Alphabet: the theorems hold for every tag WITHOUT DQUOTE (tag_ok; commas, spaces, backslashes, W/,
   STAR, the empty tag, obs-text and beyond), which contains the legal RFC 7232 alphabet
   etagc = %x21 / %x23-7E / %x80-FF.  Excluded: DQUOTE only (see C11_matcher_str_dq_refuted). *)

(* ETagMatcher.parse(str(ETagMatcher(l)), strong) = ETagMatcher(l): same tags, same order, both modes *)
Theorem C11_matcher_str_parse : forall strong l,
  Forall tag_ok l -> matcher_parse strong (matcher_str (MTags l)) = MTags l.
Proof. exact matcher_str_parse. Qed.
Print Assumptions C11_matcher_str_parse.

(* t in parse(str(m)) iff t in m *)
Theorem C11_matcher_str_in : forall strong l t,
  Forall tag_ok l ->
  (contains (matcher_parse strong (matcher_str (MTags l))) (Some t) = true <-> In t l).
Proof. exact matcher_str_in. Qed.
Print Assumptions C11_matcher_str_in.

(* for all three kinds of matcher and every probe (incl. None) *)
Theorem C11_matcher_str_contains : forall strong m p,
  matcher_ok m -> contains (matcher_parse strong (matcher_str m)) p = contains m p.
Proof. exact matcher_str_contains. Qed.
Print Assumptions C11_matcher_str_contains.

(* the same two statements on the legal alphabet *)
Theorem C11_matcher_str_parse_etagc : forall strong l,
  Forall etagc_tag l ->
  matcher_parse strong (matcher_str (MTags l)) = MTags l /\
  (forall t, contains (matcher_parse strong (matcher_str (MTags l))) (Some t) = true <-> In t l).
Proof. exact matcher_str_parse_etagc. Qed.
Print Assumptions C11_matcher_str_parse_etagc.

(* hypotheses satisfiable: a comma-free legal list  a\ , W/x , * , (empty) , e-acute ;
   and a tag_ok list with comma + space inside a tag *)
Example C11_matcher_str_example :
  Forall etagc_tag [[97; 92]; [87; 47; 120]; [42]; []; [233]] /\ Forall tag_ok [[97; 44; 32; 98]; []].
Proof.
  split.
  - repeat (apply Forall_cons; [unfold etagc_tag; repeat (apply Forall_cons; [unfold etagc; lia |]); apply Forall_nil |]).
    apply Forall_nil.
  - repeat (apply Forall_cons; [unfold tag_ok; cbn; intuition discriminate |]). apply Forall_nil.
Qed.

(* DQUOTE must be excluded: __str__ does not escape, the scanner ends the tag at it *)
Theorem C11_matcher_str_dq_refuted : exists l t,
  In t l /\ contains (matcher_parse true (matcher_str (MTags l))) (Some t) = false.
Proof. exact matcher_str_dq_refuted. Qed.
Print Assumptions C11_matcher_str_dq_refuted.

(* req.if_none_match = m ; then `p in req.if_none_match` = `p in m`, for every matcher *)
Theorem C11_inm_set_get : forall m p,
  matcher_ok m -> contains (if_none_match (etag_fset (SVMatcher m))) p = contains m p.
Proof. exact inm_set_get. Qed.
Print Assumptions C11_inm_set_get.

(* req.if_match = m ; then `p in req.if_match` = `p in m`, for AnyETag and every NON-EMPTY tag list *)
Theorem C11_im_set_get : forall m p,
  matcher_ok m -> m <> MNo -> m <> MTags [] ->
  contains (if_match (etag_fset (SVMatcher m))) p = contains m p.
Proof. exact im_set_get. Qed.
Print Assumptions C11_im_set_get.

Theorem C11_getter_after_set : forall default strong t l,
  Forall tag_ok (t :: l) ->
  etag_getter default strong (etag_fset (SVMatcher (MTags (t :: l)))) = MTags (t :: l).
Proof. exact getter_after_set. Qed.
Print Assumptions C11_getter_after_set.

Example C11_im_set_get_example :
  matcher_ok (MTags [[97; 44; 32; 92]]) /\ MTags [[97; 44; 32; 92]] <> MNo /\ MTags [[97; 44; 32; 92]] <> MTags [].
Proof.
  split; [| split; discriminate].
  apply Forall_cons; [unfold tag_ok; cbn; intuition discriminate | apply Forall_nil].
Qed.

(* the exclusions are necessary: ETagMatcher([]) and NoETag are written as "" and the If-Match getter
   reads an empty header as absent = AnyETag -- "matches nothing" becomes "matches everything" *)
Theorem C11_im_set_get_empty_refuted : exists m p,
  matcher_ok m /\ contains m p = false /\ contains (if_match (etag_fset (SVMatcher m))) p = true.
Proof. exact im_set_get_empty_refuted. Qed.
Print Assumptions C11_im_set_get_empty_refuted.

Theorem C11_im_set_get_noetag_refuted : exists p,
  contains MNo p = false /\ contains (if_match (etag_fset (SVMatcher MNo))) p = true.
Proof. exact im_set_get_noetag_refuted. Qed.
Print Assumptions C11_im_set_get_noetag_refuted.

(* serialize_etag_response -> parse_etag_response = id (the W/ prefix written iff not strong; the strong
   reader drops a weak tag), for values without DQUOTE / CR / LF, and restated on etagc *)
Theorem C11_ser_parse_id : forall a,
  tag_ok (arg_value a) -> no_crlf (arg_value a) ->
  serialize_etag_response a = render_tag (negb (arg_strong a), arg_value a) /\
  parse_etag_response false (Some (serialize_etag_response a)) = Some (arg_value a) /\
  parse_etag_response true (Some (serialize_etag_response a)) =
    (if arg_strong a then Some (arg_value a) else None).
Proof. exact ser_parse_id. Qed.
Print Assumptions C11_ser_parse_id.

Theorem C11_ser_parse_id_etagc : forall a,
  etagc_tag (arg_value a) ->
  set_etag a = Some (serialize_etag_response a) /\
  parse_etag_response false (Some (serialize_etag_response a)) = Some (arg_value a) /\
  parse_etag_response true (Some (serialize_etag_response a)) =
    (if arg_strong a then Some (arg_value a) else None).
Proof. exact ser_parse_id_etagc. Qed.
Print Assumptions C11_ser_parse_id_etagc.

Example C11_ser_parse_example : etagc_tag (arg_value (EPair [87; 47; 97; 92] false)).
Proof. unfold etagc_tag. cbn [arg_value]. repeat (apply Forall_cons; [unfold etagc; lia |]). apply Forall_nil. Qed.

(* a bare string that already has the entity-tag shape (so contains DQUOTE) is stored as it is and read
   back without its quotes: DQUOTE is excluded for a reason *)
Theorem C11_ser_parse_dq_refuted : exists v,
  parse_etag_response false (Some (serialize_etag_response (EStr v))) <> Some v.
Proof. exact ser_parse_dq_refuted. Qed.
Print Assumptions C11_ser_parse_dq_refuted.
