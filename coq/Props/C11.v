(* C11 — property theorems only.  The model (Model/C11_etag.v) is instantiated with the pattern
   parameters REGENERATED from the live webob patterns (Gen/C11_rx.v); Spec/C11_taglist.v says what
   an RFC 7232 entity-tag list is.  Each theorem is closed by [exact] of a lemma of Proofs/C11_etag.v. *)
From Coq Require Import NArith ZArith List Bool String.
Require Import Webob.Lib.Val Webob.Lib.Rx Webob.Gen.C11_rx Webob.Model.C11_etag Webob.Spec.C11_taglist
               Webob.Proofs.C11_etag.
Import ListNotations.
Local Open Scope N_scope.

(* the list scanner (the pattern ETagMatcher.parse runs findall with) reads back exactly the tags
   a list was rendered from: every tag text without a DQUOTE (commas, spaces, backslashes, any code
   point), every OWS-comma-OWS separator spelling incl. empty elements, any weak/strong mix, optional
   leading and trailing commas / whitespace *)
Theorem C11_scan_render : forall lead first rest trail,
  wf_list lead first rest trail ->
  findall lst_cfg (render lead first rest trail) = tags_of first rest.
Proof. exact scan_render. Qed.
Print Assumptions C11_scan_render.

(* the hypotheses are satisfiable by the inputs the pinned tree got wrong:
   DQ a backslash DQ , W/ DQ b DQ   (no whitespace after the comma, first tag ends in a backslash) *)
Example C11_wf_example :
  wf_list [] (false, [97; 92]) [([44], (true, [98])); ([32; 44; 9], (false, [44; 32]))] [44].
Proof.
  assert (Hc : ows_comma 44) by (right; right; reflexivity).
  assert (Hs : ows_comma 32) by (left; reflexivity).
  assert (Ht : ows_comma 9) by (right; left; reflexivity).
  unfold wf_list, filler, separator, tag_ok, tags_of. cbn [map snd fst].
  split; [apply Forall_nil |].
  split; [apply Forall_cons; [exact Hc | apply Forall_nil] |].
  split.
  - apply Forall_cons; [| apply Forall_cons; [| apply Forall_nil]]; cbn [fst]; split.
    + apply Forall_cons; [exact Hc | apply Forall_nil].
    + left. reflexivity.
    + repeat (apply Forall_cons; [assumption |]). apply Forall_nil.
    + right. left. reflexivity.
  - repeat (apply Forall_cons; [cbn; intros H; repeat (destruct H as [H | H]; [discriminate |]); exact H |]).
    apply Forall_nil.
Qed.

(* `tag in request.if_none_match` is true exactly for the listed tags, `tag in request.if_match`
   exactly for the listed STRONG tags *)
Theorem C11_membership : forall lead first rest trail p,
  wf_list lead first rest trail ->
  let v := Some (render lead first rest trail) in
  (contains (if_none_match v) (Some p) = true <-> In p (all_tags (tags_of first rest))) /\
  (contains (if_match v) (Some p) = true <-> In p (strong_tags (tags_of first rest))).
Proof. exact membership. Qed.
Print Assumptions C11_membership.

Theorem C11_membership_none : forall lead first rest trail,
  wf_list lead first rest trail ->
  let v := Some (render lead first rest trail) in
  contains (if_none_match v) None = false /\ contains (if_match v) None = false.
Proof. exact membership_none. Qed.
Print Assumptions C11_membership_none.

(* absent (or empty) If-Match matches everything, absent If-None-Match nothing, STAR everything *)
Theorem C11_star_absent : forall p,
  contains (if_match None) p = true /\ contains (if_match (Some [])) p = true /\
  contains (if_none_match None) p = false /\ contains (if_none_match (Some [])) p = false /\
  contains (if_match (Some STAR)) p = true /\ contains (if_none_match (Some STAR)) p = true.
Proof. exact star_absent. Qed.
Print Assumptions C11_star_absent.

(* If-Range carrying a tag: matches exactly the responses whose strong ETag equals it (a weak tag in
   If-Range matches none); for every external date parser pd *)
Theorem C11_if_range_tag : forall (pd : str -> option Z) w t etag_hdr lm_hdr, tag_ok t ->
  exists b, if_range_contains pd (if_range_parse pd (Some (render_tag (w, t)))) etag_hdr lm_hdr = Some b /\
            (b = true <-> w = false /\ get_etag_strong etag_hdr = Some t).
Proof. exact if_range_tag. Qed.
Print Assumptions C11_if_range_tag.

(* If-Range carrying a date (a value ending in SP GMT that parse_date understands): matches iff the
   response has a Last-Modified that is not later *)
Theorem C11_if_range_date : forall (pd : str -> option Z) v d etag_hdr,
  ends_with_s GMT v = true -> pd v = Some d ->
  (forall lm l, lm <> [] -> pd lm = Some l ->
     if_range_contains pd (if_range_parse pd (Some v)) etag_hdr (Some lm) = Some (Z.leb l d)) /\
  if_range_contains pd (if_range_parse pd (Some v)) etag_hdr None = Some false.
Proof. exact if_range_date. Qed.
Print Assumptions C11_if_range_date.

(* the obsolete asctime spelling of HTTP-date (RFC 7231 7.1.1.1: no zone, hence no SP GMT suffix) is a date as
   well -- exactly the asctime-date shape [is_asctime] = full match of the pattern regenerated from webob *)
Theorem C11_if_range_asctime : forall (pd : str -> option Z) v d etag_hdr,
  ends_with_s GMT v = false -> is_asctime v = true -> pd (v ++ GMT) = Some d ->
  (forall lm l, lm <> [] -> pd lm = Some l ->
     if_range_contains pd (if_range_parse pd (Some v)) etag_hdr (Some lm) = Some (Z.leb l d)) /\
  if_range_contains pd (if_range_parse pd (Some v)) etag_hdr None = Some false.
Proof. exact if_range_asctime. Qed.
Print Assumptions C11_if_range_asctime.

(* ... and nothing else without the SP GMT suffix is a date, whatever parse_date would read into it *)
Theorem C11_if_range_not_date : forall (pd : str -> option Z) v,
  ends_with_s GMT v = false -> is_asctime v = false ->
  if_range_parse pd (Some v) = IRTag (match v with [] => MAny | _ => matcher_parse true v end).
Proof. exact if_range_not_date. Qed.
Print Assumptions C11_if_range_not_date.

(* "Sun Nov  6 08:49:37 1994" has the shape; the IMF-fixdate with the zone cut off
   "Sun, 06 Nov 1994 08:49:37", lower-case names and a one-space one-digit day have not *)
Example C11_if_range_asctime_example :
  let a := H "53756e204e6f762020362030383a34393a33372031393934"%string in
  ends_with_s GMT a = false /\ is_asctime a = true /\
  is_asctime (H "53756e2c203036204e6f7620313939342030383a34393a3337"%string) = false /\
  is_asctime (H "73756e206e6f762020362030383a34393a33372031393934"%string) = false /\
  is_asctime (H "53756e204e6f7620362030383a34393a33372031393934"%string) = false.
Proof. vm_compute. repeat split; reflexivity. Qed.

Example C11_if_range_date_example : ends_with_s GMT [49; 32; 71; 77; 84] = true.
Proof. reflexivity. Qed.

Theorem C11_if_range_absent : forall (pd : str -> option Z) etag_hdr lm_hdr,
  if_range_contains pd (if_range_parse pd None) etag_hdr lm_hdr = Some true /\
  if_range_contains pd (if_range_parse pd (Some [])) etag_hdr lm_hdr = Some true.
Proof. exact if_range_absent. Qed.
Print Assumptions C11_if_range_absent.

(* Response.etag = v  /  Response.etag = (v, strong)  for any v without DQUOTE (and without CR/LF,
   which the header setter refuses): the stored header is exactly one quoted entity-tag, W/-prefixed
   iff not strong; .etag reads back v; .etag_strong is v iff strong *)
Theorem C11_etag_response_roundtrip : forall a,
  tag_ok (arg_value a) -> no_crlf (arg_value a) ->
  let h := render_tag (negb (arg_strong a), arg_value a) in
  set_etag a = Some h /\
  get_etag (Some h) = Some (arg_value a) /\
  get_etag_strong (Some h) = (if arg_strong a then Some (arg_value a) else None).
Proof. exact etag_response_roundtrip. Qed.
Print Assumptions C11_etag_response_roundtrip.

(* a value that ends in a backslash satisfies the hypotheses (the response-side pattern has the
   backslash-DQUOTE alternative and must backtrack out of it) *)
Example C11_roundtrip_example : tag_ok [97; 44; 32; 92] /\ no_crlf [97; 44; 32; 92].
Proof. unfold tag_ok, no_crlf. cbn. intuition discriminate. Qed.

Theorem C11_etag_set_refuses_crlf : forall a,
  tag_ok (arg_value a) -> (In 10 (arg_value a) \/ In 13 (arg_value a)) -> set_etag a = None.
Proof. exact etag_set_refuses_crlf. Qed.
Print Assumptions C11_etag_set_refuses_crlf.

(* the emitted header, scanned as a list, is exactly one entity-tag *)
Theorem C11_header_is_one_tag : forall a,
  tag_ok (arg_value a) ->
  findall lst_cfg (render_tag (negb (arg_strong a), arg_value a)) = [(negb (arg_strong a), arg_value a)].
Proof. exact header_is_one_tag. Qed.
Print Assumptions C11_header_is_one_tag.

(* the response's entity-tag echoed by a client anywhere inside a well-formed list: If-None-Match
   matches; If-Match matches when the ETag is strong and does not when it is only listed weak;
   echoed alone as If-Range it matches that response iff strong *)
Theorem C11_echo_matches : forall (pd : str -> option Z) a lead first rest trail lm_hdr,
  tag_ok (arg_value a) -> no_crlf (arg_value a) ->
  wf_list lead first rest trail ->
  let me := (negb (arg_strong a), arg_value a) in
  let h := Some (render_tag me) in
  In me (tags_of first rest) ->
  let v := Some (render lead first rest trail) in
  contains (if_none_match v) (get_etag h) = true /\
  (arg_strong a = true -> contains (if_match v) (get_etag h) = true) /\
  (~ In (false, arg_value a) (tags_of first rest) -> contains (if_match v) (get_etag h) = false) /\
  if_range_contains pd (if_range_parse pd h) h lm_hdr = Some (arg_strong a).
Proof. exact echo_matches. Qed.
Print Assumptions C11_echo_matches.

(* malformed values: the getters always answer with a matcher; when the scanner finds no tag, the
   whole value is the single tag *)
Theorem C11_getter_total : forall value,
  (if_match value = MAny \/ exists l, if_match value = MTags l) /\
  (if_none_match value = MNo \/ if_none_match value = MAny \/ exists l, if_none_match value = MTags l).
Proof. exact getter_total. Qed.
Print Assumptions C11_getter_total.

Theorem C11_getter_malformed : forall v,
  v <> [] -> v <> STAR -> findall lst_cfg v = [] ->
  if_match (Some v) = MTags [v] /\ if_none_match (Some v) = MTags [v].
Proof. exact getter_malformed. Qed.
Print Assumptions C11_getter_malformed.

Example C11_getter_malformed_example :
  [97; 44; 32; 98] <> [] /\ [97; 44; 32; 98] <> STAR /\ findall lst_cfg [97; 44; 32; 98] = [].
Proof. repeat split; try discriminate. Qed.
