From Coq Require Import NArith List Bool.
Require Import Webob.Lib.Val Webob.Model.C11_etag.
Theorem C11_placeholder : True. Proof. exact I. Qed.
Print Assumptions C11_placeholder.
