(* C17 — Static serving never leaves its root and serves exact file bytes.
   Property theorems only: each is closed by [exact] of a lemma proved in Proofs/,
   followed by Print Assumptions.  The model is Model/C17_path.v + Model/C17_static.v
   (DirectoryApp with the containment test before the directory branch, i.e. the tree
   with fixes/C17-directoryapp-containment-before-index.patch applied). *)
From Coq Require Import ZArith NArith List Bool.
Require Import Webob.Lib.Val Webob.Lib.PyStr Webob.Model.C17_path Webob.Model.C17_static Webob.Spec.C17_spec
               Webob.Proofs.C17_path Webob.Proofs.C17_dirapp Webob.Proofs.C17_iter Webob.Proofs.C17_live.
Import ListNotations.

(* ---- paths ---- *)

(* os.path.abspath always yields an absolute path whose components are proper names: no "",
   ".", ".." survives, so the string handed to the file system cannot step back up *)
Theorem C17_abspath_normal : forall cwd p, isabs cwd = true -> normal_abs (abspath cwd p).
Proof. exact abspath_normal. Qed.
Print Assumptions C17_abspath_normal.

(* DirectoryApp.__init__: the root is absolute, normal, and ends with the separator *)
Theorem C17_root_wf : forall cwd path, isabs cwd = true ->
  isabs (dirapp_root cwd path) = true /\ ends_with_sep (dirapp_root cwd path) = true /\
  Forall (fun c => proper c = true) (comps (dirapp_root cwd path)).
Proof. exact dirapp_root_wf. Qed.
Print Assumptions C17_root_wf.

(* the string test (path + sep).startswith(root) implies component-wise containment
   (a sibling such as "root2" next to "root" does not pass) *)
Theorem C17_check_inside : forall root p,
  ends_with_sep root = true -> starts_with root (p ++ [SEP]) = true -> inside root p.
Proof. exact check_inside. Qed.
Print Assumptions C17_check_inside.

(* ---- DirectoryApp ---- *)

(* for every PATH_INFO, setting and file system: what is handed to FileApp is a regular file
   whose normalised absolute name lies inside the root *)
Theorem C17_contained : forall root idx hide fs rq p,
  isabs root = true -> ends_with_sep root = true -> idx_ok idx ->
  dirapp_call root idx hide fs rq = DServe p ->
  inside root p /\ normal_abs p /\ isfile fs p = true.
Proof. exact contained. Qed.
Print Assumptions C17_contained.

Example C17_contained_hyps :
  let root := dirapp_root [SEP] [114%N] in
  isabs root = true /\ ends_with_sep root = true /\ idx_ok (Some [105; 46; 104]%N) /\
  dirapp_call root (Some [105; 46; 104]%N) false (fs_of [([SEP; 114]%N, Dir); ([SEP; 114; SEP; 105; 46; 104]%N, File true [1]%N)])
              (mkDreq [SEP; 46; SEP; SEP]%N [] []) = DServe [SEP; 114; SEP; 105; 46; 104]%N.
Proof. vm_compute. auto. Qed.

(* a request that resolves outside the root is refused (403) without consulting the file system *)
Theorem C17_escape_forbidden : forall root idx hide fs rq,
  starts_with root (req_path root rq ++ [SEP]) = false ->
  dirapp_call root idx hide fs rq = D403.
Proof. exact escape_forbidden. Qed.
Print Assumptions C17_escape_forbidden.

(* NON-INTERFERENCE: the whole response (status, Location, lengths, 404 comment, body) is the
   same for any two file systems that agree inside the root — neither the content nor the
   existence of anything outside the root is disclosed *)
Theorem C17_noninterference : forall root idx hide fs fs' dq fq,
  isabs root = true -> ends_with_sep root = true -> idx_ok idx -> agree_inside root fs fs' ->
  serve root idx hide fs dq fq = serve root idx hide fs' dq fq.
Proof. exact serve_noninterference. Qed.
Print Assumptions C17_noninterference.

(* the order of tests of the unrepaired tree (directory/index branch before the containment
   test) does NOT have this property: root "/r/", GET "/../" returns the bytes of "/index",
   a file outside the root, and the answer changes with the world outside the root *)
Theorem C17_noninterference_unrepaired_refuted :
  exists root idx hide fs fs' dq fq,
    isabs root = true /\ ends_with_sep root = true /\ idx_ok idx /\ agree_inside root fs fs' /\
    serve_unrepaired root idx hide fs dq fq <> serve_unrepaired root idx hide fs' dq fq /\
    body (serve_unrepaired root idx hide fs dq fq) = Some w_secret /\
    ~ inside root [SEP; 105; 110; 100; 101; 120]%N.
Proof. exact unrepaired_refuted. Qed.
Print Assumptions C17_noninterference_unrepaired_refuted.

(* a directory inside the root: index page after a redirect adding the trailing slash *)
Theorem C17_index_redirect : forall root idx hide fs rq,
  starts_with root (req_path root rq ++ [SEP]) = true ->
  isdir fs (req_path root rq) = true -> idx_truthy idx = true ->
  dirapp_call root idx hide fs rq =
    let ip := pjoin (req_path root rq) (idx_str idx) in
    if isfile fs ip
    then if ends_with_sep (path_info rq) then DServe ip
         else D301 (with_query (path_url rq ++ [SEP]) (query_string rq))
    else D404 ip.
Proof. exact index_redirect. Qed.
Print Assumptions C17_index_redirect.

(* the positive direction: every regular file inside the root, requested by its plain relative
   path, IS handed to FileApp (unless hidden by the index redirect) *)
Theorem C17_serves_plain_file : forall rootc ns idx hide fs purl qs,
  rootc <> [] -> ns <> [] ->
  Forall (fun c => proper c = true) rootc -> Forall (fun c => proper c = true) ns ->
  (hide = false \/ idx_truthy idx = false) ->
  let root := SEP :: join [SEP] rootc ++ [SEP] in
  let p := root ++ join [SEP] ns in
  isfile fs p = true ->
  dirapp_call root idx hide fs (mkDreq (SEP :: join [SEP] ns) purl qs) = DServe p.
Proof. exact serves_plain_file. Qed.
Print Assumptions C17_serves_plain_file.

Example C17_serves_plain_file_hyps :
  let rootc := [[114]; [115]]%N in let ns := [[97]; [98; 46; 116]]%N in
  rootc <> [] /\ ns <> [] /\ Forall (fun c => proper c = true) rootc /\ Forall (fun c => proper c = true) ns.
Proof. exact serves_plain_file_hyps. Qed.

(* whatever is answered 200/206 is a readable regular file inside the root, answered as FileApp answers it *)
Theorem C17_ok_is_inside_file : forall root idx hide fs dq fq r,
  isabs root = true -> ends_with_sep root = true -> idx_ok idx ->
  serve root idx hide fs dq fq = r -> (status r = 200 \/ status r = 206)%Z ->
  exists p content,
    inside root p /\ normal_abs p /\ fs p = File true content /\
    r = fileapp (File true content) fq.
Proof. exact serve_ok_is_inside_file. Qed.
Print Assumptions C17_ok_is_inside_file.

(* GET 200: exactly that file's bytes, its size as Content-Length *)
Theorem C17_get_exact : forall root idx hide fs dq k r,
  isabs root = true -> ends_with_sep root = true -> idx_ok idx ->
  serve root idx hide fs dq (mkFreq GET None k) = r -> status r = 200%Z ->
  exists p content,
    inside root p /\ normal_abs p /\ fs p = File true content /\
    content_length r = Some (Z.of_nat (length content)) /\
    (kind_ok k content -> body r = Some content).
Proof. exact serve_get_exact. Qed.
Print Assumptions C17_get_exact.

(* ---- FileApp ---- *)
Theorem C17_fileapp_get : forall content k, kind_ok k content ->
  fileapp (File true content) (mkFreq GET None k) =
  mkResp 200 None (Some (Z.of_nat (length content))) None [] (Some content).
Proof. exact fileapp_get. Qed.
Print Assumptions C17_fileapp_get.

Example C17_kind_ok_fileiter : kind_ok (KFileIter 65536 [3; 0; 7]%nat) [1; 2; 3]%N.
Proof. reflexivity. Qed.
Example C17_kind_ok_wrapper : kind_ok (KWrapper [[1]; []; [2; 3]]%N) [1; 2; 3]%N.
Proof. reflexivity. Qed.

Theorem C17_fileapp_head : forall nd r k,
  let g := fileapp nd (mkFreq GET r k) in
  let h := fileapp nd (mkFreq HEAD r k) in
  status h = status g /\ location h = location g /\ content_length h = content_length g /\
  content_range h = content_range g /\ detail h = detail g /\ body h = Some [].
Proof. exact fileapp_head. Qed.
Print Assumptions C17_fileapp_head.

Theorem C17_fileapp_405 : forall nd m r k,
  m <> GET -> m <> HEAD -> fileapp nd (mkFreq m r k) = simple 405.
Proof. exact fileapp_405. Qed.
Print Assumptions C17_fileapp_405.

Theorem C17_fileapp_missing : forall m r k, m = GET \/ m = HEAD ->
  fileapp NoEnt (mkFreq m r k) = simple 404 /\
  fileapp Dir (mkFreq m r k) = simple 403 /\
  forall content, fileapp (File false content) (mkFreq m r k) = simple 403.
Proof. exact fileapp_missing. Qed.
Print Assumptions C17_fileapp_missing.

(* ---- Range ---- *)

(* a satisfiable Range is answered 206 with exactly content[start:stop], for every block size,
   every pattern of short reads, and every chunking by a wsgi.file_wrapper *)
Theorem C17_range_slice : forall content k rs re start stop,
  kind_ok k content ->
  range_for_length rs re (Z.of_nat (length content)) = Some (start, stop) ->
  fileapp (File true content) (mkFreq GET (Some (rs, re)) k) =
  mkResp 206 None (Some (stop - start)%Z) (Some (Some (start, stop), Z.of_nat (length content))) []
         (Some (slice content (Z.to_nat start) (Z.to_nat stop))) /\
  (0 <= start < stop)%Z /\ (stop <= Z.of_nat (length content))%Z.
Proof. exact fileapp_range. Qed.
Print Assumptions C17_range_slice.

Example C17_range_slice_hyps :
  range_for_length 2 (Some 5%Z) (Z.of_nat (length [10; 11; 12; 13]%N)) = Some (2%Z, 4%Z).
Proof. reflexivity. Qed.

Theorem C17_range_416 : forall content k rs re m, m = GET \/ m = HEAD ->
  range_for_length rs re (Z.of_nat (length content)) = None ->
  fileapp (File true content) (mkFreq m (Some (rs, re)) k) =
  mkResp 416 None None (Some (None, Z.of_nat (length content))) [] (Some []).
Proof. exact fileapp_416. Qed.
Print Assumptions C17_range_416.

(* which slice: the three RFC 7233 forms as Range.parse hands them over *)
Theorem C17_range_first_last : forall a b len,
  (0 <= a <= b)%Z -> (a < len)%Z -> range_for_length a (Some (b + 1)%Z) len = Some (a, Z.min (b + 1) len).
Proof. exact range_first_last. Qed.
Print Assumptions C17_range_first_last.

Theorem C17_range_first_open : forall a len,
  (0 <= a < len)%Z -> range_for_length a None len = Some (a, len).
Proof. exact range_first_open. Qed.
Print Assumptions C17_range_first_open.

Theorem C17_range_suffix : forall n len,
  (0 < n <= len)%Z -> range_for_length (- n) None len = Some ((len - n)%Z, len).
Proof. exact range_suffix. Qed.
Print Assumptions C17_range_suffix.

(* KNOWN FINDING range:suffix-longer-than-file-416 — the suffix theorem above stops at n <= len because beyond it the
   code deviates from "the requested slice": a suffix longer than the file finds nothing satisfiable (416) where RFC 7233
   selects the whole file.  Pinned by webob's own tests/test_byterange.py::test_not_satisfiable. *)
Theorem C17_range_suffix_longer_gives_416 : forall n len,
  (0 <= len < n)%Z -> range_for_length (- n) None len = None.
Proof. exact range_suffix_longer. Qed.
Print Assumptions C17_range_suffix_longer_gives_416.

Theorem C17_range_suffix_longer_refuted :
  exists content n k,
    (0 < Z.of_nat (length content) < n)%Z /\ kind_ok k content /\
    fileapp (File true content) (mkFreq GET (Some ((- n)%Z, None)) k) =
      mkResp 416 None None (Some (None, Z.of_nat (length content))) [] (Some []).
Proof. exact range_suffix_longer_refuted. Qed.
Print Assumptions C17_range_suffix_longer_refuted.

Theorem C17_range_unsatisfiable : forall a e len,
  (0 <= len <= a)%Z -> range_for_length a e len = None.
Proof. exact range_unsatisfiable. Qed.
Print Assumptions C17_range_unsatisfiable.

(* ---- the two iterators on their own (public classes) ---- *)
Theorem C17_fileiter_slice : forall seek limit bs content caps,
  (0 < bs)%Z -> (0 <= seek <= limit)%Z ->
  exists chunks, fileiter seek (Some limit) bs content caps = Some chunks /\
                 concat chunks = slice content (Z.to_nat seek) (Z.to_nat limit).
Proof. exact fileiter_slice. Qed.
Print Assumptions C17_fileiter_slice.

Theorem C17_fileiter_full : forall bs content caps,
  (0 < bs)%Z ->
  exists chunks, fileiter 0 None bs content caps = Some chunks /\ concat chunks = content.
Proof. exact fileiter_full. Qed.
Print Assumptions C17_fileiter_full.

Theorem C17_appiterrange_slice : forall chunks start stop,
  (start < stop)%nat -> concat (air chunks start stop) = slice (concat chunks) start stop.
Proof. exact air_slice_exact. Qed.
Print Assumptions C17_appiterrange_slice.

(* ---- the Range header TEXT layer (Model/C17_rangetext.v over C06's Model/C06_ByteRange.v) ---- *)
Require Webob.Model.C17_rangetext Webob.Proofs.C17_rangetext.
Module RT := Webob.Model.C17_rangetext.
Module RTP := Webob.Proofs.C17_rangetext.

(* a header text that parses to a satisfiable single range: 206, body exactly content[start:stop],
   Content-Range text "bytes start-(stop-1)/len" as ContentRange.__str__ renders it, Content-Length stop-start *)
Theorem C17_text_range_206 : forall content k h s e start stop,
  kind_ok k content ->
  RT.req_range h = Some (RT.B.Range s e) ->
  range_for_length s e (Z.of_nat (length content)) = Some (start, stop) ->
  RT.serve_range_text k content h =
    Some (RT.mkT 206 (Some (RTP.cr_text_206 start stop (Z.of_nat (length content))))
              (RT.B.int_str (stop - start))
              (Some (slice content (Z.to_nat start) (Z.to_nat stop)))) /\
  (0 <= start < stop)%Z /\ (stop <= Z.of_nat (length content))%Z.
Proof. exact RTP.text_range_206. Qed.
Print Assumptions C17_text_range_206.

Example C17_text_range_206_hyps :
  RT.req_range (Some [98; 121; 116; 101; 115; 61; 49; 45; 50]%N) = Some (RT.B.Range 1 (Some 3%Z)) /\
  range_for_length 1 (Some 3%Z) (Z.of_nat (length [10; 11; 12; 13]%N)) = Some (1%Z, 3%Z).
Proof. split; reflexivity. Qed.

(* EVERY header text on EVERY file: the full file with 200 (text is not a valid single range), a 416 whose
   body is a text that does not depend on the file's bytes, or a 206 with a slice inside the file *)
Theorem C17_text_range_total_partial : forall content k h, kind_ok k content ->
  let len := Z.of_nat (length content) in
  (RT.req_range h = None /\
   RT.serve_range_text k content h = Some (RT.mkT 200 None (RT.B.int_str len) (Some content)))
  \/ (exists s e, RT.req_range h = Some (RT.B.Range s e) /\ range_for_length s e len = None /\
        RT.serve_range_text k content h =
          Some (RT.mkT 416 (Some (RTP.cr_text_416 len)) (RT.B.int_str (Z.of_nat (length (RT.body_416 (RT.B.Range s e)))))
                    (Some (RT.body_416 (RT.B.Range s e)))))
  \/ (exists s e start stop, RT.req_range h = Some (RT.B.Range s e) /\
        range_for_length s e len = Some (start, stop) /\ (0 <= start < stop)%Z /\ (stop <= len)%Z /\
        RT.serve_range_text k content h =
          Some (RT.mkT 206 (Some (RTP.cr_text_206 start stop len)) (RT.B.int_str (stop - start))
                    (Some (slice content (Z.to_nat start) (Z.to_nat stop))))).
Proof. exact RTP.text_range_total. Qed.
Print Assumptions C17_text_range_total_partial.

(* no header text makes the application raise *)
Theorem C17_text_range_never_raises : forall content k h, RT.serve_range_text k content h <> None.
Proof. exact RTP.text_range_never_raises. Qed.
Print Assumptions C17_text_range_never_raises.
