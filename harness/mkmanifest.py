"""Writes /verif/MANIFEST.json from the table below (run after adding a property)."""
import json
import os

ROOT = os.path.dirname(os.path.dirname(os.path.abspath(__file__)))

COMMON_NOTE = ("Trusted: Coq 8.16.1 kernel incl. vm_compute (no native_compute); no axioms declared (Print Assumptions output "
               "is recorded in the evidence); the hand-written Gallina model is tied to /repo by the correspondence check "
               "(implementation outputs compared inside Coq with the model's outputs on generated inputs) and the property "
               "oracle is run on the real implementation; CPython str/int/re semantics are modelled, not verified. ")

CHECKS = {
    "C08": dict(
        text="Proof: the code-shaped Gallina model of MultiDict/ResponseHeaders (reverse-index delete loop, first-match pop, "
             "Mapping-protocol update, ...) is proved equal, operation by operation and hence for every history, to the "
             "list-of-pairs reference model, for any key normalisation; Response.headers/headerlist aliasing is proved as an "
             "invariant of a heap model over all interleavings; NestedMultiDict = concatenation. The model is tied to the "
             "source by step-by-step correspondence on random histories and the list model is also run directly against the "
             "real classes (exhaustive small depth + random).",
        ref="6/C08", technique="Coq refinement proof (impl-shaped model = list model, induction over histories) + "
                               "vm_compute correspondence with the Python classes + list-model oracle",
        note="keys/values are str; str.lower modelled for code points < 256; NoVars and GetDict covered by the oracle only."),
}

# properties built by per-property modules: claimed when listed here and design_notes/Cxx.json exists
ENABLED = ["C%02d" % i for i in range(1, 21) if i != 8]
for pid in ENABLED:
    f = os.path.join(ROOT, "design_notes", pid + ".json")
    if os.path.exists(f) and os.path.exists(os.path.join(ROOT, "harness", "props", pid.lower() + ".py")):
        CHECKS[pid] = json.load(open(f))

NOT_YET = {}
for i in range(1, 21):
    pid = "C%02d" % i
    if pid not in CHECKS:
        NOT_YET[pid] = "not claimed yet: model and proofs for this property are still being built (see DESIGN.md section 6)"


def main():
    m = {
        "version": 1,
        "setup_cmd": "./check --setup",
        "hooks": {"guard": "WEBOB_VERIF", "enable": "no source hooks are used: all observation is done by wrapping objects "
                  "from the harness (PYTHONPATH=/repo/src)", "baseline_off_cmd":
                  "cd /repo && /venv/bin/python -m pytest -ra -q -p no:cacheprovider --timeout=900 "
                  "--continue-on-collection-errors", "source_commits": [], "add_only": True},
        "engines": [{"name": "coq-proof+correspondence", "path": "check", "serves_properties": sorted(CHECKS),
                     "kind_free_text": "Coq 8.16 theorems over Gallina models; models tied to /repo by in-Coq evaluation "
                                       "(vm_compute) against recorded implementation outputs; property oracles on the real code"}],
        "checks": [],
        "not_applicable": [{"property_id": k, "reason": v} for k, v in sorted(NOT_YET.items())],
        "notes": "See DESIGN.md. KNOWN_FINDINGS.txt lists genuine deviations recorded rather than repaired.",
    }
    for pid in sorted(CHECKS):
        c = CHECKS[pid]
        m["checks"].append({
            "property_id": pid,
            "quick_cmd": "./check %s --tier quick" % pid,
            "thorough_cmd": "./check %s --tier thorough" % pid,
            "evidence_file": "/verif/evidence/%s.json" % pid,
            "replay_cmd_template": "./check %s --replay {path}" % pid,
            "engine": "coq-proof+correspondence",
            "level_claimed": {"category": "proof", "text": c["text"], "design_ref": c["ref"]},
            "level_note": COMMON_NOTE + c["note"],
            "technique": c["technique"],
        })
    with open(os.path.join(ROOT, "MANIFEST.json"), "w") as f:
        json.dump(m, f, indent=1)


if __name__ == "__main__":
    main()
