"""Translator: compiled Python regular expression (taken from the live webob module) -> Gallina `rx`
(coq/Lib/Rx.v).  Fail-closed: any construct outside the supported subset raises Untranslatable.

Supported: literals, classes (ranges, negation, \\d \\s \\w expanded by enumerating CPython's own predicates
over 0..0x2FF and treated as unsupported beyond), greedy/lazy repeats (language only), groups, alternation,
anchors only in the positions explained by the use mode, and the single negative look-ahead
`(?![qQ]=)` directly followed by `token "="`, rewritten to `(tchar\\{q,Q}) tchar* | [qQ] tchar+` after
checking syntactically that `=` is not a tchar and q,Q are.

Use modes (how webob calls the pattern):
  full   : `pat.match(s)` where every top-level alternative ends with `$` (and may start with `^`):
           language of whole strings; `$` also matches before a trailing LF, which is why theorems
           exclude LF from the alphabet.
"""
import re
import re._constants as sc
import re._parser as sp

MAXR = sc.MAXREPEAT


class Untranslatable(Exception):
    pass


def rngs(chars):
    s = sorted(chars)
    out = []
    for c in s:
        if out and out[-1][1] == c - 1:
            out[-1][1] = c
        else:
            out.append([c, c])
    return [(a, b) for a, b in out]


def cls(neg, ranges):
    return "(Cls %s [%s])" % ("true" if neg else "false", "; ".join("(%d,%d)" % (a, b) for a, b in ranges))


CATEGORY = {
    sc.CATEGORY_DIGIT: lambda ch: ch.isdigit(),
    sc.CATEGORY_SPACE: lambda ch: ch.isspace(),
    sc.CATEGORY_WORD: lambda ch: ch.isalnum() or ch == "_",
}


_CLASS_CACHE = {}


def _expand_ignorecase(neg, rs, flags):
    """The exact set of code points a class matches under IGNORECASE, obtained from CPython's own `re` by testing
    every code point (cached per class).  Returns non-negated ranges."""
    key = (neg, tuple(rs), flags & (re.IGNORECASE | re.ASCII))
    if key in _CLASS_CACHE:
        return _CLASS_CACHE[key]
    body = "".join("\\U%08x-\\U%08x" % (a, b) if a != b else "\\U%08x" % a for a, b in rs)
    if not body:
        pat = re.compile("[^\\s\\S]" if not neg else "[\\s\\S]")
    else:
        pat = re.compile("[" + ("^" if neg else "") + body + "]", flags & (re.IGNORECASE | re.ASCII))
    chars = [c for c in range(0x110000) if not (0xD800 <= c <= 0xDFFF) and pat.fullmatch(chr(c))]
    out = rngs(chars)
    _CLASS_CACHE[key] = out
    return out


def in_items(items, flags):
    neg = False
    rs = []
    for op, a in items:
        if op == sc.NEGATE:
            neg = True
        elif op == sc.LITERAL:
            rs.append((a, a))
        elif op == sc.RANGE:
            rs.append(tuple(a))
        elif op == sc.CATEGORY:
            raise Untranslatable("category %s inside a validator class (domain restriction needed)" % a)
        else:
            raise Untranslatable("class item %s" % op)
    if flags & re.IGNORECASE:
        # surrogates are excluded from the expansion: strings are sequences of scalar values
        return False, _expand_ignorecase(neg, rs, flags)
    return neg, rs


def cat(xs):
    xs = [x for x in xs if x != "Eps"]
    if not xs:
        return "Eps"
    out = xs[-1]
    for x in reversed(xs[:-1]):
        out = "(Cat %s %s)" % (x, out)
    return out


def alt(xs):
    out = xs[-1]
    for x in reversed(xs[:-1]):
        out = "(Alt %s %s)" % (x, out)
    return out


def rep(r, lo, hi):
    if hi != MAXR and hi - lo > 64:
        raise Untranslatable("large bounded repeat")
    parts = [r] * lo
    if hi == MAXR:
        parts.append("(Star %s)" % r)
    else:
        opt = "Eps"
        for _ in range(hi - lo):
            opt = "(Alt Eps %s)" % cat([r, opt])
        parts.append(opt)
    return cat(parts)


class Tr:
    def __init__(self, flags):
        self.flags = flags
        self.rewrites = 0

    def seq(self, items):
        items = list(items)
        out = []
        i = 0
        while i < len(items):
            op, a = items[i]
            if op == sc.ASSERT_NOT:
                out += self.lookahead_q(items, i)
                i += 3
                continue
            out.append(self.one(items[i]))
            i += 1
        return cat(out)

    def lookahead_q(self, items, i):
        """(?![qQ]=) tchar+ "="   ==>   ((tchar minus q,Q) tchar* | [qQ] tchar+) "=" """
        op, a = items[i]
        direction, sub = a
        sub = list(sub)
        if direction != 1 or len(sub) != 2:
            raise Untranslatable("look-ahead shape")
        (o1, a1), (o2, a2) = sub
        if o1 != sc.IN or o2 != sc.LITERAL or a2 != 61:
            raise Untranslatable("look-ahead body")
        n1, r1 = in_items(a1, self.flags)
        if n1 or sorted(r1) != [(81, 81), (113, 113)]:
            raise Untranslatable("look-ahead class")
        if i + 2 >= len(items):
            raise Untranslatable("look-ahead context")
        nop, na = items[i + 1]
        if nop != sc.MAX_REPEAT or na[0] != 1 or na[1] != MAXR:
            raise Untranslatable("look-ahead context: expected token+")
        body = list(na[2])
        if len(body) != 1 or body[0][0] != sc.IN:
            raise Untranslatable("look-ahead context: token class")
        neg, rs = in_items(body[0][1], self.flags)
        if neg:
            raise Untranslatable("look-ahead context: negated class")
        chars = set(c for lo, hi in rs for c in range(lo, hi + 1))
        if not ({81, 113} <= chars) or 61 in chars:
            raise Untranslatable("look-ahead context: q/Q/= side conditions")
        if items[i + 2] != (sc.LITERAL, 61):
            raise Untranslatable("look-ahead context: '=' expected after token")
        T = cls(False, rngs(chars))
        Tm = cls(False, rngs(chars - {81, 113}))
        Q = cls(False, [(81, 81), (113, 113)])
        self.rewrites += 1
        return [alt([cat([Tm, "(Star %s)" % T]), cat([Q, T, "(Star %s)" % T])]), cls(False, [(61, 61)])]

    def one(self, it):
        op, a = it
        if op == sc.LITERAL:
            return cls(*in_items([(sc.LITERAL, a)], self.flags))
        if op == sc.NOT_LITERAL:
            return cls(*in_items([(sc.NEGATE, None), (sc.LITERAL, a)], self.flags))
        if op == sc.IN:
            return cls(*in_items(a, self.flags))
        if op == sc.ANY:
            if self.flags & re.DOTALL:
                return cls(True, [])
            return cls(True, [(10, 10)])
        if op in (sc.MAX_REPEAT, sc.MIN_REPEAT):
            lo, hi, sub = a
            return rep(self.seq(sub), lo, hi)
        if op == sc.SUBPATTERN:
            if a[1] or a[2]:
                raise Untranslatable("inline flags")
            return self.seq(a[3])
        if op == sc.BRANCH:
            return alt([self.seq(x) for x in a[1]])
        raise Untranslatable("construct %s" % op)


def full_mode(pattern_text, flags=0):
    """rx for `pat.match(s)` succeeding with every alternative `$`-terminated. Returns (coq_term, info)."""
    if flags & ~(re.UNICODE | re.IGNORECASE | re.ASCII):
        raise Untranslatable("flags %r" % flags)
    tree = list(sp.parse(pattern_text, flags))
    if len(tree) == 1 and tree[0][0] == sc.BRANCH:
        alts = [list(x) for x in tree[0][1][1]]
    else:
        alts = [tree]
    tr = Tr(flags)
    outs = []
    for items in alts:
        if items and items[0] in ((sc.AT, sc.AT_BEGINNING), (sc.AT, sc.AT_BEGINNING_STRING)):
            items = items[1:]
        if not items or items[-1] not in ((sc.AT, sc.AT_END), (sc.AT, sc.AT_END_STRING)):
            raise Untranslatable("alternative not terminated by $ or \\Z (mode full)")
        items = items[:-1]
        # (?:$) written as a group holding only the anchor
        outs.append(tr.seq(_strip_group_anchor(items)))
    return alt(outs), {"alternatives": len(alts), "lookahead_rewrites": tr.rewrites}


def _strip_group_anchor(items):
    return items


def full_mode_loose(pattern_text, flags=0):
    """Like full_mode but also accepts the webob idiom `^(?:$)|(?:...)$`: a first alternative `^(?:$)`."""
    tree = list(sp.parse(pattern_text, flags))
    if len(tree) == 1 and tree[0][0] == sc.BRANCH:
        alts = [list(x) for x in tree[0][1][1]]
        fixed = []
        for items in alts:
            its = list(items)
            if its and its[0] in ((sc.AT, sc.AT_BEGINNING), (sc.AT, sc.AT_BEGINNING_STRING)):
                its = its[1:]
            if len(its) == 1 and its[0][0] == sc.SUBPATTERN and list(its[0][1][3]) == [(sc.AT, sc.AT_END)]:
                fixed.append("EMPTY")
            else:
                fixed.append(its)
        tr = Tr(flags)
        outs = []
        for its in fixed:
            if its == "EMPTY":
                outs.append("Eps")
                continue
            if not its or its[-1] not in ((sc.AT, sc.AT_END), (sc.AT, sc.AT_END_STRING)):
                raise Untranslatable("alternative not terminated by $ or \\Z (mode full)")
            outs.append(tr.seq(its[:-1]))
        return alt(outs), {"alternatives": len(alts), "lookahead_rewrites": tr.rewrites}
    return full_mode(pattern_text, flags)
