import argparse
import importlib
import os
import sys
import time
import traceback

sys.path.insert(0, os.path.dirname(os.path.dirname(os.path.abspath(__file__))))
from harness import fw  # noqa


def main():
    ap = argparse.ArgumentParser()
    ap.add_argument("prop", nargs="?")
    ap.add_argument("--tier", default=os.environ.get("VERIF_TIER") or "quick")
    ap.add_argument("--replay")
    ap.add_argument("--setup", action="store_true")
    a = ap.parse_args()
    seed = int(os.environ.get("VERIF_SEED") or 0)
    if a.setup:
        return setup()
    if a.tier not in ("quick", "thorough"):
        a.tier = "quick"
    mod = importlib.import_module("harness.props.%s" % a.prop.lower())
    ctx = fw.Ctx(a.prop, a.tier, seed)
    if a.replay:
        return mod.replay(ctx, a.replay)
    try:
        mod.run(ctx)
    except Exception:
        ctx.broken.append("check machinery raised: " + traceback.format_exc()[-1500:])
    rc = ctx.finish()
    print("%s %s tier=%s seed=%d obligations=%d/%d corr=%s oracle=%s wall=%.1fs" % (
        a.prop, "OK" if rc == 0 else "FAILED", a.tier, seed, ctx.discharged, ctx.obligations,
        {k: (v["cases"], v["disagreements"]) for k, v in ctx.corr_stats.items()},
        {k: (v["cases"], v["failures"]) for k, v in ctx.oracle_stats.items()}, time.time() - ctx.t0))
    return rc


def setup():
    """Offline build of everything: regenerate Gen files, full .vo build of all Props."""
    t0 = time.time()
    pdir = os.path.join(fw.ROOT, "harness", "props")
    for f in sorted(os.listdir(pdir)):
        if f.startswith("c") and f.endswith(".py"):
            try:
                mod = importlib.import_module("harness.props.%s" % f[:-3])
            except Exception:
                traceback.print_exc()
                continue
            if hasattr(mod, "gen"):
                try:
                    mod.gen(fw.Ctx(f[:-3].upper(), "quick", 0))
                except Exception:
                    traceback.print_exc()
    import json
    claimed = {c["property_id"] for c in json.load(open(os.path.join(fw.ROOT, "MANIFEST.json")))["checks"]}
    targets = sorted("Props/%s.vo" % p for p in claimed if os.path.exists(os.path.join(fw.COQ, "Props", p + ".v")))
    with open(os.path.join(fw.BUILD, "coq.lock"), "w") if os.path.isdir(fw.BUILD) or not os.makedirs(fw.BUILD) else None as lk:
        import fcntl
        fcntl.flock(lk, fcntl.LOCK_EX)
        ok, log = fw.coq_make(targets, timeout=3000, tag="all")
    print("setup: built %d property files ok=%s in %.1fs" % (len(targets), ok, time.time() - t0))
    if not ok:
        # a property whose proofs do not build is reported by its own check; setup itself only warms the build
        print(log[-3000:])
    return 0


if __name__ == "__main__":
    sys.exit(main())
