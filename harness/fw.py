"""Shared machinery of the webob verification checks (see DESIGN.md sections 2, 4, 5).

One run of a property check =
  1. regenerate coq/Gen from /repo (property module, optional)
  2. build the .vo closure of Props/Cxx.v with the kernel (full build, under flock + timeout),
     capture Print Assumptions
  3. correspondence: implementation outputs recorded by the harness are compared, inside Coq
     (Eval vm_compute), with the Gallina model's outputs on the same inputs
  4. oracle sweep: the property's executable statement run on the real implementation
  5. decision, VIOLATION / KNOWN-FINDING lines, evidence file
"""
import concurrent.futures as cf
import fcntl
import hashlib
import json
import os
import random
import re
import shutil
import subprocess
import sys
import time

ROOT = os.path.dirname(os.path.dirname(os.path.abspath(__file__)))
COQ = os.path.join(ROOT, "coq")
BUILD = os.path.join(ROOT, "build")
REPO = os.environ.get("WEBOB_REPO", "/repo")
NPROC = min(16, os.cpu_count() or 4)

TRUSTED_BASE_COMMON = [
    "Coq 8.16.1 kernel (coqc); vm_compute used for reflective steps and for evaluating models; native_compute not used",
    "no Axiom/Parameter/Admitted anywhere under coq/ (grepped on every run)",
    "hand-written Gallina model tied to /repo by the correspondence check (harness generators, adaptors, canonicalisers)",
    "CPython 3.12 behaviour of str/bytes/int/re where the model mirrors it (validated by correspondence, not verified)",
]


# ----------------------------------------------------------------------------
# Coq literals
# ----------------------------------------------------------------------------
class Err:
    """Canonical exception value (class name only)."""

    def __init__(self, name):
        self.name = name

    def __eq__(self, o):
        return isinstance(o, Err) and o.name == self.name

    def __hash__(self):
        return hash(("Err", self.name))

    def __repr__(self):
        return "Err(%s)" % self.name


def codepoints(s):
    if isinstance(s, (bytes, bytearray)):
        return list(s)
    return [ord(c) for c in s]


def cstr(s):
    """Coq term of type str (list N) for a Python str/bytes."""
    cps = codepoints(s)
    if not cps:
        return "(@nil N)"
    if all(c < 256 for c in cps):
        return '(H "%s")' % "".join("%02x" % c for c in cps)
    return '(W "%s")' % "".join("%06x" % c for c in cps)


def cval(v):
    """Coq term of type val for a canonical Python observation."""
    if v is None:
        return "VNone"
    if v is True:
        return "(VBool true)"
    if v is False:
        return "(VBool false)"
    if isinstance(v, int):
        return "(VInt (%d)%%Z)" % v
    if isinstance(v, (str, bytes, bytearray)):
        cps = codepoints(v)
        if all(c < 256 for c in cps):
            return '(S_ "%s")' % "".join("%02x" % c for c in cps)
        return "(VStr %s)" % cstr(v)
    if isinstance(v, Err):
        return "(VErr %s)" % cstr(v.name)
    if isinstance(v, (list, tuple)):
        return "(VList [%s])" % "; ".join(cval(x) for x in v)
    raise TypeError("cval: %r" % (v,))


def clist(xs):
    return "[%s]" % "; ".join(xs)


def cpair(a, b):
    return "(%s, %s)" % (a, b)


def copt(x):
    return "None" if x is None else "(Some %s)" % x


def cbool(b):
    return "true" if b else "false"


def cnat(n):
    return "%d%%nat" % n


def cN(n):
    return "%d%%N" % n


def cZ(n):
    return "(%d)%%Z" % n


def catch(f, *a, **k):
    """Run f, mapping an exception to Err(class name)."""
    try:
        return f(*a, **k)
    except Exception as e:  # noqa
        return Err(type(e).__name__)


def jsonable(v):
    if isinstance(v, Err):
        return {"raises": v.name}
    if isinstance(v, (bytes, bytearray)):
        return {"bytes": bytes(v).hex()}
    if isinstance(v, (list, tuple)):
        return [jsonable(x) for x in v]
    if isinstance(v, dict):
        return {str(k): jsonable(x) for k, x in v.items()}
    if isinstance(v, (str, int, float, bool)) or v is None:
        return v
    return repr(v)


# ----------------------------------------------------------------------------
# Known findings
# ----------------------------------------------------------------------------
def load_known():
    """finding: property=Cxx key=<key> text...   /   fixed: property=Cxx <commit> text..."""
    known = {}
    path = os.path.join(ROOT, "KNOWN_FINDINGS.txt")
    if os.path.exists(path):
        for line in open(path):
            line = line.strip()
            m = re.match(r"finding:\s+property=(\S+)\s+key=(\S+)\s+(.*)", line)
            if m:
                known[(m.group(1), m.group(2))] = m.group(3)
    return known


# ----------------------------------------------------------------------------
# The per-run context
# ----------------------------------------------------------------------------
class Ctx:
    def __init__(self, prop, tier, seed):
        self.prop = prop
        self.tier = tier
        self.seed = seed
        self.rng = random.Random(seed * 1000003 + int(hashlib.sha1(prop.encode()).hexdigest()[:6], 16))
        self.t0 = time.time()
        self.known = load_known()
        self.violations = []      # dicts: key, what, replay, found_input
        self.known_hits = {}      # key -> first description
        self.obligations = 0
        self.discharged = 0
        self.theorems = []
        self.assumptions = {}
        self.broken = []          # broken obligations / ties (strings)
        self.corr_stats = {}      # name -> dict
        self.oracle_stats = {}    # name -> dict
        self.samples = []
        self.notes = []
        self.trusted = list(TRUSTED_BASE_COMMON)
        self.assume = []
        self.level = "proof"
        self.checker_cmd = ""
        self.extra = {}

    @property
    def thorough(self):
        return self.tier == "thorough"

    def scale(self, quick, thorough):
        return thorough if self.thorough else quick

    def sub_rng(self, name):
        return random.Random("%d/%s/%s" % (self.seed, self.prop, name))

    # -------------------------------------------------------------- Coq build
    def hygiene(self, targets=None):
        """No axioms, admits or disabled checks in the development the targets depend on (their Require-closure;
        the whole tree when no target is given)."""
        pat = re.compile(r"\b(Admitted|admit|Axiom|Axioms|Parameter|Parameters|Conjecture|Hypothesis|"
                         r"Unset\s+Guard|bypass_check|type-in-type|Admit\s+Obligations)\b")
        bad = []
        if targets:
            files = [os.path.join(COQ, f) for f in coq_closure(targets)]
        else:
            files = [os.path.join(d, f) for d, _, fs in os.walk(COQ) for f in fs if f.endswith(".v")]
        for p in files:
            txt = re.sub(r"\(\*.*?\*\)", "", open(p).read(), flags=re.S)
            insec = 0
            for i, line in enumerate(txt.split("\n"), 1):
                if re.match(r"\s*Section\b", line):
                    insec += 1
                if re.match(r"\s*End\b", line) and insec:
                    insec -= 1
                m = pat.search(line)
                if m:
                    if m.group(1) in ("Hypothesis",) and insec:
                        continue
                    bad.append("%s:%d:%s" % (os.path.relpath(p, COQ), i, m.group(1)))
                if re.match(r"\s*Variables?\b", line) and not insec:
                    bad.append("%s:%d:Variable outside section" % (os.path.relpath(p, COQ), i))
        return bad

    def build(self, targets, timeout=1500):
        """Full .vo build of the closure of `targets` (paths relative to coq/)."""
        bad = self.hygiene(targets)
        if bad:
            self.broken.append("hygiene: " + "; ".join(bad[:5]))
        os.makedirs(BUILD, exist_ok=True)
        with open(os.path.join(BUILD, "coq.lock"), "w") as lk:
            fcntl.flock(lk, fcntl.LOCK_EX)
            ok, log = coq_make(targets, timeout, force=[t for t in targets if t.startswith("Props/")], tag=self.prop)
        self.checker_cmd = ("coq_makefile -f _CoqProject.%s -o Makefile.%s && make -f Makefile.%s %s "
                            "(coqc 8.16.1, full .vo build of the Require-closure)" % (self.prop, self.prop, self.prop,
                                                                                     " ".join(targets)))
        for t in targets:
            if not t.startswith("Props/"):
                continue
            src = os.path.join(COQ, t[:-1])
            names = re.findall(r"^\s*(?:Theorem|Lemma|Corollary)\s+(\w+)", open(src).read(), flags=re.M)
            self.theorems += names
            self.obligations += len(names)
            out = _props_output(log, t)
            closed = re.findall(r"^(Closed under the global context|Axioms:)", out or "", flags=re.M)
            if ok and out is not None:
                self.discharged += len(names)
                axioms = sorted(set(re.findall(r"^([\w.]+)\s*:", out.split("Axioms:", 1)[1], flags=re.M))) \
                    if "Axioms:" in out else []
                self.assumptions[t] = {"print_assumptions_outputs": len(closed),
                                       "closed_under_global_context": len([c for c in closed if c.startswith("Closed")]),
                                       "axioms": axioms}
                if axioms:
                    self.trusted.append("axioms reported by Print Assumptions in %s: %s" % (t, ", ".join(axioms)))
            else:
                self.broken.append("build of %s failed: %s" % (t, _first_error(log)))
        self.build_ok = ok
        if ok and self.thorough:
            self.coqchk([t for t in targets if t.startswith("Props/")])
        return ok

    def coqchk(self, targets):
        """Thorough tier: re-check the compiled closure with the independent checker and record its axiom summary."""
        for t in targets:
            mod = "Webob." + t[:-3].replace("/", ".")
            p = subprocess.run(["timeout", "1800", "coqchk", "-o", "-silent", "-Q", ".", "Webob", mod], cwd=COQ,
                               capture_output=True, text=True)
            out = p.stdout + p.stderr
            summary = out[out.find("CONTEXT SUMMARY"):] if "CONTEXT SUMMARY" in out else out[-1500:]
            m = re.search(r"\* Axioms:(.*?)\n\s*\n\* Constants", summary, flags=re.S)
            axioms = (m.group(1).strip() if m else "?")
            self.extra.setdefault("coqchk", {})[t] = {"exit": p.returncode, "axioms": axioms,
                                                      "summary": " ".join(summary.split())[:1200]}
            if p.returncode != 0:
                self.broken.append("coqchk rejected %s: %s" % (t, out[-500:]))
            elif axioms not in ("<none>", "?"):
                self.trusted.append("coqchk -o axioms for %s: %s" % (t, " ".join(axioms.split())))

    # -------------------------------------------------------- correspondence
    def corr(self, name, imports, fn, cases, in_type=None, shard=400, shard_bytes=120000, describe=None):
        """cases: list of (coq_input_literal, expected_python_value, json_case).
        `fn` is a Coq term : input -> val.  Returns indices of disagreeing cases."""
        t0 = time.time()
        self.ensure_built(imports)
        d = os.path.join(BUILD, "cases", self.prop, name)
        shutil.rmtree(d, ignore_errors=True)
        os.makedirs(d)
        files = []
        # shard by size: Coq parses large literals slowly, so keep files small and run them in parallel
        lits = ["  (%s, %s)" % (i, cval(o)) for i, o, _ in cases]
        shards, cur, cur_bytes, start = [], [], 0, 0
        for idx, lit in enumerate(lits):
            if cur and (cur_bytes + len(lit) > shard_bytes or len(cur) >= shard):
                shards.append((start, cur))
                cur, cur_bytes, start = [], 0, idx
            cur.append(lit)
            cur_bytes += len(lit)
        if cur:
            shards.append((start, cur))
        for n_, (si, chunk) in enumerate(shards):
            path = os.path.join(d, "s%05d.v" % n_)
            with open(path, "w") as f:
                f.write("From Coq Require Import ZArith NArith List Bool String.\n")
                f.write("Require Import Webob.Lib.Val.\n")
                for imp in imports:
                    f.write("Require Import %s.\n" % imp)
                f.write("Import ListNotations.\nLocal Open Scope string_scope.\n")
                f.write("Definition f := %s.\n" % fn)
                ty = (" : list (%s * val)" % in_type) if in_type else ""
                f.write("Definition cases%s := [\n" % ty)
                f.write(";\n".join(chunk))
                f.write("\n].\n")
                f.write("Eval vm_compute in (mismatches f cases 0).\n")
            files.append((si, path))
        bad = []
        errors = []

        def run(item):
            si, path = item
            p = subprocess.run(["timeout", "600", "coqc", "-Q", COQ, "Webob", "-w", "-all", path],
                               capture_output=True, text=True, cwd=d)
            return si, p

        with cf.ThreadPoolExecutor(NPROC) as ex:
            for si, p in ex.map(run, files):
                m = re.search(r"=\s*\[(.*?)\]\s*:\s*list nat", p.stdout, flags=re.S)
                if p.returncode != 0 or not m:
                    errors.append("%s shard %d: %s" % (name, si, (p.stderr or p.stdout)[-600:]))
                    continue
                body = m.group(1).strip()
                if body:
                    bad += [si + int(x) for x in re.findall(r"\d+", body)]
        if errors:
            self.broken.append("correspondence %s could not be evaluated: %s" % (name, errors[0]))
        st = self.corr_stats.setdefault(name, {"cases": 0, "distinct": 0, "disagreements": 0, "wall_s": 0.0})
        st["cases"] += len(cases)
        st["distinct"] += len({c[0] for c in cases})
        st["disagreements"] += len(bad)
        st["wall_s"] = round(st["wall_s"] + time.time() - t0, 2)
        if cases and len(self.samples) < 12:
            self.samples.append({"correspondence": name, "case": cases[0][2], "impl_output": jsonable(cases[0][1])})
        return sorted(bad)

    def ensure_built(self, imports):
        """The modules a case file imports must be compiled even when they are not in the closure of Props/Cxx.v
        (e.g. a model file only the correspondence uses): build them (full .vo, under the lock) once per run."""
        done = getattr(self, "_built_imports", set())
        want = []
        for imp in imports:
            if imp.startswith("Webob.") and imp not in done:
                rel = imp[len("Webob."):].replace(".", "/") + ".vo"
                if os.path.exists(os.path.join(COQ, rel[:-1])):
                    want.append(rel)
                done.add(imp)
        self._built_imports = done
        if not want:
            return
        os.makedirs(BUILD, exist_ok=True)
        with open(os.path.join(BUILD, "coq.lock"), "w") as lk:
            fcntl.flock(lk, fcntl.LOCK_EX)
            ok, log = coq_make(want, 1500, tag=self.prop + "_corr")
        if not ok:
            self.broken.append("model files needed by the correspondence do not build: %s" % _first_error(log))

    def model_eval(self, imports, term):
        self.ensure_built(imports)
        """Evaluate a closed Coq term with vm_compute and return the printed text (for replays)."""
        d = os.path.join(BUILD, "cases", self.prop, "_eval")
        os.makedirs(d, exist_ok=True)
        path = os.path.join(d, "e%d.v" % random.randrange(10 ** 9))
        with open(path, "w") as f:
            f.write("From Coq Require Import ZArith NArith List Bool String.\nRequire Import Webob.Lib.Val.\n")
            for imp in imports:
                f.write("Require Import %s.\n" % imp)
            f.write("Import ListNotations.\nLocal Open Scope string_scope.\nEval vm_compute in (%s).\n" % term)
        p = subprocess.run(["timeout", "300", "coqc", "-Q", COQ, "Webob", "-w", "-all", path],
                           capture_output=True, text=True, cwd=d)
        return (p.stdout + p.stderr).strip()

    # ------------------------------------------------------------- reporting
    def oracle_count(self, name, n=1, nontrivial=0):
        st = self.oracle_stats.setdefault(name, {"cases": 0, "nontrivial": 0, "failures": 0})
        st["cases"] += n
        st["nontrivial"] += nontrivial

    def fail(self, key, what, case, found_input=True, source="oracle"):
        """Record a property failure (found_input=True: `case` fails on the implementation)."""
        st = self.oracle_stats.get(source) or self.oracle_stats.setdefault(source, {"cases": 0, "nontrivial": 0, "failures": 0})
        st["failures"] += 1
        if (self.prop, key) in self.known and found_input:
            self.known_hits.setdefault(key, what)
            return
        for v in self.violations:
            if v["key"] == key:
                v["count"] += 1
                return
        self.violations.append({"key": key, "what": what, "case": jsonable(case), "found_input": found_input,
                                "source": source, "count": 1})

    def note(self, s):
        self.notes.append(s)

    def modelled(self, specs):
        """Record which parts of the implementation the Gallina model mirrors: `specs` are "module:qualname" strings
        (functions, methods, classes, module-level names).  For each, the evidence gets file, line range and a hash of
        the current source text, so a reader can see exactly what is modelled (rather than verified) and whether the
        text changed since the reference run.  Informational only: the correspondence is the judge of fidelity."""
        import importlib
        import inspect
        out = []
        for spec in specs:
            mod, _, qual = spec.partition(":")
            rec = {"object": spec}
            try:
                obj = importlib.import_module(mod)
                for part in [x for x in qual.split(".") if x]:
                    obj = getattr(obj, part)
                if isinstance(obj, property):
                    obj = obj.fget
                obj = inspect.unwrap(obj) if callable(obj) else obj
                try:
                    src, start = inspect.getsourcelines(obj)
                    rec.update({"file": os.path.relpath(inspect.getsourcefile(obj), REPO), "lines": [start, start + len(src) - 1],
                                "sha1": hashlib.sha1("".join(src).encode()).hexdigest()[:12]})
                except (TypeError, OSError):
                    rec.update({"value_sha1": hashlib.sha1(repr(obj).encode()).hexdigest()[:12]})
            except Exception as e:  # noqa
                rec["error"] = "%s: %s" % (type(e).__name__, e)
                self.broken.append("modelled object %s no longer exists (%s)" % (spec, type(e).__name__))
            out.append(rec)
        self.extra.setdefault("modelled_source", []).extend(out)

    def finish(self):
        os.makedirs(os.path.join(ROOT, "replays"), exist_ok=True)
        rc = 0
        # broken obligations / ties with no failing input found by the searches
        if self.broken and not any(v["found_input"] for v in self.violations):
            self.violations.append({"key": "broken-obligation", "what": "; ".join(self.broken)[:2000],
                                    "case": {"broken": self.broken}, "found_input": False,
                                    "source": "build", "count": 1})
        for key, what in sorted(self.known_hits.items()):
            print("KNOWN-FINDING: property=%s %s [%s]" % (self.prop, self.known[(self.prop, key)], key))
        for v in self.violations:
            h = hashlib.sha1((v["key"] + json.dumps(v["case"], sort_keys=True, default=str)).encode()).hexdigest()[:10]
            path = os.path.join(ROOT, "replays", "%s-%s.json" % (self.prop, h))
            with open(path, "w") as f:
                json.dump({"property": self.prop, "key": v["key"], "what": v["what"], "case": v["case"],
                           "source": v["source"], "found_failing_input": v["found_input"],
                           "broken": self.broken, "seed": self.seed, "tier": self.tier}, f, indent=1, default=str)
            tail = "" if v["found_input"] else " no-failing-input-found"
            print("VIOLATION property=%s replay=%s%s" % (self.prop, path, tail))
            print("  (%s x%d) %s" % (v["key"], v["count"], v["what"][:600]))
            rc = 1
        self.write_evidence(rc)
        return rc

    def write_evidence(self, rc):
        evals = sum(s["cases"] for s in self.corr_stats.values()) + sum(s["cases"] for s in self.oracle_stats.values())
        distinct = sum(s["distinct"] for s in self.corr_stats.values()) + \
            sum(s["nontrivial"] for s in self.oracle_stats.values())
        cov = {
            "obligations": self.obligations,
            "discharged": self.discharged if not self.broken else min(self.discharged, max(0, self.obligations - 1)),
            "checker_cmd": self.checker_cmd or "none",
            "trusted_base": self.trusted,
            "theorems": self.theorems,
            "print_assumptions": self.assumptions,
            "evaluations": evals,
            "distinct_nontrivial": distinct,
            "rule": self.extra.get("rule", "correspondence: distinct generated inputs (by Coq literal); oracle: cases counted "
                                           "non-trivial by the property module's own rule (see oracle stats)"),
            "samples": self.samples[:12] or ["(none)"],
            "correspondence": self.corr_stats,
            "oracle": self.oracle_stats,
            "traces_validated_against_impl": sum(s["cases"] for s in self.corr_stats.values()),
            "disagreements_checked": sum(s["disagreements"] for s in self.corr_stats.values()),
            "broken_obligations": self.broken,
            "known_findings_hit": sorted(self.known_hits),
            "notes": self.notes,
        }
        cov.update({k: v for k, v in self.extra.items() if k != "rule"})
        if cov["discharged"] < 1 or cov["obligations"] < 1:
            # nothing was discharged on this run: do not present proof-level keys (schema: discharged >= 1)
            cov["obligations_attempted"] = cov.pop("obligations")
            cov["obligations_discharged"] = cov.pop("discharged")
            cov["evaluations"] = max(1, cov["evaluations"])
            cov["distinct_nontrivial"] = max(2, cov["distinct_nontrivial"])
        ev = {
            "property_id": self.prop, "tier": self.tier, "seed": self.seed, "level": self.level,
            "coverage": cov, "assumptions": self.assume, "wall_s": round(time.time() - self.t0, 2),
            "violations": len(self.violations),
        }
        os.makedirs(os.path.join(ROOT, "evidence"), exist_ok=True)
        path = os.path.join(ROOT, "evidence", "%s.json" % self.prop)
        with open(path, "w") as f:
            json.dump(ev, f, indent=1, default=str)
        validate_evidence(path)


def validate_evidence(path):
    schema = "/root/.vp/EVIDENCE.schema.json"
    if not os.path.exists(schema) or not shutil.which("python3-vt"):
        return
    p = subprocess.run(["python3-vt", "-c",
                        "import json,sys,jsonschema; jsonschema.validate(json.load(open(sys.argv[1])), json.load(open(sys.argv[2])))",
                        path, schema], capture_output=True, text=True, env={"PATH": os.environ.get("PATH", "")})
    if p.returncode != 0:
        print("evidence file does not validate: " + p.stderr[-500:], file=sys.stderr)


# ----------------------------------------------------------------------------
# coq_makefile driver
# ----------------------------------------------------------------------------
def coq_closure(targets):
    """Source files (relative to coq/) in the Require-closure of the given .vo targets.  Only files of that
    closure enter the generated project, so one property's build never depends on another property's files."""
    todo = [t[:-1] if t.endswith(".vo") else t for t in targets]
    seen = []
    while todo:
        f = todo.pop()
        if f in seen or not os.path.exists(os.path.join(COQ, f)):
            continue
        seen.append(f)
        txt = re.sub(r"\(\*.*?\*\)", "", open(os.path.join(COQ, f)).read(), flags=re.S)
        for m in re.finditer(r"\bWebob\.((?:\w+\.)*\w+)", txt):
            cand = m.group(1).replace(".", "/") + ".v"
            if os.path.exists(os.path.join(COQ, cand)):
                todo.append(cand)
    return sorted(seen)


def coq_project(targets, tag):
    vs = coq_closure(targets)
    txt = "-Q . Webob\n-arg -w -arg -all\n" + "\n".join(vs) + "\n"
    p = os.path.join(COQ, "_CoqProject." + tag)
    mk = "Makefile." + tag
    old = open(p).read() if os.path.exists(p) else None
    if old != txt or not os.path.exists(os.path.join(COQ, mk)):
        open(p, "w").write(txt)
        subprocess.run(["coq_makefile", "-f", "_CoqProject." + tag, "-o", mk], cwd=COQ,
                       capture_output=True, text=True, check=True)
    return mk


def coq_make(targets, timeout=1500, force=(), tag=None):
    tag = tag or re.sub(r"\W", "_", "_".join(sorted(os.path.basename(t)[:-3] for t in targets)))[:40]
    mk = coq_project(targets, tag)
    for t in force:
        for ext in ("", "k", "s"):
            try:
                os.remove(os.path.join(COQ, t + ext) if ext == "" else os.path.join(COQ, t[:-2] + "vo" + ext))
            except OSError:
                pass
    cmd = ["timeout", str(timeout), "make", "-f", mk, "-j%d" % NPROC, "-k", "-Otarget"] + list(targets)
    p = subprocess.run(cmd, cwd=COQ, capture_output=True, text=True)
    log = p.stdout + "\n" + p.stderr
    os.makedirs(BUILD, exist_ok=True)
    with open(os.path.join(BUILD, "last_make_%s.log" % tag), "w") as f:
        f.write(log)
    return p.returncode == 0, log


def _props_output(log, target):
    """The coqc output (Print Assumptions) of Props/Cxx.v inside a make log."""
    src = target[:-1]
    m = re.search(r"^COQC %s\s*$" % re.escape(src), log, flags=re.M)
    if not m:
        return None
    rest = log[m.end():]
    n = re.search(r"^(COQC|COQDEP|make)", rest, flags=re.M)
    return rest[:n.start()] if n else rest


def _first_error(log):
    m = re.search(r'(File "[^"]+", line \d+.*?\n(?:.*\n){0,6})', log)
    return (m.group(1) if m else log[-800:]).strip().replace("\n", " | ")[:800]


def write_if_changed(path, txt):
    old = open(path).read() if os.path.exists(path) else None
    if old != txt:
        os.makedirs(os.path.dirname(path), exist_ok=True)
        open(path, "w").write(txt)
        return True
    return False
