"""C17 — static serving (webob.static.DirectoryApp / FileApp / FileIter) never leaves its root and
serves exact file bytes; Range requests get exactly the requested slice.

Tie to the source: correspondence of coq/Model/C17_path.v (posixpath join/normpath/abspath) and
coq/Model/C17_static.v (dirapp_root, dirapp_call, fileapp, serve, fileiter, air, range_for_length)
with CPython's os.path and the real webob classes, on real directory trees built in a temp dir.
Oracle: the property's statement evaluated on the real implementation against an independent
component-walk reference, plus a differential non-interference test (same root, different world
outside it => byte-identical responses).
"""
import atexit
import builtins
import hashlib
import io
import itertools
import json
import os
import re
import shutil
import urllib.parse

from harness import fw
from harness.fw import cstr, clist, cpair, copt, cbool, cnat, cZ

IMPORTS = ["Webob.Lib.PyStr", "Webob.Model.C17_path", "Webob.Model.C17_static"]
MTIME = 1500000000
MARK = b"OUTSIDE-SECRET:"          # every file outside the root starts with this

# --------------------------------------------------------------------------- scratch directory
_T = None
_UNREADABLE = set()


def _shim_open(file, *a, **k):
    if isinstance(file, (str, bytes, os.PathLike)) and os.path.abspath(os.fsdecode(os.fspath(file))) in _UNREADABLE:
        raise PermissionError(13, "Permission denied", file)
    return builtins.open(file, *a, **k)


def install_shim():
    """FileApp.__init__ does `self._open = open`: a module-level `open` in webob.static lets the harness
    make chosen files unreadable although the check runs as root (chmod would be ignored)."""
    import webob.static as st
    st.open = _shim_open


def scratch(ctx):
    """A scratch directory whose name is a function of (seed, tier, tree under test); a concurrent
    run of the same configuration gets the next free suffix."""
    global _T
    if _T:
        return _T
    top = "/dev/shm" if os.path.isdir("/dev/shm") and os.access("/dev/shm", os.W_OK) else "/tmp"
    h = hashlib.sha1(("%s/%s/%s" % (ctx.seed, ctx.tier, fw.REPO)).encode()).hexdigest()[:8]
    for k in range(1000):
        d = os.path.join(top, "c17-%s-%d" % (h, k))
        try:
            os.mkdir(d)
        except FileExistsError:
            try:
                pid = int(open(os.path.join(d, ".pid")).read())
                os.kill(pid, 0)
                continue                   # owner alive
            except (OSError, ValueError):
                shutil.rmtree(d, ignore_errors=True)
                try:
                    os.mkdir(d)
                except OSError:
                    continue
        with open(os.path.join(d, ".pid"), "w") as f:
            f.write(str(os.getpid()))
        _T = os.path.realpath(d)
        atexit.register(shutil.rmtree, _T, True)
        return _T
    raise RuntimeError("no scratch directory")


# --------------------------------------------------------------------------- trees
# a tree is a list of [relpath, "d"] | [relpath, "f", hex content, readable]; relpaths are relative to the
# scratch dir; the served root is always base/root
ROOT_REL = "base/root"
IN_NAMES = ["a", "b", "f.txt", "index.html", "idx", "sub", "a\\b", "é", "...", "..a", "a b", "root", "base", "xidx", "xindex.html",
            "A", "F.TXT", "a.tar.gz", "s.js", "\U0001f600"]
OUT_NAMES = ["index.html", "idx", "secret.txt", "root2", "rootx", "other", "root.txt"]


def t_dir(p):
    return [p, "d"]


def t_file(p, content, readable=True):
    return [p, "f", bytes(content).hex(), bool(readable)]


def tree_nodes(tree):
    d = {}
    for e in tree:
        d[e[0]] = ("d",) if e[1] == "d" else ("f", bytes.fromhex(e[2]), e[3])
    return d


def outside_variant(rng, kind):
    """The world outside base/root."""
    out = []
    if kind == "empty":
        return out

    def sec(p):
        return t_file(p, MARK + p.encode())
    out += [sec("base/index.html"), sec("base/idx"), sec("base/secret.txt"), sec("index.html"), sec("base/root.txt")]
    out += [t_dir("base/root2"), sec("base/root2/index.html"), sec("base/root2/idx"), sec("base/root2/f.txt"),
            t_dir("base/root2/sub"), sec("base/root2/sub/index.html")]
    out += [t_dir("base/other"), t_dir("base/rootx")]
    # the root's own name in another case (a case-insensitive containment test would let it through)
    out += [t_dir("base/ROOT"), sec("base/ROOT/index.html"), sec("base/ROOT/idx"), sec("base/ROOT/f.txt")]
    if kind == "rich2":
        out += [sec("base/other/index.html"), sec("base/other/idx"), t_dir("base/index.html.d"), sec("base/rootx/index.html"),
                t_dir("sub"), sec("sub/index.html")]
    return out


def gen_inside(rng, big=False):
    """Random content of the root: files, sub directories, index pages (sometimes as directories)."""
    ins = []
    used = set()

    def content():
        n = rng.choice([0, 1, 2, 3, 5, 8, 13]) if not big else rng.choice([0, 1, 7, 8, 9, 15, 16, 17, 40])
        return bytes(rng.randrange(256) for _ in range(n))

    def fill(prefix, depth):
        names = rng.sample(IN_NAMES, rng.randrange(1, 6))
        for nm in names:
            p = prefix + "/" + nm
            if p in used:
                continue
            used.add(p)
            r = rng.random()
            if nm in ("index.html", "idx"):
                if r < 0.25:
                    ins.append(t_dir(p))
                    if rng.random() < 0.5:
                        ins.append(t_file(p + "/" + nm, content()))
                        used.add(p + "/" + nm)
                else:
                    ins.append(t_file(p, content(), rng.random() > 0.1))
            elif r < 0.45 and depth < 2:
                ins.append(t_dir(p))
                fill(p, depth + 1)
            else:
                ins.append(t_file(p, content(), rng.random() > 0.1))
    fill(ROOT_REL, 0)
    return ins


def fixed_tree():
    ins = [t_file("base/root/index.html", b"ROOT INDEX"), t_file("base/root/f.txt", b"F"),
           t_dir("base/root/sub"), t_file("base/root/sub/index.html", b"SUB INDEX"), t_file("base/root/sub/a", b"A"),
           t_dir("base/root/empty"), t_file("base/root/idx", b"IDX"), t_file("base/root/secret.txt", b"not secret"),
           t_dir("base/root/root2"), t_file("base/root/root2/f.txt", b"inner root2"),
           t_file("base/root/unreadable", b"xx", False), t_dir("base/root/..."), t_file("base/root/.../a", b"dots"),
           t_file("base/root/xidx", b"x-idx"), t_file("base/root/sub/xindex.html", b"x-index"),
           # index pages that are directories (with and without an index file of their own)
           t_dir("base/root/a"), t_dir("base/root/a/index.html"), t_dir("base/root/a/idx"), t_file("base/root/a/idx/idx", b"deep idx"),
           t_dir("base/root/b"), t_dir("base/root/b/index.html"), t_file("base/root/b/index.html/index.html", b"deep index"),
           # case variants, extensions with a Content-Encoding / text type, a non-BMP name, an unreadable index page
           t_file("base/root/A", b"capital A"), t_file("base/root/F.TXT", b"capital F"), t_file("base/root/a.tar.gz", b"\x1f\x8b gz"),
           t_file("base/root/s.js", b"js();"), t_file("base/root/\U0001f600", b"smile"),
           t_dir("base/root/noread"), t_file("base/root/noread/index.html", b"hidden", False), t_file("base/root/noread/idx", b"hidden", False)]
    return ins


def full_tree(inside, outside):
    return [t_dir("base"), t_dir(ROOT_REL)] + inside + outside


class Mat:
    """A tree materialised under the scratch directory."""

    def __init__(self, T):
        self.T = T
        self.current = None

    def clear(self):
        for n in os.listdir(self.T):
            if n == ".pid":
                continue
            p = os.path.join(self.T, n)
            if os.path.isdir(p) and not os.path.islink(p):
                shutil.rmtree(p)
            else:
                os.unlink(p)
        _UNREADABLE.clear()

    def build(self, tree):
        self.clear()
        for e in tree:
            p = os.path.join(self.T, e[0])
            if e[1] == "d":
                os.makedirs(p, exist_ok=True)
            else:
                os.makedirs(os.path.dirname(p), exist_ok=True)
                with open(p, "wb") as f:
                    f.write(bytes.fromhex(e[2]))
                if not e[3]:
                    _UNREADABLE.add(p)
                    if os.geteuid() != 0:
                        os.chmod(p, 0)
        for d, ds, fs in os.walk(self.T):
            for n in fs + ds:
                os.utime(os.path.join(d, n), (MTIME, MTIME))
        self.current = tree

    def swap_outside(self, inside, outside):
        """Replace everything outside base/root, leave the root untouched."""
        T = self.T
        for n in os.listdir(T):
            if n in (".pid", "base"):
                continue
            p = os.path.join(T, n)
            shutil.rmtree(p) if os.path.isdir(p) else os.unlink(p)
        for n in os.listdir(os.path.join(T, "base")):
            if n == "root":
                continue
            p = os.path.join(T, "base", n)
            shutil.rmtree(p) if os.path.isdir(p) else os.unlink(p)
        for e in outside:
            p = os.path.join(T, e[0])
            if e[1] == "d":
                os.makedirs(p, exist_ok=True)
            else:
                os.makedirs(os.path.dirname(p), exist_ok=True)
                with open(p, "wb") as f:
                    f.write(bytes.fromhex(e[2]))
        for d, ds, fs in os.walk(T):
            if d == os.path.join(T, ROOT_REL) or d.startswith(os.path.join(T, ROOT_REL) + "/"):
                continue
            for n in fs + ds:
                if os.path.join(d, n) != os.path.join(T, ROOT_REL):
                    os.utime(os.path.join(d, n), (MTIME, MTIME))
        os.utime(os.path.join(T, "base"), (MTIME, MTIME))
        self.current = full_tree(inside, outside)


# --------------------------------------------------------------------------- Coq literals
def cnode(n):
    if n is None:
        return "NoEnt"
    if n[0] == "d":
        return "Dir"
    return "(File %s %s)" % (cbool(n[2]), cstr(n[1]))


def cfs(T, tree):
    ent = [cpair(cstr(T), "Dir")]
    for e in tree:
        n = ("d",) if e[1] == "d" else ("f", bytes.fromhex(e[2]), e[3])
        ent.append(cpair(cstr(T + "/" + e[0]), cnode(n)))
    return clist(ent)


def cidx(idx):
    return "None" if idx is None else "(Some %s)" % cstr(idx)


def cdreq(pi, purl, qs):
    return "(mkDreq %s %s %s)" % (cstr(pi), cstr(purl), cstr(qs))


def ckind(kind):
    if kind[0] == "fi":
        return "(KFileIter %s %s)" % (cZ(kind[1]), clist(cnat(c) for c in kind[2]))
    return "(KWrapper (chunk_by %s CONTENT))" % clist(cnat(c) for c in kind[1])


def crange(r):
    if r is None:
        return "None"
    return "(Some (%s, %s))" % (cZ(r[0]), copt(None if r[1] is None else cZ(r[1])))


# --------------------------------------------------------------------------- running the real thing
class ShortReader:
    """A file object whose read() returns at most caps[i]+1 bytes on the i-th call (then unrestricted)."""

    def __init__(self, f, caps):
        self.f = f
        self.caps = list(caps)
        self.closed_ = False

    def read(self, n=-1):
        cap = self.caps.pop(0) if self.caps else None
        if n is None:
            n = -1
        if cap is not None:
            n = cap + 1 if n < 0 else min(n, cap + 1)
        return self.f.read(n)

    def seek(self, *a):
        return self.f.seek(*a)

    def close(self):
        self.closed_ = True
        self.f.close()


def make_wrapper(sizes):
    """A wsgi.file_wrapper yielding chunks of the given sizes, then the rest in one chunk."""
    class Wrapper:
        def __init__(self, f, block_size):
            self.f = f
            self.block_size = block_size
            # the attribute names of wsgiref.util.FileWrapper, the wrapper most servers hand out: code that
            # special-cases a wrapper by looking at its file must still serve the exact slice
            self.filelike = f
            self.blksize = block_size

        def __iter__(self):
            for k in sizes:
                yield self.f.read(k)
            rest = self.f.read()
            if rest:
                yield rest

        def close(self):
            self.f.close()
    return Wrapper


def chunk_by(sizes, b):
    out = []
    for k in sizes:
        out.append(b[:k])
        b = b[k:]
    if b:
        out.append(b)
    return out


def parse_cr(v):
    """Content-Range header text -> [start, stop(exclusive), length] | [None, length] | 'bad:<text>'."""
    if v is None:
        return None
    m = re.fullmatch(r"bytes (\d+)-(\d+)/(\d+)", v)
    if m:
        return [int(m.group(1)), int(m.group(2)) + 1, int(m.group(3))]
    m = re.fullmatch(r"bytes \*/(\d+)", v)
    if m:
        return [None, int(m.group(1))]
    return "bad:" + v


# how the app is mounted / reached: None = Request.blank defaults (http://localhost, SCRIPT_NAME "")
ENVS = [None,
        {"scheme": "https", "host": "example.com:8443", "script": "/mnt/static"},
        {"scheme": "http", "host": "h", "script": "/m n/\xe9"}]


def blank(url, method="GET", range_header=None, wrapper=None, env=None, headers=None):
    from webob import Request
    req = Request.blank(url)
    req.method = method
    if env:
        e = ENVS[env]
        req.environ["wsgi.url_scheme"] = e["scheme"]
        req.environ["HTTP_HOST"] = e["host"]
        req.script_name = e["script"]
    for k, v in (headers or {}).items():
        req.headers[k] = v
    if range_header is not None:
        req.environ["HTTP_RANGE"] = range_header
    if wrapper is not None:
        req.environ["wsgi.file_wrapper"] = make_wrapper(wrapper)
    return req


def with_block_size(bs, f):
    import webob.static as st
    old = st.BLOCK_SIZE
    st.BLOCK_SIZE = bs
    try:
        return f()
    finally:
        st.BLOCK_SIZE = old


def get_full(app, req, bs=None):
    """(status, headers as list of pairs, body) or Err."""
    def go():
        r = req.get_response(app)
        return r.status_code, [list(h) for h in r.headerlist], r.body
    try:
        return with_block_size(bs, go) if bs else go()
    except Exception as e:  # noqa
        return fw.Err(type(e).__name__)


def hdr(headers, name):
    vs = [v for k, v in headers if k.lower() == name.lower()]
    return vs[0] if vs else None


def decide(app, req):
    """The decision DirectoryApp.__call__ returns, observed by calling it with a Request."""
    from webob import exc
    from webob.static import FileApp
    from webob.response import Response
    try:
        r = app(req)
    except Exception as e:  # noqa
        return fw.Err(type(e).__name__)
    if isinstance(r, FileApp):
        return [200, r.filename]
    if isinstance(r, exc.HTTPForbidden):
        return [403]
    if isinstance(r, exc.HTTPNotFound):
        return [404, r.comment if r.comment is not None else ""]
    if isinstance(r, Response) and r.status_code == 301:
        return [301, r.location]
    return fw.Err("unexpected:%r" % (r,))


# keyword arguments DirectoryApp passes on to FileApp / Response
KWS = [{}, {"cache_control": "max-age=60"}, {"content_type": "text/plain", "charset": "latin-1"}, {"content_encoding": "gzip"},
       {"accept_ranges": "none"}]
# how the DirectoryApp is constructed
SHAPES = ["kw", "pos", "rel", "slash", "dotted", "pathlib", "late", "subclass"]


def dirapp(T, idx, hide, opt=None):
    """opt: {"shape": one of SHAPES, "kw": index into KWS, "env": index into ENVS} (all optional)."""
    import pathlib
    from webob.static import DirectoryApp, FileApp
    opt = opt or {}
    shape = opt.get("shape", "kw")
    kw = dict(KWS[opt.get("kw", 0)])
    root = os.path.join(T, ROOT_REL)
    if shape == "pos":
        return DirectoryApp(root, idx, hide, **kw)
    if shape == "rel":
        old = os.getcwd()
        os.chdir(os.path.join(T, "base"))
        try:
            return DirectoryApp("root", index_page=idx, hide_index_with_redirect=hide, **kw)
        finally:
            os.chdir(old)
    if shape == "slash":
        return DirectoryApp(root + "/", index_page=idx, hide_index_with_redirect=hide, **kw)
    if shape == "dotted":
        return DirectoryApp(os.path.join(T, "base", ".", "root2", "..", "root", ""), index_page=idx, hide_index_with_redirect=hide, **kw)
    if shape == "pathlib":
        return DirectoryApp(pathlib.Path(root), index_page=idx, hide_index_with_redirect=hide, **kw)
    if shape == "late":
        # settings assigned AFTER construction
        app = DirectoryApp(root, **kw)
        app.index_page = idx
        app.hide_index_with_redirect = hide
        return app
    if shape == "subclass":
        class Sub(DirectoryApp):
            def make_fileapp(self, path):          # the documented customisation point
                return FileApp(path, **dict(self.fileapp_kw, cache_control="no-cache"))
        return Sub(root, index_page=idx, hide_index_with_redirect=hide, **kw)
    return DirectoryApp(root, index_page=idx, hide_index_with_redirect=hide, **kw)


def try_dirapp(T, idx, hide, opt=None):
    """(app, None) or (None, (key, message)): the served directory exists, so construction must succeed for every shape."""
    try:
        return dirapp(T, idx, hide, opt), None
    except Exception as e:  # noqa
        return None, ("root:raises", "DirectoryApp(<existing root directory>, index_page=%r, hide_index_with_redirect=%r) built as %r raised %s: %s"
                      % (idx, hide, (opt or {}).get("shape", "kw"), type(e).__name__, e))


def rand_opt(rng):
    return {"shape": rng.choice(SHAPES), "kw": rng.randrange(len(KWS)), "env": rng.choice([0, 0, 1, 2])}


# --------------------------------------------------------------------------- URL generation
SEGS = ["", ".", "..", "...", "%2e%2e", "%2E", "..%2f", "%2f", "a%2f..", "%5c", "..%5c..", "a%5cb", "..a",
        "root", "root2", "rootx", "base", "other", "index.html", "idx", "secret.txt", "nope", "a", "b", "f.txt", "sub",
        "%c3%a9", "a%20b", "root.txt", "unreadable", "empty", "xidx", "xindex.html",
        "A", "F.TXT", "Index.html", "INDEX.HTML", "SUB", "ROOT", "a.tar.gz", "s.js", "%F0%9F%98%80", "Root2"]
CORE = ["", ".", "..", "%2e%2e", "root", "root2", "base", "index.html", "sub", "f.txt", "xidx", "a", "other"]


def rand_url(rng, tree_names):
    n = rng.randrange(0, 6)
    segs = []
    for _ in range(n):
        r = rng.random()
        if r < 0.3:
            segs.append(rng.choice(["..", "..", "%2e%2e", ".", ""]))
        elif r < 0.65 and tree_names:
            segs.append(urllib.parse.quote(rng.choice(tree_names), safe=""))
        else:
            segs.append(rng.choice(SEGS))
    url = "/" + "/".join(segs)
    if rng.random() < 0.3:
        url += "/"
    if rng.random() < 0.04:
        url = url.lstrip("/")
    if rng.random() < 0.15:
        url += "?" + rng.choice(["x=1", "a=b&c=d", "q=/../"])
    return url


def names_of(tree):
    return sorted({c for e in tree for c in e[0].split("/")})


CORE4 = ["", ".", "..", "%2e%2e", "root", "root2", "index.html", "sub", "a"]
EXTRA_URLS = ["/../ROOT/", "/../ROOT/f.txt", "/../ROOT/index.html", "/../ROOT", "/../Root/f.txt", "/A", "/a", "/F.TXT", "/f.TXT",
              "/INDEX.HTML", "/Sub/", "/SUB", "/%00", "/f.txt%00", "/a%00/../f.txt", "/%ff", "/%e9t%e9", "/../%ff/", "/%F0%9F%98%80",
              "/a.tar.gz", "/s.js", "/noread/", "/noread", "/noread/index.html", "/unreadable", "/unreadable/"]
# index_page values outside the model's domain (idx_ok): with a separator, "." / "..", pointing out of the root, absolute
CFGS_OUT = [("sub/index.html", False), ("sub/index.html", True), (".", False), ("..", True), ("../secret.txt", False),
            ("../../secret.txt", False), ("../../index.html", True), ("/etc/hostname", False), ("./idx", False)]
CFGS = [("index.html", False), ("index.html", True), (None, False), ("idx", True), ("", True), (None, True), ("idx", False)]


# --------------------------------------------------------------------------- the reference (independent of os.path and of the Coq model)
def ref_walk(T, path_info):
    """Components reached by a kernel-style walk (no symlinks) from the root directory along path_info."""
    comps = [c for c in (T + "/" + ROOT_REL).split("/") if c]
    for seg in path_info.split("/"):
        if seg in ("", "."):
            continue
        if seg == "..":
            if comps:
                comps.pop()
        else:
            comps.append(seg)
    return comps


def ref_expect(T, tree, idx, hide, path_info):
    """What the property allows: ('outside',) | ('file', bytes, readable) | ('status', set) | ('redirect-slash',)
    | ('redirect-hide',)"""
    nodes = tree_nodes(tree)
    rootc = [c for c in (T + "/" + ROOT_REL).split("/") if c]
    comps = ref_walk(T, path_info)
    if comps[:len(rootc)] != rootc:
        return ("outside",)
    rel = "/".join([ROOT_REL] + comps[len(rootc):])
    n = nodes.get(rel)
    if n is not None and n[0] == "d":
        if idx:
            if "/" in idx or idx in (".", ".."):
                # outside the model's domain (idx_ok): resolve the configured index path lexically
                if idx.startswith("/"):
                    return ("config-outside",)
                ic = list(comps)
                for seg in idx.split("/"):
                    if seg == "..":
                        if ic:
                            ic.pop()
                    elif seg not in ("", "."):
                        ic.append(seg)
                if ic[:len(rootc)] != rootc:
                    return ("config-outside",)       # the operator's own index_page points out of the root
                ip = nodes.get("/".join([ROOT_REL] + ic[len(rootc):]))
            else:
                ip = nodes.get(rel + "/" + idx)
            if ip is None or ip[0] != "f":
                return ("status", {404})
            if not path_info.endswith("/"):
                return ("redirect-slash",)
            return ("file", ip[1], ip[2])
        return ("status", {403, 404})
    if idx and hide and len(comps) > len(rootc) and ("/" + "/".join(comps)).endswith("/" + idx):
        return ("redirect-hide",)
    if n is None:
        return ("status", {404})
    return ("file", n[1], n[2])


def check_dir_request(T, tree, idx, hide, url, app=None, opt=None):
    """Evaluate the DirectoryApp part of the property on one GET request.  Returns (key, message) or None,
    and the raw response for the differential test."""
    if app is None:
        app, err = try_dirapp(T, idx, hide, opt)
        if err:
            return err, None
    env = (opt or {}).get("env")
    req = blank(url, env=env)
    try:
        pi = req.path_info
    except UnicodeDecodeError:
        # outside the statement's domain (undecodable PATH_INFO): nothing may be served
        res = get_full(app, blank(url, env=env))
        if not isinstance(res, fw.Err) and res[0] in (200, 206, 301):
            return ("dirapp:undecodable-path-served", "GET %s (PATH_INFO is not valid UTF-8) was answered %d" % (url, res[0])), None
        return None, None
    res = get_full(app, req)
    if isinstance(res, fw.Err):
        return ("dirapp:raises", "GET %s raised %s" % (url, res.name)), res
    st, headers, body = res
    exp = ref_expect(T, tree, idx, hide, pi)
    if exp[0] == "config-outside":
        return None, None            # index_page itself points out of the root: the operator's choice, outside the statement
    if MARK in body:
        return ("dirapp:outside-content-served",
                "GET %s -> %d with the content of a file outside the root: %r" % (url, st, body[:60])), res
    if exp[0] == "outside":
        if st not in (403, 404):
            key = "dirapp:outside-200" if st == 200 else "dirapp:outside-redirect" if st in (301, 302) else "dirapp:outside-status"
            return (key, "GET %s (path_info %r) resolves outside the root but was answered %d %r (must be 403/404)"
                    % (url, pi, st, hdr(headers, "Location"))), res
        return None, res
    if exp[0] == "file":
        if not exp[2]:
            if st != 403:
                return ("dirapp:unreadable-not-403", "GET %s names an unreadable file, answered %d" % (url, st)), res
            return None, res
        if st != 200:
            return ("dirapp:inside-file-not-served", "GET %s names a readable file inside the root, answered %d" % (url, st)), res
        if body != exp[1]:
            return ("dirapp:wrong-bytes", "GET %s -> 200 with %r, the file holds %r" % (url, body[:40], exp[1][:40])), res
        if hdr(headers, "Content-Length") != str(len(exp[1])):
            return ("dirapp:wrong-content-length", "GET %s: Content-Length %r for a %d-byte file"
                    % (url, hdr(headers, "Content-Length"), len(exp[1]))), res
        return None, res
    if st == 200:
        return ("dirapp:200-without-file", "GET %s -> 200 %r but it names no regular file (%r)" % (url, body[:40], exp)), res
    if exp[0] == "status":
        if st not in exp[1]:
            return ("dirapp:wrong-status", "GET %s answered %d, expected one of %s" % (url, st, sorted(exp[1]))), res
        return None, res
    loc = hdr(headers, "Location")
    if st != 301:
        return ("dirapp:missing-redirect", "GET %s answered %d, expected a 301 (%s)" % (url, st, exp[0])), res
    purl = req.path_url
    want = purl + "/" if exp[0] == "redirect-slash" else purl.rsplit("/", 1)[0] + "/"
    if req.query_string:
        want += "?" + req.query_string
    if loc != want:
        return ("dirapp:wrong-location", "GET %s redirects to %r, expected %r" % (url, loc, want)), res
    if exp[0] == "redirect-slash" and url.startswith("/"):
        # following the redirect serves the index page
        res2 = get_full(app, blank(url.split("?", 1)[0] + "/" + ("?" + req.query_string if req.query_string else ""), env=env))
        ip = ref_expect(T, tree, idx, hide, pi + "/")
        if isinstance(res2, fw.Err) or ip[0] != "file" or (ip[2] and (res2[0] != 200 or res2[2] != ip[1])):
            return ("dirapp:index-after-redirect", "GET %s -> 301 %s, which does not serve the index page: %r"
                    % (url, loc, res2 if isinstance(res2, fw.Err) else (res2[0], res2[2][:40]))), res
    return None, res


def check_dir_method(T, tree, idx, hide, url, meth, rh, wr, app=None, opt=None):
    """Any method, with/without Range and wsgi.file_wrapper, on a path of the tree: GET and HEAD agree on status and headers
    (a target that can be stat'ed but not opened is refused for HEAD as for GET), other methods never get file bytes."""
    if app is None:
        app, err = try_dirapp(T, idx, hide, opt)
        if err:
            return err
    env = (opt or {}).get("env")
    a = get_full(app, blank(url, meth, rh, wr, env=env))
    g = get_full(app, blank(url, "GET", rh, wr, env=env))
    if isinstance(a, fw.Err) or isinstance(g, fw.Err):
        return ("dirapp:raises", "%s %s Range=%r raised %r / GET %r" % (meth, url, rh, a if isinstance(a, fw.Err) else a[0],
                                                                       g if isinstance(g, fw.Err) else g[0]))
    exp = ref_expect(T, tree, idx, hide, blank(url).path_info)
    if exp[0] == "config-outside":
        return None
    if meth == "HEAD":
        if a[0] != g[0] or a[2] != b"" or (a[0] in (200, 206, 416) and a[1] != g[1]):
            return ("dirapp:head-differs", "HEAD %s Range=%r answered %d %r, GET answered %d %r"
                    % (url, rh, a[0], [h for h in a[1] if h not in g[1]], g[0], [h for h in g[1] if h not in a[1]]))
        if exp[0] == "file" and not exp[2] and a[0] != 403:
            return ("dirapp:unreadable-not-403", "HEAD %s names a file that cannot be opened, answered %d" % (url, a[0]))
    elif meth != "GET":
        if a[0] in (200, 206) or (exp[0] == "file" and a[0] != 405):
            return ("dirapp:method-not-405", "%s %s answered %d (GET: %d)" % (meth, url, a[0], g[0]))
        if exp[0] == "file" and len(exp[1]) > 3 and exp[1] in a[2]:
            return ("dirapp:method-not-405", "%s %s carries the file's bytes" % (meth, url))
    if exp[0] == "file" and exp[2] and meth in ("GET", "HEAD") and a[0] in (200, 206, 416):
        m = check_file_response(exp[1], meth, rh, a, expect_for(rh, len(exp[1])))
        if m:
            return m
    return None


def nonint_diff(url, r1, r2):
    if r1 is None or r2 is None:
        return None
    if isinstance(r1, fw.Err) or isinstance(r2, fw.Err):
        if r1 != r2:
            return ("dirapp:outside-changes-response", "GET %s: %r with one world outside the root, %r with another" % (url, r1, r2))
        return None
    if r1 != r2:
        key = "dirapp:outside-existence-disclosed" if r1[0] != r2[0] else "dirapp:outside-changes-response"
        hd = [h for h in r1[1] if h not in r2[1]] + [h for h in r2[1] if h not in r1[1]]
        return (key, "GET %s: the response depends on what exists OUTSIDE the root: %d %r %r vs %d %r %r (differing headers %r)"
                % (url, r1[0], hdr(r1[1], "Location"), r1[2][:50], r2[0], hdr(r2[1], "Location"), r2[2][:50], hd))
    return None


# --------------------------------------------------------------------------- FileApp oracle
RANGE_FORMS = ["first-last", "first-", "-suffix"]


def range_header(form, a, b):
    return {"first-last": "bytes=%d-%d" % (a, b), "first-": "bytes=%d-" % a, "-suffix": "bytes=-%d" % a}[form]


# Range: bytes=-N with N larger than a non-empty file: RFC 7233 2.1 selects the whole file, webob answers 416 (Range.range_for_length
# leaves start + length negative; pinned by tests/test_byterange.py::test_not_satisfiable, same cause as C06's finding)
SUFFIX_416 = "range:suffix-longer-than-file-416"


def rfc_slice(form, a, b, n):
    """RFC 7233 2.1 for a single range on an n-byte representation: (start, stop) | 'unsat' | 'ignore' | 'zero'.
    'zero': suffix-length 0 selects no byte: unsatisfiable (416), or the header is ignored (200, "a server MAY ignore the Range
    header"); never a 206.  A suffix longer than a non-empty file selects all of it; on an empty file nothing is satisfiable."""
    if form == "first-last":
        if a > b:
            return "ignore"
        return (a, min(b + 1, n)) if a < n else "unsat"
    if form == "first-":
        return (a, n) if a < n else "unsat"
    if a == 0:
        return "zero"
    if n == 0:
        return "unsat"
    return (max(0, n - a), n)


def check_file_response(content, method, rh, res, expect=None, allow304=False):
    """Self-consistency of a FileApp answer for a readable file, plus the expected slice when given."""
    n = len(content)
    if allow304 and not isinstance(res, fw.Err) and res[0] == 304:
        if res[2] or hdr(res[1], "Content-Range") is not None:
            return ("fileapp:wrong-304", "%s Range=%r: 304 with a body %r / Content-Range" % (method, rh, res[2][:40]))
        return None
    if isinstance(res, fw.Err):
        return ("fileapp:raises", "%s Range=%r raised %s" % (method, rh, res.name))
    st, headers, body = res
    cl, cr = hdr(headers, "Content-Length"), parse_cr(hdr(headers, "Content-Range"))
    head = method == "HEAD"
    if isinstance(cr, str):
        return ("fileapp:bad-content-range", "%s Range=%r: unparsable Content-Range %r" % (method, rh, cr))
    if st == 200:
        if cr is not None or cl != str(n) or (not head and body != content) or (head and body):
            return ("fileapp:wrong-200", "%s Range=%r on %d bytes: 200 CL=%r CR=%r body=%r" % (method, rh, n, cl, cr, body[:40]))
        got = "full"
    elif st == 206:
        if cr is None or cr[0] is None or len(cr) != 3:
            return ("fileapp:206-without-content-range", "%s Range=%r: 206 with Content-Range %r" % (method, rh, cr))
        s, e, ln = cr
        if not (0 <= s < e <= n and ln == n):
            return ("fileapp:content-range-out-of-bounds", "%s Range=%r on %d bytes: Content-Range %r" % (method, rh, n, cr))
        if cl != str(e - s):
            return ("fileapp:wrong-content-length", "%s Range=%r: Content-Length %r for slice %d:%d" % (method, rh, cl, s, e))
        if (not head and body != content[s:e]) or (head and body):
            return ("fileapp:wrong-slice", "%s Range=%r on %d bytes: Content-Range says %d-%d but the body is %r, not %r"
                    % (method, rh, n, s, e - 1, body[:40], content[s:e][:40]))
        got = (s, e)
    elif st == 416:
        if cr != [None, n] or (head and body):
            return ("fileapp:wrong-416", "%s Range=%r on %d bytes: 416 with Content-Range %r" % (method, rh, n, cr))
        if content and len(content) > 3 and content in body:
            return ("fileapp:wrong-416", "416 carries the file")
        got = "unsat"
    else:
        return ("fileapp:wrong-status", "%s Range=%r on a readable file answered %d" % (method, rh, st))
    if expect == "zero":
        if got not in ("full", "unsat"):
            return ("fileapp:wrong-range-served", "%s Range=%r (suffix-length 0) on %d bytes: served %r" % (method, rh, n, got))
    elif expect is not None and expect != "c06":          # "c06": replay files written before the suffix corner was classified
        want = "full" if expect == "ignore" else expect
        if got != want:
            ms = re.fullmatch(r"bytes=-(\d+)", rh or "")
            if ms and int(ms.group(1)) > n > 0 and got == "unsat" and want == (0, n):
                return (SUFFIX_416, "%s Range=%r on a %d-byte file: 416 with Content-Range */%d; the suffix is longer than the file, so "
                        "the requested slice is the whole file (206 bytes 0-%d/%d)" % (method, rh, n, n, n - 1, n))
            return ("fileapp:wrong-range-served", "%s Range=%r on %d bytes: served %r, the requested slice is %r"
                    % (method, rh, n, got, want))
    return None


def file_case(T, content, method, rh, bs, wrapper, caps=None, headers=None, shape=None):
    """Run FileApp on a scratch file holding `content`."""
    import pathlib
    from webob.static import FileApp
    p = os.path.join(T, "fa.bin")
    if getattr(file_case, "_cur", None) != (T, content):
        with open(p, "wb") as f:
            f.write(content)
        os.utime(p, (MTIME, MTIME))
        file_case._cur = (T, content)
    if shape == "pathlib":
        app = FileApp(pathlib.Path(p))
    elif shape == "kw":
        app = FileApp(p, content_type="text/plain", charset="latin-1", cache_control="max-age=1", accept_ranges="none")
    elif shape == "gzip":
        app = FileApp(p, content_encoding="gzip", content_type="application/x-tar")
    else:
        app = FileApp(p)
    if caps:
        app._open = lambda fn, mode: ShortReader(open(fn, mode), caps)
    return get_full(app, blank("/", method, rh, wrapper, headers=headers), bs)


def check_fileapp_methods(T, content, bs, wrapper):
    """GET exact bytes + size; HEAD same headers, no body; other methods 405."""
    g = file_case(T, content, "GET", None, bs, wrapper)
    h = file_case(T, content, "HEAD", None, bs, wrapper)
    m = check_file_response(content, "GET", None, g, "ignore")
    if m:
        return m
    if isinstance(h, fw.Err) or h[0] != 200 or h[2] != b"" or h[1] != g[1]:
        return ("fileapp:head-differs", "HEAD on %d bytes: %r, GET gave headers %r" % (len(content), h, g[1]))
    for meth in ("POST", "PUT", "DELETE", "OPTIONS", "get", "PATCH"):
        r = file_case(T, content, meth, None, bs, wrapper)
        if isinstance(r, fw.Err) or r[0] != 405 or content and len(content) > 3 and content in r[2]:
            return ("fileapp:method-not-405", "%s answered %r" % (meth, r if isinstance(r, fw.Err) else r[0]))
    return None


def check_fileapp_missing(T):
    """Targets that cannot be served — missing, a directory (stat works, open does not), an unreadable file — for EVERY
    method, with/without Range and wsgi.file_wrapper, FileApp built from str / pathlib / relative names and with keywords."""
    import pathlib
    from webob.static import FileApp
    os.makedirs(os.path.join(T, "fa.dir"), exist_ok=True)
    p = os.path.join(T, "fa.unr")
    if os.path.exists(p):
        os.chmod(p, 0o600)
    with open(p, "wb") as f:
        f.write(b"unreadable")
    _UNREADABLE.add(p)
    if os.geteuid() != 0:
        os.chmod(p, 0)
    # the ways a name can fail os.stat: missing, running THROUGH a regular file (ENOTDIR), a component longer than NAME_MAX
    # (ENAMETOOLONG; 255 is still a legal length), a dangling symlink (ENOENT), a symlink loop (ELOOP), a file name with a
    # trailing separator (ENOTDIR); and, when not root, a file below a directory without search permission (EACCES)
    with open(os.path.join(T, "fa.reg"), "wb") as f:
        f.write(b"unreadable? no, regular")
    for ln in ("fa.dangling", "fa.loop"):
        if os.path.islink(os.path.join(T, ln)):
            os.unlink(os.path.join(T, ln))
    os.symlink(os.path.join(T, "fa.gone"), os.path.join(T, "fa.dangling"))
    os.symlink(os.path.join(T, "fa.loop"), os.path.join(T, "fa.loop"))
    targets = [("fa.nope", {404}), ("fa.dir", {403}), ("fa.unr", {403}),
               ("fa.reg/child.txt", {403, 404}), ("fa.reg/", {403, 404}), ("fa.nope/deeper/x", {403, 404}),
               ("x" * 255, {404}), ("x" * 256, {403, 404}), ("x" * 300 + ".txt", {403, 404}), ("fa.dir/" + "y" * 4000, {403, 404}),
               ("fa.dangling", {403, 404}), ("fa.loop", {403, 404})]
    nosearch = os.path.join(T, "fa.nosearch")
    if os.geteuid() != 0:
        os.makedirs(nosearch, exist_ok=True)
        os.chmod(nosearch, 0o700)
        with open(os.path.join(nosearch, "f.txt"), "wb") as f:
            f.write(b"unreadable")
        os.chmod(nosearch, 0)
        targets.append(("fa.nosearch/f.txt", {403, 404}))
    out = []
    n = 0
    old = os.getcwd()
    for name, wants in targets:
        want = min(wants) if len(wants) == 1 else None
        full = os.path.join(T, name)
        makers = [("str", lambda: FileApp(full)), ("pathlib", lambda: FileApp(pathlib.Path(full))),
                  ("kw", lambda: FileApp(full, content_type="text/plain", charset="latin-1", cache_control="max-age=1")),
                  ("positional-kw", lambda: FileApp(filename=full))]
        for mk_name, mk in makers:
            if mk_name == "pathlib" and name.endswith("/"):
                continue                      # pathlib drops the trailing separator: that is the regular file itself
            for meth in ("GET", "HEAD", "POST", "PUT", "DELETE", "OPTIONS", "head", ""):
                for rh in (None, "bytes=0-1", "bytes=-1"):
                    for wr in (None, [1, 1]):
                        n += 1
                        r = get_full(mk(), blank("/", meth, rh, wr))
                        w = wants if meth in ("GET", "HEAD") else {405}
                        if isinstance(r, fw.Err) or r[0] not in w or b"unreadable" in r[2] or (meth == "HEAD" and r[2]):
                            out.append(("fileapp:missing-or-unreadable", "%s %s (FileApp from %s) Range=%r wrapper=%r answered %r, expected %s"
                                        % (meth or "(empty method)", name[:60], mk_name, rh, wr,
                                           ("raises " + r.name) if isinstance(r, fw.Err) else r[0], sorted(w))))
        # a relative file name, resolved against the cwd at request time
        os.chdir(T)
        try:
            r = get_full(FileApp(name), blank("/", "HEAD"))
            n += 1
            if isinstance(r, fw.Err) or r[0] not in wants:
                out.append(("fileapp:missing-or-unreadable", "HEAD %s (relative name) answered %r, expected %s" % (name[:60], r, sorted(wants))))
        finally:
            os.chdir(old)
    if os.geteuid() != 0:
        os.chmod(nosearch, 0o700)
    check_fileapp_missing.count = n
    return out


def check_outside_domain(ctx, T, mat):
    """Inputs the model excludes, visited on the real code for what remains meaningful there (observations that are outside
    the statement are written to the evidence, coverage.outside_domain, not failed)."""
    from webob.static import DirectoryApp, FileApp, FileIter
    from webob.response import AppIterRange, Response
    out, obs, n = [], {}, 0
    # -- block sizes <= 0: the iterator must terminate (exact bytes are only claimed for positive block sizes)
    for bs in (0, -1, -7):
        for seek, limit in ((None, None), (2, None), (1, 4), (0, 0)):
            r, _f = run_fileiter(b"0123456789", seek, limit, bs, [])
            n += 1
            obs["FileIter block_size=%d seek=%r limit=%r" % (bs, seek, limit)] = repr(r)
            if isinstance(r, fw.Err):
                out.append(("fileiter:raises", "FileIter block_size=%d seek=%r limit=%r raised %s" % (bs, seek, limit, r.name)))
    # -- limit < seek (never produced by Response.app_iter_range): documented XXX in webob's own tests; must terminate
    r, _f = run_fileiter(b"0123456789", 5, 2, 3, [])
    obs["FileIter seek=5 limit=2"] = repr(r)
    n += 1
    # -- AppIterRange with start == stop (allowed by its assertion): nothing
    for chunks in ([b"abc", b"", b"de"], []):
        for k in (0, 2, 3, 9):
            r = run_air(chunks, k, k)
            n += 1
            if isinstance(r, fw.Err) or b"".join(r) != b"":
                out.append(("air:wrong-slice", "AppIterRange(%r, %d, %d) yields %r, expected nothing" % (chunks, k, k, r)))
    # -- the wrapped iterable's type: list / tuple / generator / iterator / object with close(); Response.app_iter_range on each
    data = [b"ab", b"", b"cde", b"f"]
    closed = []

    class It:
        def __iter__(self):
            return iter(data)

        def close(self):
            closed.append(1)
    for label, mk in (("list", lambda: list(data)), ("tuple", lambda: tuple(data)), ("generator", lambda: (c for c in data)),
                      ("iterator", lambda: iter(data)), ("object", It)):
        for a, b in ((0, 6), (1, 4), (2, 3), (5, 6), (3, 9)):
            n += 2
            r1 = list(AppIterRange(mk(), a, b))
            r2 = list(Response(app_iter=mk()).app_iter_range(a, b))
            if b"".join(r1) != b"abcdef"[a:b] or b"".join(r2) != b"abcdef"[a:b]:
                out.append(("air:wrong-slice", "AppIterRange over a %s, %d:%d yields %r / Response.app_iter_range %r" % (label, a, b, r1, r2)))
    # -- FileIter argument shapes: positional / keyword / __iter__
    for seek, limit, bs in ((2, 7, 3), (0, 4, 2), (None, None, 4), (3, None, 2)):
        want = b"0123456789"[(seek or 0):limit]
        shapes = {"positional": lambda f: f.app_iter_range(seek, limit, bs),
                  "keyword": lambda f: f.app_iter_range(block_size=bs, limit=limit, seek=seek),
                  "mixed": lambda f: f.app_iter_range(seek, block_size=bs, limit=limit)}
        if seek is None and limit is None:
            shapes["__iter__"] = lambda f: iter(f)
        for label, call in shapes.items():
            n += 1
            got = b"".join(call(FileIter(io.BytesIO(b"0123456789"))))
            if got != want:
                out.append(("fileiter:wrong-slice", "FileIter.app_iter_range called %s with seek=%r limit=%r block_size=%r yields %r, expected %r"
                            % (label, seek, limit, bs, got, want)))
    # -- file names as bytes: refused or served, never something else
    p = os.path.join(T, "fa.bytes")
    with open(p, "wb") as f:
        f.write(b"bytes name")
    n += 1
    try:
        r = get_full(FileApp(os.fsencode(p)), blank("/"))
        obs["FileApp(bytes filename)"] = repr(r if isinstance(r, fw.Err) else r[0])
        if not isinstance(r, fw.Err) and (r[0] != 200 or r[2] != b"bytes name"):
            out.append(("fileapp:wrong-200", "FileApp(bytes filename) answered %r" % (r,)))
    except Exception as e:  # noqa
        obs["FileApp(bytes filename)"] = "constructor raises " + type(e).__name__
    # -- a file name with an embedded NUL (the quantifier says NUL-free; through DirectoryApp such a request is a plain 404):
    #    os.stat raises ValueError, which FileApp does not catch — recorded; it must not be served
    for label, fn in (("NUL inside", os.path.join(T, "fa\x00b")), ("NUL after an existing name", p + "\x00")):
        for meth in ("GET", "HEAD"):
            n += 1
            r = get_full(FileApp(fn), blank("/", meth))
            obs["FileApp(<%s>) %s" % (label, meth)] = repr(r if isinstance(r, fw.Err) else r[0])
            if not isinstance(r, fw.Err) and r[0] in (200, 206):
                out.append(("fileapp:nul-name-served", "FileApp(<%s>) %s answered %d" % (label, meth, r[0])))
    try:
        DirectoryApp(os.fsencode(os.path.join(T, "base")))
        obs["DirectoryApp(bytes path)"] = "accepted"
    except Exception as e:  # noqa
        obs["DirectoryApp(bytes path)"] = "constructor raises " + type(e).__name__
    n += 1
    try:
        DirectoryApp(os.path.join(T, "no-such-dir"))
        out.append(("root:missing-accepted", "DirectoryApp(<missing directory>) did not raise"))
    except OSError:
        pass
    # -- symbolic links (excluded from the statement: the layout inside the root is the operator's): a link to a file inside
    #    the root serves that file's bytes; a lexically escaping path stays refused whatever links exist; links out are followed
    mat.build(full_tree(fixed_tree(), outside_variant(None, "rich")))
    root = os.path.join(T, ROOT_REL)
    os.symlink(os.path.join(root, "f.txt"), os.path.join(root, "ln-in"))
    os.symlink(os.path.join(T, "base", "secret.txt"), os.path.join(root, "ln-out"))
    os.symlink(os.path.join(T, "base"), os.path.join(root, "ln-up"))
    app = dirapp(T, "index.html", False)
    r = get_full(app, blank("/ln-in"))
    n += 4
    if isinstance(r, fw.Err) or r[0] != 200 or r[2] != b"F":
        out.append(("dirapp:wrong-bytes", "GET /ln-in (symlink to f.txt inside the root) answered %r" % (r,)))
    for u in ("/ln-up/../../secret.txt", "/ln-in/../../secret.txt"):
        r = get_full(app, blank(u))
        if isinstance(r, fw.Err) or r[0] not in (403, 404):
            out.append(("dirapp:outside-status", "GET %s answered %r" % (u, r if isinstance(r, fw.Err) else r[0])))
    r = get_full(app, blank("/ln-out"))
    obs["GET /ln-out (symlink inside the root to a file outside it)"] = repr(r if isinstance(r, fw.Err) else r[0])
    ctx.extra["outside_domain"] = obs
    check_outside_domain.count = n
    return out


def run_fileiter(content, seek, limit, bs, caps):
    from webob.static import FileIter
    f = ShortReader(io.BytesIO(content), caps)
    kw = {}
    if seek is not None:
        kw["seek"] = seek
    if limit is not None:
        kw["limit"] = limit
    if bs is not None:
        kw["block_size"] = bs
    try:
        out = list(FileIter(f).app_iter_range(**kw))
    except Exception as e:  # noqa
        return fw.Err(type(e).__name__), f
    return out, f


def check_fileiter(content, seek, limit, bs, caps):
    out, f = run_fileiter(content, seek, limit, bs, caps)
    if isinstance(out, fw.Err):
        return ("fileiter:raises", "FileIter seek=%r limit=%r block_size=%r raised %s" % (seek, limit, bs, out.name))
    want = content[(seek or 0):limit]
    if b"".join(out) != want:
        return ("fileiter:wrong-slice", "FileIter over %r seek=%r limit=%r block_size=%r caps=%r yields %r, expected %r"
                % (content, seek, limit, bs, caps, out, want))
    if any(len(c) == 0 or len(c) > bs for c in out):
        return ("fileiter:chunk-size", "FileIter block_size=%r yields chunks %r" % (bs, [len(c) for c in out]))
    if not f.closed_:
        return ("fileiter:not-closed", "FileIter did not close the file")
    return None


def run_air(chunks, start, stop):
    from webob.response import AppIterRange
    try:
        return list(AppIterRange(iter(chunks), start, stop))
    except Exception as e:  # noqa
        return fw.Err(type(e).__name__)


def check_air(chunks, start, stop):
    out = run_air(chunks, start, stop)
    want = b"".join(chunks)[start:stop]
    if isinstance(out, fw.Err) or b"".join(out) != want:
        return ("air:wrong-slice", "AppIterRange(%r, %d, %d) yields %r, expected %r" % (chunks, start, stop, out, want))
    return None


# --------------------------------------------------------------------------- histories: ONE long-lived app, many requests
# DirectoryApp/FileApp are treated by the property as pure functions of (configuration, file system, request).  A history
# runs a sequence of different requests, interleaved with changes of the served files, through ONE instance; every answer
# must equal the answer of a brand-new identically constructed instance (and the reference), and the instance's
# configuration attributes must not change.
def expect_for(rh, n):
    """Expected slice for the three canonical Range spellings, else None (self-consistency only)."""
    if rh is None:
        return "ignore"
    m = re.fullmatch(r"bytes=(\d+)-(\d+)", rh)
    if m:
        return rfc_slice("first-last", int(m.group(1)), int(m.group(2)), n)
    m = re.fullmatch(r"bytes=(\d+)-", rh)
    if m:
        return rfc_slice("first-", int(m.group(1)), 0, n)
    m = re.fullmatch(r"bytes=-(\d+)", rh)
    if m:
        return rfc_slice("-suffix", int(m.group(1)), 0, n)
    return None


def rand_req_step(rng, n):
    meth = rng.choice(["GET"] * 5 + ["HEAD", "HEAD", "POST", "PUT"])
    rh = None
    if rng.random() < 0.55:
        form = rng.choice(RANGE_FORMS)
        a, b = rng.randrange(0, n + 3), rng.randrange(0, n + 3)
        if form == "first-last" and a > b:
            a, b = b, a
        rh = range_header(form, a, b)
    if rng.random() < 0.5:
        bs, wr = rng.choice([1, 2, 3, 5, 8, 65536]), None
    else:
        bs, wr = None, [rng.randrange(0, 5) for _ in range(rng.randrange(0, 4))]
    return meth, rh, wr, bs


def gen_file_history(rng, nsteps):
    """Steps on one path: ['req', method, range, wrapper, bs, caps] | ['write', hex, mtime] | ['unlink'] | ['mkdir'] |
    ['unreadable', bool]"""
    steps = [["write", bytes(rng.randrange(256) for _ in range(rng.randrange(0, 12))).hex(), MTIME]]
    n = len(steps[0][1]) // 2
    for i in range(nsteps):
        r = rng.random()
        if r < 0.70:
            meth, rh, wr, bs = rand_req_step(rng, n)
            caps = [rng.randrange(0, 4) for _ in range(rng.randrange(0, 4))] if wr is None and rng.random() < 0.3 else []
            steps.append(["req", meth, rh, wr, bs, caps])
        elif r < 0.90:
            n = rng.choice([0, 1, 2, 3, 5, 8, 13, n, n + 1, max(0, n - 1)])
            same_len = rng.random() < 0.3
            steps.append(["write", bytes(rng.randrange(256) for _ in range(n)).hex(),
                          MTIME + (0 if same_len and rng.random() < 0.5 else 1000 * (i + 1))])
        elif r < 0.94:
            steps.append(["unlink"])
            n = 0
        elif r < 0.97:
            steps.append(["mkdir"])
            n = 0
        else:
            steps.append(["unreadable", rng.random() < 0.6])
    return steps


def fileapp_state(app):
    return (app.filename, sorted((k, repr(v)) for k, v in app.kw.items()))


def run_file_history(T, steps, record=None):
    """Run the steps with one long-lived FileApp; compare each answer with a fresh FileApp's and with the property.
    Returns (key, message) or None.  `record` collects (node, step, observation of the long-lived app)."""
    from webob.static import FileApp
    p = os.path.join(T, "hist.bin")
    file_case._cur = None

    def clear():
        _UNREADABLE.discard(p)
        if os.path.isdir(p):
            os.rmdir(p)
        elif os.path.exists(p):
            os.unlink(p)
    clear()
    live = None
    state0 = None
    node = None                                  # None | ("d",) | ("f", bytes, readable)
    try:
        for i, st_ in enumerate(steps):
            op = st_[0]
            if op == "write":
                clear()
                content = bytes.fromhex(st_[1])
                with open(p, "wb") as f:
                    f.write(content)
                os.utime(p, (st_[2], st_[2]))
                node = ("f", content, True)
            elif op == "unlink":
                clear()
                node = None
            elif op == "mkdir":
                clear()
                os.mkdir(p)
                node = ("d",)
            elif op == "unreadable":
                if node is not None and node[0] == "f":
                    node = ("f", node[1], not st_[1])
                    (_UNREADABLE.discard if not st_[1] else _UNREADABLE.add)(p)
            else:
                _, meth, rh, wr, bs, caps = st_
                if live is None:
                    live = FileApp(p)
                    state0 = fileapp_state(live)
                fresh = FileApp(p)
                outs = []
                for app in (live, fresh):
                    if caps:
                        app._open = (lambda c: lambda fn, mode: ShortReader(_shim_open(fn, mode), c))(list(caps))
                    outs.append(get_full(app, blank("/h", meth, rh, wr), bs))
                    if caps:
                        app._open = _shim_open
                a, b = outs
                where = "step %d %r of the history" % (i, st_)
                if a != b:
                    return ("history:fileapp-differs-from-fresh",
                            "%s: the long-lived FileApp answers %r, a fresh FileApp answers %r"
                            % (where, _short(a), _short(b)))
                if fileapp_state(live) != state0:
                    return ("history:fileapp-state-changed", "%s changed the FileApp's attributes: %r -> %r"
                            % (where, state0, fileapp_state(live)))
                if record is not None:
                    record.append((node, st_, a))
                if meth not in ("GET", "HEAD"):
                    want = 405
                elif node is None:
                    want = 404
                elif node[0] == "d" or not node[2]:
                    want = 403
                else:
                    want = None
                    m = check_file_response(node[1], meth, rh, a, expect_for(rh, len(node[1])))
                    if m:
                        return (hkey(m[0]), "%s: %s" % (where, m[1]))
                if want is not None and (isinstance(a, fw.Err) or a[0] != want):
                    return ("history:fileapp-wrong-status", "%s answered %r, expected %d"
                            % (where, a if isinstance(a, fw.Err) else a[0], want))
    finally:
        clear()
    return None


def hkey(k):
    # the classified finding keeps its key wherever it is met (it does not depend on the history)
    return k if k.startswith("history:") or k == SUFFIX_416 else "history:" + k


def _short(r):
    if isinstance(r, fw.Err):
        return r
    return (r[0], [h for h in r[1] if h[0] in ("Content-Length", "Content-Range", "Last-Modified", "Location")], r[2][:40])


def gen_dir_history(rng, tree, nsteps):
    """Steps: ['req', url, method, range, wrapper, bs, env] | ['write', relpath, hex] | ['unlink', relpath] |
    ['config', index_page, hide]  (the settings re-assigned on the live object)"""
    nodes = tree_nodes(tree)
    names = names_of(tree)
    steps = []
    removed = []
    for i in range(nsteps):
        r = rng.random()
        inside_files = sorted(k for k, v in nodes.items() if v[0] == "f" and k.startswith(ROOT_REL + "/"))
        inside_dirs = sorted(k for k, v in nodes.items() if v[0] == "d" and (k == ROOT_REL or k.startswith(ROOT_REL + "/")))
        if r < 0.78 or not inside_dirs:
            if rng.random() < 0.5 and inside_files + inside_dirs:
                rel = rng.choice(inside_files + inside_dirs)[len(ROOT_REL):]
                url = urllib.parse.quote(rel) + rng.choice(["", "", "/"]) or "/"
                if rng.random() < 0.2:
                    url = "/." + url
            else:
                url = rand_url(rng, names)
            meth, rh, wr, bs = rand_req_step(rng, 8)
            steps.append(["req", url, meth, rh, wr, bs, rng.choice([0, 0, 1, 2])])
        elif r < 0.83:
            steps.append(["config"] + list(rng.choice(CFGS)))
        elif r < 0.92:
            if inside_files and rng.random() < 0.6:
                rel = rng.choice(inside_files)
            elif removed and rng.random() < 0.5:
                rel = removed.pop()
                if rel.rsplit("/", 1)[0] not in nodes or rel in nodes:
                    continue
            else:
                rel = rng.choice(inside_dirs) + "/" + rng.choice(["index.html", "idx", "new.txt", "f.txt"])
                if rel in nodes:
                    if nodes[rel][0] != "f":
                        continue
            content = bytes(rng.randrange(256) for _ in range(rng.choice([0, 1, 2, 3, 5, 8, 13])))
            nodes[rel] = ("f", content, True)
            steps.append(["write", rel, content.hex()])
        elif inside_files:
            rel = rng.choice(inside_files)
            del nodes[rel]
            removed.append(rel)
            steps.append(["unlink", rel])
    return steps


def dirapp_state(app):
    return (app.path, app.index_page, app.hide_index_with_redirect, sorted((k, repr(v)) for k, v in app.fileapp_kw.items()))


def run_dir_history(T, mat, tree, idx, hide, steps, opt=None):
    """One long-lived DirectoryApp over a sequence of requests, file changes inside the root and re-assigned settings."""
    mat.build(tree)
    cur = [list(e) for e in tree]
    live, err = try_dirapp(T, idx, hide, opt)
    if err:
        return err
    state0 = dirapp_state(live)
    for i, st_ in enumerate(steps):
        if st_[0] == "config":
            idx, hide = st_[1], st_[2]
            live.index_page = idx
            live.hide_index_with_redirect = hide
            state0 = dirapp_state(live)
            continue
        if st_[0] == "write":
            p = os.path.join(T, st_[1])
            _UNREADABLE.discard(p)
            with open(p, "wb") as f:
                f.write(bytes.fromhex(st_[2]))
            os.utime(p, (MTIME + 1000 * (i + 1), MTIME + 1000 * (i + 1)))
            cur = [e for e in cur if e[0] != st_[1]] + [t_file(st_[1], bytes.fromhex(st_[2]))]
            continue
        if st_[0] == "unlink":
            p = os.path.join(T, st_[1])
            _UNREADABLE.discard(p)
            os.unlink(p)
            cur = [e for e in cur if e[0] != st_[1]]
            continue
        url, meth, rh, wr, bs = st_[1:6]
        env = st_[6] if len(st_) > 6 else 0
        o2 = dict(opt or {}, env=env)
        req = blank(url, meth, rh, wr, env=env)
        try:
            req.path_info
        except UnicodeDecodeError:
            continue
        a = get_full(live, req, bs)
        b = get_full(dirapp(T, idx, hide, opt), blank(url, meth, rh, wr, env=env), bs)
        where = "step %d %r of the history" % (i, st_)
        if a != b:
            return ("history:dirapp-differs-from-fresh", "%s: the long-lived DirectoryApp answers %r, a fresh one answers %r"
                    % (where, _short(a), _short(b)))
        if dirapp_state(live) != state0:
            return ("history:dirapp-state-changed", "%s changed the DirectoryApp's attributes: %r -> %r"
                    % (where, state0, dirapp_state(live)))
        if meth == "GET" and rh is None:
            m, _r = check_dir_request(T, cur, idx, hide, url, live, o2)
            if m:
                return (hkey(m[0]), "%s: %s" % (where, m[1]))
        elif not isinstance(a, fw.Err) and a[0] in (200, 206):
            exp = ref_expect(T, cur, idx, hide, req.path_info)
            if exp[0] != "file" or not exp[2]:
                return ("history:dirapp:200-without-file", "%s -> %d but it names no readable regular file inside the root (%r)"
                        % (where, a[0], exp[0]))
            m = check_file_response(exp[1], meth, rh, a, expect_for(rh, len(exp[1])))
            if m:
                return (hkey(m[0]), "%s: %s" % (where, m[1]))
    return None


def run_order_independence(T, mat, tree, idx, hide, reqs, perm):
    """Module-level state: the same requests in two different orders within one process give the same answers."""
    mat.build(tree)

    def one(r):
        url, meth, rh, wr, bs = r
        return get_full(dirapp(T, idx, hide), blank(url, meth, rh, wr), bs)
    first = [one(r) for r in reqs]
    second = {}
    for j in perm:
        second[j] = one(reqs[j])
    for j, r in enumerate(reqs):
        if first[j] != second[j]:
            return ("history:order-dependent", "request %r is answered %r when run in generation order and %r in another order"
                    % (r, _short(first[j]), _short(second[j])))
    return None


# --------------------------------------------------------------------------- case records / replay
def case_dir(tree, idx, hide, url, alt_outside=None, inside=None, opt=None):
    c = {"kind": "dirapp", "tree": tree, "idx": idx, "hide": hide, "url": url}
    if opt:
        c["opt"] = opt
    if alt_outside is not None:
        c["alt_outside"] = alt_outside
        c["inside"] = inside
    return c


def oracle_case(ctx, T, mat, case):
    """Re-evaluate a recorded case on the real implementation.  Returns a list of (key, message)."""
    k = case["kind"]
    out = []
    if k == "dirapp":
        mat.build(case["tree"])
        m, r1 = check_dir_request(T, case["tree"], case["idx"], case["hide"], case["url"], None, case.get("opt"))
        if m:
            out.append(m)
        if case.get("alt_outside") is not None:
            mat.swap_outside(case["inside"], case["alt_outside"])
            m2, r2 = check_dir_request(T, mat.current, case["idx"], case["hide"], case["url"], None, case.get("opt"))
            if m2:
                out.append(m2)
            d = nonint_diff(case["url"], r1, r2)
            if d:
                out.append(d)
    elif k == "dirapp-method":
        mat.build(case["tree"])
        m = check_dir_method(T, case["tree"], case["idx"], case["hide"], case["url"], case["method"], case["range"], case["wrapper"],
                             None, case.get("opt"))
        if m:
            out.append(m)
    elif k == "rangetext":
        obs = rangetext_run(T, case["content"], case["range"], case.get("bs"))
        out.extend(rangetext_oracle(rangetext_content(case["content"]), case["range"], obs))
    elif k == "fileapp":
        content = bytes.fromhex(case["content"])
        if case.get("methods"):
            m = check_fileapp_methods(T, content, case["bs"], case["wrapper"])
        else:
            res = file_case(T, content, case["method"], case["range"], case["bs"], case["wrapper"], case.get("caps"),
                            case.get("headers"), case.get("shape"))
            exp = case.get("expect")
            m = check_file_response(content, case["method"], case["range"], res, tuple(exp) if isinstance(exp, list) else exp,
                                    bool(case.get("headers")))
        if m:
            out.append(m)
    elif k == "fileapp-missing":
        out += check_fileapp_missing(T)
    elif k == "outside-domain":
        out += check_outside_domain(ctx, T, mat)
    elif k == "fileiter":
        m = check_fileiter(bytes.fromhex(case["content"]), case["seek"], case["limit"], case["bs"], case["caps"])
        if m:
            out.append(m)
    elif k == "air":
        m = check_air([bytes.fromhex(c) for c in case["chunks"]], case["start"], case["stop"])
        if m:
            out.append(m)
    elif k == "root":
        mat.build(full_tree(fixed_tree(), outside_variant(None, "rich")))
        m = check_root(T, mat, case["spelling"])
        if m:
            out.append(m)
    elif k == "history-file":
        m = run_file_history(T, case["steps"])
        if m:
            out.append(m)
    elif k == "history-dir":
        m = run_dir_history(T, mat, case["tree"], case["idx"], case["hide"], case["steps"], case.get("opt"))
        if m:
            out.append(m)
    elif k == "history-order":
        m = run_order_independence(T, mat, case["tree"], case["idx"], case["hide"], case["reqs"], case["perm"])
        if m:
            out.append(m)
    return out


def check_root(T, mat, spelling):
    """DirectoryApp(path).path is the directory's normalised absolute name with exactly one trailing separator."""
    from webob.static import DirectoryApp
    old = os.getcwd()
    spelling = spelling.replace("{T}", T)
    os.chdir(os.path.join(T, "base"))
    try:
        p = DirectoryApp(spelling).path
    except Exception as e:  # noqa
        return ("root:raises", "DirectoryApp(%r) raised %s" % (spelling, type(e).__name__))
    finally:
        os.chdir(old)
    want = os.path.realpath(os.path.join(T, "base", spelling)) + "/"
    if p != want:
        return ("root:not-normalised", "DirectoryApp(%r).path = %r, expected %r" % (spelling, p, want))
    return None


# --------------------------------------------------------------------------- Range header TEXT layer (Model/C17_rangetext.v)
RT_IMPORTS = IMPORTS + ["Webob.Model.C17_rangetext"]


def rangetext_content(spec):
    """spec: ["hex", <hex>] literal bytes, or ["pat", n] = bytes(i % 251 for i in range(n)) (large files, built inside Coq too)."""
    if spec[0] == "hex":
        return bytes.fromhex(spec[1])
    return bytes(i % 251 for i in range(spec[1]))


def rangetext_content_coq(spec):
    if spec[0] == "hex":
        return cstr(bytes.fromhex(spec[1]))
    return "(map (fun i => N.of_nat (Nat.modulo i 251)) (seq 0 %d))" % spec[1]


def rangetext_run(T, spec, rh, bs):
    """Real FileApp, GET with HTTP_RANGE = rh (None: no header), BLOCK_SIZE patched to bs ->
    [status, Content-Range text | None, Content-Length text, body] | Err."""
    import webob.static as st
    d = os.path.join(T, "rt")
    os.makedirs(d, exist_ok=True)
    p = os.path.join(d, "f.bin")
    with open(p, "wb") as f:
        f.write(rangetext_content(spec))
    res = get_full(st.FileApp(p), blank("/x", "GET", rh), bs)
    if isinstance(res, fw.Err):
        return res
    stc, headers, body = res
    return [stc, hdr(headers, "Content-Range"), hdr(headers, "Content-Length") or "", body]


def rangetext_oracle(content, rh, obs):
    """The property on one observation: 200 = the file, 206 = the slice its own Content-Range names (and, for the strict
    RFC 7233 single-range spellings, the requested one), 416 = `bytes */len`; nothing else."""
    n = len(content)
    if isinstance(obs, fw.Err):
        return [("rangetext:raises", "FileApp GET Range=%r on %d bytes raised %s" % (rh, n, obs.name))]
    stc, cr, cl, body = obs
    if stc == 200:
        if body != content or cr is not None or cl != str(n):
            return [("rangetext:wrong-200", "GET Range=%r on %d bytes: 200 with body of %d bytes, Content-Range %r, Content-Length %r"
                     % (rh, n, len(body), cr, cl))]
        m = re.fullmatch(r"bytes=(\d{1,30})-(\d{0,30})", rh or "")
        if m and int(m.group(1)) < n and (not m.group(2) or int(m.group(1)) <= int(m.group(2))):
            return [("rangetext:satisfiable-range-ignored", "GET Range=%r on %d bytes answered 200" % (rh, n))]
        return []
    if stc == 206:
        pc = parse_cr(cr)
        if not isinstance(pc, list) or len(pc) != 3 or not (0 <= pc[0] < pc[1] <= n) or pc[2] != n:
            return [("rangetext:content-range-out-of-bounds", "GET Range=%r on %d bytes: 206 with Content-Range %r" % (rh, n, cr))]
        if body != content[pc[0]:pc[1]] or cl != str(pc[1] - pc[0]):
            return [("rangetext:wrong-slice", "GET Range=%r on %d bytes: Content-Range %r but body %r... (Content-Length %r)"
                     % (rh, n, cr, body[:20], cl))]
        m = re.fullmatch(r"bytes=(\d{0,30})-(\d{0,30})", rh or "")
        if m and (m.group(1) or m.group(2)):
            a, b = m.group(1), m.group(2)
            if a:
                want = (int(a), min(int(b) + 1, n) if b else n)
            else:
                want = (max(n - int(b), 0), n)
            if want != (pc[0], pc[1]):
                return [("rangetext:wrong-range", "GET Range=%r on %d bytes: served %d-%d, requested slice is %d-%d"
                         % (rh, n, pc[0], pc[1], want[0], want[1]))]
        return []
    if stc == 416:
        if cr != "bytes */%d" % n or content and len(content) > 3 and content in body:
            return [("rangetext:wrong-416", "GET Range=%r on %d bytes: 416 with Content-Range %r" % (rh, n, cr))]
        return []
    return [("rangetext:wrong-status", "GET Range=%r on %d bytes answered %r" % (rh, n, stc))]


def range_texts(rng, n, count):
    """Range header texts for a file of n bytes: valid, suffix, open-ended, multi-range, malformed, huge, whitespace variants."""
    near = [0, 1, 2, max(n - 2, 0), max(n - 1, 0), n, n + 1, n + 7, 2 * n + 3]
    out = [None, "", "bytes", "bytes=", "bytes=-", "bytes=-0", "bytes=0-", "bytes=0-0", "bytes=-1", "bytes=--1", "bytes=1--2",
           "bytes=a-b", "octets=0-1", " bytes=0-1", "bytes=0-1x", "bytes=0-1,", "bytes=0-0,1-1", "bytes=0-0, -1", "bytes=+0-1",
           "bytes=1_0-2_0", "bytes=0x1-2", "bytes=\xb2-3", "bytes=0-\xb9", "BYTES=0-1", "Bytes = 0 - 1 ", "bytes=0-1\n", "bytes=0-1\n\n",
           "bytes=0-1 \n", "bytes=\t0-1", "bytes=0-1\t", "bytes=0-1\r\n", "bytes =0-", "bytes= -1", "bytes=- 1", "bytes=0 -", "bytes  =  -  2  ",
           "bytes=00-01", "bytes=-00", "bytes=-01", "bytes=1-0", "bytes=2-1", "bytes=0-%d" % 10 ** 20, "bytes=%d-" % 10 ** 20,
           "bytes=-%d" % 10 ** 20, "bytes=%d-%d" % (10 ** 100, 10 ** 100 + 1), "bytes=0-0-0", "bytes=0", "bytes=-1-", "bytes==0-1",
           "bytes=0-1;q=1", "bytes:0-1", "bytes=0–1".encode("utf-8").decode("latin-1"), "bytEs=1-", "bytes=0-1\x0b", "\nbytes=0-1"]
    while len(out) < count:
        form = rng.choice(["fl", "fl", "fl", "open", "open", "suffix", "suffix", "ws", "multi", "junk", "zeros"])
        a, b = rng.choice(near), rng.choice(near)
        if form == "fl":
            if a > b and rng.random() < 0.8:
                a, b = b, a
            t = "bytes=%d-%d" % (a, b)
        elif form == "open":
            t = "bytes=%d-" % a
        elif form == "suffix":
            t = "bytes=-%d" % rng.choice(near + [1, 2, 3])
        elif form == "ws":
            sp = lambda: " " * rng.choice([0, 0, 1, 2])  # noqa
            t = rng.choice(["bytes", "BYTES", "Bytes", "bYTES"]) + sp() + "=" + sp() + rng.choice(["", str(a)]) + sp() + "-" + sp() + \
                rng.choice(["", str(b)]) + sp() + rng.choice(["", "", "\n", " \n", "\t"])
        elif form == "multi":
            t = "bytes=%d-%d,%s" % (a, b, rng.choice(["%d-" % b, "-%d" % a, "%d-%d" % (b, b + 1), " 0-0"]))
        elif form == "zeros":
            t = "bytes=%s%d-%s" % ("0" * rng.randrange(1, 5), a, rng.choice(["", "0" * rng.randrange(1, 4) + str(b)]))
        else:
            t = "".join(rng.choice(list("bytes=-0123456789 ,\n*/xB")) for _ in range(rng.randrange(0, 14)))
            if rng.random() < 0.5:
                t = "bytes=" + t
        out.append(t)
    return out


def corr_rangetext(ctx, T):
    from webob.byterange import ContentRange
    from webob.descriptors import parse_range
    rng = ctx.sub_rng("rangetext")
    # (a) real FileApp vs serve_range_text; BLOCK_SIZE patched to 8 (sizes 0, 1, 2, BLOCK_SIZE-1, BLOCK_SIZE, BLOCK_SIZE+1, random)
    cases, seen = [], set()
    sizes = [0, 1, 2, 7, 8, 9] + [rng.randrange(3, 40) for _ in range(ctx.scale(4, 12))]
    per = ctx.scale(520, 3000) // len(sizes) + 1
    plan = []
    for n in sizes:
        spec = ["hex", bytes(rng.randrange(256) for _ in range(n)).hex()]
        bs = 8 if n in (0, 1, 2, 7, 8, 9) else rng.choice([1, 3, 8, 16])
        for t in range_texts(rng, n, per):
            plan.append((spec, t, bs))
    # the real BLOCK_SIZE: files of BLOCK_SIZE-1, BLOCK_SIZE, BLOCK_SIZE+1 bytes (content built by the same formula on both sides)
    import webob.static as st
    B0 = st.BLOCK_SIZE
    if isinstance(B0, int) and 0 < B0 <= (1 << 17):
        for n in (B0 - 1, B0, B0 + 1):
            for t in ("bytes=%d-%d" % (B0 - 3, B0 + 5), "bytes=-3", "bytes=%d-" % (B0 - 2), "bytes=%d-" % (n - 1), "bytes=%d-" % n,
                      "bytes=0-0", "bytes=%d-%d" % (B0 - 1, B0 - 1), "bytes = %d - %d \n" % (B0, B0)):
                plan.append((["pat", n], t, None))
    # digit strings at the int() limit
    for t in ("bytes=%s-" % ("1" * 4300), "bytes=%s-" % ("1" * 4301), "bytes=-%s" % ("0" * 4300 + "1"), "bytes=0-%s" % ("9" * 4301),
              "bytes=%s1-" % ("0" * 4299), "bytes=%s-2" % ("0" * 4301)):
        plan.append((["hex", "0a0b0c0d"], t, 8))
    big = []
    for spec, t, bs in plan:
        key = (tuple(spec), t, bs)
        if key in seen:
            continue
        seen.add(key)
        obs = rangetext_run(T, spec, t, bs)
        if spec[0] == "pat":      # files of the real BLOCK_SIZE +-1: too large for Coq literals, checked by the oracle only
            big.append((None, obs, {"kind": "rangetext", "content": spec, "range": t, "bs": bs}))
            continue
        eff = bs if bs else B0
        lit = "(KFileIter %s [], %s, %s)" % (cZ(eff), rangetext_content_coq(spec), copt(None if t is None else cstr(t)))
        cases.append((lit, obs, {"kind": "rangetext", "content": spec, "range": t, "bs": bs}))
    bad = ctx.corr("serve-range-text", RT_IMPORTS, "(fun c : iter_kind * bytes * option str => let '(k, content, h) := c in "
                   "v_tresp (serve_range_text k content h))", cases, in_type="(iter_kind * bytes * option str)", shard=150)
    for i in bad[:6]:
        c = cases[i][2]
        msgs = rangetext_oracle(rangetext_content(c["content"]), c["range"], cases[i][1])
        if msgs:
            for key, msg in msgs:
                ctx.fail(key, msg, c, True, "corr")
        else:
            ctx.broken.append("correspondence serve-range-text: model and implementation disagree on %s (implementation gave %r)"
                              % (json.dumps(c)[:300], cases[i][1] if isinstance(cases[i][1], fw.Err) else cases[i][1][:3]))
    # the property on every observation of (a), independently of the model
    nt = 0
    for lit, obs, c in cases + big:
        msgs = rangetext_oracle(rangetext_content(c["content"]), c["range"], obs)
        nt += (not isinstance(obs, fw.Err)) and obs[0] in (206, 416)
        for key, msg in msgs:
            ctx.fail(key, msg, c, True, "rangetext")
    ctx.oracle_count("rangetext", len(cases) + len(big), nt)

    # (b) descriptors.parse_range (req.range) vs req_range: [start, end, str(range)]
    cases, seen = [], set()
    for t in range_texts(rng, rng.choice([0, 5, 10]), ctx.scale(420, 2500)):
        if t is None or t in seen:
            continue
        seen.add(t)
        r = fw.catch(parse_range, t)
        if r is not None and not isinstance(r, fw.Err):
            r = [r.start, r.end, str(r)]
        cases.append((cstr(t), r, {"range_text": t}))
    bad = ctx.corr("req-range", RT_IMPORTS, "(fun h : str => v_req_range (req_range (Some h)))", cases, in_type="str")
    for i in bad[:5]:
        ctx.broken.append("model of descriptors.parse_range/Range.parse/Range.__str__ disagrees with the implementation on %r "
                          "(implementation %r)" % (cases[i][2], cases[i][1]))

    # (c) ContentRange.parse vs cr_parse; str(ContentRange(...)) read back
    cases, seen = [], set()
    texts = ["", "bytes", "bytes ", "bytes */*", "bytes */0", "bytes */10", "bytes 0-0/1", "bytes 0-0/*", "bytes 0-9/10", "bytes 0-10/10",
             "bytes 5-4/10", "bytes 5-5/5", "bytes 0-0/0", "Bytes 0-0/1", "bytes  0-0/1", "bytes 0-0/1 trailing", "bytes 0-0/1x", "bytes */1*",
             "bytes 0-/1", "bytes -1/1", "bytes *-1/2", "bytes 0-1/", "bytes 0-1", "bytes 0 - 1/2", "bytes=0-1/2", "bytes */", "bytes *",
             "bytes 00-01/002", "bytes 1-2/3\n", " bytes 1-2/3", "bytes 1-2/3/4", "bytes 1-2//3", "bytes \xb2-3/4", "bytes 10-20/15",
             "bytes %d-%d/%d" % (10 ** 20, 10 ** 20 + 1, 10 ** 21)]
    for _ in range(ctx.scale(120, 800)):
        a, b, ln = rng.randrange(0, 30), rng.randrange(0, 30), rng.randrange(0, 30)
        texts.append("bytes %d-%d/%s" % (a, b, rng.choice([str(ln), "*"])))
        if a < b:
            texts.append(str(ContentRange(a, b, rng.choice([None, max(ln, b), ln if ln > a else a + 1]))))
    for _ in range(ctx.scale(160, 800)):
        t = "".join(rng.choice(list("bytes -*/0123456789x")) for _ in range(rng.randrange(0, 9)))
        texts.append(rng.choice(["bytes ", "bytes ", "bytes */", "bytes 1-2/", ""]) + t)
    for t in texts:
        if t in seen:
            continue
        seen.add(t)
        r = fw.catch(ContentRange.parse, t)
        if r is not None and not isinstance(r, fw.Err):
            r = [r.start, r.stop, r.length]
        cases.append((cstr(t), r, {"content_range_text": t}))
    bad = ctx.corr("content-range-parse", RT_IMPORTS, "(fun v : str => v_cr (cr_parse v))", cases, in_type="str")
    for i in bad[:5]:
        ctx.broken.append("model of ContentRange.parse disagrees with the implementation on %r (implementation %r)"
                          % (cases[i][2], cases[i][1]))


# --------------------------------------------------------------------------- what is modelled (not verified) / only exercised
# every implementation object the Gallina model (coq/Model/C17_path.v, C17_static.v) mirrors by hand
MODELLED = [
    "webob.static:DirectoryApp.__init__",            # dirapp_root (abspath + trailing separator)
    "webob.static:DirectoryApp.__call__.func",       # dirapp_call
    "webob.static:DirectoryApp.index",               # dirapp_index
    "webob.static:DirectoryApp.make_fileapp",        # DServe p  ->  fileapp (fs p)
    "webob.static:FileApp.__call__.func",            # fileapp: method test, os.stat, open, wrapper / FileIter, Response(...)
    "webob.static:FileIter.app_iter_range",          # fileiter, fileiter_loop, read_size
    "webob.response:Response.conditional_response_app",   # fileapp: Range branch, 416 / 206 / 200, HEAD
    "webob.response:Response.app_iter_range",        # range_iter
    "webob.response:AppIterRange.__init__", "webob.response:AppIterRange._skip_start", "webob.response:AppIterRange.next",   # air
    "webob.response:EmptyResponse",                  # HEAD: body = []
    "webob.byterange:Range.range_for_length", "webob.byterange:Range.content_range",      # range_for_length
    "webob.byterange:_is_content_range_valid",       # cr_valid
    # the Range header TEXT layer, Model/C17_rangetext.v over C06's Model/C06_ByteRange.v (correspondences serve-range-text,
    # req-range, content-range-parse)
    "webob.descriptors:parse_range",                 # req_range
    "webob.byterange:Range.parse", "webob.byterange:_rx_range", "webob.byterange:Range.__str__",   # range_parse, match_range, range_str
    "webob.byterange:ContentRange.__init__", "webob.byterange:ContentRange.__str__",               # mk_content_range, content_range_str
    "webob.byterange:ContentRange.parse", "webob.byterange:_rx_content_range",                     # cr_parse, match_content_range
]
# CPython functions mirrored by coq/Model/C17_path.v (isabs, pjoin, normpath, abspath).  posixpath is a frozen module, so
# inspect cannot show its source and ctx.modelled() would only hash the function's repr: recorded by stdlib_modelled() instead.
MODELLED_STDLIB = ["posixpath:isabs", "posixpath:join", "posixpath:normpath", "posixpath:abspath"]
REGENERATED = []          # nothing is translated from the source for C17 (coq/Gen/C17_trees_* holds generated test trees only)
# implementation objects that only the oracle / the correspondence adaptors run through (their results are inputs of the model
# or are compared as text by the oracle)
ORACLE_ONLY = [
    "webob.static:FileApp.__init__", "webob.static:FileIter.__init__", "webob.static:BLOCK_SIZE",
    "webob.request:BaseRequest.blank", "webob.request:environ_from_url", "webob.request:BaseRequest.path_info",
    "webob.request:BaseRequest.path_url", "webob.request:BaseRequest.query_string", "webob.request:BaseRequest.range",
    "webob.request:BaseRequest.get_response", "webob.request:BaseRequest.call_application",
    "webob.dec:wsgify.__call__", "webob.dec:wsgify.__get__",
    "webob.exc:HTTPForbidden", "webob.exc:HTTPNotFound", "webob.exc:HTTPMethodNotAllowed", "webob.exc:WSGIHTTPException.__call__",
    "webob.response:Response.__init__", "webob.response:Response.body", "webob.response:filter_headers",
    "webob.response:Response._abs_headerlist", "webob.response:iter_close",
]


# --------------------------------------------------------------------------- the check
def report_corr(ctx, name, bad, cases, T, mat):
    """A model/implementation disagreement: run the property oracle on it."""
    for i in bad[:6]:
        case = cases[i][2]
        msgs = oracle_case(ctx, T, mat, case) if case.get("kind") else []
        if not msgs and case.get("kind") == "dirapp" and "alt_outside" not in case:
            # the disagreement may only show as a dependence on the world outside the root
            inside = [e for e in case["tree"] if e[0].startswith(ROOT_REL + "/")]
            for alt in ([], outside_variant(None, "rich2")):
                c2 = dict(case, alt_outside=alt, inside=inside)
                msgs = oracle_case(ctx, T, mat, c2)
                if msgs:
                    case = c2
                    break
        if msgs:
            for key, msg in msgs:
                ctx.fail(key, msg, case, True, "corr")
        else:
            ctx.broken.append("correspondence %s: model and implementation disagree on %s (implementation gave %r)"
                              % (name, json.dumps(case)[:700], cases[i][1]))


def write_trees(ctx, T, tree_lits):
    """coq/Gen/C17_trees_<scratch name>.v : Definition c17_trees := [<file systems of the generated trees>], compiled here
    and removed after the two correspondences that use it."""
    import fcntl
    import subprocess
    name = "C17_trees_" + re.sub(r"\W", "_", os.path.basename(T))
    base = os.path.join(fw.COQ, "Gen", name)
    os.makedirs(os.path.dirname(base), exist_ok=True)
    with open(base + ".v", "w") as f:
        f.write("(* scratch file written by harness/props/c17.py; removed at the end of the run *)\n"
                "From Coq Require Import ZArith NArith List Bool String.\n"
                "Require Import Webob.Lib.Val Webob.Model.C17_path Webob.Model.C17_static.\n"
                "Import ListNotations.\nLocal Open Scope string_scope.\n"
                "Definition c17_trees : list (list (str * node)) := %s.\n" % clist(tree_lits))
    with open(os.path.join(fw.BUILD, "coq.lock"), "w") as lk:
        fcntl.flock(lk, fcntl.LOCK_EX)
        p = subprocess.run(["timeout", "900", "coqc", "-Q", fw.COQ, "Webob", "-w", "-all", base + ".v"],
                           capture_output=True, text=True, cwd=fw.COQ)
    if p.returncode != 0:
        ctx.broken.append("scratch tree file did not compile: " + (p.stderr or p.stdout)[-400:])
    files = [base + e for e in (".v", ".vo", ".vok", ".vos", ".glob")] + \
        [os.path.join(fw.COQ, "Gen", "." + name + ".aux")]
    return "Webob.Gen." + name, files


def coqchk(ctx):
    """Thorough tier: re-check the compiled closure of Props/C17.vo with the stand-alone checker."""
    import fcntl
    import subprocess
    with open(os.path.join(fw.BUILD, "coq.lock"), "w") as lk:
        fcntl.flock(lk, fcntl.LOCK_EX)
        p = subprocess.run(["timeout", "1200", "coqchk", "-silent", "-o", "-Q", fw.COQ, "Webob", "Webob.Props.C17"],
                           capture_output=True, text=True)
    out = p.stdout + p.stderr
    ok = p.returncode == 0 and "Axioms: <none>" in out
    ctx.note("coqchk -o Webob.Props.C17: %s" % ("ok, Axioms: <none>" if ok else "FAILED: " + out[-400:]))
    if not ok:
        ctx.broken.append("coqchk rejected Props/C17.vo: " + out[-400:])


def confirm_replays(ctx):
    """A failure seen on a long-lived object or after other work in this process may not reproduce from its single-request
    record.  Re-run every recorded failing case in a FRESH process; when some reproduce, keep those (the history:* records
    carry the whole sequence) and drop the records that do not, so that every reported replay fails on the real code."""
    import subprocess
    import sys
    import tempfile
    vs = [v for v in ctx.violations if v.get("found_input") and isinstance(v.get("case"), dict) and v["case"].get("kind")]
    if not vs:
        return
    main = os.path.join(fw.ROOT, "harness", "main.py")
    repro = {}
    for v in vs:
        with tempfile.NamedTemporaryFile("w", suffix=".json", delete=False) as f:
            json.dump({"case": v["case"]}, f, default=str)
        try:
            p = subprocess.run([sys.executable, "-B", main, ctx.prop, "--replay", f.name], capture_output=True, text=True,
                               timeout=600, env=dict(os.environ))
            repro[id(v)] = p.returncode == 1
        except Exception:  # noqa
            repro[id(v)] = True
        finally:
            os.unlink(f.name)
    lost = [v for v in vs if not repro[id(v)]]
    if lost and len(lost) < len(vs):
        ctx.violations[:] = [v for v in ctx.violations if v not in lost]
        ctx.note("failing observations made only after earlier requests in the same process/on the same object (their single-request "
                 "record passes in a fresh process; represented by the reproducing records): "
                 + ", ".join("%s x%d" % (v["key"], v["count"]) for v in lost))
    elif lost:
        for v in lost:
            v["what"] += "  [seen only after earlier work in the same process; this single-request record passes in a fresh process]"


def stdlib_modelled():
    """file, line range and source hash of the posixpath functions the path model mirrors (read from posixpath.py with ast;
    normpath has a pure-Python definition and, in 3.12, a wrapper around posix._path_normpath: both are recorded)."""
    import ast
    import posixpath
    import sys
    out = []
    try:
        text = open(posixpath.__file__).read()
        tree = ast.parse(text)
    except (OSError, SyntaxError) as e:
        return [{"object": x, "error": "%s: %s" % (type(e).__name__, e)} for x in MODELLED_STDLIB]
    lines = text.split("\n")
    for spec in MODELLED_STDLIB:
        name = spec.split(":")[1]
        defs = [n for n in ast.walk(tree) if isinstance(n, ast.FunctionDef) and n.name == name]
        if not defs:
            out.append({"object": spec, "error": "not found in %s" % posixpath.__file__})
        for n in defs:
            src = "\n".join(lines[n.lineno - 1:n.end_lineno])
            out.append({"object": spec, "file": posixpath.__file__, "python": sys.version.split()[0], "lines": [n.lineno, n.end_lineno],
                        "sha1": hashlib.sha1(src.encode()).hexdigest()[:12],
                        "in_use": getattr(posixpath, name).__code__.co_firstlineno == n.lineno})
    return out


def run(ctx):
    ctx.modelled(MODELLED)
    ctx.extra["modelled_stdlib"] = stdlib_modelled()
    for r in ctx.extra["modelled_stdlib"]:
        if "error" in r:
            ctx.broken.append("modelled stdlib object %s: %s" % (r["object"], r["error"]))
    ctx.extra["regenerated_from_source"] = REGENERATED
    ctx.extra["oracle_only"] = ORACLE_ONLY
    ctx.build(["Props/C17.vo"])
    if ctx.thorough and getattr(ctx, "build_ok", False):
        coqchk(ctx)
    install_shim()
    T = scratch(ctx)
    mat = Mat(T)
    try:
        _run(ctx, T, mat)
    finally:
        file_case._cur = None
        shutil.rmtree(T, ignore_errors=True)
        globals()["_T"] = None
    confirm_replays(ctx)


def path_strings(rng, n):
    alpha = ["/", "/", "/", ".", ".", "a", "b", "\\", "é", " "]
    out = ["", "/", "//", "///", "////a", ".", "..", "/..", "/../..", "//..", "//../a", "a/..", "a/../..", "../a", "./a/", "/a/./b/../c/",
           "//a//b//", "/a/b/../../..", "a/b/../../../c", "...", "/.../..", "/..a/..", "/a/..b"]
    for _ in range(n):
        out.append("".join(rng.choice(alpha) for _ in range(rng.randrange(0, 12))))
    for _ in range(n // 2):
        segs = [rng.choice(["", ".", "..", "a", "b", "...", "..a", "a.", "\\"]) for _ in range(rng.randrange(0, 7))]
        out.append(rng.choice(["", "/", "//", "///"]) + "/".join(segs))
    return out


def _run(ctx, T, mat):
    import webob.static as st
    from webob.byterange import Range

    # ------------------------------------------------------------------ correspondence 1: os.path
    rng = ctx.sub_rng("path")
    ps = path_strings(rng, ctx.scale(300, 3000))
    cases = [(cstr(s), os.path.normpath(s), {"fn": "normpath", "s": s}) for s in ps]
    bad = ctx.corr("normpath", IMPORTS, "(fun s => VStr (normpath s))", cases, in_type="str")
    for i in bad[:5]:
        ctx.broken.append("model of os.path.normpath disagrees with CPython on %r" % cases[i][2]["s"])
    cases = []
    for _ in range(ctx.scale(300, 3000)):
        a, b = rng.choice(ps), rng.choice(ps)
        cases.append((cpair(cstr(a), cstr(b)), os.path.join(a, b), {"fn": "join", "a": a, "b": b}))
    bad = ctx.corr("join", IMPORTS, "(fun c => VStr (pjoin (fst c) (snd c)))", cases, in_type="(str * str)")
    for i in bad[:5]:
        ctx.broken.append("model of os.path.join disagrees with CPython on %r" % (cases[i][2],))
    mat.build(full_tree(fixed_tree(), outside_variant(rng, "rich")))
    old = os.getcwd()
    cases = []
    try:
        for cwd_rel in ("base", "base/root/sub", ""):
            cwd = os.path.join(T, cwd_rel) if cwd_rel else T
            os.chdir(cwd)
            for s in rng.sample(ps, ctx.scale(120, 1200)):
                cases.append((cpair(cstr(cwd), cstr(s)), os.path.abspath(s), {"fn": "abspath", "cwd": cwd, "s": s}))
    finally:
        os.chdir(old)
    bad = ctx.corr("abspath", IMPORTS, "(fun c => VStr (abspath (fst c) (snd c)))", cases, in_type="(str * str)")
    for i in bad[:5]:
        ctx.broken.append("model of os.path.abspath disagrees with CPython on %r" % (cases[i][2],))

    # ------------------------------------------------------------------ correspondence 2: DirectoryApp.__init__
    # "{T}" stands for the scratch directory (replays run in another one)
    spellings = ["root", "./root", "root/", "root//", "../base/root", "root/sub/..", "{T}/base/root", "{T}/base/root/",
                 "{T}//base/./root", "root/./", "root/empty/../", ".//root", "root2/../root", "root/sub/../../root"]
    cases = []
    os.chdir(os.path.join(T, "base"))
    try:
        for s in spellings:
            try:
                p = st.DirectoryApp(s.replace("{T}", T)).path
            except Exception as e:  # noqa
                p = fw.Err(type(e).__name__)
            cases.append((cpair(cstr(os.path.join(T, "base")), cstr(s.replace("{T}", T))), p, {"kind": "root", "spelling": s}))
    finally:
        os.chdir(old)
    bad = ctx.corr("dirapp-root", IMPORTS, "(fun c => VStr (dirapp_root (fst c) (snd c)))", cases, in_type="(str * str)")
    report_corr(ctx, "dirapp-root", bad, cases, T, mat)
    n_root = 0
    for s in spellings:
        m = check_root(T, mat, s)
        n_root += 1
        if m:
            ctx.fail(m[0], m[1], {"kind": "root", "spelling": s}, True, "root")
    ctx.oracle_count("root", n_root, n_root)

    # ------------------------------------------------------------------ trees
    rng = ctx.sub_rng("trees")
    ntrees = ctx.scale(14, 60)
    insides = [fixed_tree()] + [gen_inside(rng) for _ in range(ntrees - 1)]
    rich = outside_variant(rng, "rich")
    rich2 = outside_variant(rng, "rich2")
    root_lit = cstr(T + "/" + ROOT_REL + "/")

    # ------------------------------------------------------------------ correspondence 3+4: dirapp_call and serve
    rng = ctx.sub_rng("dirapp")
    per_tree = ctx.scale(45, 120)
    dcases, scases, tree_lits = [], [], []
    for ti, inside in enumerate(insides):
        tree = full_tree(inside, rich if ti % 2 == 0 else rich2)
        mat.build(tree)
        tree_lits.append(cfs(T, tree))
        names = names_of(tree)
        fixed_urls = ["/", "", "/..", "/../", "/%2e%2e/", "/../root2/", "/../root/", "/../root", "/index.html", "/index.html/",
                      "/sub", "/sub/", "/../../", "/../index.html", "/../other", "/../nope"] if ti < 3 else []
        apps = {}                       # ONE DirectoryApp per (tree, settings) serves all of that tree's cases
        for j in range(per_tree):
            idx, hide = rng.choice(CFGS)
            url = fixed_urls[j] if j < len(fixed_urls) else rand_url(rng, names)
            if (idx, hide) not in apps:
                o_ = rand_opt(rng)
                a_, err = try_dirapp(T, idx, hide, o_)
                if err:
                    ctx.fail(err[0], err[1], case_dir(tree, idx, hide, "/", opt=o_), True, "corr")
                apps[(idx, hide)] = (o_, a_)
            opt, app = apps[(idx, hide)]
            if app is None:
                continue
            req = blank(url, env=opt["env"])
            try:
                pi, purl, qs = req.path_info, req.path_url, req.query_string
            except UnicodeDecodeError:
                continue
            d = decide(app, req)
            lit = "(%d%%nat, %s, %s, %s)" % (ti, cidx(idx), cbool(hide), cdreq(pi, purl, qs))
            dcases.append((lit, d, case_dir(tree, idx, hide, url, opt=opt)))
            if j % 3 == 0:
                # end to end, with a method / Range / iterator kind
                meth = rng.choice(["GET", "GET", "GET", "HEAD", "POST"])
                rh, rp = None, None
                if rng.random() < 0.4:
                    form = rng.choice(RANGE_FORMS)
                    a, b = rng.randrange(0, 10), rng.randrange(0, 12)
                    if form == "first-last" and a > b:
                        a, b = b, a
                    rh = range_header(form, a, b)
                    r = Range.parse(rh)
                    rp = None if r is None else (r.start, r.end)
                if rng.random() < 0.5:
                    bs, wr = rng.choice([1, 2, 3, 4, 8, 65536]), None
                    kind = ("fi", bs, [])
                else:
                    wr = [rng.randrange(0, 5) for _ in range(rng.randrange(0, 4))]
                    kind, bs = ("wr", wr), None
                res = get_full(app, blank(url, meth, rh, wr, env=opt["env"]), bs)
                if isinstance(res, fw.Err):
                    obs = res
                else:
                    stc, headers, body = res
                    cl = hdr(headers, "Content-Length")
                    obs = [stc, hdr(headers, "Location"), int(cl) if stc in (200, 206) and cl is not None else None,
                           parse_cr(hdr(headers, "Content-Range")), d[1] if isinstance(d, list) and d[0] == 404 else "",
                           body if stc in (200, 206) else b""]
                # the served file's content is needed by chunk_by: resolve it in the model through CONTENT := body of a plain GET
                flit = "(fun CONTENT : bytes => mkFreq %s %s %s)" % (cstr(meth), crange(rp), ckind(kind))
                lit2 = "(%d%%nat, %s, %s, %s, %s)" % (ti, cidx(idx), cbool(hide), cdreq(pi, purl, qs), flit)
                scases.append((lit2, obs, dict(case_dir(tree, idx, hide, url, opt=opt), method=meth, range=rh, bs=bs, wrapper=wr)))
    # the generated trees are compiled once (Coq parses big literals slowly) into a scratch Gen file
    tmod, tfiles = write_trees(ctx, T, tree_lits)
    try:
        fn = ("(fun c : nat * option str * bool * dreq => let '(ti, idx, hide, rq) := c in "
              "v_dres (dirapp_call %s idx hide (fs_of (nth ti c17_trees [])) rq))" % root_lit)
        bad = ctx.corr("dirapp-call", IMPORTS + [tmod], fn, dcases, in_type="(nat * option str * bool * dreq)", shard=250)
        report_corr(ctx, "dirapp-call", bad, dcases, T, mat)
        # serve: a KWrapper's chunks are chunk_by sizes (content of the file that is served), computed inside the model
        fn = ("(fun c : nat * option str * bool * dreq * (bytes -> freq) => let '(ti, idx, hide, rq, fq) := c in "
              "let fs := fs_of (nth ti c17_trees []) in "
              "let content := match dirapp_call %s idx hide fs rq with DServe p => match fs p with File _ b => b | _ => [] end | _ => [] end in "
              "v_resp (serve %s idx hide fs rq (fq content)))" % (root_lit, root_lit))
        bad = ctx.corr("serve", IMPORTS + [tmod], fn, scases, in_type="(nat * option str * bool * dreq * (bytes -> freq))", shard=250)
        report_corr(ctx, "serve", bad, scases, T, mat)
    finally:
        for f in tfiles:
            try:
                os.remove(f)
            except OSError:
                pass

    # ------------------------------------------------------------------ correspondence 5: FileApp on single files
    rng = ctx.sub_rng("fileapp")
    cases = []
    fdir = os.path.join(T, "fa")
    os.makedirs(fdir, exist_ok=True)
    for ci in range(ctx.scale(400, 3000)):
        nk = rng.choice(["file"] * 8 + ["noent", "dir", "unreadable", "through-file", "too-long", "dangling", "loop"])
        content = bytes(rng.randrange(256) for _ in range(rng.choice([0, 1, 2, 3, 4, 5, 7, 8, 9, 12, 16, 17])))
        meth = rng.choice(["GET"] * 5 + ["HEAD", "HEAD", "POST", "get", "PUT", ""])
        rh, rp = None, None
        if rng.random() < 0.7:
            form = rng.choice(RANGE_FORMS)
            a, b = rng.randrange(0, 20), rng.randrange(0, 22)
            if form == "first-last" and a > b and rng.random() < 0.8:
                a, b = b, a
            rh = range_header(form, a, b)
            r = Range.parse(rh)
            rp = None if r is None else (r.start, r.end)
        caps = []
        if rng.random() < 0.5:
            caps = [rng.randrange(0, 4) for _ in range(rng.randrange(0, 5))] if rng.random() < 0.5 else []
            bs, wr = rng.choice([1, 2, 3, 4, 5, 8, 16, 17]), None
            kind = ("fi", bs, caps)
        else:
            wr = [rng.randrange(0, 6) for _ in range(rng.randrange(0, 5))]
            kind, bs = ("wr", wr), None
        p = os.path.join(fdir, "f%d" % (ci % 7))
        if os.path.islink(p):
            os.unlink(p)
        elif os.path.isdir(p):
            os.rmdir(p)
        elif os.path.exists(p):
            os.unlink(p)
        _UNREADABLE.discard(p)
        target = p
        if nk == "dir":
            os.mkdir(p)
            node = ("d",)
        elif nk == "noent":
            node = None
        elif nk == "through-file":               # os.stat: ENOTDIR
            with open(p, "wb") as f:
                f.write(content)
            target, node = p + "/child.txt", None
        elif nk == "too-long":                   # os.stat: ENAMETOOLONG
            target, node = os.path.join(fdir, "y" * rng.choice([256, 300, 5000])), None
        elif nk == "dangling":                   # os.stat: ENOENT through a symlink
            os.symlink(p + ".gone", p)
            node = None
        elif nk == "loop":                       # os.stat: ELOOP
            os.symlink(p, p)
            node = None
        else:
            with open(p, "wb") as f:
                f.write(content)
            node = ("f", content, nk != "unreadable")
            if nk == "unreadable":
                _UNREADABLE.add(p)
        app = st.FileApp(target)
        if caps:
            app._open = (lambda caps_: lambda fn, mode: ShortReader(_shim_open(fn, mode), caps_))(list(caps))
        res = get_full(app, blank("/x", meth, rh, wr), bs)
        if isinstance(res, fw.Err):
            obs = res
        else:
            stc, headers, body = res
            cl = hdr(headers, "Content-Length")
            obs = [stc, hdr(headers, "Location"), int(cl) if stc in (200, 206) and cl is not None else None,
                   parse_cr(hdr(headers, "Content-Range")), "", body if stc in (200, 206) else b""]
        lit = "(%s, (let CONTENT := %s in mkFreq %s %s %s))" % (cnode(node), cstr(content), cstr(meth), crange(rp), ckind(kind))
        case = {"kind": "fileapp", "content": content.hex(), "method": meth, "range": rh, "bs": bs, "wrapper": wr, "caps": caps,
                "node": nk}
        if nk != "file" or meth not in ("GET", "HEAD"):
            case = {"kind": "fileapp-missing", "node": nk, "method": meth}
        cases.append((lit, obs, case))
    bad = ctx.corr("fileapp", IMPORTS, "(fun c => v_resp (fileapp (fst c) (snd c)))", cases, in_type="(node * freq)")
    report_corr(ctx, "fileapp", bad, cases, T, mat)

    # ------------------------------------------------------------------ correspondence 6: FileIter, AppIterRange, range_for_length
    rng = ctx.sub_rng("iters")
    cases = []
    for _ in range(ctx.scale(500, 4000)):
        content = bytes(rng.randrange(256) for _ in range(rng.randrange(0, 14)))
        seek = rng.choice([None, 0, 0, 1, 2, 3, 5, 8, 13, 20])
        limit = rng.choice([None, None, 0, 1, 2, 3, 5, 8, 13, 20])
        bs = rng.choice([None, 1, 2, 3, 4, 7, 8, 16])
        caps = [rng.randrange(0, 4) for _ in range(rng.randrange(0, 5))] if rng.random() < 0.5 else []
        patched = rng.choice([2, 5])
        out = with_block_size(patched, lambda: run_fileiter(content, seek, limit, bs, caps))[0]
        eff = bs if bs is not None else patched
        lit = "(%s, %s, %s, %s, %s)" % (cZ(seek or 0), copt(None if limit is None else cZ(limit)), cZ(eff), cstr(content),
                                       clist(cnat(c) for c in caps))
        cases.append((lit, out, {"kind": "fileiter", "content": content.hex(), "seek": seek, "limit": limit, "bs": eff, "caps": caps}))
    bad = ctx.corr("fileiter", IMPORTS, "(fun c : Z * option Z * Z * bytes * list nat => let '(seek, limit, bs, content, caps) := c in "
                   "v_chunks (fileiter seek limit bs content caps))", cases, in_type="(Z * option Z * Z * bytes * list nat)")
    for i in bad[:6]:
        c = cases[i][2]
        ok_domain = (c["limit"] is None or (c["seek"] or 0) <= c["limit"])
        m = check_fileiter(bytes.fromhex(c["content"]), c["seek"], c["limit"], c["bs"], c["caps"]) if ok_domain else None
        if m:
            ctx.fail(m[0], m[1], c, True, "corr")
        else:
            ctx.broken.append("correspondence fileiter: model and implementation disagree on %s (implementation %r)"
                              % (json.dumps(c), cases[i][1]))
    cases = []
    for _ in range(ctx.scale(500, 4000)):
        chunks = [bytes(rng.randrange(256) for _ in range(rng.choice([0, 0, 1, 1, 2, 3, 5]))) for _ in range(rng.randrange(0, 7))]
        start = rng.randrange(0, 14)
        stop = start + rng.randrange(0, 10)
        out = run_air(chunks, start, stop)
        lit = "(%s, %s, %s)" % (clist(cstr(c) for c in chunks), cnat(start), cnat(stop))
        cases.append((lit, out, {"kind": "air", "chunks": [c.hex() for c in chunks], "start": start, "stop": stop}))
    bad = ctx.corr("air", IMPORTS, "(fun c : list bytes * nat * nat => let '(chunks, start, stop) := c in "
                   "VList (map VStr (air chunks start stop)))", cases, in_type="(list bytes * nat * nat)")
    for i in bad[:6]:
        c = cases[i][2]
        m = check_air([bytes.fromhex(x) for x in c["chunks"]], c["start"], c["stop"]) if c["start"] < c["stop"] else None
        if m:
            ctx.fail(m[0], m[1], c, True, "corr")
        else:
            ctx.broken.append("correspondence air: model and implementation disagree on %s (implementation %r)"
                              % (json.dumps(c), cases[i][1]))
    cases = []
    for s in range(-12, 13):
        for e in [None] + list(range(0, 13)):
            if e is not None and s < 0:
                continue
            for ln in (0, 1, 5, 10, 11):
                r = Range(s, e).range_for_length(ln)
                cases.append(("(%s, %s, %s)" % (cZ(s), copt(None if e is None else cZ(e)), cZ(ln)),
                              None if r is None else list(r), {"range": [s, e], "length": ln}))
    bad = ctx.corr("range-for-length", IMPORTS, "(fun c : Z * option Z * Z => let '(s, e, l) := c in v_range (range_for_length s e l))",
                   cases, in_type="(Z * option Z * Z)")
    for i in bad[:5]:
        ctx.broken.append("model of Range.range_for_length disagrees with the implementation on %r (implementation %r)"
                          % (cases[i][2], cases[i][1]))

    # ------------------------------------------------------------------ correspondence 7: the Range header text layer
    corr_rangetext(ctx, T)

    # ------------------------------------------------------------------ oracle A+B: containment, exact bytes, non-interference
    rng = ctx.sub_rng("oracle-dir")
    depth = ctx.scale(3, 4)
    nA = nontrivA = 0
    ex_urls = []
    for d in range(0, depth + 1):
        for segs in itertools.product(CORE if d <= 3 else CORE4, repeat=d):
            ex_urls.append("/" + "/".join(segs))
            if d:
                ex_urls.append("/" + "/".join(segs) + "/")
    variants = [("rich", rich), ("rich2", rich2), ("empty", [])]
    for ti, inside in enumerate(insides):
        names = names_of(full_tree(inside, rich2))
        rurls = EXTRA_URLS + [rand_url(rng, names) for _ in range(ctx.scale(400, 1500))]
        # (settings, how the app is built and reached, urls)
        if ti == 0:
            plan = [(c, ({} if k % 2 == 0 else rand_opt(rng)), ex_urls + rurls) for k, c in enumerate(CFGS)]
            plan += [(c, rand_opt(rng), rurls[:ctx.scale(150, 600)]) for c in CFGS_OUT]
        else:
            plan = [(CFGS[ti % len(CFGS)], rand_opt(rng), rurls), (CFGS[(ti * 3 + 1) % len(CFGS)], rand_opt(rng), rurls)]
        v1, v2 = variants[ti % 3], variants[(ti + 1) % 3]
        mat.build(full_tree(inside, v1[1]))
        first = {}
        for pi_, ((idx, hide), opt, urls) in enumerate(plan):
            app, err = try_dirapp(T, idx, hide, opt)
            if err:
                ctx.fail(err[0], err[1], case_dir(mat.current, idx, hide, "/", opt=opt), True, "dirapp")
                for url in urls:
                    first[(pi_, url)] = None
                continue
            for url in urls:
                m, res = check_dir_request(T, mat.current, idx, hide, url, app, opt)
                nA += 1
                if res is not None and not isinstance(res, fw.Err) and res[0] in (200, 301):
                    nontrivA += 1
                if m:
                    ctx.fail(m[0], m[1], case_dir(mat.current, idx, hide, url, opt=opt), True, "dirapp")
                first[(pi_, url)] = res
            if ti < 3:
                # every method on targets that can be stat'ed but not opened, and on everything else the tree holds
                for e in mat.current:
                    if not e[0].startswith(ROOT_REL + "/"):
                        continue
                    u = urllib.parse.quote(e[0][len(ROOT_REL):])
                    for meth in ("GET", "HEAD", "POST", "OPTIONS"):
                        for rh, wr in ((None, None), ("bytes=0-0", None), (None, [1]), ("bytes=-1", [2])):
                            nA += 1
                            mm = check_dir_method(T, mat.current, idx, hide, u, meth, rh, wr, app, opt)
                            if mm:
                                ctx.fail(mm[0], mm[1], dict(case_dir(mat.current, idx, hide, u, opt=opt), kind="dirapp-method",
                                                            method=meth, range=rh, wrapper=wr), True, "dirapp")
        t1 = mat.current
        mat.swap_outside(inside, v2[1])
        for pi_, ((idx, hide), opt, urls) in enumerate(plan):
            app, err = try_dirapp(T, idx, hide, opt)
            if err:
                continue
            for url in urls:
                m, res = check_dir_request(T, mat.current, idx, hide, url, app, opt)
                nA += 1
                if m:
                    ctx.fail(m[0], m[1], case_dir(mat.current, idx, hide, url, opt=opt), True, "dirapp")
                dd = nonint_diff(url, first[(pi_, url)], res)
                if dd:
                    ctx.fail(dd[0], dd[1], case_dir(t1, idx, hide, url, v2[1], inside, opt=opt), True, "noninterference")
    ctx.oracle_count("dirapp", nA, nontrivA)
    ctx.oracle_count("noninterference", nA // 2, nontrivA)

    # ------------------------------------------------------------------ oracle C: FileApp, methods and ranges
    rng = ctx.sub_rng("oracle-file")
    nC = 0
    for m in check_fileapp_missing(T):
        ctx.fail(m[0], m[1], {"kind": "fileapp-missing"}, True, "fileapp")
    nC += check_fileapp_missing.count
    sizes = [0, 1, 2, 3, 4, 5, 7, 8, 9, 10]
    bss = [1, 2, 3, 4, 8, 9]
    for n in sizes:
        content = bytes((i * 37 + 11) % 256 for i in range(n))
        for bs, wr in [(b, None) for b in bss] + [(None, []), (None, [1, 1]), (None, [0, 3, 0, 2]), (None, [n]), (None, [n + 1])]:
            m = check_fileapp_methods(T, content, bs, wr)
            nC += 8
            if m:
                ctx.fail(m[0], m[1], {"kind": "fileapp", "methods": True, "content": content.hex(), "bs": bs, "wrapper": wr}, True, "fileapp")
            for form in RANGE_FORMS:
                for a in range(0, n + 3):
                    for b in (range(0, n + 3) if form == "first-last" else [0]):
                        rh = range_header(form, a, b)
                        exp = rfc_slice(form, a, b, n)
                        shape = [None, "pathlib", "kw", "gzip"][(a + b + n) % 4]
                        for meth in ("GET", "HEAD") if (a + b) % 3 == 0 else ("GET",):
                            res = file_case(T, content, meth, rh, bs, wr, None, None, shape)
                            nC += 1
                            m = check_file_response(content, meth, rh, res, exp)
                            if form == "-suffix" and (a == 0 or a > n) and not isinstance(res, fw.Err):
                                k6 = "%s on a %s file -> %d" % ("bytes=-0" if a == 0 else "bytes=-N (N > size)",
                                                                "non-empty" if n else "empty", res[0])
                                c6 = ctx.extra.setdefault("suffix_corner", {})
                                c6[k6] = c6.get(k6, 0) + 1
                            if m:
                                ctx.fail(m[0], m[1], {"kind": "fileapp", "content": content.hex(), "method": meth, "range": rh,
                                                      "bs": bs, "wrapper": wr, "expect": exp, "shape": shape}, True, "fileapp")
    # the real BLOCK_SIZE, file sizes around it and around twice it; short reads; arbitrary Range text (self-consistency)
    B = st.BLOCK_SIZE
    big_sizes = [B - 1, B, B + 1, 2 * B - 1, 2 * B, 2 * B + 1] if ctx.thorough else [B - 1, B, B + 1, 2 * B + 1]
    for n in big_sizes:
        content = bytes((i * 131 + (i >> 8) * 7 + 3) % 256 for i in range(n))
        for wr in (None, [B], [1000, B, 5]):
            m = check_fileapp_methods(T, content, None, wr)
            nC += 8
            if m:
                ctx.fail(m[0], m[1], {"kind": "fileapp", "methods": True, "content": content.hex(), "bs": None, "wrapper": wr}, True, "fileapp")
            pts = [0, 1, B - 1, B, B + 1, n - 1, n, n + 1]
            for form in RANGE_FORMS:
                for a in pts:
                    for b in (pts if form == "first-last" else [0]):
                        rh = range_header(form, a, b)
                        res = file_case(T, content, "GET", rh, None, wr)
                        nC += 1
                        m = check_file_response(content, "GET", rh, res, rfc_slice(form, a, b, n))
                        if m:
                            ctx.fail(m[0], m[1], {"kind": "fileapp", "content": content.hex(), "method": "GET", "range": rh,
                                                  "bs": None, "wrapper": wr, "expect": rfc_slice(form, a, b, n)}, True, "fileapp")
    texts = ["bytes=0-0,2-3", "bytes = 1 - 2", "BYTES=1-2", "bytes=1-2xyz", "items=1-2", "bytes=00-01", "bytes=1_0-", "bytes", "",
             "bytes=5-2", "bytes=--1", "bytes=1--2", "bytes= -3", "bytes=٣-٤", "bytes=1-99999999999999999999", "x" * 50]
    content = bytes(range(10))
    for rh in texts + ["bytes=%s-%s" % (rng.choice(["", "0", "3", "9", "10", "11"]), rng.choice(["0", "3", "9", "10", "11"]))
                       for _ in range(ctx.scale(40, 300))]:
        mm = re.match(r"bytes *= *(\d*) *- *(\d*)", rh, re.I)
        if mm and not mm.group(1) and not mm.group(2):
            continue        # `Range: bytes=-` makes req.range raise ValueError: totality of the getter is property C12's
        for bs, wr in ((3, None), (None, [2, 2])):
            for meth in ("GET", "HEAD"):
                res = file_case(T, content, meth, rh, bs, wr)
                nC += 1
                m = check_file_response(content, meth, rh, res, None)
                if m:
                    ctx.fail(m[0], m[1], {"kind": "fileapp", "content": content.hex(), "method": meth, "range": rh, "bs": bs,
                                          "wrapper": wr, "expect": None}, True, "fileapp")
    for _ in range(ctx.scale(300, 3000)):
        n = rng.randrange(0, 30)
        content = bytes(rng.randrange(256) for _ in range(n))
        form = rng.choice(RANGE_FORMS)
        a, b = rng.randrange(0, n + 3), rng.randrange(0, n + 3)
        rh = range_header(form, a, b)
        caps = [rng.randrange(0, 5) for _ in range(rng.randrange(0, 8))]
        bs = rng.randrange(1, 12)
        res = file_case(T, content, "GET", rh, bs, None, caps)
        nC += 1
        m = check_file_response(content, "GET", rh, res, rfc_slice(form, a, b, n))
        if m:
            ctx.fail(m[0], m[1], {"kind": "fileapp", "content": content.hex(), "method": "GET", "range": rh, "bs": bs, "wrapper": None,
                                  "caps": caps, "expect": rfc_slice(form, a, b, n)}, True, "fileapp")
    # outside the model's domain (C): conditional request headers.  What stays meaningful: the answer is 304 with no body, or a
    # self-consistent 200/206/416 whose body is the file / the announced slice of it
    content = bytes(range(40, 52))
    conds = [{"If-Modified-Since": "Sat, 01 Jan 2050 00:00:00 GMT"}, {"If-Modified-Since": "Thu, 01 Jan 1998 00:00:00 GMT"},
             {"If-Modified-Since": "garbage"}, {"If-None-Match": "*"}, {"If-None-Match": '"x"'},
             {"If-Range": "Sat, 01 Jan 2050 00:00:00 GMT"}, {"If-Range": "Thu, 01 Jan 1998 00:00:00 GMT"}, {"If-Range": '"x"'},
             {"If-Range": "garbage"}, {"If-Match": '"x"'}, {"If-Unmodified-Since": "Thu, 01 Jan 1998 00:00:00 GMT"}]
    for hd in conds:
        for rh in (None, "bytes=2-5", "bytes=-3", "bytes=20-"):
            for bs, wr in ((3, None), (None, [5, 1])):
                for meth in ("GET", "HEAD"):
                    res = file_case(T, content, meth, rh, bs, wr, None, hd)
                    nC += 1
                    m = check_file_response(content, meth, rh, res, None, True)
                    if m:
                        ctx.fail("cond:" + m[0], "with %r: %s" % (hd, m[1]), {"kind": "fileapp", "content": content.hex(), "method": meth,
                                                                         "range": rh, "bs": bs, "wrapper": wr, "expect": None,
                                                                         "headers": hd}, True, "fileapp")
    for m in check_outside_domain(ctx, T, mat):
        ctx.fail(m[0], m[1], {"kind": "outside-domain"}, True, "fileapp")
    nC += check_outside_domain.count
    ctx.oracle_count("fileapp", nC, nC)

    # ------------------------------------------------------------------ oracle D+E: FileIter / AppIterRange, exhaustive small bounds
    nD = 0
    maxn = ctx.scale(5, 7)
    for n in range(0, maxn + 1):
        content = bytes(range(65, 65 + n))
        for seek in [None] + list(range(0, n + 2)):
            for limit in [None] + list(range(seek or 0, n + 3)):
                for bs in range(1, n + 2):
                    for caps in ([], [0], [1, 0, 0]):
                        m = check_fileiter(content, seek, limit, bs, caps)
                        nD += 1
                        if m:
                            ctx.fail(m[0], m[1], {"kind": "fileiter", "content": content.hex(), "seek": seek, "limit": limit, "bs": bs,
                                                  "caps": caps}, True, "fileiter")
    ctx.oracle_count("fileiter", nD, nD)
    nE = 0
    maxn = ctx.scale(5, 6)
    content = bytes(range(97, 97 + maxn))
    for cuts in itertools.product([0, 1, 2], repeat=maxn - 1):      # 0: no cut, 1: cut, 2: cut with an empty chunk inserted
        chunks, cur = [], content[:1]
        for i, c in enumerate(cuts):
            if c:
                chunks.append(cur)
                if c == 2:
                    chunks.append(b"")
                cur = b""
            cur += content[i + 1:i + 2]
        chunks.append(cur)
        for start in range(0, maxn + 2):
            for stop in range(start + 1, maxn + 3):
                m = check_air(chunks, start, stop)
                nE += 1
                if m:
                    ctx.fail(m[0], m[1], {"kind": "air", "chunks": [c.hex() for c in chunks], "start": start, "stop": stop}, True, "air")
    ctx.oracle_count("air", nE, nE)

    # ------------------------------------------------------------------ oracle F: histories (one long-lived app, many requests)
    rng = ctx.sub_rng("histories")
    nF = 0
    hcases = []
    for _ in range(ctx.scale(250, 2500)):
        steps = gen_file_history(rng, rng.randrange(6, 26))
        rec = []
        m = run_file_history(T, steps, rec)
        nF += sum(1 for x in steps if x[0] == "req")
        if m:
            ctx.fail(m[0], m[1], {"kind": "history-file", "steps": steps}, True, "history")
        for node, st_, obs_ in rec[:8] if len(hcases) < ctx.scale(400, 3000) else []:
            _, meth, rh, wr, bs, caps = st_
            r = Range.parse(rh) if rh else None
            rp = None if r is None else (r.start, r.end)
            if isinstance(obs_, fw.Err):
                o = obs_
            else:
                cl = hdr(obs_[1], "Content-Length")
                o = [obs_[0], hdr(obs_[1], "Location"), int(cl) if obs_[0] in (200, 206) and cl is not None else None,
                     parse_cr(hdr(obs_[1], "Content-Range")), "", obs_[2] if obs_[0] in (200, 206) else b""]
            kind = ("fi", bs, caps) if wr is None else ("wr", wr)
            content = node[1] if node is not None and node[0] == "f" else b""
            lit = "(%s, (let CONTENT := %s in mkFreq %s %s %s))" % (cnode(node), cstr(content), cstr(meth), crange(rp), ckind(kind))
            hcases.append((lit, o, {"kind": "history-file", "steps": steps}))
    bad = ctx.corr("fileapp-history", IMPORTS, "(fun c => v_resp (fileapp (fst c) (snd c)))", hcases, in_type="(node * freq)")
    report_corr(ctx, "fileapp-history", bad, hcases, T, mat)
    for ti, inside in enumerate(insides):
        tree = full_tree(inside, rich if ti % 2 == 0 else rich2)
        for idx, hide in (CFGS if ti == 0 else [CFGS[(ti + 2) % len(CFGS)], CFGS[(ti * 5 + 3) % len(CFGS)]]):
            for _ in range(ctx.scale(2, 6)):
                steps = gen_dir_history(rng, tree, rng.randrange(10, 41))
                opt = {"shape": rng.choice(SHAPES), "kw": rng.randrange(len(KWS))}
                m = run_dir_history(T, mat, tree, idx, hide, steps, opt)
                nF += sum(1 for x in steps if x[0] == "req")
                if m:
                    ctx.fail(m[0], m[1], {"kind": "history-dir", "tree": tree, "idx": idx, "hide": hide, "steps": steps, "opt": opt},
                             True, "history")
        if ti < ctx.scale(4, 12):
            idx, hide = CFGS[ti % len(CFGS)]
            names = names_of(tree)
            reqs = [[rand_url(rng, names)] + list(rand_req_step(rng, 8)) for _ in range(40)]
            perm = list(range(len(reqs)))
            rng.shuffle(perm)
            m = run_order_independence(T, mat, tree, idx, hide, reqs, perm)
            nF += 2 * len(reqs)
            if m:
                ctx.fail(m[0], m[1], {"kind": "history-order", "tree": tree, "idx": idx, "hide": hide, "reqs": reqs, "perm": perm}, True, "history")
    ctx.oracle_count("history", nF, nF)

    ctx.extra["rule"] = (
        "correspondence: distinct generated inputs (os.path spellings; DirectoryApp decisions and end-to-end responses over %d generated "
        "directory trees x 7 index_page/hide settings x PATH_INFO spellings of <=5 segments over names/./../empty/backslash/%%2f/%%2e/%%5c; "
        "FileApp/FileIter/AppIterRange over node kinds, methods, Range forms, block sizes, short reads, wrapper chunkings). "
        "oracle: every PATH_INFO of <=min(%d,3) segments over a 13-segment alphabet, and of 4 segments over 9 of them in the thorough tier (with and without trailing slash) x 7 settings on the fixed tree, "
        "plus random spellings on each generated tree, each run under two different worlds outside the root (non-trivial = answered 200 or 301); "
        "FileApp: all three Range forms with every bound 0..n+2 on files of 0..10 bytes x 11 iterator configurations, sizes around the real "
        "BLOCK_SIZE, arbitrary Range text; FileIter: all (seek, limit, block_size) on <=%d bytes; AppIterRange: all chunkings of %d bytes; "
        "histories: ONE FileApp / ONE DirectoryApp serving 6-40 different requests interleaved with rewrites/removals of the served files, "
        "each answer compared with a fresh instance's and with the reference, plus the same requests in two orders"
        % (ntrees, depth, ctx.scale(5, 7), maxn))
    ctx.extra["exhaustive"] = False
    ctx.assume += [
        "no symbolic links, hard links to outside, mount points or concurrent modification of the served tree (a normalised absolute path names one node; os.stat size = bytes read)",
        "PATH_INFO is NUL-free and decodable; index_page is None/'' or a plain file name (no separator, not '.' or '..')",
        "POSIX os.path (posixpath); the process cwd is an absolute normalised path",
        "requests carry no If-None-Match / If-Modified-Since / If-Range (conditional GET is property C06); the mapping from Range header text to "
        "(start, end) is Range.parse, taken from the implementation (C06/C12); a suffix range of length 0 may be answered 416 or ignored "
        "(200); a suffix longer than a non-empty file must serve the whole file (the 416 webob gives is classified under key "
        "range:suffix-longer-than-file-416; observed answers in evidence coverage.suffix_corner)",
        "file.read(n) returns between 1 and n bytes unless at EOF; a wsgi.file_wrapper yields chunks whose concatenation is the file",
    ]
    ctx.trusted += [
        "Python reference resolver ref_walk/ref_expect in harness/props/c17.py (kernel-style component walk) and the scratch trees it is compared on",
        "module-level `open` shim in webob.static installed by the harness to make files unreadable while running as root",
        "Request.blank percent-decoding and req.path_url/query_string are taken from the implementation (properties C13/C01)",
    ]


def replay(ctx, path):
    data = json.load(open(path))
    case = data["case"]
    if not isinstance(case, dict) or "kind" not in case:
        print("replay: nothing executable in this file (broken obligation): %s" % data.get("what"))
        return 1
    install_shim()
    T = scratch(ctx)
    mat = Mat(T)
    try:
        msgs = oracle_case(ctx, T, mat, case)
    finally:
        file_case._cur = None
        shutil.rmtree(T, ignore_errors=True)
        globals()["_T"] = None
    if msgs:
        print("VIOLATION property=C17 replay=%s" % path)
        for key, msg in msgs:
            print("  (%s) %s" % (key, msg))
        return 1
    print("replay passes on the current tree")
    return 0
