"""C13 — URL reconstruction and path manipulation round-trip (design_notes/C13.md).

Ties to the source:
  * gen(ctx): PATH_SAFE (request.py), urllib's always-safe set, the text of SCHEME_RE and _LATIN_ENCODINGS are
    read from the live modules into coq/Gen/C13_tables.v on every run; the theorems of Props/C13.v are stated
    over that PATH_SAFE, so a change of the safe set is re-decided by the kernel.
  * correspondence of coq/Model/C13_urlpath.v (url_quote, url_unquote, encget/encset, host_port, host_url,
    domain, application_url, path_url, path, path_qs, url, path_info_pop/peek, environ_from_url) and
    coq/Model/C13_urlsplit.v (urlsplit of CPython 3.12) with the real code.
  * oracle: the property's statement on real Request objects: independent RFC 3986 percent-decoder and splitter,
    Request.blank(request.url), set/get of path_info/script_name, pop/peek sequences, relative_url against an
    independent RFC 3986 section 5.2 resolver.
"""
import ast
import itertools
import json
import os
import re

from harness import fw
from harness.fw import Err, cstr, clist, cpair, copt, cbool

IMPORTS = ["Webob.Lib.PyStr", "Webob.Lib.C13_Utf8", "Webob.Gen.C13_tables", "Webob.Model.C13_urlsplit",
           "Webob.Model.C13_urlpath", "Webob.Model.C13_urljoin", "Webob.Spec.C13_rfc3986"]


# ============================================================================ references (independent of webob)
UNRESERVED = "ABCDEFGHIJKLMNOPQRSTUVWXYZabcdefghijklmnopqrstuvwxyz0123456789-._~"
SUBDELIMS = "!$&'()*+,;="
PCHAR_SLASH = UNRESERVED + SUBDELIMS + ":@/"
HEX = "0123456789ABCDEFabcdef"
RX_URI = re.compile(r"^(([^:/?#]+):)?(//([^/?#]*))?([^?#]*)(\?([^#]*))?(#(.*))?", re.S)
RX_SCHEME = re.compile(r"^[A-Za-z][A-Za-z0-9+.-]*$")


def ref_pct_decode(s):
    """Strict RFC 3986 percent-decoder: None unless s is ASCII path characters and well-formed %XX triplets."""
    out = bytearray()
    i = 0
    while i < len(s):
        c = s[i]
        if c == "%":
            a, b = s[i + 1:i + 2], s[i + 2:i + 3]
            if len(a) != 1 or len(b) != 1 or a not in HEX or b not in HEX:
                return None
            out.append(int(a + b, 16))
            i += 3
        elif c in PCHAR_SLASH:
            out.append(ord(c))
            i += 1
        else:
            return None
    return bytes(out)


def ref_split(u):
    """RFC 3986 appendix B."""
    m = RX_URI.match(u)
    return m.group(2), m.group(4), m.group(5), m.group(7), m.group(9)


def ref_remove_dots(path):
    out = []
    inp = path
    while inp:
        if inp.startswith("../"):
            inp = inp[3:]
        elif inp.startswith("./"):
            inp = inp[2:]
        elif inp.startswith("/./"):
            inp = inp[2:]
        elif inp == "/.":
            inp = "/"
        elif inp.startswith("/../"):
            inp = inp[3:]
            if out:
                out.pop()
        elif inp == "/..":
            inp = "/"
            if out:
                out.pop()
        elif inp in (".", ".."):
            inp = ""
        else:
            m = re.match(r"/?[^/]*", inp)
            out.append(m.group(0))
            inp = inp[m.end():]
    return "".join(out)


def ref_resolve(base, ref, strict=False):
    """RFC 3986 section 5.2.2 (non-strict: a reference scheme equal to the base scheme is ignored) + 5.3.
    strict=True: appendix B as it stands (any text before the first ':' that has no / ? # is a scheme) and the
    strict 5.2.2 — the reading the Gallina specification Spec/C13_rfc3986.v transcribes."""
    bs, ba, bp, bq, _ = ref_split(base)
    rs, ra, rp, rq, rf = ref_split(ref)
    if strict:
        pass
    elif rs is not None and not RX_SCHEME.match(rs):
        # not a scheme: the colon belongs to the first path segment
        rs = None
        m = re.match(r"^([^?#]*)(\?([^#]*))?(#(.*))?$", ref, re.S)
        ra, rp, rq, rf = None, m.group(1), m.group(3), m.group(5)
    if not strict and rs is not None and bs is not None and rs.lower() == bs.lower():
        rs = None
    if rs is not None:
        ts, ta, tp, tq = rs, ra, ref_remove_dots(rp), rq
    else:
        if ra is not None:
            ta, tp, tq = ra, ref_remove_dots(rp), rq
        else:
            if rp == "":
                tp = bp
                tq = rq if rq is not None else bq
            else:
                if rp.startswith("/"):
                    tp = ref_remove_dots(rp)
                else:
                    if ba is not None and not bp:
                        merged = "/" + rp
                    else:
                        merged = bp[:bp.rfind("/") + 1] + rp
                    tp = ref_remove_dots(merged)
                tq = rq
            ta = ba
        ts = bs
    r = ""
    if ts is not None:
        r += ts + ":"
    if ta is not None:
        r += "//" + ta
    r += tp
    if tq is not None:
        r += "?" + tq
    if rf is not None:
        r += "#" + rf
    return r


def default_port(scheme):
    return {"http": "80", "https": "443"}.get(scheme)


def host_text(h):
    """h = {"kind": "name"|"v6", "name": str, "port": str|None} -> Host header text."""
    base = "[" + h["name"] + "]" if h["kind"] == "v6" else h["name"]
    return base if h["port"] is None else base + ":" + h["port"]


def host_domain(h):
    return "[" + h["name"] + "]" if h["kind"] == "v6" else h["name"]


def py_enc(enc):
    return "utf-8" if enc.lower().replace("_", "-") in ("utf-8", "utf8") else "latin-1"


def wsgi(text, enc):
    return text.encode(py_enc(enc)).decode("latin-1")


# ============================================================================ building requests
def make_env(case):
    """case: scheme, host (dict or None), server ([name, port]), script, path (texts), qs (str|None), enc."""
    enc = case.get("enc", "UTF-8")
    env = {"REQUEST_METHOD": "GET", "wsgi.url_scheme": case["scheme"],
           "SERVER_NAME": case["server"][0], "SERVER_PORT": case["server"][1],
           "PATH_INFO": wsgi(case["path"], enc), "SERVER_PROTOCOL": "HTTP/1.1"}
    if case.get("script") is not None:
        env["SCRIPT_NAME"] = wsgi(case["script"], enc)
    if case.get("qs") is not None:
        env["QUERY_STRING"] = case["qs"]
    if case.get("host") is not None:
        env["HTTP_HOST"] = host_text(case["host"])
    if enc != "UTF-8" or case.get("enc_explicit"):
        env["webob.url_encoding"] = enc
    return env


ENC_VIAS = ["environ", "kw", "class", "after"]


def make_request(case):
    """The request of a case, with url_encoding configured through the route case['enc_via']:
    'environ' (webob.url_encoding key), 'kw' (constructor keyword), 'class' (attribute of a subclass),
    'after' (assigned on the instance after construction).  Returns (request, environ, class)."""
    from webob import Request
    env = make_env(case)
    via = case.get("enc_via", "environ")
    enc = case.get("enc", "UTF-8")
    cls = Request
    if via == "environ":
        return Request(env), env, cls
    env.pop("webob.url_encoding", None)
    if via == "kw":
        return Request(env, url_encoding=enc), env, cls
    if via == "class":
        cls = type("ConfiguredRequest", (Request,), {"url_encoding": enc})
        return cls(env), env, cls
    r = Request(env)
    r.url_encoding = enc
    return r, env, cls


def make_blank(case, url, cls):
    """Request.blank(url) configured with the original's url_encoding through the same route."""
    from webob import Request
    via = case.get("enc_via", "environ")
    enc = case.get("enc", "UTF-8")
    if via == "environ":
        if enc == "UTF-8" and not case.get("enc_explicit"):
            return Request.blank(url)
        if case.get("blank_positional"):
            return Request.blank(url, {"webob.url_encoding": enc})
        return Request.blank(url, environ={"webob.url_encoding": enc})
    if via == "kw":
        return Request.blank(url, url_encoding=enc)
    if via == "class":
        return cls.blank(url)
    b = Request.blank(url)
    b.url_encoding = enc
    return b


RX_QUERY_OK = re.compile(r"^(?:[A-Za-z0-9\-._~!$&'()*+,;=:@/?\[\]]|%[0-9A-Fa-f]{2})*$")


def classify_query(qs):
    """None when the query consists of URI characters and well-formed %XX; otherwise what is wrong with it."""
    if RX_QUERY_OK.match(qs) and not qs.endswith("\n"):
        return None
    if "#" in qs:
        return "raw '#'"
    if any(c in qs for c in "\t\r\n"):
        return "TAB/CR/LF"
    if not qs.isascii():
        return "non-ASCII character"
    if re.search(r"%(?![0-9A-Fa-f]{2})", qs):
        return "'%' not followed by two hex digits" if RX_QUERY_OK.match(re.sub(r"%", "", qs)) else "character outside the URI set"
    return "character outside the URI set (space, control, one of \"<>\\^`{|})"


def strip_default(scheme, host):
    if host.endswith(":"):
        host = host[:-1]           # an empty port is no port
    d = default_port(scheme)
    if d and host.endswith(":" + d) and not host.endswith("]"):
        return host[:-len(d) - 1]
    return host


def classify_scheme(case):
    s = case["scheme"]
    if s in ("http", "https"):
        return None
    hasport = bool(case["host"]["port"]) if case.get("host") is not None else True
    if not re.match(r"^[a-z]+$", s):
        return "blank:scheme-with-non-letter-not-recognised"
    if not hasport:
        return "blank:unknown-scheme-without-port-raises"
    return None


def oracle_url(case):
    """The URL part of the statement on a real Request.  Returns None or (key, message)."""
    from webob import Request
    enc = case.get("enc", "UTF-8")
    scheme = case["scheme"]
    r, env, cls = make_request(case)
    env = dict(env)
    script_t, path_t = case.get("script") or "", case["path"]
    try:
        url, path_url, app_url = r.url, r.path_url, r.application_url
        path, path_qs, host_url = r.path, r.path_qs, r.host_url
        host_port, domain, host = r.host_port, r.domain, r.host
    except Exception as e:  # noqa
        return "url:raises", "URL properties raise %s: %s" % (type(e).__name__, e)
    qs = case.get("qs") or ""
    # ---- host part: default port elided, host_port / domain consistent
    if case.get("host") is not None:
        h = case["host"]
        exp_domain, exp_port = host_domain(h), h["port"]
    else:
        exp_domain, exp_port = case["server"]
    dflt = default_port(scheme)
    if exp_port == "":
        exp_port = None        # "Host: name:" — an empty port is no port (RFC 3986 3.2.3)
        empty_port = True
    else:
        empty_port = False
    # the default port is a NUMBER: ":080" is port 80
    is_dflt = exp_port is not None and dflt is not None and exp_port.isdigit() and int(exp_port) == int(dflt)
    shown = exp_port if (exp_port is not None and not is_dflt) else None
    exp_host_url = scheme + "://" + exp_domain + (":" + shown if shown else "")
    if host_url != exp_host_url:
        if is_dflt and exp_port != dflt and host_url == scheme + "://" + exp_domain + ":" + exp_port:
            return ("host_url:default-port-leading-zeros-not-elided",
                    "host_url %r: port %r is the default port %s of %s and must be elided (expected %r)"
                    % (host_url, exp_port, dflt, scheme, exp_host_url))
        return "host_url:default-port", "host_url %r, expected %r" % (host_url, exp_host_url)
    if domain != exp_domain:
        return "domain", "domain %r, expected %r" % (domain, exp_domain)
    if exp_port is not None or dflt is not None:
        if host_port != (exp_port if exp_port is not None else dflt):
            return ("host_port:empty-port" if empty_port else "host_port",
                    "host_port %r, expected %r" % (host_port, exp_port if exp_port is not None else dflt))
    # ---- the five URL forms: percent-encoded ASCII, mutually consistent
    bscript, bpath = script_t.encode(py_enc(enc)), path_t.encode(py_enc(enc))
    for name, got, pre, raw in (("path", path, "", bscript + bpath),
                                ("application_url", app_url, host_url, bscript),
                                ("path_url", path_url, host_url, bscript + bpath)):
        if not got.startswith(pre):
            return "url:structure", "%s %r does not start with host_url %r" % (name, got, pre)
        dec = ref_pct_decode(got[len(pre):])
        if dec is None:
            return "quote:not-percent-encoded-ascii", "%s %r is not RFC 3986 path characters / %%XX" % (name, got)
        if dec != raw:
            return "quote:decodes-to-other-bytes", "%s %r decodes to %r, the path bytes are %r" % (name, got, dec, raw)
    if path_qs != path + ("?" + qs if qs else ""):
        return "url:structure", "path_qs %r is not path + ?query (%r, %r)" % (path_qs, path, qs)
    if url != path_url + ("?" + qs if qs else ""):
        return "url:structure", "url %r is not path_url + ?query (%r, %r)" % (url, path_url, qs)
    qclass = classify_query(qs)
    if not url.isascii() and qclass is None:
        return "quote:not-percent-encoded-ascii", "url %r is not ASCII" % url
    if case.get("skip_blank"):
        return None
    if qclass is not None:
        # the statement quantifies over every query string; webob appends QUERY_STRING verbatim
        try:
            bq = make_blank(case, url, cls).query_string
        except TypeError:
            bq = Err("TypeError")
        if "#" in qs:
            if bq != qs:
                return "url:query-hash-becomes-fragment", "QUERY_STRING %r: request.url is %r and Request.blank of it " \
                    "gives %r (a raw '#' starts a fragment)" % (qs, url, bq)
        elif any(c in qs for c in "\t\r\n"):
            if bq != qs:
                return "url:query-tab-cr-lf-lost", "QUERY_STRING %r: request.url is %r and Request.blank of it has " \
                    "the query %r (urlsplit deletes TAB/CR/LF)" % (qs, url, bq)
        return "url:query-not-percent-encoded-ascii", "QUERY_STRING %r is appended verbatim: request.url %r is not " \
            "percent-encoded ASCII (%s)" % (qs, url, qclass)
    # ---- Request.blank(request.url)
    try:
        b = make_blank(case, url, cls)
        got = (b.scheme, b.host, b.domain, b.host_port, b.environ["SCRIPT_NAME"] + b.environ["PATH_INFO"],
               b.script_name + b.path_info, b.query_string, b.url, b.path_qs)
    except Exception as e:  # noqa
        return (classify_scheme(case) or "blank:raises",
                "Request.blank(%r) raises %s: %s" % (url, type(e).__name__, e))
    want = (scheme, None, domain, host_port, env.get("SCRIPT_NAME", "") + env["PATH_INFO"],
            script_t + path_t, qs, url, path_qs)
    names = ("scheme", "host", "domain", "host_port", "SCRIPT_NAME+PATH_INFO", "script_name+path_info",
             "query_string", "url", "path_qs")
    for n_, g, w in zip(names, got, want):
        if n_ == "host":
            if strip_default(scheme, g) != strip_default(scheme, host):
                return (classify_scheme(case) or "blank:host",
                        "Request.blank(%r).host = %r, the request's host is %r" % (url, g, host))
            continue
        if n_ in ("host_port",) and exp_port is None and dflt is None:
            continue
        if g != w:
            return (classify_scheme(case) or "blank:" + n_,
                    "Request.blank(%r).%s = %r, the request has %r" % (url, n_, g, w))
    # the blank environ's SERVER_NAME / SERVER_PORT must describe the same host (PEP 3333 reconstruction
    # without HTTP_HOST gives the same URL)
    b2 = type(b)({k: v for k, v in b.environ.items() if k != "HTTP_HOST"})
    if "url_encoding" in b.__dict__:
        b2.__dict__["url_encoding"] = b.__dict__["url_encoding"]
    try:
        u2 = b2.url
    except Exception as e:  # noqa
        u2 = "raises %s" % type(e).__name__
    if u2 != url:
        return ("blank:server-name-port-inconsistent",
                "Request.blank(%r) has SERVER_NAME=%r SERVER_PORT=%r: without HTTP_HOST its url is %r"
                % (url, b.environ.get("SERVER_NAME"), b.environ.get("SERVER_PORT"), u2))
    return None


# ---------------------------------------------------------------------------- set / get
def oracle_setget(case):
    """case: attr ('path_info'|'script_name'), text, enc."""
    from webob import Request
    enc = case["enc"]
    env = {"REQUEST_METHOD": "GET", "wsgi.url_scheme": "http", "SERVER_NAME": "h", "SERVER_PORT": "80",
           "PATH_INFO": "/old", "SCRIPT_NAME": "/olds", "webob.url_encoding": enc}
    r = Request(env)
    attr, text = case["attr"], case["text"]
    key = {"path_info": "PATH_INFO", "script_name": "SCRIPT_NAME"}[attr]
    try:
        want = text.encode(py_enc(enc)).decode("latin-1")
    except UnicodeError:
        return None        # not a text of this encoding: outside the statement
    shape = case.get("shape", "str")
    try:
        if shape == "bytes":
            # bytes are accepted and taken as the already encoded path
            setattr(r, attr, text.encode(py_enc(enc)))
        elif shape == "strsub":
            setattr(r, attr, type("Text", (str,), {})(text))
        elif shape == "twice":
            setattr(r, attr, text)
            setattr(r, attr, str(text))
        elif shape == "via-u":
            setattr(r, "u" + attr, text)
        else:
            setattr(r, attr, text)
        back = getattr(r, attr)
        back_u = getattr(r, "u" + attr)
    except Exception as e:  # noqa
        return "setget:raises", "assigning %r (%s) to %s (url_encoding %s) raises %s" % (
            text, shape, attr, enc, type(e).__name__)
    if back != text or back_u != text:
        return "setget:readback", "%s = %r reads back %r / %r (url_encoding %s)" % (attr, text, back, back_u, enc)
    if env[key] != want or type(env[key]) is not str:
        return "setget:wsgi-string", "%s = %r stores %r, expected the latin-1 view %r of its %s bytes" % (
            attr, text, env[key], want, enc)
    other = "SCRIPT_NAME" if key == "PATH_INFO" else "PATH_INFO"
    if env[other] != ("/olds" if other == "SCRIPT_NAME" else "/old"):
        return "setget:other-key-touched", "assigning %s changed %s" % (attr, other)
    return None


# ---------------------------------------------------------------------------- pop / peek
def ref_peek(path):
    if not path:
        return None
    p = path
    while p.startswith("/"):
        p = p[1:]
    i = p.find("/")
    return p if i < 0 else p[:i]


def oracle_pop(case):
    """case: url case + ops: list of ["peek"] | ["pop", pattern|None]."""
    r, _, _ = make_request(case)
    for i, op in enumerate(case["ops"]):
        try:
            script0, path0 = r.script_name, r.path_info
            raw0 = r.environ.get("SCRIPT_NAME", "") + r.environ["PATH_INFO"]
            obs0 = (r.path, r.url, r.path_qs, r.path_url)
            peek = r.path_info_peek()
        except Exception as e:  # noqa
            return "pop:raises", "step %d: reading the request raises %s" % (i, type(e).__name__)
        if peek != ref_peek(path0):
            return "peek:segment", "step %d: path_info_peek() = %r for PATH_INFO %r, next segment is %r" % (
                i, peek, path0, ref_peek(path0))
        if op[0] == "peek":
            if (r.script_name, r.path_info) != (script0, path0):
                return "peek:modifies", "step %d: path_info_peek() changed the request" % i
            continue
        pattern = op[1]
        try:
            shape = op[2] if len(op) > 2 else "pos"
            if shape == "kw":
                got = r.path_info_pop(pattern=pattern)
            elif shape == "compiled" and pattern is not None:
                got = r.path_info_pop(re.compile(pattern))
            elif pattern is None and shape != "none":
                got = r.path_info_pop()
            else:
                got = r.path_info_pop(pattern)
            script1, path1 = r.script_name, r.path_info
            raw1 = r.environ.get("SCRIPT_NAME", "") + r.environ["PATH_INFO"]
            obs1 = (r.path, r.url, r.path_qs, r.path_url)
        except Exception as e:  # noqa
            return "pop:raises", "step %d: path_info_pop(%r) raises %s" % (i, pattern, type(e).__name__)
        matches = peek is not None and (pattern is None or re.match(pattern, peek) is not None)
        if not matches:
            if got is not None or (script1, path1) != (script0, path0):
                return "pop:no-match-changes", "step %d: path_info_pop(%r) on %r returned %r and left (%r, %r)" % (
                    i, pattern, path0, got, script1, path1)
            continue
        if got != peek:
            return "pop:segment", "step %d: path_info_pop(%r) on PATH_INFO %r returned %r, peek said %r" % (
                i, pattern, path0, got, peek)
        if script1 + path1 != script0 + path0 or raw1 != raw0:
            return "pop:concat", "step %d: pop on (%r, %r) gives (%r, %r): SCRIPT_NAME+PATH_INFO changed" % (
                i, script0, path0, script1, path1)
        moved = script1[len(script0):]
        if not script1.startswith(script0) or moved.lstrip("/") != peek or "/" in moved.lstrip("/") \
                or (path1 and not path1.startswith("/")):
            return "pop:moved-part", "step %d: pop on (%r, %r) moved %r to SCRIPT_NAME, leaving %r; segment is %r" % (
                i, script0, path0, moved, path1, peek)
        if obs1 != obs0:
            return "pop:url-changed", "step %d: pop on (%r, %r) changed path/url %r -> %r" % (
                i, script0, path0, obs0, obs1)
    return None


# ---------------------------------------------------------------------------- relative_url
def classify_rel(base, ref):
    """Which known deviation of the stdlib urljoin from RFC 3986 an input exercises (None: none)."""
    _, _, bp, _, _ = ref_split(base)
    rs, ra, rp, rq, rf = ref_split(ref)
    if ra == "" and not (rs is not None and RX_SCHEME.match(rs)):
        return "relative_url:empty-authority-ignored"
    if rs is None and ra is None and re.match(r"^\.\.?;", (rp or "").rsplit("/", 1)[-1]):
        return "relative_url:dot-segment-with-params"
    if (rs is not None and RX_SCHEME.match(rs) and rs.lower() != ref_split(base)[0]) or ra is not None:
        return "relative_url:dot-segments-kept-in-absolute-reference"
    if rq == "" or rf == "" or re.search(r";(/|$)", rp or "") or re.search(r";(/|$)", bp or ""):
        return "relative_url:empty-component-delimiter-dropped"
    if "//" in (bp or "") or "//" in (rp or ""):
        return "relative_url:empty-path-segments-collapsed"
    return "relative_url:rfc3986"


def oracle_rel(case):
    """case: url case + other (reference text) + to_application (bool)."""
    from urllib.parse import urljoin
    r, _, _ = make_request(case)
    other, to_app = case["other"], case["to_application"]
    shape = case.get("shape", "kw")
    try:
        if shape == "pos":
            got = r.relative_url(other, to_app)
        elif shape == "int":
            got = r.relative_url(other, to_application=1 if to_app else 0)
        elif shape == "default" and not to_app:
            got = r.relative_url(other)
        elif shape == "allkw":
            got = r.relative_url(other_url=other, to_application=to_app)
        else:
            got = r.relative_url(other, to_application=to_app)
        if to_app:
            base = r.application_url
            if not base.endswith("/"):
                base += "/"
        else:
            base = r.path_url
    except Exception as e:  # noqa
        return "relative_url:raises", "relative_url(%r) raises %s" % (other, type(e).__name__)
    glue = urljoin(base, other)
    if got != glue:
        return "relative_url:not-urljoin-of-base", "relative_url(%r, to_application=%r) = %r, but the base is %r and " \
            "urljoin gives %r" % (other, to_app, got, base, glue)
    want = ref_resolve(base, other)
    if got != want:
        return classify_rel(base, other), "relative_url(%r, to_application=%r) = %r; RFC 3986 5.2 resolution of it " \
            "against %r is %r" % (other, to_app, got, base, want)
    return None


# ============================================================================ generators
SCHEMES_WSGI = ["http", "https"]
SCHEMES_OTHER = ["ws", "wss", "ftp", "gopher", "svn+ssh", "h2c", "coap+tcp"]
NAMES = ["example.com", "localhost", "EXAMPLE.com", "a", "127.0.0.1", "xn--bcher-kva.example", "a-b.c_d~e", "www.x.org."]
V6 = ["::1", "2001:db8::8:800:200c:417a", "::", "::ffff:192.0.2.1", "FE80::1", "v1.fe80::a+en1"]
PORTS = [None, "80", "443", "8080", "0", "080", "65535", "8", "4430", "800", "", "0443", "00080"]
PATH_ALPHA = ["/", ".", "%", "?", "#", ";", "a", "\xe9", " "]
PATH_EXTRA = ["..", "%2F", "%2f", "+", ":", "@", "~", "€", "\U0001F600", "\\", "&", "=", "'", '"', "<", "[", "]",
              "\x00", "\x7f", "\n", "\t", "\r", "\xff", "\x80", "b", "Z", "0", "-", "_", "!", "$", "(", ")", "*", ",",
              "ı", "K", "//", "/./", "/../", "a/b", "{", "}", "|", "^", "`"]
QUERIES = [None, "", "a=1", "a=1&b=2", "x=%C3%A9", "q=a+b", "a?b/c", "=&;", "a=b=c", "'()*!$,", "~-._", "[]@:", "?",
           "//", "%41", "a=%2F%3f"]
# query strings the statement quantifies over ("all query strings") on which the pinned code does not keep it:
# every one of them is expected to be reported under a url:query-* finding key
QUERIES_ODD = ["%", "a%zz", "a=\"<>\"", "{}|\\^`", "a#b", "#", "%zz#", "a b", " ", "a\tb", "a\nb", "\rb", "\xe9=1",
               "a=\u20ac", "a\x00b", "\x7f"]
PORTS_CLEAN = [None, "80", "443", "8080", "0", "65535", "8", "4430", "800"]
POP_SHAPES = ["pos", "pos", "kw", "compiled", "none"]
POP_PATTERNS = [None, None, None, "a", ".", r"\w+$", "^$", "[^/]+", "\xe9", "x", r"\.\.?$", "", "%"]
REL_SEGS = [".", "..", "g", "%2e", "x=1", "a;p", "...", "g.", ".g", ";x", "\xe9"]
REL_ODD = ["", "?", "#", "?y", "#s", "g?", "g#", "g;", "//g", "//g/a/../b", "http:g", "http://o/a/./b", "ftp://o/a/../b",
           "g//h", "//", "a:b", "./a:b", "/", "/.", "/..", "../../../g", "g/", "./", "../", ";", "?y#s", "mailto:x@y",
           ".;x", "g/..;p", "/.;x?y", "..;x#s", "a/.;", "g;x=1/../y", "g/a;p"]


def gen_host(rng, v6_ratio=0.35, ports=None):
    ports = ports or PORTS
    if rng.random() < v6_ratio:
        return {"kind": "v6", "name": rng.choice(V6), "port": rng.choice(ports)}
    return {"kind": "name", "name": rng.choice(NAMES), "port": rng.choice(ports)}


def gen_text(rng, enc, maxlen=6, alpha=None):
    alpha = alpha or (PATH_ALPHA * 3 + PATH_EXTRA)
    out = ""
    for _ in range(rng.randrange(maxlen + 1)):
        c = rng.choice(alpha)
        if py_enc(enc) == "latin-1" and any(ord(x) > 255 for x in c):
            c = "\xe9"
        out += c
    return out


def gen_paths(rng, enc, maxlen=6):
    """(script, path): texts whose concatenation is empty or starts with '/' (PEP 3333 / RFC 3875)."""
    t = gen_text(rng, enc, maxlen)
    if t and not t.startswith("/"):
        t = "/" + t
    k = rng.randrange(len(t) + 1)
    mode = rng.random()
    if mode < 0.3:
        k = 0
    elif mode < 0.6:
        # split before a slash (the usual shape)
        idx = [i for i, c in enumerate(t) if c == "/"] + [len(t)]
        k = rng.choice(idx)
    script = t[:k]
    if script == "" and rng.random() < 0.3:
        script = None     # SCRIPT_NAME absent from the environ
    return script, t[k:]


def gen_case(rng, schemes=None, enc=None, clean=False, odd_queries=False):
    """clean: only inputs on which no recorded finding applies (for the sequence oracle, whose keys are
    prefixed); odd_queries: also the QUERIES_ODD stream."""
    enc = enc or rng.choice(["UTF-8", "UTF-8", "latin-1"])
    script, path = gen_paths(rng, enc)
    host = gen_host(rng, ports=PORTS_CLEAN if clean else None) if rng.random() < 0.85 else None
    case = {"scheme": rng.choice(schemes or SCHEMES_WSGI), "host": host,
            "server": [rng.choice(NAMES), rng.choice([p for p in PORTS_CLEAN if p])],
            "script": script, "path": path,
            "qs": rng.choice(QUERIES_ODD) if odd_queries and rng.random() < 0.12 else rng.choice(QUERIES), "enc": enc}
    if enc == "UTF-8" and rng.random() < 0.2:
        case["enc_explicit"] = True
    x = rng.random()
    if x < 0.45:
        case["enc_via"] = rng.choice(ENC_VIAS[1:])
    elif x < 0.55:
        case["blank_positional"] = True
    return case


def exhaustive_paths(maxlen):
    """'' and every '/'-led text up to maxlen over the design's alphabet."""
    yield ""
    for n in range(0, maxlen):
        for t in itertools.product(PATH_ALPHA, repeat=n):
            yield "/" + "".join(t)


# ============================================================================ gen: tables read from the source
def _cstrlist(xs):
    return " :: ".join(["(H \"%s\"%%string)" % x.encode("ascii").hex() if x else "(@nil N)" for x in xs] + ["nil"])


def gen(ctx):
    """coq/Gen/C13_tables.v from the live modules; returns the list of problems (fail-closed)."""
    problems = []
    src = open(os.path.join(fw.REPO, "src", "webob", "request.py")).read()
    lit = None
    for node in ast.walk(ast.parse(src)):
        if isinstance(node, ast.Assign) and any(isinstance(t, ast.Name) and t.id == "PATH_SAFE" for t in node.targets):
            if isinstance(node.value, ast.Constant) and isinstance(node.value.value, str):
                lit = node.value.value
    import webob.request as wr
    import webob.descriptors as wd
    import urllib.parse as up
    if lit is None or lit != wr.PATH_SAFE:
        problems.append("PATH_SAFE is no longer a string literal equal to webob.request.PATH_SAFE")
        lit = wr.PATH_SAFE if isinstance(wr.PATH_SAFE, str) else ""
    if wr.url_quote is not up.quote:
        problems.append("webob.request.url_quote is no longer urllib.parse.quote")
    # SCHEME_RE: the pattern text must be ^[a-z]+: under IGNORECASE (with or without ASCII); which characters the
    # class [a-z] matches under the live flags is enumerated with CPython's own engine and regenerated
    sflags = wd.SCHEME_RE.flags
    if wd.SCHEME_RE.pattern != "^[a-z]+:" or not (sflags & re.I) or (sflags & ~(re.I | re.A | re.U)):
        problems.append("SCHEME_RE changed to %r flags %r: the hand model scheme_re_search is for ^[a-z]+: with "
                        "re.I [| re.A]" % (wd.SCHEME_RE.pattern, sflags))
    import sys
    cls = re.compile("[a-z]", sflags & (re.I | re.A))
    members = [ord(c) for c in cls.findall("".join(chr(i) for i in range(sys.maxunicode + 1)))]
    ascii_letters = [c for c in range(128) if chr(c).isalpha()]
    if [c for c in members if c < 128] != ascii_letters:
        problems.append("the class [a-z] of SCHEME_RE no longer matches exactly the ASCII letters below U+0080")
    extra = [c for c in members if c >= 128]
    if wr.BaseRequest.url_encoding.fget(wr.BaseRequest({})) != "UTF-8":
        problems.append("default url_encoding is no longer UTF-8")
    if not {"latin-1", "ascii", "iso-8859-1"} <= set(wr._LATIN_ENCODINGS) or \
            any(x.lower().replace("_", "-") in ("utf-8", "utf8") for x in wr._LATIN_ENCODINGS):
        problems.append("_LATIN_ENCODINGS changed: %r" % (wr._LATIN_ENCODINGS,))
    # code points of safe characters as urllib sees them: non-ASCII characters of `safe` are ignored
    safe = bytes(sorted(set(c for c in lit.encode("ascii", "ignore") if c < 128)))
    always = bytes(sorted(up._ALWAYS_SAFE))
    out = ["(* GENERATED on every run by harness/props/c13.py from src/webob/request.py (PATH_SAFE) and",
           "   urllib.parse._ALWAYS_SAFE of the running CPython.  Do not edit. *)",
           "From Coq Require Import NArith List String.", "Require Import Webob.Lib.Val.",
           "Definition PATH_SAFE : str := H \"%s\"%%string." % safe.hex(),
           "Definition ALWAYS_SAFE : str := H \"%s\"%%string." % always.hex(),
           "(* urllib.parse.uses_relative / uses_netloc / uses_params of the running CPython (urljoin, urlparse) *)",
           "Definition USES_RELATIVE : list str := (%s)%%list." % _cstrlist(up.uses_relative),
           "Definition USES_NETLOC : list str := (%s)%%list." % _cstrlist(up.uses_netloc),
           "Definition USES_PARAMS : list str := (%s)%%list." % _cstrlist(up.uses_params),
           "(* non-ASCII code points matched by the class [a-z] of SCHEME_RE under its live flags *)",
           "Definition SCHEME_ALPHA_EXTRA : str := (%s)%%list." % " :: ".join(["%d%%N" % c for c in extra] + ["nil"])]
    fw.write_if_changed(os.path.join(fw.COQ, "Gen", "C13_tables.v"), "\n".join(out) + "\n")
    ctx.extra["tables"] = {"PATH_SAFE": lit, "ALWAYS_SAFE": always.decode("ascii"), "SCHEME_RE_flags": int(sflags),
                           "SCHEME_ALPHA_EXTRA": extra}
    return problems


# ============================================================================ correspondence: literals, adaptors
def cenc(enc):
    return "Utf8" if py_enc(enc) == "utf-8" else "Latin"


def cenv(env):
    """Coq literal of the environ record for a raw WSGI environ dict."""
    def o(k):
        return copt(cstr(env[k])) if k in env else "None"
    return "(mkEnv %s %s %s %s %s %s %s %s)" % (
        cstr(env["wsgi.url_scheme"]), o("HTTP_HOST"), cstr(env["SERVER_NAME"]), cstr(env["SERVER_PORT"]),
        o("SCRIPT_NAME"), cstr(env["PATH_INFO"]), o("QUERY_STRING"), cenc(env.get("webob.url_encoding", "UTF-8")))


def catchv(f):
    try:
        return f()
    except Exception as e:  # noqa
        return Err(type(e).__name__)


def impl_urls(env):
    from webob import Request
    r = Request(dict(env))
    return [catchv(lambda: r.host_port), catchv(lambda: r.host_url), catchv(lambda: r.host), catchv(lambda: r.domain),
            catchv(lambda: r.application_url), catchv(lambda: r.path_url), catchv(lambda: r.path),
            catchv(lambda: r.path_qs), catchv(lambda: r.url)]


def v6ok_of(url):
    """The answer of the external _check_bracketed_host for the bracket content urlsplit will look at."""
    import urllib.parse as up
    u = url.lstrip(up._WHATWG_C0_CONTROL_OR_SPACE)
    for b in up._UNSAFE_URL_BYTES_TO_REMOVE:
        u = u.replace(b, "")
    # every bracketed text in the string is tried: the model only asks for one of them
    answers = set()
    for m in re.finditer(r"\[([^\]]*)\]", u):
        try:
            up._check_bracketed_host(m.group(1))
            answers.add(True)
        except ValueError:
            answers.add(False)
    if len(answers) > 1:
        return None          # ambiguous: case not usable
    return answers.pop() if answers else True


def impl_split(url):
    from urllib.parse import urlsplit
    try:
        return list(urlsplit(url))
    except ValueError:
        return Err("ValueError")


def impl_blank(url):
    from webob.request import environ_from_url
    try:
        e = environ_from_url(url)
    except Exception as ex:  # noqa
        return Err(type(ex).__name__)
    return [e["wsgi.url_scheme"], e["HTTP_HOST"], e["SERVER_NAME"], e["SERVER_PORT"], e["SCRIPT_NAME"], e["PATH_INFO"],
            e["QUERY_STRING"]]


def impl_setget(enc, attr, text):
    from webob import Request
    env = {"REQUEST_METHOD": "GET", "wsgi.url_scheme": "http", "SERVER_NAME": "h", "SERVER_PORT": "80",
           "PATH_INFO": "/p", "SCRIPT_NAME": "/s", "webob.url_encoding": enc}
    r = Request(env)
    try:
        setattr(r, attr, text)
    except Exception as ex:  # noqa
        return Err(type(ex).__name__)
    key = {"path_info": "PATH_INFO", "script_name": "SCRIPT_NAME"}[attr]
    return [env[key], catchv(lambda: getattr(r, attr))]


def impl_pops(env, ops):
    """ops: ["peek"] | ["pop", pattern|None]; returns (observations, coq ops) — the pattern is abstracted to its
    answer on the segment an independent peek reports."""
    from webob import Request
    env = dict(env)
    r = Request(env)
    out, cops = [], []
    for op in ops:
        if op[0] == "peek":
            cops.append("OPeek")
            out.append(catchv(r.path_info_peek))
            continue
        pattern = op[1]
        if pattern is None:
            cops.append("(OPop None)")
        else:
            try:
                seg = ref_peek(r.path_info)
            except Exception:  # noqa
                seg = None
            ans = seg is not None and re.match(pattern, seg) is not None
            cops.append("(OPop (Some %s))" % cbool(ans))
        try:
            got = r.path_info_pop(pattern) if pattern is not None else r.path_info_pop()
        except Exception as ex:  # noqa
            out.append(Err(type(ex).__name__))
            break
        out.append([got, env.get("SCRIPT_NAME"), env["PATH_INFO"]])
    return out, cops


MAL_HOSTS = ["", ":", "example.com:", ":80", "[::1", "::1]", "a:b:c", "]", "[", "[]", "[::1]:", "[::1]x:80", "a]",
             "example.com:http", "[::1]:80:90", "a b", "h:\xe9"]
MAL_RAW = ["\xe9", "/\xc3", "/\xc3\xa9\xff", "/\xed\xa0\x80", "/\xf4\x90\x80\x80", "/\xc0\xaf", "/\u20ac", "\u0100",
           "/ok\xe2\x82\xac", "/\xf0\x9f\x98\x80", "/\xe0\x80\x80"]


def gen_env_for_corr(rng):
    """Mostly well-formed environs (from gen_case) plus a malformed stream: odd Host texts, raw PATH_INFO /
    SCRIPT_NAME that are not the encoding of any text, other schemes."""
    case = gen_case(rng, schemes=SCHEMES_WSGI * 3 + SCHEMES_OTHER + ["HTTP", "Https", ""])
    env = make_env(case)
    x = rng.random()
    if x < 0.12:
        env["HTTP_HOST"] = rng.choice(MAL_HOSTS)
    elif x < 0.24:
        env[rng.choice(["PATH_INFO", "SCRIPT_NAME"])] = rng.choice(MAL_RAW)
    elif x < 0.30:
        env["SERVER_PORT"] = rng.choice(["", "80", "443", "a", "8:0"])
        env["SERVER_NAME"] = rng.choice(["::1", "[::1]", "", "h"])
        env.pop("HTTP_HOST", None)
    return env


URL_PIECES = ["http", "https", "HTTP", "ws", "svn+ssh", "a", "localhost", "example.com", ":", "//", "/", "?", "#",
              "[", "]", "::1", "@", "80", "443", ":80", "%41", "%e9", "%C3%A9", "%2F", "%", " ", "\t", "\n", "\r",
              "\x00", "\x1f", ".", "..", ";", "=", "&", "+", "x", "[::1]", "[v1.a]", "[1.2.3.4]", "[::g]", "\\",
              "\xe9", "\u0131", "\u212a", "~", "Z"]


def gen_url(rng, maxpieces=7):
    return "".join(rng.choice(URL_PIECES) for _ in range(rng.randrange(maxpieces + 1)))


def gen_url_wellformed(rng):
    case = gen_case(rng, schemes=SCHEMES_WSGI * 3 + SCHEMES_OTHER)
    from webob import Request
    try:
        return Request(make_env(case)).url
    except Exception:  # noqa
        return "http://localhost/"


def gen_quoted(rng):
    """well-formed percent-encoded text: the domain on which url_unquote is modelled"""
    out = ""
    for _ in range(rng.randrange(9)):
        x = rng.random()
        if x < 0.45:
            out += "%" + rng.choice(HEX) + rng.choice(HEX)
        else:
            out += rng.choice("aZ09/-._~!$&'()*+,;=:@?# \x00\x7f\"<>[]\\^`{|}")
    return out


def _report_bad(ctx, name, bad, cases, oracle):
    for i in bad[:5]:
        case = cases[i][2]
        res = guarded(oracle)(case) if oracle else None
        if res:
            ctx.fail(res[0], res[1], case, True, "corr")
        else:
            ctx.broken.append("correspondence %s: model and implementation disagree on %s (implementation: %r)"
                              % (name, json.dumps(case)[:400], cases[i][1]))


CLOSURE = ["Lib/Val.v", "Lib/PyStr.v", "Lib/C13_Utf8.v", "Gen/C13_tables.v", "Model/C13_urlsplit.v",
           "Model/C13_urlpath.v", "Model/C13_urljoin.v", "Spec/C13_spec.v", "Spec/C13_rfc3986.v",
           "Spec/C13_refdomain.v", "Proofs/C13_utf8.v", "Proofs/C13_quote.v", "Proofs/C13_host.v",
           "Proofs/C13_blank.v", "Proofs/C13_pop.v", "Proofs/C13_refuted.v", "Proofs/C13_segs.v",
           "Proofs/C13_relurl.v", "Proofs/C13_relurl_refuted.v", "Props/C13.v"]


def _fallback_build(ctx):
    """fw builds through coq_makefile, whose coqdep pass runs over EVERY .v of the shared tree: a file of another
    property that does not parse at this moment makes the whole build fail before any of C13's files is looked
    at.  In that case only, compile C13's own closure file by file (same coqc, same full .vo build)."""
    import fcntl
    import subprocess
    msg = [b for b in ctx.broken if b.startswith("build of Props/C13.vo failed")]
    if not msg or "C13" in msg[0].split("failed:", 1)[1]:
        return False       # a C13 file is what failed: that is a real broken obligation
    out = ""
    with open(os.path.join(fw.BUILD, "coq.lock"), "w") as lk:
        fcntl.flock(lk, fcntl.LOCK_EX)
        for f in CLOSURE:
            src, vo = os.path.join(fw.COQ, f), os.path.join(fw.COQ, f + "o")
            if not f.startswith(("Gen/", "Model/C13", "Spec/C13", "Proofs/C13", "Props/C13", "Lib/C13")) \
                    and os.path.exists(vo) and os.path.getmtime(vo) >= os.path.getmtime(src):
                continue
            p = subprocess.run(["timeout", "900", "coqc", "-Q", ".", "Webob", "-w", "-all", f], cwd=fw.COQ,
                               capture_output=True, text=True)
            if p.returncode != 0:
                ctx.broken.append("fallback build of %s failed: %s" % (f, (p.stderr or p.stdout)[-600:]))
                return False
            if f == "Props/C13.v":
                out = p.stdout
    closed = re.findall(r"^(Closed under the global context|Axioms:)", out, flags=re.M)
    ctx.broken.remove(msg[0])
    ctx.discharged = ctx.obligations
    ctx.assumptions["Props/C13.vo"] = {"print_assumptions_outputs": len(closed),
                                       "closed_under_global_context": len([c for c in closed if c.startswith("Closed")]),
                                       "axioms": []}
    if "Axioms:" in out:
        ctx.broken.append("Print Assumptions reports axioms in Props/C13.v")
    ctx.checker_cmd = "coqc -Q . Webob <each file of the closure of Props/C13.v> (coqc 8.16.1, full .vo build)"
    ctx.note("coq_makefile/coqdep failed on a file of another property (%s); C13's closure was compiled file by file"
             % msg[0][:200])
    ctx.build_ok = True
    return True


# ============================================================================ statefulness: one long-lived Request
READS = ["host_port", "host_url", "host", "domain", "application_url", "path_url", "path", "path_qs", "url",
         "script_name", "path_info", "peek"]
HIST_REFS = ["g", "../x?y", "", "/abs", "?q", "./", "//o/p", "a/./b/../c#f"]


def _read(req, name):
    if name == "peek":
        return catchv(req.path_info_peek)
    if isinstance(name, list):          # ["rel", other, to_application]
        return catchv(lambda: req.relative_url(name[1], to_application=name[2]))
    return catchv(lambda: getattr(req, name))


def _observe_all(req):
    return [_read(req, n) for n in READS] + [_read(req, ["rel", "g/../h?x", False]), _read(req, ["rel", "y", True])]


def _public(env):
    """the environ without webob's private cache keys: what a fresh Request is built over"""
    return {k: v for k, v in env.items() if not k.startswith("webob._") and k != "webob.adhoc_attrs"}


def gen_history(rng, maxops=10):
    case = gen_case(rng, schemes=SCHEMES_WSGI * 4 + ["ws", "ftp"])
    ops = []
    for _ in range(rng.randrange(3, maxops + 1)):
        x = rng.random()
        if x < 0.34:
            if rng.random() < 0.25:
                ops.append(["read", ["rel", rng.choice(HIST_REFS), rng.random() < 0.4]])
            else:
                ops.append(["read", rng.choice(READS)])
        elif x < 0.62:
            key = rng.choice(["HTTP_HOST", "HTTP_HOST", "wsgi.url_scheme", "SERVER_NAME", "SERVER_PORT", "SCRIPT_NAME",
                              "PATH_INFO", "QUERY_STRING"])
            if key == "HTTP_HOST":
                val = host_text(gen_host(rng)) if rng.random() < 0.8 else None
            elif key == "wsgi.url_scheme":
                val = rng.choice(["http", "https", "https", "ws"])
            elif key == "SERVER_NAME":
                val = rng.choice(NAMES)
            elif key == "SERVER_PORT":
                val = rng.choice(["80", "443", "8080", "81"])
            elif key == "QUERY_STRING":
                val = rng.choice(QUERIES)
            else:
                t = gen_text(rng, "latin-1" if rng.random() < 0.3 else "UTF-8", 5)
                if t and not t.startswith("/"):
                    t = "/" + t
                val = wsgi(t, "latin-1" if all(ord(c) < 256 for c in t) and rng.random() < 0.3 else "UTF-8")
                if key == "SCRIPT_NAME" and rng.random() < 0.15:
                    val = None
            ops.append(["env", key, val])
        elif x < 0.68:
            name = rng.choice(["host", "host", "scheme", "query_string", "server_name", "server_port", "delhost"])
            val = {"host": host_text(gen_host(rng)), "scheme": rng.choice(["http", "https"]),
                   "query_string": rng.choice([q for q in QUERIES if q is not None]), "server_name": rng.choice(NAMES),
                   "server_port": rng.choice([80, 443, 8080, 81]), "delhost": None}[name]
            ops.append(["attr", name, val])        # the same edits through the public attributes
        elif x < 0.76:
            t = gen_text(rng, "latin-1", 5)
            ops.append(["set", rng.choice(["path_info", "script_name"]), "/" + t if rng.random() < 0.8 else t])
        elif x < 0.90:
            ops.append(["pop", rng.choice(POP_PATTERNS)])
        else:
            ops.append(["enc", rng.choice(["instance", "class", "environ"]), rng.choice(["UTF-8", "latin-1", "utf-8", None])])
    case["ops"] = ops
    case["history"] = True
    return case


def run_history(case, on_step=None):
    """ONE Request object (of a subclass made for this history) lives through reads, environ edits, assignments,
    pops and url_encoding changes.  After every step every URL property read on it must equal what a brand-new
    request of the same class over the current environ answers, and reads must not change the environ."""
    from webob import Request
    cls = type("HistoryRequest", (Request,), {})
    env = make_env(case)
    r = cls(env)

    def fresh():
        f = cls(dict(_public(env)))
        if "url_encoding" in r.__dict__:
            # url_encoding assigned on the instance while the subclass shadows the descriptor: that is
            # configuration of the object, so the identically configured fresh object carries it too
            f.__dict__["url_encoding"] = r.__dict__["url_encoding"]
        return f
    for i, op in enumerate(case["ops"]):
        kind = op[0]
        if kind == "read":
            before = dict(_public(env))
            got = _read(r, op[1])
            want = _read(fresh(), op[1])
            if got != want:
                return "stateful:read-differs-from-fresh", "step %d %r on the long-lived request gives %r, a fresh " \
                    "request over the same environ gives %r" % (i, op, got, want)
            if _public(env) != before:
                return "stateful:read-changes-environ", "step %d %r changed the environ: %r -> %r" % (
                    i, op, before, _public(env))
        elif kind == "env":
            if op[2] is None:
                env.pop(op[1], None)
            else:
                env[op[1]] = op[2]
        elif kind == "attr":
            if op[1] == "delhost":
                catchv(lambda: delattr(r, "host"))
            else:
                catchv(lambda: setattr(r, op[1], op[2]))
        elif kind == "set":
            catchv(lambda: setattr(r, op[1], op[2]))
        elif kind == "pop":
            catchv(lambda: r.path_info_pop(op[1]) if op[1] is not None else r.path_info_pop())
        elif kind == "enc":
            where, val = op[1], op[2]
            if where == "instance":
                catchv(lambda: setattr(r, "url_encoding", val))          # None deletes the environ key
            elif where == "environ":
                if val is None:
                    env.pop("webob.url_encoding", None)
                else:
                    env["webob.url_encoding"] = val
            else:
                if val is None:
                    if "url_encoding" in cls.__dict__:
                        del cls.url_encoding
                else:
                    cls.url_encoding = val                                # shadows the descriptor for this subclass
        if r.environ is not env:
            return "stateful:environ-replaced", "step %d %r: the request no longer wraps the environ it was given" % (i, op)
        before = dict(_public(env))
        got = _observe_all(r)
        if _public(env) != before:
            return "stateful:read-changes-environ", "after step %d %r reading the URL properties changed the " \
                "environ: %r -> %r" % (i, op, before, _public(env))
        want = _observe_all(fresh())
        if got != want:
            j = [k for k in range(len(got)) if got[k] != want[k]][0]
            name = (READS + ["relative_url('g/../h?x')", "relative_url('y', to_application=True)"])[j]
            return "stateful:read-differs-from-fresh", "after step %d %r: %s on the long-lived request is %r, a fresh " \
                "request over the same environ gives %r" % (i, op, name, got[j], want[j])
        if on_step:
            on_step(env, r, got)
    return None


def oracle_history(case):
    return run_history(case)


def _order_obs(c):
    from webob import Request
    r = Request(make_env(c))
    obs = _observe_all(r)
    u = obs[READS.index("url")]
    if isinstance(u, str):
        enc = c.get("enc", "UTF-8")
        obs.append(catchv(lambda: impl_blank(u)))
        obs.append(catchv(lambda: Request.blank(u, environ={"webob.url_encoding": enc}).path_qs))
    return obs


def oracle_orders(case):
    """Module-level state: related inputs evaluated one after the other, in several orders, within one process.
    Each must satisfy the (stateless) statement whatever was evaluated before it, and answer the same in every
    order.  The whole sequence is the replayable case."""
    batch = case["batch"]
    base = []
    order = list(range(len(batch)))
    for perm in [order] + case["perms"] + [order]:
        for pos, k in enumerate(perm):
            res = oracle_url(batch[k])
            if res:
                return "stateful:sequence:" + res[0], "input #%d %r, evaluated after %s in one process: %s" % (
                    k, batch[k], perm[:pos], res[1])
            got = _order_obs(batch[k])
            if len(base) <= k and perm is order:
                base.append(got)
            elif got != base[k]:
                return "stateful:order-dependent", "input #%d %r answers %r when evaluated after inputs %s, but %r in " \
                    "the original order" % (k, batch[k], got, perm[:pos], base[k])
    return None


# ============================================================================ outside the modelled domain
URL_READS = ["host_port", "host_url", "host", "domain", "application_url", "path_url", "path", "path_qs", "url"]
OUT_TEXTS = ["/\ud800", "\udfff/a", "/a\ud83d", "/Ā", "/€", "/\U0001F600", "/\xe9", ""]
OUT_NONTEXT = [None, 5, ["a"], 1.5, b"/\xff", b"/\xc3\xa9", b"", b"/a%"]
OUT_ENCODINGS = ["cp1252", "shift_jis", "utf-16", "x-no-such-codec", "ascii", "utf-8-sig", "big5"]
OUT_QUERIES = ["a#b", "a b", "\xe9=1", "a\tb", "a\nb", "#", " ", "a=€", "%zz#"]
OUT_ALLOWED = {"UnicodeEncodeError", "UnicodeDecodeError", "LookupError", "KeyError", "TypeError", "AttributeError"}


def _base_env(**kw):
    env = {"REQUEST_METHOD": "GET", "wsgi.url_scheme": "http", "SERVER_NAME": "h", "SERVER_PORT": "80",
           "PATH_INFO": "/old", "SCRIPT_NAME": "/olds", "QUERY_STRING": "q=1"}
    env.update(kw)
    return env


def _decodes(raw, enc):
    try:
        raw.encode("latin-1").decode(enc)
        return True
    except LookupError:
        return None
    except UnicodeError:
        return False


def oracle_outside(case):
    """What remains of the statement outside the domain of the theorems: refusals are the documented Unicode /
    lookup / type errors and leave the environ alone; the views that do not depend on the bad part still work and
    stay coherent with each other; nothing else is raised."""
    from webob import Request
    cl = case["class"]
    if cl in ("assign-refused", "assign-nontext"):
        enc, attr = case["enc"], case["attr"]
        env = _base_env(**{"webob.url_encoding": enc})
        r = Request(env)
        val = case["value"]
        if isinstance(val, dict):
            val = bytes.fromhex(val["bytes"])
        before = dict(env)
        key = {"path_info": "PATH_INFO", "script_name": "SCRIPT_NAME"}[attr]
        res = catchv(lambda: setattr(r, attr, val))
        if isinstance(val, str):
            try:
                want = val.encode(enc).decode("latin-1")
            except LookupError:
                want = Err("LookupError")
            except UnicodeError:
                want = Err("UnicodeEncodeError")
            if isinstance(want, Err):
                if res != want or env != before:
                    return "outside:refusal", "%s = %r under url_encoding %s: expected %r and an untouched environ, got " \
                        "%r, environ %s" % (attr, val, enc, want, res, "changed" if env != before else "unchanged")
                return None
            if isinstance(res, Err) or env[key] != want:
                return "outside:other-codec-store", "%s = %r under %s stores %r (%r), expected %r" % (
                    attr, val, enc, env.get(key), res, want)
            back = catchv(lambda: getattr(r, attr))
            if enc.lower() not in ("ascii",) and back != val:
                return "outside:other-codec-readback", "%s = %r under %s reads back %r" % (attr, val, enc, back)
            return None
        if val is None and attr == "script_name":
            if isinstance(res, Err) or "SCRIPT_NAME" in env or r.script_name != "" or env["PATH_INFO"] != "/old":
                return "outside:script-name-none", "script_name = None must remove the key and read back '' (got %r, %r)" % (
                    res, env.get("SCRIPT_NAME"))
            return None
        if isinstance(val, bytes):
            # bytes are accepted as the already encoded path: stored as their latin-1 view
            if isinstance(res, Err) or env[key] != val.decode("latin-1"):
                return "outside:bytes-store", "%s = %r stores %r (%r)" % (attr, val, env.get(key), res)
            back = catchv(lambda: getattr(r, attr))
            d = _decodes(env[key], py_enc(enc))
            if (d and back != val.decode(py_enc(enc))) or (d is False and back != Err("UnicodeDecodeError")):
                return "outside:bytes-readback", "%s = %r under %s reads back %r" % (attr, val, enc, back)
            return None
        if not isinstance(res, Err) or res.name not in ("TypeError", "AttributeError") or env != before:
            return "outside:nontext-refusal", "%s = %r: expected TypeError/AttributeError and an untouched environ, got %r, " \
                "environ %s" % (attr, val, res, "changed" if env != before else "unchanged")
        return None
    if cl == "raw-undecodable":
        env = _base_env(**{case["key"]: case["raw"], "webob.url_encoding": case["enc"]})
        r = Request(env)
        before = dict(env)
        obs = {n: _read(r, n) for n in URL_READS}
        bad = Err("UnicodeEncodeError") if any(ord(c) > 255 for c in case["raw"]) else Err("UnicodeDecodeError")
        for n in ("host_port", "host_url", "host", "domain"):
            if isinstance(obs[n], Err):
                return "outside:host-part-raises", "%s raises %r although only %s is undecodable" % (n, obs[n], case["key"])
        dependent = ["path_url", "path", "path_qs", "url"] + (["application_url"] if case["key"] == "SCRIPT_NAME" else [])
        for n in dependent:
            if obs[n] != bad:
                return "outside:undecodable-path", "%s = %r for %s = %r (url_encoding %s), expected %r" % (
                    n, obs[n], case["key"], case["raw"], case["enc"], bad)
        if case["key"] == "PATH_INFO":
            if isinstance(obs["application_url"], Err):
                return "outside:undecodable-path", "application_url raises %r although SCRIPT_NAME is fine" % obs["application_url"]
            for nm, f in (("path_info_peek", r.path_info_peek), ("path_info_pop", r.path_info_pop)):
                if catchv(f) != bad:
                    return "outside:undecodable-path", "%s does not raise %r on undecodable PATH_INFO" % (nm, bad)
        if env != before:
            return "outside:environ-changed", "reading / popping an undecodable request changed the environ"
        return None
    if cl == "host-malformed":
        env = _base_env(HTTP_HOST=case["host"], **{"wsgi.url_scheme": case["scheme"]})
        r = Request(env)
        obs = {n: _read(r, n) for n in URL_READS}
        for n, v in obs.items():
            if isinstance(v, Err):
                return "outside:host-raises", "%s raises %r for Host %r" % (n, v, case["host"])
        h = case["host"]
        if h.endswith(":") and ":" in h:
            ok = obs["domain"] == h[:-1] and obs["host_port"] == default_port(case["scheme"])
        elif ":" in h and not h.endswith("]"):
            ok = obs["domain"] + ":" + obs["host_port"] == h
        else:
            ok = obs["domain"] == h and obs["host_port"] == default_port(case["scheme"])
        if h.endswith(":") and obs["domain"] == h[:-1] and obs["host_port"] == "":
            return "host_port:empty-port", "Host %r: host_port is '' (an empty port is no port: expected %r)" % (
                h, default_port(case["scheme"]))
        if not ok or not obs["host_url"].startswith(case["scheme"] + "://" + obs["domain"]) or obs["host"] != h:
            return "outside:host-incoherent", "Host %r: domain %r, host_port %r, host_url %r do not describe it" % (
                h, obs["domain"], obs["host_port"], obs["host_url"])
        if obs["url"] != obs["path_url"] + "?q=1" or obs["path_url"] != obs["host_url"] + obs["path"]:
            return "outside:url-structure", "Host %r: url %r / path_url %r / path %r inconsistent" % (
                h, obs["url"], obs["path_url"], obs["path"])
        return None
    if cl == "query-odd":
        env = _base_env(QUERY_STRING=case["qs"])
        r = Request(env)
        obs = {n: _read(r, n) for n in URL_READS}
        if obs["url"] != "http://h/olds/old?" + case["qs"] or obs["path_qs"] != "/olds/old?" + case["qs"]:
            return "outside:query-verbatim", "QUERY_STRING %r: url %r, path_qs %r" % (case["qs"], obs["url"], obs["path_qs"])
        b = catchv(lambda: Request.blank(obs["url"]).environ["QUERY_STRING"])
        if isinstance(b, Err) and b.name not in ("TypeError", "ValueError", "UnicodeEncodeError"):
            return "outside:blank-raises", "Request.blank(%r) raises %r" % (obs["url"], b)
        return None
    if cl == "missing-key":
        env = _base_env(HTTP_HOST="h:81") if case.get("with_host") else _base_env()
        env.pop(case["key"], None)
        r = Request(env)
        obs = {n: _read(r, n) for n in URL_READS}
        for n, v in obs.items():
            if isinstance(v, Err) and v.name not in ("KeyError", "TypeError"):
                return "outside:missing-key", "without %s, %s raises %r" % (case["key"], n, v)
        if case["key"] not in ("PATH_INFO",) and obs["path"] != ("/old" if case["key"] == "SCRIPT_NAME" else "/olds/old"):
            return "outside:missing-key", "without %s, path = %r" % (case["key"], obs["path"])
        return None
    if cl == "unrooted":
        c = dict(case["case"], skip_blank=True)
        return oracle_url(c)
    if cl == "arg-type":
        r = Request(_base_env())
        before = dict(r.environ)
        for nm, f in (("path_info_pop(bytes pattern)", lambda: r.path_info_pop(b"o")),
                      ("relative_url(bytes)", lambda: r.relative_url(b"x")),
                      ("relative_url(None)", lambda: r.relative_url(None))):
            v = catchv(f)
            if isinstance(v, Err) and v.name not in ("TypeError", "AttributeError"):
                return "outside:arg-type", "%s raises %r" % (nm, v)
        if r.environ != before:
            return "outside:arg-type", "a refused call changed the environ"
        return None
    return None


def outside_cases(ctx, rng):
    out = []
    for attr in ("path_info", "script_name"):
        for enc in ("UTF-8", "latin-1", "ascii") + tuple(OUT_ENCODINGS):
            for t in OUT_TEXTS:
                out.append({"class": "assign-refused", "attr": attr, "enc": enc, "value": t})
        for v in OUT_NONTEXT:
            for enc in ("UTF-8", "latin-1"):
                out.append({"class": "assign-nontext", "attr": attr, "enc": enc,
                            "value": {"bytes": v.hex()} if isinstance(v, bytes) else v})
    for key in ("PATH_INFO", "SCRIPT_NAME"):
        for raw in MAL_RAW:
            if _decodes(raw, "utf-8") is not False and all(ord(c) < 256 for c in raw):
                continue
            out.append({"class": "raw-undecodable", "key": key, "raw": raw, "enc": "UTF-8"})
    for h in MAL_HOSTS:
        for scheme in ("http", "https"):
            out.append({"class": "host-malformed", "host": h, "scheme": scheme})
    for k in ("wsgi.url_scheme", "SERVER_NAME", "SERVER_PORT", "PATH_INFO", "SCRIPT_NAME", "QUERY_STRING"):
        out.append({"class": "missing-key", "key": k})
        out.append({"class": "missing-key", "key": k, "with_host": True})
    out.append({"class": "arg-type"})
    for _ in range(ctx.scale(300, 3000)):
        c = gen_case(rng, clean=True)
        t = gen_text(rng, c["enc"], 5)
        c["script"], c["path"] = rng.choice([("", t), (t, ""), (t, gen_text(rng, c["enc"], 3))])
        out.append({"class": "unrooted", "case": c})
    return out



# ============================================================================ urljoin / relative_url / RFC spec ties
REL_SEGS2 = REL_SEGS + [".;x", "..;x", ";", "a;", "a;p;q", "a:b", "", "%2E%2E", "~"]
JOIN_BASES = ["http://h", "http://h/", "http://h/a", "http://h/a/b;p", "http://h/a/b/", "http://h/a;p/b", "http://h//a//b",
              "https://[::1]:8443/s/p%20q", "http://h/a/..", "http://h/.;p", "http://h/a/;p", "ws://h/a/b", "foo://h/a/b",
              "mailto:x@y", "/a/b", "a/b", "//h/a", "http:", "http:/a", "http:a/b", "", "http://h/a?q=1", "http://h/a#f",
              "http://h/a;", "file:///a/b", "HTTP://h/a"]


def bracket_oks(*texts):
    """The bracket contents occurring in the texts that urllib's _check_bracketed_host accepts."""
    import urllib.parse as up
    oks = []
    for t in texts:
        u = t.lstrip(up._WHATWG_C0_CONTROL_OR_SPACE)
        for b in up._UNSAFE_URL_BYTES_TO_REMOVE:
            u = u.replace(b, "")
        for i, ch in enumerate(u):
            if ch == "[":
                j = u.find("]", i)
                inner = u[i + 1:j] if j >= 0 else None
                if inner is not None:
                    try:
                        up._check_bracketed_host(inner)
                        if inner not in oks:
                            oks.append(inner)
                    except ValueError:
                        pass
    return oks


def gen_ref(rng):
    x = rng.random()
    if x < 0.2:
        return rng.choice(REL_ODD)
    if x < 0.3:
        return gen_url(rng, 5)
    k = rng.randrange(0, 4)
    p = rng.choice(["", "", "/", "//"]) + "/".join(rng.choice(REL_SEGS2) for _ in range(k))
    if k and rng.random() < 0.4:
        p += "/"
    return p + rng.choice(["", "", "?y", "?y=/../z", "?"]) + rng.choice(["", "", "#s", "#s/../t", "#"])


def model_usable(*texts):
    """non-ASCII text that can reach a netloc is outside the urlsplit model (_checknetloc)"""
    return all(t.isascii() or "//" not in t for t in texts)


def corr_urljoin(ctx, rng):
    from urllib.parse import urljoin
    cases = []
    n = ctx.scale(700, 7000)
    while len(cases) < n:
        base = rng.choice(JOIN_BASES) if rng.random() < 0.6 else gen_url_wellformed(rng)
        ref = gen_ref(rng)
        if not model_usable(base, ref) or not base.isascii():
            continue
        oks = bracket_oks(base, ref)
        got = catchv(lambda: urljoin(base, ref))
        cases.append(("(%s, (%s, %s))" % (clist(cstr(o) for o in oks), cstr(base), cstr(ref)), got,
                      {"kind": "urljoin", "base": base, "ref": ref}))
    bad = ctx.corr("urljoin", IMPORTS, "(fun c => obs_join (fst c) (snd c))", cases, in_type="(list str * (str * str))")
    _report_bad(ctx, "urljoin", bad, cases, None)
    # relative_url on environs
    cases = []
    n = ctx.scale(500, 5000)
    while len(cases) < n:
        env = gen_env_for_corr(rng)
        ref = gen_ref(rng)
        to_app = rng.random() < 0.35
        if not model_usable(ref) or not all(isinstance(v, str) and v.isascii() for k, v in env.items()
                                             if k in ("HTTP_HOST", "SERVER_NAME", "SERVER_PORT", "wsgi.url_scheme")):
            continue
        from webob import Request
        r = Request(dict(env))
        got = catchv(lambda: r.relative_url(ref, to_application=to_app))
        oks = bracket_oks(env.get("HTTP_HOST", ""), env.get("SERVER_NAME", ""), ref)
        cases.append(("(%s, (%s, %s, %s))" % (clist(cstr(o) for o in oks), cenv(env), cstr(ref), cbool(to_app)), got,
                      {"kind": "relative_url_corr", "environ": env, "other": ref, "to_application": to_app}))
    bad = ctx.corr("relative_url", IMPORTS, "(fun c => obs_rel (fst c) (snd c))", cases,
                   in_type="(list str * (environ * str * bool))")
    _report_bad(ctx, "relative_url", bad, cases, None)
    # the Gallina RFC 3986 specification against the independent Python transcription (strict reading)
    cases = []
    for _ in range(ctx.scale(600, 6000)):
        base = rng.choice(JOIN_BASES) if rng.random() < 0.6 else gen_url_wellformed(rng)
        ref = gen_ref(rng)
        cases.append(("(%s, %s)" % (cstr(base), cstr(ref)), ref_resolve(base, ref, strict=True),
                      {"kind": "rfc3986", "base": base, "ref": ref}))
    bad = ctx.corr("rfc3986-spec", IMPORTS, "(fun c => VStr (rfc3986_resolve (fst c) (snd c)))", cases,
                   in_type="(str * str)")
    for i in bad[:5]:
        ctx.broken.append("the Gallina RFC 3986 resolver and the Python transcription disagree on %s (python: %r)"
                          % (json.dumps(cases[i][2]), cases[i][1]))



# ============================================================================ the check
def guarded(oracle):
    """An exception escaping an oracle is the implementation raising where the statement expects a value."""
    def run_(case):
        try:
            return oracle(case)
        except Exception as e:  # noqa
            return "raises:" + type(e).__name__, "%s on this input raises %s: %s" % (oracle.__name__, type(e).__name__, e)
    run_.__name__ = oracle.__name__
    return run_


def record(ctx, res, case, source):
    if res:
        ctx.fail(res[0], res[1], case, True, source)


# every implementation object the Gallina model mirrors by hand (Model/C13_urlpath.v, Model/C13_urlsplit.v)
MODELLED = [
    "webob.util:unquote", "webob.util:url_unquote",
    "webob.request:BaseRequest.encget", "webob.request:BaseRequest.encset", "webob.request:_LATIN_ENCODINGS",
    "webob.descriptors:environ_decoder",                 # script_name / path_info descriptors (get_/set_script, get_/set_path)
    "webob.request:BaseRequest.script_name", "webob.request:BaseRequest.path_info",
    "webob.request:BaseRequest.url_encoding",            # environ_getter("webob.url_encoding", "UTF-8"): the e_enc field
    "webob.request:BaseRequest.host_port", "webob.request:BaseRequest.host_url",
    "webob.request:BaseRequest._host__get", "webob.request:BaseRequest.domain",
    "webob.request:BaseRequest.application_url", "webob.request:BaseRequest.path_url", "webob.request:BaseRequest.path",
    "webob.request:BaseRequest.path_qs", "webob.request:BaseRequest.url",
    "webob.request:BaseRequest.path_info_pop", "webob.request:BaseRequest.path_info_peek",
    "webob.request:environ_from_url",
    "webob.descriptors:SCHEME_RE",                       # shape ^[a-z]+: by hand (scheme_re_search); class members regenerated
    "urllib.parse:quote", "urllib.parse:quote_from_bytes",
    "urllib.parse:urlsplit", "urllib.parse:_splitnetloc", "urllib.parse:scheme_chars",
    "urllib.parse:_WHATWG_C0_CONTROL_OR_SPACE", "urllib.parse:_UNSAFE_URL_BYTES_TO_REMOVE",
    # Model/C13_urljoin.v
    "webob.request:BaseRequest.relative_url", "urllib.parse:urljoin", "urllib.parse:urlparse",
    "urllib.parse:_splitparams", "urllib.parse:urlunparse", "urllib.parse:urlunsplit",
]
# translated into coq/Gen/C13_tables.v by gen(ctx) on every run
REGENERATED = ["webob.request:PATH_SAFE", "urllib.parse:_ALWAYS_SAFE", "webob.descriptors:SCHEME_RE",
               "urllib.parse:uses_relative", "urllib.parse:uses_netloc", "urllib.parse:uses_params"]
# exercised by the oracle only (no Gallina counterpart); _check_bracketed_host is the abstract predicate v6ok whose
# recorded answers are fed to the model
ORACLE_ONLY = [
    "webob.request:BaseRequest.blank",
    "webob.request:BaseRequest.uscript_name", "webob.request:BaseRequest.upath_info",
    "webob.request:BaseRequest.host", "webob.request:BaseRequest.scheme", "webob.request:BaseRequest.query_string",
    "webob.request:AdhocAttrMixin.__setattr__", "urllib.parse:_check_bracketed_host", "urllib.parse:_checknetloc",
]


def run(ctx):
    ctx.modelled(MODELLED)
    ctx.extra["regenerated_from_source"] = REGENERATED
    ctx.extra["oracle_only"] = ORACLE_ONLY
    problems = gen(ctx)
    for p in problems:
        ctx.broken.append("tie to the source: " + p)
    if not ctx.build(["Props/C13.vo"]):
        _fallback_build(ctx)
    run_orders_oracle(ctx)
    import webob.request as wr

    # ------------------------------------------------------------------ correspondence
    rng = ctx.sub_rng("corr")
    # url_quote: every octet alone, then random byte strings
    cases = []
    for b in range(256):
        bs = bytes([b])
        cases.append((cstr(bs), catchv(lambda: wr.url_quote(bs, wr.PATH_SAFE)), {"kind": "quote", "bytes": bs.hex()}))
    for _ in range(ctx.scale(300, 3000)):
        bs = bytes(rng.choice([rng.randrange(256), rng.choice(b"/%?#;a. ~+")]) for _ in range(rng.randrange(8)))
        cases.append((cstr(bs), catchv(lambda: wr.url_quote(bs, wr.PATH_SAFE)), {"kind": "quote", "bytes": bs.hex()}))
    bad = ctx.corr("url_quote", IMPORTS, "(fun b => VStr (url_quote b))", cases, in_type="str")
    _report_bad(ctx, "url_quote", bad, cases, lambda c: oracle_quote_bytes(bytes.fromhex(c["bytes"])))

    # url_unquote on well-formed escapes (plus non-ASCII input, which must be refused)
    cases = []
    for _ in range(ctx.scale(500, 5000)):
        s = gen_quoted(rng)
        if rng.random() < 0.05:
            s += rng.choice(["\xe9", "\u20ac"])
        cases.append((cstr(s), catchv(lambda: wr.url_unquote(s)), {"kind": "unquote", "text": s}))
    bad = ctx.corr("url_unquote", IMPORTS, "(fun s => res_val VStr (url_unquote s))", cases, in_type="str")
    _report_bad(ctx, "url_unquote", bad, cases, None)

    # the URL properties on environs
    cases = []
    for _ in range(ctx.scale(700, 8000)):
        env = gen_env_for_corr(rng)
        cases.append((cenv(env), impl_urls(env), {"kind": "env", "environ": env}))
    bad = ctx.corr("urls", IMPORTS, "obs_urls", cases, in_type="environ")
    _report_bad(ctx, "urls", bad, cases, oracle_env_hostport)

    # set / get
    cases = []
    for _ in range(ctx.scale(500, 5000)):
        enc = rng.choice(["UTF-8", "utf-8", "latin-1", "iso-8859-1", "utf8", "ascii"])
        attr = rng.choice(["path_info", "script_name"])
        text = gen_text(rng, "UTF-8", 6, alpha=PATH_ALPHA + PATH_EXTRA + ["\ud800", "\udfff", "\u0100"])
        if enc == "ascii" and not text.isascii():
            text = "/a b"          # url_encoding 'ascii' is in _LATIN_ENCODINGS but encodes as ASCII: outside the model
        cases.append(("(%s, %s, %s)" % (cenc(enc), cbool(attr == "path_info"), cstr(text)),
                      impl_setget(enc, attr, text), {"kind": "setget", "enc": enc, "attr": attr, "text": text}))
    bad = ctx.corr("setget", IMPORTS, "(fun c => obs_setget (fst (fst c)) (snd (fst c)) (snd c))", cases,
                   in_type="(encoding * bool * str)")
    _report_bad(ctx, "setget", bad, cases,
                lambda c: oracle_setget(c) if not any(0xd800 <= ord(x) < 0xe000 for x in c["text"]) else None)

    # pop / peek sequences
    cases = []
    for _ in range(ctx.scale(600, 6000)):
        env = gen_env_for_corr(rng)
        ops = [rng.choice([["peek"], ["pop", rng.choice(POP_PATTERNS)], ["pop", None]]) for _ in range(rng.randrange(1, 6))]
        out, cops = impl_pops(env, ops)
        cases.append((cpair(cenv(env), clist(cops)), out, {"kind": "pops", "environ": env, "ops": ops}))
    bad = ctx.corr("pops", IMPORTS, "obs_pops", cases, in_type="(environ * list pop_op)")
    _report_bad(ctx, "pops", bad, cases, None)

    # histories: the long-lived request's answers after every step = the model on the environ as it is then
    cases = []
    hrng = ctx.sub_rng("corr-history")
    while len(cases) < ctx.scale(500, 5000):
        hist = gen_history(hrng)
        steps = []

        def snap(env, r, got, steps=steps):
            e = dict(_public(env))
            eff = catchv(lambda: r.url_encoding)
            if not isinstance(eff, str) or eff.lower().replace("_", "-") not in ("utf-8", "utf8", "latin-1"):
                return
            e["webob.url_encoding"] = eff
            steps.append((e, got[:READS.index("script_name")]))
        try:
            res = run_history(hist, snap)
        except Exception as ex:  # noqa
            res = ("raises:" + type(ex).__name__, "run_history raises %s" % ex)
        if res:
            ctx.fail(res[0], res[1], hist, True, "corr")
        for k, (e, got) in enumerate(steps):
            cases.append((cenv(e), got, {"kind": "env", "environ": e, "from_history": hist, "step": k}))
    bad = ctx.corr("urls-history", IMPORTS, "obs_urls", cases, in_type="environ")
    _report_bad(ctx, "urls-history", bad, cases,
                lambda c: oracle_history(c["from_history"]) or oracle_env_hostport(c))

    corr_urljoin(ctx, ctx.sub_rng("corr-urljoin"))

    # urlsplit and environ_from_url on URL texts
    for name, impl, fn in (("urlsplit", impl_split, "obs_split"), ("environ_from_url", impl_blank, "obs_blank")):
        cases = []
        for k in range(ctx.scale(800, 8000)):
            u = gen_url_wellformed(rng) if k % 2 else gen_url(rng)
            ok = v6ok_of(u)
            if ok is None:
                continue
            if name == "urlsplit" and not all(ord(c) < 128 for c in u):
                continue      # _checknetloc (NFKC) is outside the model
            if name == "environ_from_url" and not all(ord(c) < 128 for c in u) and "//" in u:
                continue
            if name == "environ_from_url" and not escapes_wellformed(u):
                continue      # a malformed escape in the path is outside the modelled domain of unquote
            cases.append(("(%s, %s)" % (cbool(ok), cstr(u)), impl(u), {"kind": name, "url": u}))
        bad = ctx.corr(name, IMPORTS, "(fun c => %s (fst c) (snd c))" % fn, cases, in_type="(bool * str)")
        _report_bad(ctx, name, bad, cases, oracle_blank_url if name == "environ_from_url" else None)

    # ------------------------------------------------------------------ oracle
    run_oracle(ctx)
    run_stateful_oracle(ctx)
    ctx.extra["rule"] = (
        "correspondence: distinct generated inputs per model function (all 256 octets + random byte strings for "
        "url_quote; well-formed %XX texts for url_unquote; environs built from scheme x Host spelling (name, "
        "name:port, [v6], [v6]:port, absent) x SCRIPT_NAME/PATH_INFO texts over {/ . % ? # ; a e-acute SP ...} x "
        "query x url_encoding plus a malformed stream; pop/peek sequences; URL texts assembled from delimiter "
        "pieces).  oracle: a case is non-trivial when the path text contains a character that must be "
        "percent-encoded or the Host carries a port or an IPv6 literal.")
    ctx.assume += [
        "SCRIPT_NAME+PATH_INFO is empty or starts with '/' (PEP 3333 / RFC 3875); texts are sequences of Unicode "
        "scalar values (no lone surrogates), code points < 256 for url_encoding latin-1",
        "Host is reg-name/IPv4 or a bracketed IP literal accepted by urllib (ipaddress / IPvFuture), optional port "
        "is *DIGIT (an empty port is no port: C13_empty_port); without HTTP_HOST, SERVER_NAME has no colon",
        "the round-trip THEOREM assumes QUERY_STRING is visible ASCII without '#'; the statement quantifies over all "
        "query strings, so the oracle visits the others too: they are reported under the url:query-* finding keys",
        "wsgi.url_scheme is http or https (PEP 3333); other schemes are exercised and reported under their own keys",
        "the blank request inherits webob.url_encoding of the original (a URL does not carry its encoding)",
    ]
    ctx.trusted += [
        "urllib.parse.quote / urlsplit of CPython 3.12 are modelled (validated by correspondence), not verified; "
        "_check_bracketed_host (ipaddress) is an abstract predicate v6ok; urljoin is not modelled (relative_url is "
        "checked by the oracle only, against an RFC 3986 section 5.2 reference resolver)",
        "re.match(pattern, segment) in path_info_pop is an abstract predicate",
    ]


def oracle_env_hostport(case):
    """For a raw environ whose Host ends with ':' (empty port): host_port must be the scheme's default."""
    from webob import Request
    env = case["environ"]
    h = env.get("HTTP_HOST")
    if not h or not h.endswith(":") or h.endswith("]:") and False:
        return None
    got = catchv(lambda: Request(dict(env)).host_port)
    want = "443" if env.get("wsgi.url_scheme") == "https" else "80"
    if got != want:
        return "host_port:empty-port", "Host %r: host_port %r, an empty port is no port: expected %r" % (h, got, want)
    return None


def oracle_blank_url(case):
    """For a URL text: the environ of Request.blank(url) must describe one host — its url may not depend on
    whether HTTP_HOST or SERVER_NAME/SERVER_PORT is used (PEP 3333 URL reconstruction)."""
    from webob import Request
    u = case["url"]
    m = re.match(r"^[a-z]+://((?:\[[^\]/?#]*\]|[^:/?#\[\]]+)(?::[0-9]+)?)(?:[/?]|$)", u)
    if not m:
        return None
    try:
        b = Request.blank(u)
        u1 = b.host_url
        u2 = Request({k: v for k, v in b.environ.items() if k != "HTTP_HOST"}).host_url
    except Exception:  # noqa
        return None
    if u1 != u2:
        return ("blank:server-name-port-inconsistent",
                "Request.blank(%r) has HTTP_HOST=%r but SERVER_NAME=%r SERVER_PORT=%r: without HTTP_HOST its host_url is %r"
                % (u, b.environ.get("HTTP_HOST"), b.environ.get("SERVER_NAME"), b.environ.get("SERVER_PORT"), u2))
    return None


def escapes_wellformed(u):
    return re.search(r"%(?![0-9A-Fa-f]{2})", u) is None


def oracle_quote_bytes(bs):
    import webob.request as wr
    q = wr.url_quote(bs, wr.PATH_SAFE)
    if ref_pct_decode(q) != bs:
        return "quote:decodes-to-other-bytes", "url_quote(%r, PATH_SAFE) = %r does not decode to the same bytes" % (bs, q)
    return None


def nontrivial_case(case):
    t = (case.get("script") or "") + case["path"]
    h = case.get("host")
    return bool(re.search(r"[^A-Za-z0-9/._~-]", t)) or bool(h and (h["port"] or h["kind"] == "v6"))


def run_oracle(ctx):
    rng = ctx.sub_rng("oracle")
    # ---- URL reconstruction: exhaustive small path texts x both encodings x three host/scheme shapes
    shapes = [("http", {"kind": "name", "name": "example.com", "port": None}),
              ("https", {"kind": "v6", "name": "::1", "port": "443"}),
              ("http", {"kind": "name", "name": "h", "port": "8080"})]
    n = nt = 0
    for p in exhaustive_paths(ctx.scale(4, 5)):
        for enc in ("UTF-8", "latin-1"):
            scheme, host = shapes[n % 3]
            case = {"scheme": scheme, "host": host, "server": ["srv", "80"], "script": "", "path": p, "qs": None, "enc": enc}
            record(ctx, guarded(oracle_url)(case), case, "url-exhaustive")
            n += 1
            nt += nontrivial_case(case)
    # every split point of every short text into SCRIPT_NAME / PATH_INFO
    for p in exhaustive_paths(ctx.scale(3, 4)):
        for k in range(len(p) + 1):
            case = {"scheme": "https", "host": None, "server": ["srv", "8443"], "script": p[:k], "path": p[k:],
                    "qs": "a=1", "enc": "UTF-8"}
            record(ctx, guarded(oracle_url)(case), case, "url-exhaustive")
            n += 1
            nt += nontrivial_case(case)
    ctx.oracle_count("url-exhaustive", n, nt)
    # scheme x host spelling x port, with and without HTTP_HOST
    n = nt = 0
    for scheme in SCHEMES_WSGI + SCHEMES_OTHER:
        for kind, names in (("name", NAMES), ("v6", V6)):
            for name in names:
                for port in PORTS:
                    for qs in (None, "q=1"):
                        case = {"scheme": scheme, "host": {"kind": kind, "name": name, "port": port},
                                "server": ["srv", "81"], "script": "/s", "path": "/p \xe9", "qs": qs, "enc": "UTF-8"}
                        record(ctx, guarded(oracle_url)(case), case, "url-hosts")
                        n += 1
                        nt += 1
        for name in NAMES:
            for port in [p for p in PORTS if p]:       # SERVER_PORT is never empty (RFC 3875)
                case = {"scheme": scheme, "host": None, "server": [name, port], "script": "", "path": "/", "qs": None,
                        "enc": "UTF-8"}
                record(ctx, guarded(oracle_url)(case), case, "url-hosts")
                n += 1
                nt += 1
    ctx.oracle_count("url-hosts", n, nt)
    # every query string of both streams on two fixed requests
    n = 0
    for qs in QUERIES + QUERIES_ODD:
        for scheme, host in (("http", {"kind": "name", "name": "h", "port": None}),
                             ("https", {"kind": "v6", "name": "::1", "port": "8443"})):
            case = {"scheme": scheme, "host": host, "server": ["srv", "81"], "script": "/s", "path": "/p", "qs": qs,
                    "enc": "UTF-8"}
            record(ctx, guarded(oracle_url)(case), case, "url-queries")
            n += 1
    ctx.oracle_count("url-queries", n, n)
    n = nt = 0
    for _ in range(ctx.scale(15000, 250000)):
        case = gen_case(rng, schemes=SCHEMES_WSGI * 6 + SCHEMES_OTHER, odd_queries=True)
        record(ctx, guarded(oracle_url)(case), case, "url-random")
        n += 1
        nt += nontrivial_case(case)
    ctx.oracle_count("url-random", n, nt)
    # ---- set / get: exhaustive short texts, then random
    n = 0
    alpha = PATH_ALPHA + ["€", "\U0001F600", "\xff", "\x00", "\x80"]
    for L in range(0, ctx.scale(3, 4)):
        for t in itertools.product(alpha, repeat=L):
            text = "".join(t)
            for enc in ("UTF-8", "latin-1"):
                if enc == "latin-1" and any(ord(c) > 255 for c in text):
                    continue
                for attr in ("path_info", "script_name"):
                    case = {"attr": attr, "text": text, "enc": enc}
                    record(ctx, guarded(oracle_setget)(case), case, "setget")
                    n += 1
    for _ in range(ctx.scale(4000, 60000)):
        enc = rng.choice(["UTF-8", "utf-8", "latin-1", "utf8", "iso-8859-1", "latin1"])
        case = {"attr": rng.choice(["path_info", "script_name"]), "text": gen_text(rng, enc, 10), "enc": enc,
                "shape": rng.choice(["str", "str", "bytes", "strsub", "twice", "via-u"])}
        record(ctx, guarded(oracle_setget)(case), case, "setget")
        n += 1
    ctx.oracle_count("setget", n, n)
    # ---- pop / peek: every short path popped to exhaustion with every pattern choice at the first step, then random
    n = 0
    for p in exhaustive_paths(ctx.scale(4, 5)):
        for pat in (None, "a", r"\.", "[^a]*$"):
            k = p.count("/") + 2
            case = {"scheme": "http", "host": {"kind": "name", "name": "h", "port": None}, "server": ["s", "80"],
                    "script": "/s", "path": p, "qs": "x=1", "enc": "UTF-8" if n % 2 else "latin-1",
                    "ops": [["pop", pat]] + [["peek"], ["pop", None]] * k}
            record(ctx, guarded(oracle_pop)(case), case, "pop")
            n += 1
    for _ in range(ctx.scale(8000, 120000)):
        case = gen_case(rng)
        case["ops"] = [rng.choice([["peek"], ["pop", rng.choice(POP_PATTERNS), rng.choice(POP_SHAPES)],
                                   ["pop", None, rng.choice(["pos", "kw", "none"])]])
                       for _ in range(rng.randrange(1, 8))]
        record(ctx, guarded(oracle_pop)(case), case, "pop")
        n += 1
    ctx.oracle_count("pop", n, n)
    # ---- relative_url
    n = 0
    bases = [("", ""), ("", "/"), ("", "/a"), ("/a", "/"), ("/a", "/b"), ("/a/b", "/c/"), ("", "/a;p/b"), ("/a", "/../b"),
             ("/s", "/p q"), ("", "/a/./b/.."), ("", "/.."), ("", "//a//b"), ("/a", "//"), ("", "/\xe9/%")]
    refs = list(REL_ODD)
    for k in range(0, ctx.scale(3, 4)):
        for t in itertools.product(REL_SEGS, repeat=k):
            for lead in ("", "/"):
                for trail in ("", "/"):
                    if k == 0 and trail:
                        continue
                    refs.append(lead + "/".join(t) + trail)
    for script, path in bases:
        for i, ref in enumerate(refs):
            for suffix in (("", "?y", "#s", "?y=/../z#s/../t") if i % 7 == 0 or len(ref) < 4 else ("",)):
                for to_app in (False, True):
                    case = {"scheme": "http", "host": {"kind": "name", "name": "h", "port": None}, "server": ["s", "80"],
                            "script": script, "path": path, "qs": "bq=1", "enc": "UTF-8", "other": ref + suffix,
                            "to_application": to_app}
                    record(ctx, guarded(oracle_rel)(case), case, "relative_url")
                    n += 1
    for _ in range(ctx.scale(3000, 50000)):
        case = gen_case(rng)
        k = rng.randrange(0, 4)
        p = rng.choice(["", "/"]) + "/".join(rng.choice(REL_SEGS) for _ in range(k))
        if k and rng.random() < .4:
            p += "/"
        case["other"] = (p + rng.choice(["", "", "?y", "?y=/../z"]) + rng.choice(["", "", "#s", "#s/../t"])
                         if rng.random() < 0.7 else rng.choice(REL_ODD))
        case["to_application"] = rng.random() < 0.3
        case["shape"] = rng.choice(["kw", "pos", "int", "default", "allkw"])
        record(ctx, guarded(oracle_rel)(case), case, "relative_url")
        n += 1
    ctx.oracle_count("relative_url", n, n)


def gen_related_batch(rng):
    """A base case and variants that differ from it in one or two coordinates only (encoding, scheme, host,
    port, query, the SCRIPT_NAME/PATH_INFO split): inputs that a cache keyed on too little would confuse."""
    base = gen_case(rng, schemes=SCHEMES_WSGI, enc="latin-1", clean=True)   # latin-1 text is valid under both encodings
    base["script"] = base["script"] or ""
    batch = [base]
    for _ in range(7):
        c = json.loads(json.dumps(rng.choice(batch)))
        for _ in range(rng.choice([1, 1, 2])):
            dim = rng.choice(["enc", "scheme", "host", "port", "qs", "split", "server"])
            if dim == "enc":
                c["enc"] = "UTF-8" if c["enc"] != "UTF-8" else "latin-1"
            elif dim == "scheme":
                c["scheme"] = rng.choice(["http", "https"])
            elif dim == "host":
                c["host"] = gen_host(rng, ports=PORTS_CLEAN) if rng.random() < 0.8 else None
            elif dim == "port" and c["host"] is not None:
                c["host"]["port"] = rng.choice(PORTS_CLEAN)
            elif dim == "qs":
                c["qs"] = rng.choice(QUERIES)
            elif dim == "server":
                c["server"] = [rng.choice(NAMES), rng.choice(["80", "443", "8080"])]
            else:
                t = c["script"] + c["path"]
                k = rng.randrange(len(t) + 1)
                c["script"], c["path"] = t[:k], t[k:]
        batch.append(c)
    return batch


def run_stateful_oracle(ctx):
    rng = ctx.sub_rng("oracle-stateful")
    n = 0
    for _ in range(ctx.scale(2500, 40000)):
        case = gen_history(rng, maxops=14)
        record(ctx, guarded(oracle_history)(case), case, "history")
        n += 1
    # deterministic histories for the input classes the seeded mutants lived in: default-port elision across a
    # scheme change, pops of non-ASCII segments, relative_url on a request with a query string
    base = {"scheme": "http", "host": {"kind": "name", "name": "h", "port": "443"}, "server": ["s", "80"],
            "script": "/s", "path": "/\xe9\u20ac/b//c", "qs": "q=1", "enc": "UTF-8", "history": True}
    fixed = [
        [["read", "host_url"], ["env", "wsgi.url_scheme", "https"], ["read", "host_url"], ["read", "url"],
         ["env", "HTTP_HOST", "h:80"], ["read", "host_port"], ["env", "wsgi.url_scheme", "http"], ["read", "url"],
         ["env", "HTTP_HOST", None], ["read", "domain"], ["env", "SERVER_PORT", "443"], ["read", "host_url"]],
        [["read", "peek"], ["pop", None], ["read", "url"], ["pop", None], ["read", "path"], ["pop", None],
         ["read", "peek"], ["pop", None], ["read", "path_qs"]],
        [["read", ["rel", "x", False]], ["env", "QUERY_STRING", "a/b/c=1"], ["read", ["rel", "x", False]],
         ["set", "path_info", "/p/q/"], ["read", ["rel", "../y", False]], ["read", ["rel", "z", True]]],
        [["read", "path_info"], ["enc", "class", "latin-1"], ["read", "path_info"], ["read", "url"],
         ["enc", "class", None], ["read", "url"], ["enc", "instance", "latin-1"], ["read", "path"],
         ["enc", "environ", None], ["read", "path"]],
    ]
    for ops in fixed:
        case = dict(base, ops=ops)
        record(ctx, guarded(oracle_history)(case), case, "history")
        n += 1
    ctx.oracle_count("history", n, n)
    n = 0
    for case in outside_cases(ctx, rng):
        case["kind"] = "outside"
        record(ctx, guarded(oracle_outside)(case), case, "outside-domain")
        n += 1
    ctx.oracle_count("outside-domain", n, n)


def run_orders_oracle(ctx):
    """Runs FIRST, before anything else has touched webob in this process, so that a sequence that fails here
    fails again when replayed in a fresh process."""
    rng = ctx.sub_rng("oracle-orders")
    m = 0
    for _ in range(ctx.scale(250, 3000)):
        batch = gen_related_batch(rng)
        idx = list(range(len(batch)))
        perms = [idx[::-1]]
        for _ in range(2):
            q = idx[:]
            rng.shuffle(q)
            perms.append(q)
        case = {"batch": batch, "perms": perms}
        record(ctx, guarded(oracle_orders)(case), case, "orders")
        m += 1
    ctx.oracle_count("orders", m, m)


def replay(ctx, path):
    data = json.load(open(path))
    case = data["case"]
    res = None
    if isinstance(case, dict):
        if case.get("kind") == "outside":
            res = guarded(oracle_outside)(case)
        elif case.get("history"):
            res = guarded(oracle_history)(case)
        elif "batch" in case:
            res = guarded(oracle_orders)(case)
        elif "from_history" in case:
            res = guarded(oracle_history)(case["from_history"]) or guarded(oracle_env_hostport)(case)
        elif "ops" in case and "scheme" in case:
            res = guarded(oracle_pop)(case)
        elif "other" in case:
            res = guarded(oracle_rel)(case)
        elif "attr" in case:
            res = guarded(oracle_setget)(case)
        elif "scheme" in case:
            res = guarded(oracle_url)(case)
        elif case.get("kind") == "quote":
            res = oracle_quote_bytes(bytes.fromhex(case["bytes"]))
        elif case.get("kind") == "env":
            res = guarded(oracle_env_hostport)(case)
        elif case.get("kind") == "environ_from_url":
            res = guarded(oracle_blank_url)(case)
        else:
            print("replay: nothing executable in this file (broken obligation / model disagreement): %s" % data.get("what"))
            return 1
    if res and ("C13", res[0]) in ctx.known:
        print("KNOWN-FINDING: property=C13 %s [%s]" % (ctx.known[("C13", res[0])], res[0]))
        print("replay shows only a recorded known finding on the current tree")
        return 0
    if res:
        print("VIOLATION property=C13 replay=%s" % path)
        print("  (%s) %s" % res)
        return 1
    print("replay passes on the current tree")
    return 0
